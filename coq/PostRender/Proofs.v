(* Proofs for property C14 (model: PostRender/Model.v). *)
From DJC Require Import Lib.Base PostRender.Model.

(* ====================================================================================== *)
(* 1. unfolding equations of the nested fixpoints                                          *)
(* ====================================================================================== *)
Lemma flat_cons A x r : flat A (x :: r) = flat_item A x ++ flat A r. Proof. reflexivity. Qed.
Lemma flat_elem A t k : flat_item A (IElem t k) = Open t A :: flat [] k ++ [Close t]. Proof. reflexivity. Qed.
Lemma flat_root A c b : flat_item A (IRoot c b) = inline (A ++ [c]) b. Proof. reflexivity. Qed.
Lemma inline_cons A x r : inline A (x :: r) = inline_item A x ++ inline A r. Proof. reflexivity. Qed.
Lemma inline_elem A t k : inline_item A (IElem t k) = Open t A :: inline [] k ++ [Close t]. Proof. reflexivity. Qed.
Lemma inline_comp A c b : inline_item A (IComp c b) = inline (A ++ [c]) b. Proof. reflexivity. Qed.
Lemma inline_root A c b : inline_item A (IRoot c b) = inline (A ++ [c]) b. Proof. reflexivity. Qed.
Lemma inlT_cons A x r : inlT A (x :: r) = inlT_item A x ++ inlT A r. Proof. reflexivity. Qed.
Lemma inlT_elem A t k : inlT_item A (IElem t k) = [HElem t A (inlT [] k)]. Proof. reflexivity. Qed.
Lemma inlT_comp A c b : inlT_item A (IComp c b) = inlT (A ++ [c]) b. Proof. reflexivity. Qed.
Lemma inlT_root A c b : inlT_item A (IRoot c b) = inlT (A ++ [c]) b. Proof. reflexivity. Qed.
Lemma ids_cons x r : ids (x :: r) = ids_item x ++ ids r. Proof. reflexivity. Qed.
Lemma ids_elem t k : ids_item (IElem t k) = ids k. Proof. reflexivity. Qed.
Lemma ids_comp c b : ids_item (IComp c b) = c :: ids b. Proof. reflexivity. Qed.
Lemma ids_root c b : ids_item (IRoot c b) = c :: ids b. Proof. reflexivity. Qed.
Lemma ninst_cons x r : ninst (x :: r) = (ninst_item x + ninst r)%nat. Proof. reflexivity. Qed.
Lemma ninst_elem t k : ninst_item (IElem t k) = ninst k. Proof. reflexivity. Qed.
Lemma ninst_comp c b : ninst_item (IComp c b) = S (ninst b). Proof. reflexivity. Qed.
Lemma ninst_root c b : ninst_item (IRoot c b) = S (ninst b). Proof. reflexivity. Qed.
Lemma ndef_cons x r : ndef (x :: r) = (ndef_item x + ndef r)%nat. Proof. reflexivity. Qed.
Lemma ndef_elem t k : ndef_item (IElem t k) = ndef k. Proof. reflexivity. Qed.
Lemma ndef_comp c b : ndef_item (IComp c b) = S (ndef b). Proof. reflexivity. Qed.
Lemma ph_attrs_cons A x r : ph_attrs A (x :: r) = ph_attrs_item A x ++ ph_attrs A r. Proof. reflexivity. Qed.
Lemma ph_attrs_elem A t k : ph_attrs_item A (IElem t k) = ph_attrs [] k. Proof. reflexivity. Qed.
Lemma ph_bodies_cons x r : ph_bodies (x :: r) = ph_bodies_item x ++ ph_bodies r. Proof. reflexivity. Qed.
Lemma ph_bodies_elem t k : ph_bodies_item (IElem t k) = ph_bodies k. Proof. reflexivity. Qed.
Lemma outputs_cons c A x r : outputs c A (x :: r) = outputs_item c A x ++ outputs c A r. Proof. reflexivity. Qed.
Lemma outputs_elem c A t k : outputs_item c A (IElem t k) = outputs c [] k. Proof. reflexivity. Qed.
Lemma outputs_comp c A c' b :
  outputs_item c A (IComp c' b) = (if N.eqb c c' then [inlT_item A (IComp c' b)] else []) ++ outputs c (A ++ [c']) b.
Proof. reflexivity. Qed.
Lemma outputs_root c A c' b :
  outputs_item c A (IRoot c' b) = (if N.eqb c c' then [inlT_item A (IRoot c' b)] else []) ++ outputs c (A ++ [c']) b.
Proof. reflexivity. Qed.
Lemma toks_cons x r : toks (x :: r) = toks_node x ++ toks r. Proof. reflexivity. Qed.
Lemma toks_elem t a k : toks_node (HElem t a k) = Open t a :: toks k ++ [Close t]. Proof. reflexivity. Qed.
Lemma carrying_cons c x r : carrying c (x :: r) = (carrying_node c x + carrying c r)%nat. Proof. reflexivity. Qed.
Lemma carrying_elem c t a k :
  carrying_node c (HElem t a k) = ((if has_id c a then 1 else 0) + carrying c k)%nat.
Proof. reflexivity. Qed.

(* size of a forest, for well-founded induction over the nested type *)
Fixpoint tsize_item (it : item) : nat :=
  match it with
  | IElem _ kids => S ((fix go (l : list item) : nat := match l with [] => O | x :: r => tsize_item x + go r end) kids)
  | IText => 1
  | IComp _ body => S ((fix go (l : list item) : nat := match l with [] => O | x :: r => tsize_item x + go r end) body)
  | IRoot _ body => S ((fix go (l : list item) : nat := match l with [] => O | x :: r => tsize_item x + go r end) body)
  end.
Definition tsize (its : list item) : nat :=
  (fix go (l : list item) : nat := match l with [] => O | x :: r => tsize_item x + go r end) its.
Lemma tsize_cons x r : tsize (x :: r) = (tsize_item x + tsize r)%nat. Proof. reflexivity. Qed.
Lemma tsize_elem t k : tsize_item (IElem t k) = S (tsize k). Proof. reflexivity. Qed.
Lemma tsize_comp c b : tsize_item (IComp c b) = S (tsize b). Proof. reflexivity. Qed.
Lemma tsize_root c b : tsize_item (IRoot c b) = S (tsize b). Proof. reflexivity. Qed.
Lemma tsize_item_pos x : (1 <= tsize_item x)%nat.
Proof. destruct x; simpl; lia. Qed.

Lemma ndef_le_ninst : forall n its, (tsize its <= n)%nat -> (ndef its <= ninst its)%nat.
Proof.
  induction n as [|n IH]; intros its Hs.
  - destruct its as [|x r]; [simpl; lia|]. rewrite tsize_cons in Hs. pose proof (tsize_item_pos x). lia.
  - destruct its as [|x r]; [simpl; lia|]. rewrite tsize_cons in Hs. pose proof (tsize_item_pos x) as Hp.
    rewrite ndef_cons, ninst_cons. pose proof (IH r ltac:(lia)).
    destruct x as [t k| |c b|c b].
    + rewrite ndef_elem, ninst_elem. rewrite tsize_elem in Hs. pose proof (IH k ltac:(lia)). lia.
    + simpl. lia.
    + rewrite ndef_comp, ninst_comp. rewrite tsize_comp in Hs. pose proof (IH b ltac:(lia)). lia.
    + rewrite ninst_root. simpl ndef_item. lia.
Qed.

(* ====================================================================================== *)
(* 2. lists without duplicates, association lists                                          *)
(* ====================================================================================== *)
Lemma nodup_app {A} (a b : list A) :
  NoDup (a ++ b) <-> NoDup a /\ NoDup b /\ (forall x, In x a -> ~ In x b).
Proof.
  induction a as [|x a IH]; simpl.
  - split; [intro H; repeat split; [constructor | exact H | intros ? []] | intros (_ & H & _); exact H].
  - split.
    + intro H. inversion H as [|? ? Hn Hd]; subst. apply IH in Hd as (Ha & Hb & Hab).
      repeat split.
      * constructor; [intro Hi; apply Hn, in_or_app; now left | exact Ha].
      * exact Hb.
      * intros y [->|Hy]; [intro Hi; apply Hn, in_or_app; now right | now apply Hab].
    + intros (Ha & Hb & Hab). inversion Ha as [|? ? Hn Hd]; subst. constructor.
      * intro Hi. apply in_app_or in Hi as [Hi|Hi]; [now apply Hn | exact (Hab x (or_introl eq_refl) Hi)].
      * apply IH. repeat split; [exact Hd | exact Hb | intros y Hy; apply Hab; now right].
Qed.

Section AL.
  Context {V : Type}.
  Implicit Types (l : list (N * V)).

  Lemma alookup_aremove_eq k l : alookup k (aremove k l) = None.
  Proof.
    induction l as [|[k' v] l IH]; simpl; [reflexivity|].
    destruct (N.eqb k k') eqn:E; [exact IH|]. simpl. now rewrite E.
  Qed.
  Lemma alookup_aremove_neq k k' l : k <> k' -> alookup k (aremove k' l) = alookup k l.
  Proof.
    intro Hn. induction l as [|[k2 v] l IH]; simpl; [reflexivity|].
    destruct (N.eqb k' k2) eqn:E.
    - apply N.eqb_eq in E; subst k2. rewrite IH.
      destruct (N.eqb k k') eqn:E2; [apply N.eqb_eq in E2; contradiction | reflexivity].
    - simpl. now rewrite IH.
  Qed.
  Lemma alookup_aset_eq k v l : alookup k (aset k v l) = Some v.
  Proof. unfold aset; simpl. now rewrite N.eqb_refl. Qed.
  Lemma alookup_aset_neq k k' v l : k <> k' -> alookup k (aset k' v l) = alookup k l.
  Proof.
    intro Hn. unfold aset; simpl.
    destruct (N.eqb k k') eqn:E; [apply N.eqb_eq in E; contradiction|].
    now apply alookup_aremove_neq.
  Qed.
  Lemma alookup_aupdate_out k o l : ~ In k (map fst o) -> alookup k (aupdate o l) = alookup k l.
  Proof.
    unfold aupdate. revert l. induction o as [|[k' v] o IH]; intros l Hn; simpl; [reflexivity|].
    rewrite IH by (intro Hi; apply Hn; now right).
    apply alookup_aset_neq. intro E; apply Hn; left; now subst.
  Qed.
  Lemma alookup_aupdate_in k v o l : NoDup (map fst o) -> In (k, v) o -> alookup k (aupdate o l) = Some v.
  Proof.
    unfold aupdate. revert l. induction o as [|[k' v'] o IH]; intros l Hnd Hi; simpl in *; [contradiction|].
    inversion Hnd as [|? ? Hn Hd]; subst. destruct Hi as [Hi|Hi].
    - inversion Hi; subst. fold (aupdate o (aset k v l)). rewrite alookup_aupdate_out by exact Hn.
      apply alookup_aset_eq.
    - now apply IH.
  Qed.
  Lemma alookup_all_none_nil l : (forall k, alookup k l = None) -> l = [].
  Proof.
    destruct l as [|[k v] l]; [reflexivity|]. intro H. specialize (H k). simpl in H.
    rewrite N.eqb_refl in H. discriminate.
  Qed.
End AL.

(* table t' = table t with every key of I deleted *)
Definition same_out {V} (I : list N) (t t' : list (N * V)) : Prop :=
  (forall k, ~ In k I -> alookup k t' = alookup k t) /\ (forall k, In k I -> alookup k t' = None).

Lemma same_out_refl {V} (t : list (N * V)) : same_out [] t t.
Proof. split; [reflexivity | intros k []]. Qed.

Lemma same_out_trans {V} I1 I2 (t t1 t2 : list (N * V)) :
  same_out I1 t t1 -> same_out I2 t1 t2 -> same_out (I1 ++ I2) t t2.
Proof.
  intros [H1 H1'] [H2 H2']. split.
  - intros k Hn. rewrite H2, H1; [reflexivity | |]; intro Hi; apply Hn, in_or_app; auto.
  - intros k Hi. destruct (in_dec N.eq_dec k I2) as [Hk|Hk]; [now apply H2'|].
    apply in_app_or in Hi as [Hi|Hi]; [|contradiction]. rewrite H2 by exact Hk. now apply H1'.
Qed.

Lemma same_out_ext {V} I I' (t t' : list (N * V)) :
  (forall k, In k I <-> In k I') -> same_out I t t' -> same_out I' t t'.
Proof.
  intros He [H1 H2]. split; intros k Hk; [apply H1 | apply H2]; rewrite He; exact Hk.
Qed.

Definition teq {V} (t t' : list (N * V)) : Prop := forall k, alookup k t' = alookup k t.

(* ====================================================================================== *)
(* 3. shallow placeholders of a fragment; serialised fragments                             *)
(* ====================================================================================== *)
Lemma ids_app a b : ids (a ++ b) = ids a ++ ids b.
Proof. induction a as [|x a IH]; [reflexivity|]. simpl app. rewrite !ids_cons, IH. now rewrite app_assoc. Qed.

Lemma ph_keys_eq : forall n its A, (tsize its <= n)%nat -> map fst (ph_attrs A its) = map fst (ph_bodies its).
Proof.
  induction n as [|n IH]; intros its A Hs.
  - destruct its as [|x r]; [reflexivity|]. rewrite tsize_cons in Hs. pose proof (tsize_item_pos x). lia.
  - destruct its as [|x r]; [reflexivity|]. rewrite tsize_cons in Hs.
    rewrite ph_attrs_cons, ph_bodies_cons, !map_app.
    pose proof (tsize_item_pos x) as Hp.
    rewrite (IH r A) by lia. f_equal.
    destruct x as [t k| |c b|c b]; try reflexivity.
    rewrite ph_attrs_elem, ph_bodies_elem. rewrite tsize_elem in Hs. apply IH. lia.
Qed.

Lemma ph_bodies_in_ids : forall n its k, (tsize its <= n)%nat -> In k (map fst (ph_bodies its)) -> In k (ids its).
Proof.
  induction n as [|n IH]; intros its k Hs Hi.
  - destruct its as [|x r]; [contradiction|]. rewrite tsize_cons in Hs. pose proof (tsize_item_pos x). lia.
  - destruct its as [|x r]; [contradiction|]. rewrite tsize_cons in Hs. pose proof (tsize_item_pos x) as Hp.
    rewrite ph_bodies_cons, map_app in Hi. rewrite ids_cons. apply in_or_app.
    apply in_app_or in Hi as [Hi|Hi]; [left | right; apply (IH r); [lia | exact Hi]].
    destruct x as [t kk| |c b|c b].
    + rewrite ph_bodies_elem in Hi. rewrite ids_elem. rewrite tsize_elem in Hs. apply (IH kk); [lia | exact Hi].
    + contradiction.
    + simpl in Hi. destruct Hi as [<-|[]]. rewrite ids_comp. now left.
    + contradiction.
Qed.

Lemma ph_in_ids its k : In k (map fst (ph_bodies its)) -> In k (ids its).
Proof. apply (ph_bodies_in_ids (tsize its)). lia. Qed.

Lemma ph_bodies_nodup : forall n its, (tsize its <= n)%nat -> NoDup (ids its) -> NoDup (map fst (ph_bodies its)).
Proof.
  induction n as [|n IH]; intros its Hs Hnd.
  - destruct its as [|x r]; [constructor|]. rewrite tsize_cons in Hs. pose proof (tsize_item_pos x). lia.
  - destruct its as [|x r]; [constructor|]. rewrite tsize_cons in Hs. pose proof (tsize_item_pos x) as Hp.
    rewrite ids_cons in Hnd. apply nodup_app in Hnd as (Hx & Hr & Hd).
    rewrite ph_bodies_cons, map_app. apply nodup_app. repeat split.
    + destruct x as [t kk| |c b|c b].
      * rewrite ph_bodies_elem. rewrite ids_elem in Hx. rewrite tsize_elem in Hs. apply IH; [lia | exact Hx].
      * constructor.
      * simpl. constructor; [intros [] | constructor].
      * constructor.
    + apply IH; [lia | exact Hr].
    + intros k Hk Hk'. apply (Hd k).
      * destruct x as [t kk| |c b|c b].
        -- rewrite ph_bodies_elem in Hk. rewrite ids_elem. rewrite tsize_elem in Hs.
           apply (ph_bodies_in_ids n kk); [lia | exact Hk].
        -- contradiction.
        -- simpl in Hk. destruct Hk as [<-|[]]. rewrite ids_comp. now left.
        -- contradiction.
      * apply (ph_bodies_in_ids n r); [lia | exact Hk'].
Qed.

Lemma ph_nodup its : NoDup (ids its) -> NoDup (map fst (ph_bodies its)).
Proof. apply (ph_bodies_nodup (tsize its)). lia. Qed.
Lemma ph_keys its A : map fst (ph_attrs A its) = map fst (ph_bodies its).
Proof. apply (ph_keys_eq (tsize its)). lia. Qed.

(* --- tokens --- *)
Definition no_ph (ts : list tok) : Prop := Forall (fun t => match t with PhTok _ _ => False | _ => True end) ts.

Lemma no_ph_app a b : no_ph a -> no_ph b -> no_ph (a ++ b).
Proof. intros; apply Forall_app; auto. Qed.

Lemma inline_no_ph : forall n its A, (tsize its <= n)%nat -> no_ph (inline A its).
Proof.
  induction n as [|n IH]; intros its A Hs.
  - destruct its as [|x r]; [constructor|]. rewrite tsize_cons in Hs. pose proof (tsize_item_pos x). lia.
  - destruct its as [|x r]; [constructor|]. rewrite tsize_cons in Hs. pose proof (tsize_item_pos x) as Hp.
    rewrite inline_cons. apply no_ph_app; [|apply IH; lia].
    destruct x as [t k| |c b|c b].
    + rewrite inline_elem. rewrite tsize_elem in Hs. constructor; [exact I|].
      apply no_ph_app; [apply IH; lia | repeat constructor].
    + repeat constructor.
    + rewrite inline_comp. rewrite tsize_comp in Hs. apply IH; lia.
    + rewrite inline_root. rewrite tsize_root in Hs. apply IH; lia.
Qed.

Lemma watched_app a b : watched (a ++ b) = watched a ++ watched b.
Proof. induction a as [|[t i|t| |g i] a IH]; simpl; [reflexivity | exact IH | exact IH | exact IH | now rewrite IH]. Qed.

Lemma watched_no_ph ts : no_ph ts -> watched ts = [].
Proof. induction 1 as [|[t i|t| |g i] ts Hx _ IH]; simpl; auto. contradiction. Qed.

Lemma watched_flat : forall n its A, (tsize its <= n)%nat -> watched (flat A its) = ph_attrs A its.
Proof.
  induction n as [|n IH]; intros its A Hs.
  - destruct its as [|x r]; [reflexivity|]. rewrite tsize_cons in Hs. pose proof (tsize_item_pos x). lia.
  - destruct its as [|x r]; [reflexivity|]. rewrite tsize_cons in Hs. pose proof (tsize_item_pos x) as Hp.
    rewrite flat_cons, ph_attrs_cons, watched_app, (IH r) by lia. f_equal.
    destruct x as [t k| |c b|c b].
    + rewrite flat_elem, ph_attrs_elem. rewrite tsize_elem in Hs. cbn [watched]. rewrite watched_app, (IH k) by lia.
      simpl. now rewrite app_nil_r.
    + reflexivity.
    + reflexivity.
    + rewrite flat_root. apply watched_no_ph. apply (inline_no_ph (tsize b)). lia.
Qed.

Lemma split_go_no_ph c p ts : no_ph ts -> forall acc rest, split_go c p acc (ts ++ rest) = split_go c p (acc ++ ts) rest.
Proof.
  induction 1 as [|t ts Ht _ IH]; intros acc rest; simpl app.
  - now rewrite app_nil_r.
  - destruct t; try contradiction; cbn [split_go]; rewrite IH, <- app_assoc; reflexivity.
Qed.

(* set_html_attributes touches the top level only; on finished (inlined) HTML and on a freshly rendered fragment *)
Lemma set_attrs_inline A : forall n its P d rest, (tsize its <= n)%nat ->
  set_attrs A d (inline P its ++ rest) =
  (match d with O => inline (A ++ P) its | S _ => inline P its end) ++ set_attrs A d rest.
Proof.
  induction n as [|n IH]; intros its P d rest Hs.
  - destruct its as [|x r]; [destruct d; reflexivity|]. rewrite tsize_cons in Hs. pose proof (tsize_item_pos x). lia.
  - destruct its as [|x r]; [destruct d; reflexivity|]. rewrite tsize_cons in Hs. pose proof (tsize_item_pos x) as Hp.
    rewrite inline_cons, <- app_assoc.
    assert (Hx : forall rest', set_attrs A d (inline_item P x ++ rest') =
                   (match d with O => inline_item (A ++ P) x | S _ => inline_item P x end) ++ set_attrs A d rest').
    { intro rest'. destruct x as [t k| |c b|c b].
      - rewrite inline_elem. rewrite tsize_elem in Hs. cbn [app set_attrs]. rewrite <- app_assoc.
        rewrite (IH k [] (S d)) by lia. cbn [app set_attrs pred].
        destruct d; rewrite ?inline_elem; cbn [app]; rewrite <- ?app_assoc; reflexivity.
      - destruct d; reflexivity.
      - rewrite inline_comp. rewrite tsize_comp in Hs. rewrite (IH b) by lia.
        destruct d; rewrite ?inline_comp; [now rewrite app_assoc | reflexivity].
      - rewrite inline_root. rewrite tsize_root in Hs. rewrite (IH b) by lia.
        destruct d; rewrite ?inline_root; [now rewrite app_assoc | reflexivity]. }
    rewrite Hx, (IH r) by lia. destruct d; rewrite ?inline_cons, <- ?app_assoc; reflexivity.
Qed.

Lemma set_attrs_flat A : forall n its d rest, (tsize its <= n)%nat ->
  set_attrs A d (flat [] its ++ rest) =
  (match d with O => flat A its | S _ => flat [] its end) ++ set_attrs A d rest.
Proof.
  induction n as [|n IH]; intros its d rest Hs.
  - destruct its as [|x r]; [destruct d; reflexivity|]. rewrite tsize_cons in Hs. pose proof (tsize_item_pos x). lia.
  - destruct its as [|x r]; [destruct d; reflexivity|]. rewrite tsize_cons in Hs. pose proof (tsize_item_pos x) as Hp.
    rewrite flat_cons, <- app_assoc.
    assert (Hx : forall rest', set_attrs A d (flat_item [] x ++ rest') =
                   (match d with O => flat_item A x | S _ => flat_item [] x end) ++ set_attrs A d rest').
    { intro rest'. destruct x as [t k| |c b|c b].
      - rewrite flat_elem. rewrite tsize_elem in Hs. cbn [app set_attrs]. rewrite <- app_assoc.
        rewrite (IH k (S d)) by lia. cbn [app set_attrs pred].
        destruct d; rewrite ?flat_elem; cbn [app]; rewrite <- app_assoc, ?app_nil_r; reflexivity.
      - destruct d; reflexivity.
      - destruct d; simpl; rewrite ?app_nil_r; reflexivity.
      - rewrite flat_root. rewrite (set_attrs_inline A (tsize b)) by lia.
        destruct d; rewrite ?flat_root; reflexivity. }
    rewrite Hx, (IH r) by lia. destruct d; rewrite ?flat_cons, <- ?app_assoc; reflexivity.
Qed.

Lemma set_attrs_flat0 A its : set_attrs A 0 (flat [] its) = flat A its.
Proof.
  pose proof (set_attrs_flat A (tsize its) its 0 [] (le_n _)) as H. rewrite !app_nil_r in H. exact H.
Qed.

(* ====================================================================================== *)
(* 4. the queue                                                                            *)
(* ====================================================================================== *)
(* n iterations of the loop of a run that has F units of fuel left; a root run that starts re-entrantly during an
   iteration gets what is left after that iteration *)
Fixpoint stepsF (n F : nat) (s : st) : option st :=
  match n with
  | O => Some s
  | S m => match F with
           | O => None
           | S F' => match step (post_render F') s with Done s' => stepsF m F' s' | _ => None end
           end
  end.

Lemma run_S f s :
  run (S f) s = match queue s with
                | [] => Done s
                | _ :: _ => match step (post_render f) s with
                            | Done s' => run f s' | Failed e => Failed e | OutOfFuel => OutOfFuel end
                end.
Proof. reflexivity. Qed.

Lemma step_idle nest s : queue s = [] -> step nest s = Done s.
Proof. intro Hq. unfold step. now rewrite Hq. Qed.

Lemma stepsF_add a b : forall F s,
  stepsF (a + b) F s = match stepsF a F s with Some s' => stepsF b (F - a) s' | None => None end.
Proof.
  induction a as [|a IH]; intros F s; simpl.
  - now rewrite Nat.sub_0_r.
  - destruct F as [|F']; [reflexivity|]. destruct (step (post_render F') s) as [s'|e|]; try reflexivity.
    rewrite IH. reflexivity.
Qed.

Lemma stepsF_idle_inv n : forall F s s', queue s = [] -> stepsF n F s = Some s' -> s' = s.
Proof.
  induction n as [|n IH]; intros F s s' Hq H; simpl in H.
  - now inversion H.
  - destruct F as [|F']; [discriminate|]. rewrite (step_idle _ _ Hq) in H. eapply IH; eassumption.
Qed.

Lemma run_of_stepsF n : forall F s s', stepsF n F s = Some s' -> queue s' = [] -> run F s = Done s'.
Proof.
  induction n as [|n IH]; intros F s s' H Hq; simpl in H.
  - inversion H; subst. destruct F; simpl; now rewrite Hq.
  - destruct F as [|F']; [discriminate|]. rewrite run_S. destruct (queue s) eqn:Eq.
    + rewrite (step_idle _ _ Eq) in H. now rewrite (stepsF_idle_inv _ _ _ _ Eq H).
    + destruct (step (post_render F') s) as [s1|e|]; try discriminate. now apply IH.
Qed.

Definition pget (s : st) (k : N) : list tok := aget [] k (parts s).

Lemma aget_parts_append_eq k x ps : aget [] k (parts_append k x ps) = aget [] k ps ++ x.
Proof. unfold parts_append, aget at 1. now rewrite alookup_aset_eq. Qed.
Lemma alookup_parts_append_neq k k' x ps : k <> k' -> alookup k (parts_append k' x ps) = alookup k ps.
Proof. intro H. unfold parts_append. now apply alookup_aset_neq. Qed.

(* conditional append of the text before a placeholder *)
Definition add_before (c : N) (b : list tok) (ps : list (N * list tok)) : list (N * list tok) :=
  match b with [] => ps | _ :: _ => parts_append c b ps end.
Lemma aget_add_before_eq c b ps : aget [] c (add_before c b ps) = aget [] c ps ++ b.
Proof. destruct b; simpl; [now rewrite app_nil_r | apply aget_parts_append_eq]. Qed.
Lemma alookup_add_before_neq k c b ps : k <> c -> alookup k (add_before c b ps) = alookup k ps.
Proof. intro H. destruct b; simpl; [reflexivity | now apply alookup_parts_append_neq]. Qed.

Lemma step_end nest s b c g q :
  queue s = {| q_before := b; q_child := None; q_parent := Some c; q_grand := Some g |} :: q ->
  step nest s = Done {| queue := q; parts := parts_append g (pget s c ++ b) (aremove c (parts s));
                        content := content s; rend := rend s; cattrs := cattrs s |}.
Proof. intro Hq. unfold step. rewrite Hq. reflexivity. Qed.

(* --- rendering a template --- *)
Lemma render_tpl_cons nest tb x r :
  render_tpl nest tb (x :: r) =
  match render_item nest tb x with
  | Done (a, tb1) => match render_tpl nest tb1 r with
                     | Done (b, tb2) => Done (a ++ b, tb2)
                     | Failed e => Failed e | OutOfFuel => OutOfFuel end
  | Failed e => Failed e | OutOfFuel => OutOfFuel end.
Proof. reflexivity. Qed.
Lemma render_item_elem nest tb t kids :
  render_item nest tb (IElem t kids) =
  match render_tpl nest tb kids with
  | Done (k, tb1) => Done (Open t [] :: k ++ [Close t], tb1)
  | Failed e => Failed e | OutOfFuel => OutOfFuel end.
Proof. reflexivity. Qed.

(* the tables mention none of the ids I *)
Definition fresh (I : list N) (tb : list (N * list item) * list (N * list N)) : Prop :=
  forall k, In k I -> alookup k (fst tb) = None /\ alookup k (snd tb) = None.

(* a root run on tables that mention none of its ids: result = inlining, tables as found *)
Definition root_spec (F : nat) (c : N) (body : list item) : Prop :=
  forall tb, NoDup (c :: ids body) -> fresh (c :: ids body) tb ->
    exists tb', post_render F tb c body = Done (inline [c] body, tb') /\ teq (fst tb) (fst tb') /\ teq (snd tb) (snd tb').

Definition roots_ok (n : nat) : Prop :=
  forall c body F, (tsize body < n)%nat -> (2 * S (ninst body) <= F)%nat -> root_spec F c body.

Lemma in_map_fst {A B} (k : A) (v : B) l : In (k, v) l -> In k (map fst l).
Proof. intro H. apply in_map_iff. exists (k, v). auto. Qed.

Lemma render_ok n (HQ : roots_ok n) : forall m its tb F,
  (tsize its <= m)%nat -> (tsize its <= n)%nat -> (2 * ninst its <= F)%nat ->
  NoDup (ids its) -> fresh (ids its) tb ->
  exists tb', render_tpl (post_render F) tb its = Done (flat [] its, tb') /\
    (forall g b, In (g, b) (ph_bodies its) -> alookup g (fst tb') = Some b) /\
    (forall k, ~ In k (map fst (ph_bodies its)) -> alookup k (fst tb') = alookup k (fst tb)) /\
    teq (snd tb) (snd tb').
Proof.
  induction m as [|m IH]; intros its tb F Hm Hn HF Hnd Hfr.
  { destruct its as [|x r]; [|rewrite tsize_cons in Hm; pose proof (tsize_item_pos x); lia].
    exists tb. repeat split; try reflexivity. intros g b []. }
  destruct its as [|x r].
  { exists tb. repeat split; try reflexivity. intros g b []. }
  rewrite tsize_cons in Hm, Hn. pose proof (tsize_item_pos x) as Hpos.
  rewrite ids_cons in Hnd, Hfr. apply nodup_app in Hnd as (Hndx & Hndr & Hdis).
  rewrite ninst_cons in HF. rewrite render_tpl_cons.
  (* the first item *)
  assert (Hx : exists tb1, render_item (post_render F) tb x = Done (flat_item [] x, tb1) /\
                 (forall g b, In (g, b) (ph_bodies_item x) -> alookup g (fst tb1) = Some b) /\
                 (forall k, ~ In k (map fst (ph_bodies_item x)) -> alookup k (fst tb1) = alookup k (fst tb)) /\
                 teq (snd tb) (snd tb1)).
  { destruct x as [t kids| |g b|c b].
    - rewrite tsize_elem in Hm, Hn. rewrite ids_elem in *. rewrite ninst_elem in HF.
      destruct (IH kids tb F ltac:(lia) ltac:(lia) ltac:(lia) Hndx) as (tb1 & Hr & H1 & H2 & H3).
      { intros k Hk. apply Hfr, in_or_app; auto. }
      exists tb1. rewrite render_item_elem, Hr. rewrite flat_elem, ph_bodies_elem. auto.
    - exists tb. repeat split; try reflexivity. intros g b [].
    - exists (aset g b (fst tb), snd tb). cbn [render_item fst snd ph_bodies_item map]. repeat split.
      + intros g' b' [Hi|[]]. inversion Hi; subst. apply alookup_aset_eq.
      + intros k Hk. apply alookup_aset_neq. intro; subst. apply Hk. now left.
    - rewrite tsize_root in Hm, Hn. rewrite ids_root in *. rewrite ninst_root in HF.
      destruct (HQ c b F ltac:(lia) ltac:(lia) tb Hndx) as (tb1 & Hr & H1 & H2).
      { intros k Hk. apply Hfr, in_or_app; auto. }
      exists tb1. cbn [render_item]. rewrite Hr. cbn [ph_bodies_item map]. repeat split; auto.
      intros g b' []. }
  destruct Hx as (tb1 & Hr1 & Hx1 & Hx2 & Hx3). rewrite Hr1.
  assert (Hkx : forall k, In k (map fst (ph_bodies_item x)) -> In k (ids_item x)).
  { intros k Hk. assert (Hk' : In k (map fst (ph_bodies [x]))) by (rewrite ph_bodies_cons; simpl; now rewrite app_nil_r).
    apply ph_in_ids in Hk'. rewrite ids_cons in Hk'. simpl in Hk'. now rewrite app_nil_r in Hk'. }
  destruct (IH r tb1 F ltac:(lia) ltac:(lia) ltac:(lia) Hndr) as (tb2 & Hr2 & Hy1 & Hy2 & Hy3).
  { intros k Hk. split.
    - rewrite Hx2; [apply Hfr, in_or_app; auto|]. intro Hk'. exact (Hdis k (Hkx k Hk') Hk).
    - rewrite Hx3. apply Hfr, in_or_app; auto. }
  rewrite Hr2. exists tb2. split; [now rewrite flat_cons|]. rewrite ph_bodies_cons, map_app. split; [|split].
  - intros g b Hi. apply in_app_or in Hi as [Hi|Hi]; [|now apply Hy1].
    rewrite Hy2; [now apply Hx1|]. intro Hk'. apply ph_in_ids in Hk'.
    exact (Hdis g (Hkx g (in_map_fst _ _ _ Hi)) Hk').
  - intros k Hk. rewrite Hy2, Hx2; [reflexivity | |]; intro; apply Hk, in_or_app; auto.
  - intro k. now rewrite Hy3, Hx3.
Qed.

(* the iteration that renders a child (or the root itself: par = None, b = []) *)
Lemma step_child n (HQ : roots_ok n) F s b g par gp q body inh :
  queue s = {| q_before := b; q_child := Some g; q_parent := par; q_grand := gp |} :: q ->
  (b = [] \/ exists c, par = Some c) ->
  alookup g (rend s) = Some body ->
  match alookup g (cattrs s) with Some l => l | None => [] end = inh ->
  NoDup (g :: ids body) -> (tsize body <= n)%nat -> (2 * ninst body <= F)%nat ->
  (forall k, In k (ids body) -> alookup k (rend s) = None /\ alookup k (cattrs s) = None) ->
  exists s1, step (post_render F) s = Done s1 /\
    queue s1 = split_go g par [] (flat (inh ++ [g]) body) ++ q /\
    parts s1 = match par with Some c => add_before c b (parts s) | None => parts s end /\
    content s1 = content s /\
    (forall k v, In (k, v) (ph_bodies body) -> alookup k (rend s1) = Some v) /\
    (forall k, ~ In k (map fst (ph_bodies body)) -> alookup k (rend s1) = alookup k (aremove g (rend s))) /\
    (forall k v, In (k, v) (ph_attrs (inh ++ [g]) body) -> alookup k (cattrs s1) = Some v) /\
    (forall k, ~ In k (map fst (ph_bodies body)) -> alookup k (cattrs s1) = alookup k (aremove g (cattrs s))).
Proof.
  intros Hq Hb Hr Hinh Hnd Hn HF Hcl. inversion Hnd as [|? ? Hgb Hndb]; subst.
  destruct (render_ok n HQ (tsize body) body (aremove g (rend s), aremove g (cattrs s)) F (le_n _) Hn HF Hndb)
    as ([rd2 ca2] & Hrender & H1 & H2 & H3).
  { intros k Hk. assert (k <> g) by (intro; subst; contradiction). cbn [fst snd].
    rewrite !alookup_aremove_neq by assumption. now apply Hcl. }
  cbn [fst snd] in *.
  assert (Hstep : step (post_render F) s =
            Done {| queue := split_go g par [] (set_attrs (match alookup g (cattrs s) with Some l => l | None => [] end ++ [g]) 0 (flat [] body)) ++ q;
                    parts := match par with Some c => add_before c b (parts s) | None => parts s end;
                    content := content s; rend := rd2;
                    cattrs := aupdate (watched (set_attrs (match alookup g (cattrs s) with Some l => l | None => [] end ++ [g]) 0 (flat [] body))) ca2 |}).
  { unfold step. rewrite Hq. cbn [q_child q_before q_parent q_grand].
    destruct Hb as [->|(c & ->)].
    - rewrite Hr, Hrender. destruct par; reflexivity.
    - destruct b; cbn [add_before]; rewrite Hr, Hrender; reflexivity. }
  eexists. split; [exact Hstep|]. cbn [queue parts content rend cattrs].
  rewrite set_attrs_flat0, (watched_flat (tsize body)) by lia.
  repeat split; auto.
  - intros k v Hi. apply alookup_aupdate_in; [|exact Hi]. rewrite ph_keys. now apply ph_nodup.
  - intros k Hk. rewrite alookup_aupdate_out by (now rewrite ph_keys). apply H3.
Qed.

(* what processing the placeholders of one fragment does to the rest of the state *)
Definition frame (I : list N) (c : N) (s s' : st) : Prop :=
  content s' = content s /\
  same_out I (rend s) (rend s') /\ same_out I (cattrs s) (cattrs s') /\
  (forall k, k <> c -> ~ In k I -> alookup k (parts s') = alookup k (parts s)) /\
  (forall k, In k I -> alookup k (parts s') = None).

Lemma frame_refl c s : frame [] c s s.
Proof. repeat split; try reflexivity; intros k []. Qed.

Lemma frame_trans I1 I2 c s s1 s2 :
  ~ In c I1 -> frame I1 c s s1 -> frame I2 c s1 s2 -> frame (I1 ++ I2) c s s2.
Proof.
  intros Hc (Hc1 & Hr1 & Ha1 & Hp1 & Hn1) (Hc2 & Hr2 & Ha2 & Hp2 & Hn2).
  split; [congruence|]. split; [eapply same_out_trans; eassumption|].
  split; [eapply same_out_trans; eassumption|]. split.
  - intros k Hk Hn. rewrite Hp2, Hp1; auto; intro Hi; apply Hn, in_or_app; auto.
  - intros k Hi. destruct (in_dec N.eq_dec k I2) as [Hk|Hk]; [now apply Hn2|].
    apply in_app_or in Hi as [Hi|Hi]; [|contradiction].
    rewrite Hp2; [now apply Hn1 | intro; subst; contradiction | exact Hk].
Qed.

(* ids that were absent before and are not touched stay absent *)
Lemma frame_more J I c s s' :
  frame I c s s' -> ~ In c J ->
  (forall k, In k J -> alookup k (rend s) = None /\ alookup k (cattrs s) = None /\ alookup k (parts s) = None) ->
  frame (J ++ I) c s s'.
Proof.
  intros (Hc1 & [Hr1 Hr1'] & [Ha1 Ha1'] & Hp1 & Hn1) Hc HJ.
  assert (Hnot : forall k, ~ In k (J ++ I) -> ~ In k I) by (intros k H Hi; apply H, in_or_app; auto).
  split; [exact Hc1|]. split; [|split; [|split]].
  - split; [intros k Hk; apply Hr1; auto|]. intros k Hk.
    destruct (in_dec N.eq_dec k I) as [Hi|Hi]; [now apply Hr1'|].
    apply in_app_or in Hk as [Hk|Hk]; [|contradiction]. rewrite Hr1 by exact Hi. now apply HJ.
  - split; [intros k Hk; apply Ha1; auto|]. intros k Hk.
    destruct (in_dec N.eq_dec k I) as [Hi|Hi]; [now apply Ha1'|].
    apply in_app_or in Hk as [Hk|Hk]; [|contradiction]. rewrite Ha1 by exact Hi. now apply HJ.
  - intros k Hkc Hk. apply Hp1; auto.
  - intros k Hk. destruct (in_dec N.eq_dec k I) as [Hi|Hi]; [now apply Hn1|].
    apply in_app_or in Hk as [Hk|Hk]; [|contradiction].
    rewrite Hp1; [now apply HJ | intro; subst; contradiction | exact Hi].
Qed.

Definition reg_ok (rd : list (N * list item)) (its : list item) : Prop :=
  forall c b, In (c, b) (ph_bodies its) -> alookup c rd = Some b.
Definition att_ok (ca : list (N * list N)) (A : list N) (its : list item) : Prop :=
  forall c a, In (c, a) (ph_attrs A its) -> alookup c ca = Some a.
(* apart from the fragment's own placeholders, the tables mention no id of the fragment *)
Definition clean_ok (s : st) (its : list item) : Prop :=
  forall k, In k (ids its) -> ~ In k (map fst (ph_bodies its)) -> alookup k (rend s) = None /\ alookup k (cattrs s) = None.

Definition proc_spec (its : list item) : Prop :=
  forall A c p acc suffix Q s F,
    NoDup (ids its) -> ~ In c (ids its) -> (2 * ninst its <= F)%nat ->
    queue s = split_go c p acc (flat A its ++ suffix) ++ Q ->
    (forall k, In k (ids its) -> alookup k (parts s) = None) ->
    reg_ok (rend s) its -> att_ok (cattrs s) A its -> clean_ok s its ->
    exists s' acc',
      stepsF (2 * ndef its) F s = Some s' /\
      queue s' = split_go c p acc' suffix ++ Q /\
      pget s' c ++ acc' = pget s c ++ acc ++ inline A its /\
      frame (ids its) c s s'.

Definition procs_ok (n : nat) : Prop := forall its, (tsize its <= n)%nat -> proc_spec its.

Lemma proc_nil : proc_spec [].
Proof.
  intros A c p acc suffix Q s F _ _ _ Hq _ _ _ _. exists s, acc. simpl.
  repeat split; try reflexivity; try (intros k []); [exact Hq | now rewrite app_nil_r].
Qed.

Lemma proc_step n : procs_ok n -> roots_ok n -> procs_ok (S n).
Proof.
  intros IH HQ its Hs.
  destruct its as [|x r]; [apply proc_nil|].
  rewrite tsize_cons in Hs. pose proof (tsize_item_pos x) as Hpos.
  intros A c p acc suffix Q s F Hnd Hc HF Hq Hpn Hreg Hatt Hcl.
  rewrite ids_cons in Hnd, Hc, Hpn. apply nodup_app in Hnd as (Hndx & Hndr & Hdis).
  assert (Hcx : ~ In c (ids_item x)) by (intro; apply Hc, in_or_app; auto).
  assert (Hcr : ~ In c (ids r)) by (intro; apply Hc, in_or_app; auto).
  rewrite ninst_cons in HF.
  rewrite flat_cons, <- app_assoc in Hq.
  destruct x as [t kids| |g body|r0 b0].
  - (* element: its children are not roots *)
    rewrite flat_elem in Hq. cbn [app split_go] in Hq.
    rewrite <- app_assoc in Hq. rewrite ids_elem in *. rewrite tsize_elem in Hs. rewrite ninst_elem in HF.
    destruct (IH kids ltac:(lia) [] c p (acc ++ [Open t A]) ([Close t] ++ flat A r ++ suffix) Q s F) as (s1 & acc1 & Hst1 & Hq1 & Hg1 & Hf1);
      try assumption; try lia.
    { intros k Hk. apply Hpn, in_or_app; auto. }
    { intros k b Hi. apply Hreg. rewrite ph_bodies_cons, ph_bodies_elem. apply in_or_app; auto. }
    { intros k a Hi. apply Hatt. rewrite ph_attrs_cons, ph_attrs_elem. apply in_or_app; auto. }
    { intros k Hk Hnk. apply Hcl; [rewrite ids_cons, ids_elem; apply in_or_app; auto|].
      rewrite ph_bodies_cons, ph_bodies_elem, map_app. intro Hi. apply in_app_or in Hi as [Hi|Hi]; [contradiction|].
      apply ph_in_ids in Hi. exact (Hdis k Hk Hi). }
    cbn [app split_go] in Hq1.
    destruct Hf1 as (Hco1 & Hrd1 & Hca1 & Hpp1 & Hpn1).
    assert (Hndef1 : (ndef kids <= ninst kids)%nat) by (apply (ndef_le_ninst (tsize kids)); lia).
    destruct (IH r ltac:(lia) A c p (acc1 ++ [Close t]) suffix Q s1 (F - 2 * ndef kids)%nat) as (s2 & acc2 & Hst2 & Hq2 & Hg2 & Hf2);
      try assumption; try lia.
    { intros k Hk. rewrite Hpp1; [apply Hpn, in_or_app; auto | intro; subst; contradiction | intro Hk'; exact (Hdis k Hk' Hk)]. }
    { intros k b Hi. destruct Hrd1 as [Hrd1 _]. rewrite Hrd1.
      - apply Hreg. rewrite ph_bodies_cons. apply in_or_app; auto.
      - intro Hk'. apply (Hdis k Hk'). apply ph_in_ids. eapply in_map_fst; eassumption. }
    { intros k a Hi. destruct Hca1 as [Hca1 _]. rewrite Hca1.
      - apply Hatt. rewrite ph_attrs_cons. apply in_or_app; auto.
      - intro Hk'. apply (Hdis k Hk'). apply ph_in_ids. rewrite <- (ph_keys r A). eapply in_map_fst; eassumption. }
    { intros k Hk Hnk. assert (Hkk : ~ In k (ids kids)) by (intro Hk'; exact (Hdis k Hk' Hk)).
      destruct Hrd1 as [Hrd1 _]. destruct Hca1 as [Hca1 _]. rewrite Hrd1, Hca1 by exact Hkk.
      apply Hcl; [rewrite ids_cons, ids_elem; apply in_or_app; auto|].
      rewrite ph_bodies_cons, ph_bodies_elem, map_app. intro Hi. apply in_app_or in Hi as [Hi|Hi]; [|contradiction].
      apply Hkk. now apply ph_in_ids. }
    exists s2, acc2. split; [|split; [exact Hq2|split]].
    + rewrite ndef_cons, ndef_elem. replace (2 * (ndef kids + ndef r))%nat with (2 * ndef kids + 2 * ndef r)%nat by lia.
      rewrite stepsF_add, Hst1. exact Hst2.
    + rewrite Hg2.
      replace (pget s1 c ++ (acc1 ++ [Close t]) ++ inline A r) with ((pget s1 c ++ acc1) ++ [Close t] ++ inline A r)
        by (repeat rewrite <- app_assoc; reflexivity).
      rewrite Hg1. rewrite inline_cons, inline_elem. repeat rewrite <- app_assoc. simpl. repeat rewrite <- app_assoc. reflexivity.
    + eapply frame_trans; [exact Hcx | | exact Hf2]. exact (conj Hco1 (conj Hrd1 (conj Hca1 (conj Hpp1 Hpn1)))).
  - (* text *)
    cbn [flat_item app split_go] in Hq.
    destruct (IH r ltac:(simpl in Hs; lia) A c p (acc ++ [Txt]) suffix Q s F) as (s2 & acc2 & Hst2 & Hq2 & Hg2 & Hf2);
      try assumption; try (simpl in HF; lia).
    exists s2, acc2. split; [exact Hst2|]. split; [exact Hq2|]. split; [|exact Hf2].
    rewrite Hg2. rewrite inline_cons. simpl. repeat rewrite <- app_assoc. reflexivity.
  - (* nested component: placeholder -> render with inherited attributes -> its own parts -> join *)
    rewrite ids_comp in *. rewrite tsize_comp in Hs. rewrite ninst_comp in HF.
    inversion Hndx as [|? ? Hgb Hndb]; subst.
    assert (Hcg : c <> g) by (intro; subst; apply Hcx; now left).
    assert (Hcb : ~ In c (ids body)) by (intro; apply Hcx; now right).
    cbn [flat_item app split_go] in Hq.
    assert (Hrg : alookup g (rend s) = Some body).
    { apply Hreg. rewrite ph_bodies_cons. apply in_or_app; left. now left. }
    assert (Hag : alookup g (cattrs s) = Some A).
    { apply Hatt. rewrite ph_attrs_cons. apply in_or_app; left. now left. }
    assert (Hkeys_its : forall k, In k (map fst (ph_bodies (IComp g body :: r))) -> k = g \/ In k (ids r)).
    { intros k Hi. rewrite ph_bodies_cons, map_app in Hi. apply in_app_or in Hi as [[Hi|[]]|Hi]; [now left|].
      right. now apply ph_in_ids. }
    assert (Hbody_clean : forall k, In k (ids body) -> alookup k (rend s) = None /\ alookup k (cattrs s) = None).
    { intros k Hk. apply Hcl; [rewrite ids_cons, ids_comp; apply in_or_app; left; now right|].
      intro Hi. apply Hkeys_its in Hi as [->|Hi]; [contradiction|].
      apply (Hdis k); [now right | exact Hi]. }
    destruct F as [|F1]; [lia|].
    destruct (step_child n HQ F1 s acc g (Some c) p _ body A Hq (or_intror (ex_intro _ c eq_refl)) Hrg) as
      (s1 & Hstep & Hq1 & Hp1 & Hc1 & Hr1a & Hr1b & Ha1a & Ha1b); try assumption; try lia.
    { now rewrite Hag. }
    destruct (IH body ltac:(lia) (A ++ [g]) g (Some c) [] [] (split_go c p [] (flat A r ++ suffix) ++ Q) s1 F1)
      as (s2 & acc2 & Hst2 & Hq2 & Hg2 & Hf2); try assumption; try lia.
    { rewrite Hq1. now rewrite app_nil_r. }
    { intros k Hk. rewrite Hp1. rewrite alookup_add_before_neq by (intro; subst; contradiction).
      apply Hpn. simpl. right. apply in_or_app; auto. }
    { intros k Hk Hnk. rewrite Hr1b, Ha1b by exact Hnk.
      assert (k <> g) by (intro; subst; contradiction).
      rewrite !alookup_aremove_neq by assumption. now apply Hbody_clean. }
    cbn [split_go] in Hq2.
    destruct Hf2 as (Hco2 & Hrd2 & Hca2 & Hpp2 & Hpn2).
    assert (Hndefb : (ndef body <= ninst body)%nat) by (apply (ndef_le_ninst (tsize body)); lia).
    set (s3 := {| queue := split_go c p [] (flat A r ++ suffix) ++ Q;
                  parts := parts_append c (pget s2 g ++ acc2) (aremove g (parts s2));
                  content := content s2; rend := rend s2; cattrs := cattrs s2 |}).
    assert (Hs1g : pget s1 g = []).
    { unfold pget, aget. rewrite Hp1. rewrite alookup_add_before_neq by congruence.
      rewrite Hpn; [reflexivity | now left]. }
    assert (Hs3c : pget s3 c = pget s c ++ acc ++ inline (A ++ [g]) body).
    { unfold pget at 1, s3; cbn [parts]. rewrite aget_parts_append_eq.
      rewrite Hg2, Hs1g. simpl. unfold aget. rewrite alookup_aremove_neq by exact Hcg.
      rewrite Hpp2 by (congruence || exact Hcb). rewrite Hp1.
      fold (aget [] c (add_before c acc (parts s))). rewrite aget_add_before_eq.
      unfold pget. now rewrite <- app_assoc. }
    (* facts about keys outside {g} + ids body, from s to s3 *)
    assert (Hout : forall k, k <> g -> ~ In k (ids body) ->
              alookup k (rend s3) = alookup k (rend s) /\ alookup k (cattrs s3) = alookup k (cattrs s) /\
              (k <> c -> alookup k (parts s3) = alookup k (parts s))).
    { intros k Hkg Hkb'. unfold s3; cbn [rend cattrs parts].
      destruct Hrd2 as [Hrd2 _]. destruct Hca2 as [Hca2 _]. rewrite Hrd2, Hca2 by exact Hkb'.
      assert (Hnk : ~ In k (map fst (ph_bodies body))) by (intro Hi; apply Hkb'; now apply ph_in_ids).
      rewrite Hr1b, Ha1b by exact Hnk. rewrite !alookup_aremove_neq by exact Hkg. repeat split.
      intro Hkc. rewrite alookup_parts_append_neq by exact Hkc. rewrite alookup_aremove_neq by exact Hkg.
      rewrite Hpp2 by assumption. rewrite Hp1. now apply alookup_add_before_neq. }
    assert (Hin : forall k, In k (g :: ids body) ->
              alookup k (rend s3) = None /\ alookup k (cattrs s3) = None /\ alookup k (parts s3) = None).
    { intros k Hk. unfold s3; cbn [rend cattrs parts].
      assert (Hkc : k <> c) by (intro; subst; contradiction).
      rewrite alookup_parts_append_neq by exact Hkc.
      destruct (in_dec N.eq_dec k (ids body)) as [Hkb'|Hkb'].
      - destruct Hrd2 as [_ Hrd2]. destruct Hca2 as [_ Hca2]. rewrite Hrd2, Hca2 by exact Hkb'.
        repeat split. rewrite alookup_aremove_neq by (intro; subst; contradiction). now apply Hpn2.
      - destruct Hk as [Hk|Hk]; [subst k|contradiction].
        destruct Hrd2 as [Hrd2 _]. destruct Hca2 as [Hca2 _]. rewrite Hrd2, Hca2 by exact Hkb'.
        assert (Hnk : ~ In g (map fst (ph_bodies body))) by (intro Hi; apply Hkb'; now apply ph_in_ids).
        rewrite Hr1b, Ha1b by exact Hnk. rewrite !alookup_aremove_eq. repeat split. }
    assert (Hf13 : frame (g :: ids body) c s s3).
    { split; [unfold s3; cbn [content]; rewrite Hco2; exact Hc1|].
      split; [split; intros k Hk; [apply Hout; intro; apply Hk; simpl; auto | apply Hin; exact Hk]|].
      split; [split; intros k Hk; [apply Hout; intro; apply Hk; simpl; auto | apply Hin; exact Hk]|].
      split; [intros k Hkc Hk; apply Hout; auto; intro; apply Hk; simpl; auto | intros k Hk; apply Hin; exact Hk]. }
    destruct (IH r ltac:(lia) A c p [] suffix Q s3 (F1 - 2 * ndef body - 1)%nat) as (s4 & acc4 & Hst4 & Hq4 & Hg4 & Hf4);
      try assumption; try lia.
    { reflexivity. }
    { intros k Hk. assert (Hkx : ~ In k (g :: ids body)) by (intro Hk'; exact (Hdis k Hk' Hk)).
      destruct (Hout k) as (_ & _ & Hp); [intro; subst; apply Hkx; now left | intro; apply Hkx; now right |].
      rewrite Hp by (intro; subst; contradiction). apply Hpn, in_or_app; auto. }
    { intros k b Hi.
      assert (Hk : In k (ids r)) by (apply ph_in_ids; eapply in_map_fst; eassumption).
      assert (Hkx : ~ In k (g :: ids body)) by (intro Hk'; exact (Hdis k Hk' Hk)).
      destruct (Hout k) as (Hr & _ & _); [intro; subst; apply Hkx; now left | intro; apply Hkx; now right |].
      rewrite Hr. apply Hreg. rewrite ph_bodies_cons. apply in_or_app; auto. }
    { intros k a Hi.
      assert (Hk : In k (ids r)).
      { apply ph_in_ids. rewrite <- (ph_keys r A). eapply in_map_fst; eassumption. }
      assert (Hkx : ~ In k (g :: ids body)) by (intro Hk'; exact (Hdis k Hk' Hk)).
      destruct (Hout k) as (_ & Ha & _); [intro; subst; apply Hkx; now left | intro; apply Hkx; now right |].
      rewrite Ha. apply Hatt. rewrite ph_attrs_cons. apply in_or_app; auto. }
    { intros k Hk Hnk.
      assert (Hkx : ~ In k (g :: ids body)) by (intro Hk'; exact (Hdis k Hk' Hk)).
      destruct (Hout k) as (Hr & Ha & _); [intro; subst; apply Hkx; now left | intro; apply Hkx; now right |].
      rewrite Hr, Ha. apply Hcl; [rewrite ids_cons; apply in_or_app; auto|].
      intro Hi. rewrite ph_bodies_cons, map_app in Hi. apply in_app_or in Hi as [[Hi|[]]|Hi]; [|contradiction].
      subst. apply Hkx. now left. }
    exists s4, acc4. split; [|split; [exact Hq4|split]].
    + rewrite ndef_cons, ndef_comp.
      replace (2 * (S (ndef body) + ndef r))%nat with (1 + (2 * ndef body + (1 + 2 * ndef r)))%nat by lia.
      rewrite stepsF_add. cbn [stepsF]. rewrite Hstep. replace (S F1 - 1)%nat with F1 by lia.
      rewrite stepsF_add, Hst2. rewrite stepsF_add.
      destruct (F1 - 2 * ndef body)%nat as [|F2] eqn:EF; [lia|]. cbn [stepsF].
      rewrite (step_end (post_render F2) s2 acc2 g c _ Hq2).
      exact Hst4.
    + rewrite Hg4, Hs3c. rewrite inline_cons, inline_comp. simpl. repeat rewrite <- app_assoc. reflexivity.
    + eapply frame_trans; [exact Hcx | exact Hf13 | exact Hf4].
  - (* a re-entrant root run: its finished HTML is plain text for this queue *)
    rewrite ids_root in *. rewrite tsize_root in Hs. rewrite ninst_root in HF.
    rewrite flat_root in Hq. rewrite split_go_no_ph in Hq by (apply (inline_no_ph (tsize b0)); lia).
    destruct (IH r ltac:(lia) A c p (acc ++ inline (A ++ [r0]) b0) suffix Q s F) as (s2 & acc2 & Hst2 & Hq2 & Hg2 & Hf2);
      try assumption; try lia.
    { intros k Hk. apply Hpn, in_or_app; auto. }
    { intros k Hk Hnk. apply Hcl; [rewrite ids_cons; apply in_or_app; auto|].
      rewrite ph_bodies_cons. exact Hnk. }
    exists s2, acc2. split; [exact Hst2|]. split; [exact Hq2|]. split.
    + rewrite Hg2. rewrite inline_cons, inline_root. repeat rewrite <- app_assoc. reflexivity.
    + apply frame_more; [exact Hf2 | exact Hcx |].
      intros k Hk. assert (Hk' : In k (ids (IRoot r0 b0 :: r))) by (rewrite ids_cons, ids_root; apply in_or_app; auto).
      assert (Hnk : ~ In k (map fst (ph_bodies (IRoot r0 b0 :: r)))).
      { rewrite ph_bodies_cons. simpl. intro Hi. apply ph_in_ids in Hi. exact (Hdis k Hk Hi). }
      destruct (Hcl k Hk' Hnk) as [H1 H2]. repeat split; try assumption. apply Hpn, in_or_app; auto.
Qed.

(* ====================================================================================== *)
(* 5. a root run, a page                                                                   *)
(* ====================================================================================== *)
Lemma root_of n : procs_ok n -> roots_ok n -> roots_ok (S n).
Proof.
  intros IH HQ c body F Hs HF tb Hnd Hfr. inversion Hnd as [|? ? Hcb Hndb]; subst.
  destruct F as [|F1]; [lia|].
  destruct (Hfr c (or_introl eq_refl)) as [Hfc1 Hfc2].
  destruct (step_child n HQ F1 (init_state tb c body) [] c None None [] body [] eq_refl (or_introl eq_refl))
    as (s1 & Hstep & Hq1 & Hp1 & Hc1 & Hr1a & Hr1b & Ha1a & Ha1b); try assumption; try lia.
  { cbn [init_state rend]. apply alookup_aset_eq. }
  { cbn [init_state cattrs]. now rewrite Hfc2. }
  { intros k Hk. assert (k <> c) by (intro; subst; contradiction). cbn [init_state rend cattrs].
    rewrite alookup_aset_neq by assumption. apply Hfr. now right. }
  cbn [app init_state parts content rend cattrs] in *.
  destruct (IH body ltac:(lia) [c] c None [] [] [] s1 F1) as (s2 & acc2 & Hst2 & Hq2 & Hg2 & Hf2); try assumption; try lia.
  { rewrite Hq1. now rewrite !app_nil_r. }
  { intros k _. now rewrite Hp1. }
  { intros k Hk Hnk. rewrite Hr1b, Ha1b by exact Hnk. assert (k <> c) by (intro; subst; contradiction).
    rewrite !alookup_aremove_neq by assumption. rewrite alookup_aset_neq by assumption. apply Hfr. now right. }
  cbn [split_go app] in Hq2. destruct Hf2 as (Hco2 & [Hrd2 Hrd2'] & [Hca2 Hca2'] & _ & _).
  set (s3 := {| queue := []; parts := aremove c (parts s2); content := content s2 ++ pget s2 c ++ acc2;
                rend := rend s2; cattrs := cattrs s2 |}).
  assert (Hstep3 : forall nest, step nest s2 = Done s3).
  { intro nest. unfold step. rewrite Hq2. reflexivity. }
  assert (Hndefb : (ndef body <= ninst body)%nat) by (apply (ndef_le_ninst (tsize body)); lia).
  assert (Hrun : stepsF (1 + (2 * ndef body + 1)) (S F1) (init_state tb c body) = Some s3).
  { rewrite stepsF_add. cbn [stepsF]. rewrite Hstep. replace (S F1 - 1)%nat with F1 by lia.
    rewrite stepsF_add, Hst2. destruct (F1 - 2 * ndef body)%nat as [|F2] eqn:EF; [lia|]. cbn [stepsF].
    now rewrite Hstep3. }
  assert (Hs1c : pget s1 c = []) by (unfold pget, aget; now rewrite Hp1).
  exists (rend s3, cattrs s3). split; [|split].
  - unfold post_render. rewrite (run_of_stepsF _ _ _ _ Hrun eq_refl). unfold s3; cbn [finish content rend cattrs].
    rewrite Hco2, Hc1, Hg2, Hs1c. reflexivity.
  - intro k. unfold s3; cbn [fst rend]. destruct (in_dec N.eq_dec k (ids body)) as [Hk|Hk].
    + rewrite Hrd2' by exact Hk. symmetry. apply Hfr. now right.
    + rewrite Hrd2 by exact Hk. rewrite Hr1b by (intro Hi; apply Hk; now apply ph_in_ids).
      destruct (N.eq_dec k c) as [->|Hkc]; [rewrite alookup_aremove_eq; now symmetry|].
      rewrite alookup_aremove_neq by exact Hkc. now apply alookup_aset_neq.
  - intro k. unfold s3; cbn [snd cattrs]. destruct (in_dec N.eq_dec k (ids body)) as [Hk|Hk].
    + rewrite Hca2' by exact Hk. symmetry. apply Hfr. now right.
    + rewrite Hca2 by exact Hk. rewrite Ha1b by (intro Hi; apply Hk; now apply ph_in_ids).
      destruct (N.eq_dec k c) as [->|Hkc]; [rewrite alookup_aremove_eq; now symmetry|].
      now apply alookup_aremove_neq.
Qed.

Lemma queue_ok : forall n, procs_ok n /\ roots_ok n.
Proof.
  induction n as [|n [IHp IHr]].
  - split.
    + intros its Hs. destruct its as [|x r]; [apply proc_nil|].
      rewrite tsize_cons in Hs. pose proof (tsize_item_pos x). lia.
    + intros c body F Hs. lia.
  - split; [now apply proc_step | now apply root_of].
Qed.

Lemma post_render_spec F tb c body :
  NoDup (c :: ids body) -> fresh (c :: ids body) tb -> (2 * S (ninst body) <= F)%nat ->
  exists tb', post_render F tb c body = Done (inline [c] body, tb') /\ teq (fst tb) (fst tb') /\ teq (snd tb) (snd tb').
Proof.
  intros Hnd Hfr HF. destruct (queue_ok (S (tsize body))) as [_ HQ].
  exact (HQ c body F (Nat.lt_succ_diag_r _) HF tb Hnd Hfr).
Qed.

Lemma page_render_cons tb x r :
  page_render tb (x :: r) =
  match page_item tb x with
  | Done (a, tb1) => match page_render tb1 r with
                     | Done (b, tb2) => Done (a ++ b, tb2)
                     | Failed e => Failed e | OutOfFuel => OutOfFuel end
  | Failed e => Failed e | OutOfFuel => OutOfFuel end.
Proof. reflexivity. Qed.
Lemma page_item_elem tb t kids :
  page_item tb (IElem t kids) =
  match page_render tb kids with
  | Done (k, tb1) => Done (Open t [] :: k ++ [Close t], tb1)
  | Failed e => Failed e | OutOfFuel => OutOfFuel end.
Proof. reflexivity. Qed.

Definition page_spec (its : list item) : Prop :=
  forall tb, NoDup (ids its) -> fresh (ids its) tb ->
  exists tb', page_render tb its = Done (inline [] its, tb') /\ teq (fst tb) (fst tb') /\ teq (snd tb) (snd tb').

Lemma page_ok : forall n its, (tsize its <= n)%nat -> page_spec its.
Proof.
  induction n as [|n IH]; intros its Hs.
  { destruct its as [|x r]; [|rewrite tsize_cons in Hs; pose proof (tsize_item_pos x); lia].
    intros tb _ _. exists tb. repeat split; reflexivity. }
  destruct its as [|x r].
  { intros tb _ _. exists tb. repeat split; reflexivity. }
  rewrite tsize_cons in Hs. pose proof (tsize_item_pos x) as Hpos.
  intros tb Hnd Hcl. rewrite ids_cons in Hnd, Hcl. apply nodup_app in Hnd as (Hndx & Hndr & Hdis).
  rewrite page_render_cons.
  assert (Hx : exists tb1, page_item tb x = Done (inline_item [] x, tb1) /\ teq (fst tb) (fst tb1) /\ teq (snd tb) (snd tb1)).
  { destruct x as [t kids| |c body|c body].
    - rewrite tsize_elem in Hs. rewrite ids_elem in *.
      destruct (IH kids ltac:(lia) tb Hndx) as (tb1 & Hp & H1 & H2).
      { intros k Hk. apply Hcl, in_or_app; auto. }
      exists tb1. rewrite page_item_elem, Hp. repeat split; try apply H1; try apply H2.
    - exists tb. repeat split; reflexivity.
    - rewrite ids_comp in *.
      destruct (post_render_spec (2 * S (ninst body)) tb c body Hndx) as (tb1 & Hp & H1 & H2); [|lia|].
      { intros k Hk. apply Hcl, in_or_app; auto. }
      exists tb1. split; [|split; assumption].
      change (page_item tb (IComp c body)) with (post_render (2 * S (ninst body)) tb c body).
      rewrite Hp. reflexivity.
    - rewrite ids_root in *.
      destruct (post_render_spec (2 * S (ninst body)) tb c body Hndx) as (tb1 & Hp & H1 & H2); [|lia|].
      { intros k Hk. apply Hcl, in_or_app; auto. }
      exists tb1. split; [|split; assumption].
      change (page_item tb (IRoot c body)) with (post_render (2 * S (ninst body)) tb c body).
      rewrite Hp. reflexivity. }
  destruct Hx as (tb1 & Hp1 & Hr1 & Ha1). rewrite Hp1.
  destruct (IH r ltac:(lia) tb1 Hndr) as (tb2 & Hp2 & Hr2 & Ha2).
  { intros k Hk. rewrite Hr1, Ha1. apply Hcl, in_or_app; auto. }
  rewrite Hp2. exists tb2. split; [now rewrite inline_cons|].
  split; intro k; [now rewrite Hr2, Hr1 | now rewrite Ha2, Ha1].
Qed.

(* from clean tables a page leaves clean tables *)
Lemma page_from_empty its :
  NoDup (ids its) -> page_render ([], []) its = Done (inline [] its, ([], [])).
Proof.
  intro Hnd. destruct (page_ok (tsize its) its (le_n _) ([], []) Hnd) as ((r & ca) & Hp & H1 & H2).
  { intros k _. split; reflexivity. }
  cbn [fst snd] in *. rewrite Hp.
  assert (r = []) as -> by (apply alookup_all_none_nil; intro k; now rewrite H1).
  assert (ca = []) as -> by (apply alookup_all_none_nil; intro k; now rewrite H2).
  reflexivity.
Qed.

(* ====================================================================================== *)
(* 6. the inlined document: which elements carry which id                                  *)
(* ====================================================================================== *)
Lemma toks_app a b : toks (a ++ b) = toks a ++ toks b.
Proof. induction a as [|x a IH]; [reflexivity|]. simpl app. rewrite !toks_cons, IH. now rewrite app_assoc. Qed.

Lemma toks_inlT : forall n its A, (tsize its <= n)%nat -> toks (inlT A its) = inline A its.
Proof.
  induction n as [|n IH]; intros its A Hs.
  - destruct its as [|x r]; [reflexivity|]. rewrite tsize_cons in Hs. pose proof (tsize_item_pos x). lia.
  - destruct its as [|x r]; [reflexivity|]. rewrite tsize_cons in Hs. pose proof (tsize_item_pos x) as Hp.
    rewrite inlT_cons, inline_cons, toks_app, (IH r) by lia. f_equal.
    destruct x as [t k| |c b|c b].
    + rewrite inlT_elem, inline_elem, toks_cons, toks_elem. rewrite tsize_elem in Hs. rewrite (IH k) by lia.
      simpl. now rewrite app_nil_r.
    + reflexivity.
    + rewrite inlT_comp, inline_comp. rewrite tsize_comp in Hs. apply IH. lia.
    + rewrite inlT_root, inline_root. rewrite tsize_root in Hs. apply IH. lia.
Qed.

Lemma roots_carry : forall n its A, (tsize its <= n)%nat -> Forall (root_ok A) (inlT A its).
Proof.
  induction n as [|n IH]; intros its A Hs.
  - destruct its as [|x r]; [constructor|]. rewrite tsize_cons in Hs. pose proof (tsize_item_pos x). lia.
  - destruct its as [|x r]; [constructor|]. rewrite tsize_cons in Hs. pose proof (tsize_item_pos x) as Hp.
    rewrite inlT_cons. apply Forall_app. split; [|apply IH; lia].
    destruct x as [t k| |c b|c b].
    + rewrite inlT_elem. constructor; [|constructor]. simpl. apply incl_refl.
    + repeat constructor.
    + rewrite inlT_comp. rewrite tsize_comp in Hs.
      eapply Forall_impl; [|apply (IH b (A ++ [c])); lia].
      intros [t a k|]; simpl; [|trivial]. intros Hi x Hx. apply Hi, in_or_app. now left.
    + rewrite inlT_root. rewrite tsize_root in Hs.
      eapply Forall_impl; [|apply (IH b (A ++ [c])); lia].
      intros [t a k|]; simpl; [|trivial]. intros Hi x Hx. apply Hi, in_or_app. now left.
Qed.

Lemma has_id_in c a : has_id c a = true <-> In c a.
Proof.
  unfold has_id. rewrite existsb_exists. split.
  - intros (x & Hx & E). apply N.eqb_eq in E. now subst.
  - intro H. exists c. split; [exact H | apply N.eqb_refl].
Qed.
Lemma has_id_false c a : ~ In c a -> has_id c a = false.
Proof. intro H. destruct (has_id c a) eqn:E; [apply has_id_in in E; contradiction | reflexivity]. Qed.

Lemma carrying_app c a b : carrying c (a ++ b) = (carrying c a + carrying c b)%nat.
Proof. induction a as [|x a IH]; [reflexivity|]. simpl app. rewrite !carrying_cons, IH. lia. Qed.
Lemma top_elems_app a b : top_elems (a ++ b) = (top_elems a + top_elems b)%nat.
Proof. unfold top_elems. now rewrite filter_app, app_length. Qed.

(* an id that is neither inherited nor allocated below occurs nowhere *)
Lemma carrying_absent : forall n its c A, (tsize its <= n)%nat ->
  ~ In c A -> ~ In c (ids its) -> carrying c (inlT A its) = O.
Proof.
  induction n as [|n IH]; intros its c A Hs HA Hi.
  - destruct its as [|x r]; [reflexivity|]. rewrite tsize_cons in Hs. pose proof (tsize_item_pos x). lia.
  - destruct its as [|x r]; [reflexivity|]. rewrite tsize_cons in Hs. pose proof (tsize_item_pos x) as Hp.
    rewrite ids_cons in Hi. rewrite inlT_cons, carrying_app.
    rewrite (IH r) by (lia || assumption || (intro; apply Hi, in_or_app; auto)).
    rewrite Nat.add_0_r. destruct x as [t k| |g b|g b].
    + rewrite inlT_elem, carrying_cons, carrying_elem. rewrite tsize_elem in Hs. rewrite ids_elem in Hi.
      rewrite has_id_false by exact HA.
      rewrite (IH k) by (lia || (intros []) || (intro; apply Hi, in_or_app; auto)). reflexivity.
    + reflexivity.
    + rewrite inlT_comp. rewrite tsize_comp in Hs. rewrite ids_comp in Hi. apply IH; [lia | |].
      * intro H. apply in_app_or in H as [H|[H|[]]]; [contradiction | subst; apply Hi, in_or_app; left; now left].
      * intro H. apply Hi, in_or_app. left. now right.
    + rewrite inlT_root. rewrite tsize_root in Hs. rewrite ids_root in Hi. apply IH; [lia | |].
      * intro H. apply in_app_or in H as [H|[H|[]]]; [contradiction | subst; apply Hi, in_or_app; left; now left].
      * intro H. apply Hi, in_or_app. left. now right.
Qed.

(* an inherited id that is not allocated below is carried by the top-level elements and by nothing else *)
Lemma carrying_inherited : forall n its c A, (tsize its <= n)%nat ->
  In c A -> ~ In c (ids its) -> carrying c (inlT A its) = top_elems (inlT A its).
Proof.
  induction n as [|n IH]; intros its c A Hs HA Hi.
  - destruct its as [|x r]; [reflexivity|]. rewrite tsize_cons in Hs. pose proof (tsize_item_pos x). lia.
  - destruct its as [|x r]; [reflexivity|]. rewrite tsize_cons in Hs. pose proof (tsize_item_pos x) as Hp.
    rewrite ids_cons in Hi. rewrite inlT_cons, carrying_app, top_elems_app.
    rewrite (IH r c A) by (lia || assumption || (intro; apply Hi, in_or_app; auto)).
    f_equal. destruct x as [t k| |g b|g b].
    + rewrite inlT_elem, carrying_cons, carrying_elem. rewrite tsize_elem in Hs. rewrite ids_elem in Hi.
      assert (E : has_id c A = true) by (now apply has_id_in). rewrite E.
      rewrite (carrying_absent (tsize k) k c []) by (lia || (intros []) || (intro; apply Hi, in_or_app; auto)).
      reflexivity.
    + reflexivity.
    + rewrite inlT_comp. rewrite tsize_comp in Hs. rewrite ids_comp in Hi. apply IH; [lia | |].
      * apply in_or_app. now left.
      * intro H. apply Hi, in_or_app. left. now right.
    + rewrite inlT_root. rewrite tsize_root in Hs. rewrite ids_root in Hi. apply IH; [lia | |].
      * apply in_or_app. now left.
      * intro H. apply Hi, in_or_app. left. now right.
Qed.

Lemma outputs_absent : forall n its c A, (tsize its <= n)%nat -> ~ In c (ids its) -> outputs c A its = [].
Proof.
  induction n as [|n IH]; intros its c A Hs Hi.
  - destruct its as [|x r]; [reflexivity|]. rewrite tsize_cons in Hs. pose proof (tsize_item_pos x). lia.
  - destruct its as [|x r]; [reflexivity|]. rewrite tsize_cons in Hs. pose proof (tsize_item_pos x) as Hp.
    rewrite ids_cons in Hi. rewrite outputs_cons.
    rewrite (IH r) by (lia || (intro; apply Hi, in_or_app; auto)). rewrite app_nil_r.
    destruct x as [t k| |g b|g b].
    + rewrite outputs_elem. rewrite tsize_elem in Hs. rewrite ids_elem in Hi. apply IH; [lia|].
      intro; apply Hi, in_or_app; auto.
    + reflexivity.
    + rewrite outputs_comp. rewrite tsize_comp in Hs. rewrite ids_comp in Hi.
      destruct (N.eqb c g) eqn:E.
      * apply N.eqb_eq in E. subst. exfalso. apply Hi, in_or_app. left. now left.
      * simpl. apply IH; [lia|]. intro H. apply Hi, in_or_app. left. now right.
    + rewrite outputs_root. rewrite tsize_root in Hs. rewrite ids_root in Hi.
      destruct (N.eqb c g) eqn:E.
      * apply N.eqb_eq in E. subst. exfalso. apply Hi, in_or_app. left. now left.
      * simpl. apply IH; [lia|]. intro H. apply Hi, in_or_app. left. now right.
Qed.

(* the instance with id c has exactly one output; its top-level elements carry c (and everything inherited);
   the number of elements of the whole document that carry c is the number of those top-level elements *)
Definition marked_spec (c : N) (A : list N) (its : list item) : Prop :=
  exists B out, outputs c A its = [out] /\ Forall (root_ok (B ++ [c])) out /\
                carrying c (inlT A its) = top_elems out.

Lemma marked : forall n its c A, (tsize its <= n)%nat ->
  NoDup (ids its) -> ~ In c A -> In c (ids its) -> marked_spec c A its.
Proof.
  induction n as [|n IH]; intros its c A Hs Hnd HA Hi.
  - destruct its as [|x r]; [contradiction|]. rewrite tsize_cons in Hs. pose proof (tsize_item_pos x). lia.
  - destruct its as [|x r]; [contradiction|]. rewrite tsize_cons in Hs. pose proof (tsize_item_pos x) as Hp.
    rewrite ids_cons in Hnd, Hi. apply nodup_app in Hnd as (Hndx & Hndr & Hdis).
    unfold marked_spec. rewrite outputs_cons, inlT_cons, carrying_app.
    apply in_app_or in Hi as [Hi|Hi].
    + (* the instance is inside x *)
      assert (Hr : ~ In c (ids r)) by (now apply Hdis).
      rewrite (outputs_absent (tsize r) r) by (lia || assumption). rewrite app_nil_r.
      rewrite (carrying_absent (tsize r) r) by (lia || assumption). rewrite Nat.add_0_r.
      destruct x as [t k| |g b|g b].
      * rewrite outputs_elem, inlT_elem, carrying_cons, carrying_elem. rewrite tsize_elem in Hs. rewrite ids_elem in *.
        rewrite has_id_false by exact HA.
        destruct (IH k c [] ltac:(lia) Hndx (fun f => f) Hi) as (B & out & Ho & Hf & Hc).
        exists B, out. repeat split; [exact Ho | exact Hf | simpl; rewrite Hc; lia].
      * contradiction.
      * rewrite outputs_comp, inlT_comp. rewrite tsize_comp in Hs. rewrite ids_comp in *.
        inversion Hndx as [|? ? Hgb Hndb]; subst.
        destruct (N.eqb c g) eqn:E.
        -- apply N.eqb_eq in E. subst g.
           rewrite (outputs_absent (tsize b) b) by (lia || assumption).
           exists A, (inlT (A ++ [c]) b). split; [reflexivity|]. split.
           ++ apply (roots_carry (tsize b)). lia.
           ++ apply (carrying_inherited (tsize b)); [lia | apply in_or_app; right; now left | exact Hgb].
        -- apply N.eqb_neq in E. destruct Hi as [Hi|Hi]; [congruence|]. simpl app.
           apply (IH b c (A ++ [g])); [lia | exact Hndb | | exact Hi].
           intro H. apply in_app_or in H as [H|[H|[]]]; [contradiction | congruence].
      * rewrite outputs_root, inlT_root. rewrite tsize_root in Hs. rewrite ids_root in *.
        inversion Hndx as [|? ? Hgb Hndb]; subst.
        destruct (N.eqb c g) eqn:E.
        -- apply N.eqb_eq in E. subst g.
           rewrite (outputs_absent (tsize b) b) by (lia || assumption).
           exists A, (inlT (A ++ [c]) b). split; [reflexivity|]. split.
           ++ apply (roots_carry (tsize b)). lia.
           ++ apply (carrying_inherited (tsize b)); [lia | apply in_or_app; right; now left | exact Hgb].
        -- apply N.eqb_neq in E. destruct Hi as [Hi|Hi]; [congruence|]. simpl app.
           apply (IH b c (A ++ [g])); [lia | exact Hndb | | exact Hi].
           intro H. apply in_app_or in H as [H|[H|[]]]; [contradiction | congruence].
    + (* the instance is inside r *)
      assert (Hx : ~ In c (ids_item x)) by (intro Hx; exact (Hdis c Hx Hi)).
      destruct (IH r c A ltac:(lia) Hndr HA Hi) as (B & out & Ho & Hf & Hc).
      exists B, out. rewrite Ho, Hc. split; [|split; [exact Hf|]].
      * destruct x as [t k| |g b|g b].
        -- rewrite outputs_elem. rewrite tsize_elem in Hs. rewrite ids_elem in Hx.
           now rewrite (outputs_absent (tsize k) k) by (lia || assumption).
        -- reflexivity.
        -- rewrite outputs_comp. rewrite tsize_comp in Hs. rewrite ids_comp in Hx.
           destruct (N.eqb c g) eqn:E; [apply N.eqb_eq in E; subst; exfalso; apply Hx; now left|].
           rewrite (outputs_absent (tsize b) b); [reflexivity | lia | intro; apply Hx; now right].
        -- rewrite outputs_root. rewrite tsize_root in Hs. rewrite ids_root in Hx.
           destruct (N.eqb c g) eqn:E; [apply N.eqb_eq in E; subst; exfalso; apply Hx; now left|].
           rewrite (outputs_absent (tsize b) b); [reflexivity | lia | intro; apply Hx; now right].
      * destruct x as [t k| |g b|g b].
        -- rewrite inlT_elem, carrying_cons, carrying_elem. rewrite tsize_elem in Hs. rewrite ids_elem in Hx.
           rewrite has_id_false by exact HA.
           rewrite (carrying_absent (tsize k) k c []) by (lia || (intros []) || assumption). reflexivity.
        -- reflexivity.
        -- rewrite inlT_comp. rewrite tsize_comp in Hs. rewrite ids_comp in Hx.
           rewrite (carrying_absent (tsize b) b); [reflexivity | lia | | intro; apply Hx; now right].
           intro H. apply in_app_or in H as [H|[H|[]]]; [contradiction | subst; apply Hx; now left].
        -- rewrite inlT_root. rewrite tsize_root in Hs. rewrite ids_root in Hx.
           rewrite (carrying_absent (tsize b) b); [reflexivity | lia | | intro; apply Hx; now right].
           intro H. apply in_app_or in H as [H|[H|[]]]; [contradiction | subst; apply Hx; now left].
Qed.

(* chains: a component whose root is a component ... - the elements of the innermost template carry all ids *)
Lemma chain_inlT c cs body A : inlT_item A (chain_item c cs body) = inlT (A ++ c :: cs) body.
Proof.
  revert c A. induction cs as [|c' cs IH]; intros c A; simpl chain_item; rewrite inlT_comp.
  - reflexivity.
  - rewrite inlT_cons, IH. simpl. rewrite app_nil_r. now rewrite <- app_assoc.
Qed.

Lemma direct_elem_in : forall its A t kids, In (IElem t kids) its -> In (HElem t A (inlT [] kids)) (inlT A its).
Proof.
  induction its as [|x r IH]; intros A t kids Hi; [contradiction|].
  rewrite inlT_cons. apply in_or_app. destruct Hi as [->|Hi]; [left; rewrite inlT_elem; now left | right; now apply IH].
Qed.

(* ====================================================================================== *)
(* 7. expansion hands out pairwise distinct ids (counter supply)                           *)
(* ====================================================================================== *)
Definition good (nx : N) (its : list item) (n1 : N) : Prop :=
  (nx <= n1)%N /\ (forall k, In k (ids its) -> (nx <= k < n1)%N) /\ NoDup (ids its).

Lemma good_nil nx : good nx [] nx.
Proof. split; [lia|]. split; [intros k []|constructor]. Qed.

Lemma good_app a x b y c : good a x b -> good b y c -> good a (x ++ y) c.
Proof.
  intros (H1 & H2 & H3) (H4 & H5 & H6). split; [lia|]. rewrite ids_app. split.
  - intros k Hk. apply in_app_or in Hk as [Hk|Hk]; [apply H2 in Hk | apply H5 in Hk]; lia.
  - apply nodup_app. repeat split; try assumption.
    intros k Hk Hk'. apply H2 in Hk. apply H5 in Hk'. lia.
Qed.

Lemma seqM_good {A} (f : A -> N -> xres) (l : list A) :
  (forall a nx its n1, In a l -> f a nx = XOk its n1 -> good nx its n1) ->
  forall nx its n1, seqM f l nx = XOk its n1 -> good nx its n1.
Proof.
  induction l as [|a r IH]; intros Hf nx its n1 H; simpl in H.
  - inversion H; subst. apply good_nil.
  - destruct (f a nx) as [x m| | |] eqn:E1; try discriminate.
    destruct (seqM f r m) as [y m2| | |] eqn:E2; try discriminate.
    inversion H; subst. eapply good_app.
    + eapply Hf; [now left | exact E1].
    + eapply IH; [|exact E2]. intros. eapply Hf; [right|]; eassumption.
Qed.

Lemma ids_mk k c b : ids_item (mk_inst k c b) = c :: ids b.
Proof. destruct k; reflexivity. Qed.

Lemma expand_good : forall fuel lb io e kd t nx its n1, expand fuel lb io e kd t nx = XOk its n1 -> good nx its n1.
Proof.
  induction fuel as [|f IH]; intros lb io e kd t nx its n1 H; [discriminate|].
  destruct t as [tag kids| |name dyn fills|name dflt|n body|c body|name]; cbn [expand] in H.
  - destruct (seqM (expand f lb io e kd) kids nx) as [k m| | |] eqn:E; try discriminate. inversion H; subst.
    assert (G : good nx k n1) by (eapply seqM_good; [|exact E]; intros; eapply IH; eassumption).
    destruct G as (G1 & G2 & G3). unfold good. rewrite ids_cons, ids_elem, app_nil_r. auto.
  - inversion H; subst. split; [lia|]. split; [intros k []|constructor].
  - destruct (alookup name lb) as [body|]; [|discriminate].
    destruct dyn.
    + destruct (seqM _ body (nx + 2)%N) as [k m| | |] eqn:E; try discriminate. inversion H; subst.
      assert (G : good (nx + 2) k n1) by (eapply seqM_good; [|exact E]; intros; eapply IH; eassumption).
      destruct G as (G1 & G2 & G3). unfold good.
      rewrite ids_cons, ids_mk, ids_cons, ids_mk. simpl (ids []). rewrite !app_nil_r.
      split; [lia|]. split.
      * intros j [<-|[<-|Hj]]; [lia | lia | apply G2 in Hj; lia].
      * constructor; [intros [Hj|Hj]; [lia | apply G2 in Hj; lia]|].
        constructor; [intro Hj; apply G2 in Hj; lia | exact G3].
    + destruct (seqM _ body (nx + 1)%N) as [k m| | |] eqn:E; try discriminate. inversion H; subst.
      assert (G : good (nx + 1) k n1) by (eapply seqM_good; [|exact E]; intros; eapply IH; eassumption).
      destruct G as (G1 & G2 & G3). unfold good.
      rewrite ids_cons, ids_mk. simpl (ids []). rewrite !app_nil_r.
      split; [lia|]. split.
      * intros j [<-|Hj]; [lia | apply G2 in Hj; lia].
      * constructor; [intro Hj; apply G2 in Hj; lia | exact G3].
  - destruct kd; [|discriminate].
    destruct e as [|fl eo kf]; [eapply seqM_good; [|exact H]; intros; eapply IH; eassumption|].
    destruct (alookup name fl) as [b|]; (eapply seqM_good; [|exact H]; intros; eapply IH; eassumption).
  - eapply seqM_good; [|exact H]. intros a nx' its' n1' _ H'.
    eapply seqM_good; [|exact H']. intros; eapply IH; eassumption.
  - destruct c; [eapply seqM_good; [|exact H]; intros; eapply IH; eassumption|].
    inversion H; subst. apply good_nil.
  - destruct (alookup name lb) as [body|]; [|discriminate].
    destruct (seqM _ body (nx + 1)%N) as [k m| | |] eqn:E; try discriminate. inversion H; subst.
    assert (G : good (nx + 1) k n1) by (eapply seqM_good; [|exact E]; intros; eapply IH; eassumption).
    destruct G as (G1 & G2 & G3). unfold good.
    rewrite ids_cons, ids_root. simpl (ids []). rewrite !app_nil_r.
    split; [lia|]. split.
    * intros j [<-|Hj]; [lia | apply G2 in Hj; lia].
    * constructor; [intro Hj; apply G2 in Hj; lia | exact G3].
Qed.

Lemma expand_page_good fuel p its n : expand_page fuel p = XOk its n -> good 0%N its n.
Proof. unfold expand_page. intro H. eapply seqM_good; [|exact H]. intros; eapply expand_good; eassumption. Qed.

(* ====================================================================================== *)
(* 8. end to end                                                                           *)
(* ====================================================================================== *)
Lemma ids_distinct_lemma : forall fuel p its n, expand_page fuel p = XOk its n -> NoDup (ids its).
Proof. intros fuel p its n H. apply (expand_page_good _ _ _ _ H). Qed.

Lemma post_render_is_inlining_lemma : forall its,
  NoDup (ids its) -> page_render ([], []) its = Done (inline [] its, ([], [])).
Proof. exact page_from_empty. Qed.

Lemma inline_is_tree_lemma : forall A its, toks (inlT A its) = inline A its.
Proof. intros A its. apply (toks_inlT (tsize its)). lia. Qed.

Lemma root_run_lemma : forall F tb c body,
  NoDup (c :: ids body) -> fresh (c :: ids body) tb -> (2 * ninst [IRoot c body] <= F)%nat ->
  exists tb', post_render F tb c body = Done (inline [] [IRoot c body], tb') /\
              teq (fst tb) (fst tb') /\ teq (snd tb) (snd tb').
Proof.
  intros F tb c body H1 H2 HF. rewrite ninst_cons, ninst_root in HF. simpl (ninst []) in HF.
  destruct (post_render_spec F tb c body H1 H2 ltac:(lia)) as (tb' & H).
  exists tb'. rewrite inline_cons, inline_root. simpl. rewrite app_nil_r. exact H.
Qed.

Lemma roots_and_only_roots_lemma : forall its c,
  NoDup (ids its) -> In c (ids its) ->
  exists B out, outputs c [] its = [out] /\ Forall (root_ok (B ++ [c])) out /\
                carrying c (inlT [] its) = top_elems out.
Proof. intros its c Hnd Hi. apply (marked (tsize its) its c []); auto. Qed.

Lemma foreign_id_absent_lemma : forall its c, ~ In c (ids its) -> carrying c (inlT [] its) = O.
Proof. intros its c H. apply (carrying_absent (tsize its)); auto. Qed.

Lemma shared_roots_lemma : forall A c cs body t kids,
  In (IElem t kids) body ->
  In (HElem t (A ++ c :: cs) (inlT [] kids)) (inlT_item A (chain_item c cs body)).
Proof. intros. rewrite chain_inlT. now apply direct_elem_in. Qed.

Lemma program_lemma : forall fuel p its n,
  expand_page fuel p = XOk its n ->
  page_render ([], []) its = Done (toks (inlT [] its), ([], [])) /\
  forall c, In c (ids its) ->
    exists B out, outputs c [] its = [out] /\ Forall (root_ok (B ++ [c])) out /\
                  carrying c (inlT [] its) = top_elems out.
Proof.
  intros fuel p its n H. pose proof (ids_distinct_lemma _ _ _ _ H) as Hnd. split.
  - rewrite inline_is_tree_lemma. now apply page_from_empty.
  - intros c Hc. now apply roots_and_only_roots_lemma.
Qed.
