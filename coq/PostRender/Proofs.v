(* Proofs for property C14 (model: PostRender/Model.v). *)
From DJC Require Import Lib.Base PostRender.Model.

(* ====================================================================================== *)
(* 1. unfolding equations of the nested fixpoints                                          *)
(* ====================================================================================== *)
Lemma flat_cons A x r : flat A (x :: r) = flat_item A x ++ flat A r. Proof. reflexivity. Qed.
Lemma flat_elem A t k : flat_item A (IElem t k) = Open t A :: flat [] k ++ [Close t]. Proof. reflexivity. Qed.
Lemma inline_cons A x r : inline A (x :: r) = inline_item A x ++ inline A r. Proof. reflexivity. Qed.
Lemma inline_elem A t k : inline_item A (IElem t k) = Open t A :: inline [] k ++ [Close t]. Proof. reflexivity. Qed.
Lemma inline_comp A c b : inline_item A (IComp c b) = inline (A ++ [c]) b. Proof. reflexivity. Qed.
Lemma inlT_cons A x r : inlT A (x :: r) = inlT_item A x ++ inlT A r. Proof. reflexivity. Qed.
Lemma inlT_elem A t k : inlT_item A (IElem t k) = [HElem t A (inlT [] k)]. Proof. reflexivity. Qed.
Lemma inlT_comp A c b : inlT_item A (IComp c b) = inlT (A ++ [c]) b. Proof. reflexivity. Qed.
Lemma ids_cons x r : ids (x :: r) = ids_item x ++ ids r. Proof. reflexivity. Qed.
Lemma ids_elem t k : ids_item (IElem t k) = ids k. Proof. reflexivity. Qed.
Lemma ids_comp c b : ids_item (IComp c b) = c :: ids b. Proof. reflexivity. Qed.
Lemma ninst_cons x r : ninst (x :: r) = (ninst_item x + ninst r)%nat. Proof. reflexivity. Qed.
Lemma ninst_elem t k : ninst_item (IElem t k) = ninst k. Proof. reflexivity. Qed.
Lemma ninst_comp c b : ninst_item (IComp c b) = S (ninst b). Proof. reflexivity. Qed.
Lemma ph_attrs_cons A x r : ph_attrs A (x :: r) = ph_attrs_item A x ++ ph_attrs A r. Proof. reflexivity. Qed.
Lemma ph_attrs_elem A t k : ph_attrs_item A (IElem t k) = ph_attrs [] k. Proof. reflexivity. Qed.
Lemma ph_bodies_cons x r : ph_bodies (x :: r) = ph_bodies_item x ++ ph_bodies r. Proof. reflexivity. Qed.
Lemma ph_bodies_elem t k : ph_bodies_item (IElem t k) = ph_bodies k. Proof. reflexivity. Qed.
Lemma outputs_cons c A x r : outputs c A (x :: r) = outputs_item c A x ++ outputs c A r. Proof. reflexivity. Qed.
Lemma outputs_elem c A t k : outputs_item c A (IElem t k) = outputs c [] k. Proof. reflexivity. Qed.
Lemma outputs_comp c A c' b :
  outputs_item c A (IComp c' b) = (if N.eqb c c' then [inlT_item A (IComp c' b)] else []) ++ outputs c (A ++ [c']) b.
Proof. reflexivity. Qed.
Lemma toks_cons x r : toks (x :: r) = toks_node x ++ toks r. Proof. reflexivity. Qed.
Lemma toks_elem t a k : toks_node (HElem t a k) = Open t a :: toks k ++ [Close t]. Proof. reflexivity. Qed.
Lemma carrying_cons c x r : carrying c (x :: r) = (carrying_node c x + carrying c r)%nat. Proof. reflexivity. Qed.
Lemma carrying_elem c t a k :
  carrying_node c (HElem t a k) = ((if has_id c a then 1 else 0) + carrying c k)%nat.
Proof. reflexivity. Qed.

(* size of a forest, for well-founded induction over the nested type *)
Fixpoint tsize_item (it : item) : nat :=
  match it with
  | IElem _ kids => S ((fix go (l : list item) : nat := match l with [] => O | x :: r => tsize_item x + go r end) kids)
  | IText => 1
  | IComp _ body => S ((fix go (l : list item) : nat := match l with [] => O | x :: r => tsize_item x + go r end) body)
  end.
Definition tsize (its : list item) : nat :=
  (fix go (l : list item) : nat := match l with [] => O | x :: r => tsize_item x + go r end) its.
Lemma tsize_cons x r : tsize (x :: r) = (tsize_item x + tsize r)%nat. Proof. reflexivity. Qed.
Lemma tsize_elem t k : tsize_item (IElem t k) = S (tsize k). Proof. reflexivity. Qed.
Lemma tsize_comp c b : tsize_item (IComp c b) = S (tsize b). Proof. reflexivity. Qed.
Lemma tsize_item_pos x : (1 <= tsize_item x)%nat.
Proof. destruct x; simpl; lia. Qed.

(* ====================================================================================== *)
(* 2. lists without duplicates, association lists                                          *)
(* ====================================================================================== *)
Lemma nodup_app {A} (a b : list A) :
  NoDup (a ++ b) <-> NoDup a /\ NoDup b /\ (forall x, In x a -> ~ In x b).
Proof.
  induction a as [|x a IH]; simpl.
  - split; [intro H; repeat split; [constructor | exact H | intros ? []] | intros (_ & H & _); exact H].
  - split.
    + intro H. inversion H as [|? ? Hn Hd]; subst. apply IH in Hd as (Ha & Hb & Hab).
      repeat split.
      * constructor; [intro Hi; apply Hn, in_or_app; now left | exact Ha].
      * exact Hb.
      * intros y [->|Hy]; [intro Hi; apply Hn, in_or_app; now right | now apply Hab].
    + intros (Ha & Hb & Hab). inversion Ha as [|? ? Hn Hd]; subst. constructor.
      * intro Hi. apply in_app_or in Hi as [Hi|Hi]; [now apply Hn | exact (Hab x (or_introl eq_refl) Hi)].
      * apply IH. repeat split; [exact Hd | exact Hb | intros y Hy; apply Hab; now right].
Qed.

Section AL.
  Context {V : Type}.
  Implicit Types (l : list (N * V)).

  Lemma alookup_aremove_eq k l : alookup k (aremove k l) = None.
  Proof.
    induction l as [|[k' v] l IH]; simpl; [reflexivity|].
    destruct (N.eqb k k') eqn:E; [exact IH|]. simpl. now rewrite E.
  Qed.
  Lemma alookup_aremove_neq k k' l : k <> k' -> alookup k (aremove k' l) = alookup k l.
  Proof.
    intro Hn. induction l as [|[k2 v] l IH]; simpl; [reflexivity|].
    destruct (N.eqb k' k2) eqn:E.
    - apply N.eqb_eq in E; subst k2. rewrite IH.
      destruct (N.eqb k k') eqn:E2; [apply N.eqb_eq in E2; contradiction | reflexivity].
    - simpl. now rewrite IH.
  Qed.
  Lemma alookup_aset_eq k v l : alookup k (aset k v l) = Some v.
  Proof. unfold aset; simpl. now rewrite N.eqb_refl. Qed.
  Lemma alookup_aset_neq k k' v l : k <> k' -> alookup k (aset k' v l) = alookup k l.
  Proof.
    intro Hn. unfold aset; simpl.
    destruct (N.eqb k k') eqn:E; [apply N.eqb_eq in E; contradiction|].
    now apply alookup_aremove_neq.
  Qed.
  Lemma alookup_aupdate_out k o l : ~ In k (map fst o) -> alookup k (aupdate o l) = alookup k l.
  Proof.
    unfold aupdate. revert l. induction o as [|[k' v] o IH]; intros l Hn; simpl; [reflexivity|].
    rewrite IH by (intro Hi; apply Hn; now right).
    apply alookup_aset_neq. intro E; apply Hn; left; now subst.
  Qed.
  Lemma alookup_aupdate_in k v o l : NoDup (map fst o) -> In (k, v) o -> alookup k (aupdate o l) = Some v.
  Proof.
    unfold aupdate. revert l. induction o as [|[k' v'] o IH]; intros l Hnd Hi; simpl in *; [contradiction|].
    inversion Hnd as [|? ? Hn Hd]; subst. destruct Hi as [Hi|Hi].
    - inversion Hi; subst. fold (aupdate o (aset k v l)). rewrite alookup_aupdate_out by exact Hn.
      apply alookup_aset_eq.
    - now apply IH.
  Qed.
  Lemma alookup_all_none_nil l : (forall k, alookup k l = None) -> l = [].
  Proof.
    destruct l as [|[k v] l]; [reflexivity|]. intro H. specialize (H k). simpl in H.
    rewrite N.eqb_refl in H. discriminate.
  Qed.
End AL.

(* table t' = table t with every key of I deleted *)
Definition same_out {V} (I : list N) (t t' : list (N * V)) : Prop :=
  (forall k, ~ In k I -> alookup k t' = alookup k t) /\ (forall k, In k I -> alookup k t' = None).

Lemma same_out_refl {V} (t : list (N * V)) : same_out [] t t.
Proof. split; [reflexivity | intros k []]. Qed.

Lemma same_out_trans {V} I1 I2 (t t1 t2 : list (N * V)) :
  same_out I1 t t1 -> same_out I2 t1 t2 -> same_out (I1 ++ I2) t t2.
Proof.
  intros [H1 H1'] [H2 H2']. split.
  - intros k Hn. rewrite H2, H1; [reflexivity | |]; intro Hi; apply Hn, in_or_app; auto.
  - intros k Hi. destruct (in_dec N.eq_dec k I2) as [Hk|Hk]; [now apply H2'|].
    apply in_app_or in Hi as [Hi|Hi]; [|contradiction]. rewrite H2 by exact Hk. now apply H1'.
Qed.

Lemma same_out_ext {V} I I' (t t' : list (N * V)) :
  (forall k, In k I <-> In k I') -> same_out I t t' -> same_out I' t t'.
Proof.
  intros He [H1 H2]. split; intros k Hk; [apply H1 | apply H2]; rewrite He; exact Hk.
Qed.

(* ====================================================================================== *)
(* 3. shallow placeholders of a fragment                                                   *)
(* ====================================================================================== *)
Lemma ids_app a b : ids (a ++ b) = ids a ++ ids b.
Proof. induction a as [|x a IH]; [reflexivity|]. simpl app. rewrite !ids_cons, IH. now rewrite app_assoc. Qed.

Lemma ph_keys_eq : forall n its A, (tsize its <= n)%nat -> map fst (ph_attrs A its) = map fst (ph_bodies its).
Proof.
  induction n as [|n IH]; intros its A Hs.
  - destruct its as [|x r]; [reflexivity|]. rewrite tsize_cons in Hs. pose proof (tsize_item_pos x). lia.
  - destruct its as [|x r]; [reflexivity|]. rewrite tsize_cons in Hs.
    rewrite ph_attrs_cons, ph_bodies_cons, !map_app.
    pose proof (tsize_item_pos x) as Hp.
    rewrite (IH r A) by lia. f_equal.
    destruct x as [t k| |c b]; try reflexivity.
    rewrite ph_attrs_elem, ph_bodies_elem. rewrite tsize_elem in Hs. apply IH. lia.
Qed.

Lemma ph_bodies_in_ids : forall n its k, (tsize its <= n)%nat -> In k (map fst (ph_bodies its)) -> In k (ids its).
Proof.
  induction n as [|n IH]; intros its k Hs Hi.
  - destruct its as [|x r]; [contradiction|]. rewrite tsize_cons in Hs. pose proof (tsize_item_pos x). lia.
  - destruct its as [|x r]; [contradiction|]. rewrite tsize_cons in Hs. pose proof (tsize_item_pos x) as Hp.
    rewrite ph_bodies_cons, map_app in Hi. rewrite ids_cons. apply in_or_app.
    apply in_app_or in Hi as [Hi|Hi]; [left | right; apply (IH r); [lia | exact Hi]].
    destruct x as [t kk| |c b].
    + rewrite ph_bodies_elem in Hi. rewrite ids_elem. rewrite tsize_elem in Hs. apply (IH kk); [lia | exact Hi].
    + contradiction.
    + simpl in Hi. destruct Hi as [<-|[]]. rewrite ids_comp. now left.
Qed.

Lemma ph_bodies_nodup : forall n its, (tsize its <= n)%nat -> NoDup (ids its) -> NoDup (map fst (ph_bodies its)).
Proof.
  induction n as [|n IH]; intros its Hs Hnd.
  - destruct its as [|x r]; [constructor|]. rewrite tsize_cons in Hs. pose proof (tsize_item_pos x). lia.
  - destruct its as [|x r]; [constructor|]. rewrite tsize_cons in Hs. pose proof (tsize_item_pos x) as Hp.
    rewrite ids_cons in Hnd. apply nodup_app in Hnd as (Hx & Hr & Hd).
    rewrite ph_bodies_cons, map_app. apply nodup_app. repeat split.
    + destruct x as [t kk| |c b].
      * rewrite ph_bodies_elem. rewrite ids_elem in Hx. rewrite tsize_elem in Hs. apply IH; [lia | exact Hx].
      * constructor.
      * simpl. constructor; [intros [] | constructor].
    + apply IH; [lia | exact Hr].
    + intros k Hk Hk'. apply (Hd k).
      * destruct x as [t kk| |c b].
        -- rewrite ph_bodies_elem in Hk. rewrite ids_elem. rewrite tsize_elem in Hs.
           apply (ph_bodies_in_ids n kk); [lia | exact Hk].
        -- contradiction.
        -- simpl in Hk. destruct Hk as [<-|[]]. rewrite ids_comp. now left.
      * apply (ph_bodies_in_ids n r); [lia | exact Hk'].
Qed.

(* ====================================================================================== *)
(* 4. the queue                                                                            *)
(* ====================================================================================== *)
Fixpoint steps (n : nat) (s : st) : option st :=
  match n with
  | O => Some s
  | S m => match step s with inl s' => steps m s' | inr _ => None end
  end.

Lemma steps_add a b s : steps (a + b) s = match steps a s with Some s' => steps b s' | None => None end.
Proof.
  revert s. induction a as [|a IH]; intro s; simpl; [reflexivity|].
  destruct (step s) as [s'|e]; [apply IH | reflexivity].
Qed.

Lemma steps_idle n s : queue s = [] -> steps n s = Some s.
Proof.
  intro Hq. induction n as [|n IH]; simpl; [reflexivity|].
  unfold step. rewrite Hq. exact IH.
Qed.

Lemma run_of_steps n s s' : steps n s = Some s' -> queue s' = [] -> run n s = Done s'.
Proof.
  revert s. induction n as [|n IH]; intros s Hs Hq; simpl in *.
  - inversion Hs; subst. now rewrite Hq.
  - destruct (queue s) eqn:Eq.
    + unfold step in Hs. rewrite Eq in Hs. rewrite steps_idle in Hs by exact Eq. now inversion Hs.
    + destruct (step s) as [s1|e]; [now apply IH | discriminate].
Qed.

Lemma split_go_plain c p acc t r :
  (match t with PhTok _ _ => False | _ => True end) ->
  split_go c p acc (t :: r) = split_go c p (acc ++ [t]) r.
Proof. destruct t; simpl; intros H; try reflexivity; contradiction. Qed.

Definition pget (s : st) (k : N) : list tok := aget [] k (parts s).

Lemma aget_parts_append_eq k x ps : aget [] k (parts_append k x ps) = aget [] k ps ++ x.
Proof. unfold parts_append, aget at 1. now rewrite alookup_aset_eq. Qed.
Lemma alookup_parts_append_neq k k' x ps : k <> k' -> alookup k (parts_append k' x ps) = alookup k ps.
Proof. intro H. unfold parts_append. now apply alookup_aset_neq. Qed.

(* conditional append of the text before a placeholder *)
Definition add_before (c : N) (b : list tok) (ps : list (N * list tok)) : list (N * list tok) :=
  match b with [] => ps | _ :: _ => parts_append c b ps end.
Lemma aget_add_before_eq c b ps : aget [] c (add_before c b ps) = aget [] c ps ++ b.
Proof. destruct b; simpl; [now rewrite app_nil_r | apply aget_parts_append_eq]. Qed.
Lemma alookup_add_before_neq k c b ps : k <> c -> alookup k (add_before c b ps) = alookup k ps.
Proof. intro H. destruct b; simpl; [reflexivity | now apply alookup_parts_append_neq]. Qed.

Lemma step_child s b g c p q body inh :
  queue s = {| q_before := b; q_child := Some g; q_parent := Some c; q_grand := p |} :: q ->
  alookup g (rend s) = Some body ->
  alookup g (cattrs s) = Some inh ->
  step s = inl {| queue := split_go g (Some c) [] (flat (inh ++ [g]) body) ++ q;
                  parts := add_before c b (parts s);
                  content := content s;
                  rend := aupdate (ph_bodies body) (aremove g (rend s));
                  cattrs := aupdate (ph_attrs (inh ++ [g]) body) (aremove g (cattrs s)) |}.
Proof.
  intros Hq Hr Ha. unfold step. rewrite Hq. cbn [q_child q_before q_parent q_grand].
  destruct b; cbn [add_before]; rewrite Hr, Ha; reflexivity.
Qed.

Lemma step_end s b c g q :
  queue s = {| q_before := b; q_child := None; q_parent := Some c; q_grand := Some g |} :: q ->
  step s = inl {| queue := q; parts := parts_append g (pget s c ++ b) (aremove c (parts s));
                  content := content s; rend := rend s; cattrs := cattrs s |}.
Proof. intro Hq. unfold step. rewrite Hq. reflexivity. Qed.

(* what processing the placeholders of one fragment does to the rest of the state *)
Definition frame (I : list N) (c : N) (s s' : st) : Prop :=
  content s' = content s /\
  same_out I (rend s) (rend s') /\ same_out I (cattrs s) (cattrs s') /\
  (forall k, k <> c -> ~ In k I -> alookup k (parts s') = alookup k (parts s)) /\
  (forall k, In k I -> alookup k (parts s') = None).

Lemma frame_refl c s : frame [] c s s.
Proof. repeat split; try reflexivity; intros k []. Qed.

Lemma frame_trans I1 I2 c s s1 s2 :
  ~ In c I1 -> frame I1 c s s1 -> frame I2 c s1 s2 -> frame (I1 ++ I2) c s s2.
Proof.
  intros Hc (Hc1 & Hr1 & Ha1 & Hp1 & Hn1) (Hc2 & Hr2 & Ha2 & Hp2 & Hn2).
  split; [congruence|]. split; [eapply same_out_trans; eassumption|].
  split; [eapply same_out_trans; eassumption|]. split.
  - intros k Hk Hn. rewrite Hp2, Hp1; auto; intro Hi; apply Hn, in_or_app; auto.
  - intros k Hi. destruct (in_dec N.eq_dec k I2) as [Hk|Hk]; [now apply Hn2|].
    apply in_app_or in Hi as [Hi|Hi]; [|contradiction].
    rewrite Hp2; [now apply Hn1 | intro; subst; contradiction | exact Hk].
Qed.

Lemma frame_ext I I' c s s' : (forall k, In k I <-> In k I') -> frame I c s s' -> frame I' c s s'.
Proof.
  intros He (H1 & H2 & H3 & H4 & H5).
  split; [exact H1|]. split; [eapply same_out_ext; eassumption|]. split; [eapply same_out_ext; eassumption|].
  split; intros k; [intros Hk Hn; apply H4; [exact Hk | rewrite He; exact Hn] | intro Hk; apply H5; rewrite He; exact Hk].
Qed.

Definition reg_ok (rd : list (N * list item)) (its : list item) : Prop :=
  forall c b, In (c, b) (ph_bodies its) -> alookup c rd = Some b.
Definition att_ok (ca : list (N * list N)) (A : list N) (its : list item) : Prop :=
  forall c a, In (c, a) (ph_attrs A its) -> alookup c ca = Some a.

Definition proc_spec (its : list item) : Prop :=
  forall A c p acc suffix Q s,
    NoDup (ids its) -> ~ In c (ids its) ->
    queue s = split_go c p acc (flat A its ++ suffix) ++ Q ->
    (forall k, In k (ids its) -> alookup k (parts s) = None) ->
    reg_ok (rend s) its -> att_ok (cattrs s) A its ->
    exists s' acc',
      steps (2 * ninst its) s = Some s' /\
      queue s' = split_go c p acc' suffix ++ Q /\
      pget s' c ++ acc' = pget s c ++ acc ++ inline A its /\
      frame (ids its) c s s'.

Lemma in_map_fst {A B} (k : A) (v : B) l : In (k, v) l -> In k (map fst l).
Proof. intro H. apply in_map_iff. exists (k, v). auto. Qed.

Lemma proc : forall n its, (tsize its <= n)%nat -> proc_spec its.
Proof.
  induction n as [|n IH]; intros its Hs.
  { destruct its as [|x r]; [|rewrite tsize_cons in Hs; pose proof (tsize_item_pos x); lia].
    intros A c p acc suffix Q s _ _ Hq _ _ _. exists s, acc. simpl.
    repeat split; try reflexivity; try (intros k []); [exact Hq | now rewrite app_nil_r]. }
  destruct its as [|x r].
  { intros A c p acc suffix Q s _ _ Hq _ _ _. exists s, acc. simpl.
    repeat split; try reflexivity; try (intros k []); [exact Hq | now rewrite app_nil_r]. }
  rewrite tsize_cons in Hs. pose proof (tsize_item_pos x) as Hpos.
  intros A c p acc suffix Q s Hnd Hc Hq Hpn Hreg Hatt.
  rewrite ids_cons in Hnd, Hc, Hpn. apply nodup_app in Hnd as (Hndx & Hndr & Hdis).
  assert (Hcx : ~ In c (ids_item x)) by (intro; apply Hc, in_or_app; auto).
  assert (Hcr : ~ In c (ids r)) by (intro; apply Hc, in_or_app; auto).
  rewrite flat_cons, <- app_assoc in Hq.
  destruct x as [t kids| |g body].
  - (* element: its children are not roots *)
    rewrite flat_elem in Hq. cbn [app split_go] in Hq.
    rewrite <- app_assoc in Hq. rewrite ids_elem in *. rewrite tsize_elem in Hs.
    destruct (IH kids ltac:(lia) [] c p (acc ++ [Open t A]) ([Close t] ++ flat A r ++ suffix) Q s) as (s1 & acc1 & Hst1 & Hq1 & Hg1 & Hf1);
      try assumption.
    { intros k Hk. apply Hpn, in_or_app; auto. }
    { intros k b Hi. apply Hreg. rewrite ph_bodies_cons, ph_bodies_elem. apply in_or_app; auto. }
    { intros k a Hi. apply Hatt. rewrite ph_attrs_cons, ph_attrs_elem. apply in_or_app; auto. }
    cbn [app split_go] in Hq1.
    destruct Hf1 as (Hco1 & Hrd1 & Hca1 & Hpp1 & Hpn1).
    destruct (IH r ltac:(lia) A c p (acc1 ++ [Close t]) suffix Q s1) as (s2 & acc2 & Hst2 & Hq2 & Hg2 & Hf2);
      try assumption.
    { intros k Hk. rewrite Hpp1; [apply Hpn, in_or_app; auto | intro; subst; contradiction | intro Hk'; exact (Hdis k Hk' Hk)]. }
    { intros k b Hi. destruct Hrd1 as [Hrd1 _]. rewrite Hrd1.
      - apply Hreg. rewrite ph_bodies_cons. apply in_or_app; auto.
      - intro Hk'. apply (Hdis k Hk'). apply (ph_bodies_in_ids (tsize r) r); [lia | eapply in_map_fst; eassumption]. }
    { intros k a Hi. destruct Hca1 as [Hca1 _]. rewrite Hca1.
      - apply Hatt. rewrite ph_attrs_cons. apply in_or_app; auto.
      - intro Hk'. apply (Hdis k Hk'). apply (ph_bodies_in_ids (tsize r) r); [lia|].
        rewrite <- (ph_keys_eq (tsize r) r A) by lia. eapply in_map_fst; eassumption. }
    exists s2, acc2. split; [|split; [exact Hq2|split]].
    + rewrite ninst_cons, ninst_elem. replace (2 * (ninst kids + ninst r))%nat with (2 * ninst kids + 2 * ninst r)%nat by lia.
      rewrite steps_add, Hst1. exact Hst2.
    + rewrite Hg2.
      replace (pget s1 c ++ (acc1 ++ [Close t]) ++ inline A r) with ((pget s1 c ++ acc1) ++ [Close t] ++ inline A r)
        by (repeat rewrite <- app_assoc; reflexivity).
      rewrite Hg1. rewrite inline_cons, inline_elem. repeat rewrite <- app_assoc. simpl. repeat rewrite <- app_assoc. reflexivity.
    + eapply frame_trans; [exact Hcx | | exact Hf2]. exact (conj Hco1 (conj Hrd1 (conj Hca1 (conj Hpp1 Hpn1)))).
  - (* text *)
    cbn [flat_item app split_go] in Hq.
    destruct (IH r ltac:(simpl in Hs; lia) A c p (acc ++ [Txt]) suffix Q s) as (s2 & acc2 & Hst2 & Hq2 & Hg2 & Hf2);
      try assumption.
    exists s2, acc2. split; [exact Hst2|]. split; [exact Hq2|]. split; [|exact Hf2].
    rewrite Hg2. rewrite inline_cons. simpl. repeat rewrite <- app_assoc. reflexivity.
  - (* nested component: placeholder -> render with inherited attributes -> its own parts -> join *)
    rewrite ids_comp in *. rewrite tsize_comp in Hs.
    inversion Hndx as [|? ? Hgb Hndb]; subst.
    assert (Hcg : c <> g) by (intro; subst; apply Hcx; now left).
    assert (Hcb : ~ In c (ids body)) by (intro; apply Hcx; now right).
    cbn [flat_item app split_go] in Hq.
    assert (Hrg : alookup g (rend s) = Some body).
    { apply Hreg. rewrite ph_bodies_cons. apply in_or_app; left. now left. }
    assert (Hag : alookup g (cattrs s) = Some A).
    { apply Hatt. rewrite ph_attrs_cons. apply in_or_app; left. now left. }
    pose proof (step_child s acc g c p _ body A Hq Hrg Hag) as Hstep.
    set (s1 := {| queue := split_go g (Some c) [] (flat (A ++ [g]) body) ++ split_go c p [] (flat A r ++ suffix) ++ Q;
                  parts := add_before c acc (parts s); content := content s;
                  rend := aupdate (ph_bodies body) (aremove g (rend s));
                  cattrs := aupdate (ph_attrs (A ++ [g]) body) (aremove g (cattrs s)) |}) in *.
    assert (Hkb : NoDup (map fst (ph_bodies body))) by (apply (ph_bodies_nodup (tsize body)); [lia | exact Hndb]).
    destruct (IH body ltac:(lia) (A ++ [g]) g (Some c) [] [] (split_go c p [] (flat A r ++ suffix) ++ Q) s1)
      as (s2 & acc2 & Hst2 & Hq2 & Hg2 & Hf2); try assumption.
    { unfold s1; cbn [queue]. now rewrite app_nil_r. }
    { intros k Hk. unfold s1; cbn [parts]. rewrite alookup_add_before_neq by (intro; subst; contradiction).
      apply Hpn. simpl. right. apply in_or_app; auto. }
    { intros k b Hi. unfold s1; cbn [rend]. now apply alookup_aupdate_in. }
    { intros k a Hi. unfold s1; cbn [cattrs]. apply alookup_aupdate_in; [|exact Hi].
      rewrite (ph_keys_eq (tsize body) body) by lia. exact Hkb. }
    cbn [split_go] in Hq2.
    destruct Hf2 as (Hco2 & Hrd2 & Hca2 & Hpp2 & Hpn2).
    pose proof (step_end s2 acc2 g c _ Hq2) as Hstep2.
    set (s3 := {| queue := split_go c p [] (flat A r ++ suffix) ++ Q;
                  parts := parts_append c (pget s2 g ++ acc2) (aremove g (parts s2));
                  content := content s2; rend := rend s2; cattrs := cattrs s2 |}) in *.
    assert (Hs1g : pget s1 g = []).
    { unfold pget, aget, s1; cbn [parts]. rewrite alookup_add_before_neq by congruence.
      rewrite Hpn; [reflexivity | now left]. }
    assert (Hs3c : pget s3 c = pget s c ++ acc ++ inline (A ++ [g]) body).
    { unfold pget at 1, s3; cbn [parts]. rewrite aget_parts_append_eq.
      rewrite Hg2, Hs1g. simpl. unfold aget. rewrite alookup_aremove_neq by exact Hcg.
      rewrite Hpp2 by (congruence || exact Hcb). unfold s1; cbn [parts].
      fold (aget [] c (add_before c acc (parts s))). rewrite aget_add_before_eq.
      unfold pget. now rewrite <- app_assoc. }
    (* facts about keys outside {g} + ids body, from s to s3 *)
    assert (Hout : forall k, k <> g -> ~ In k (ids body) ->
              alookup k (rend s3) = alookup k (rend s) /\ alookup k (cattrs s3) = alookup k (cattrs s) /\
              (k <> c -> alookup k (parts s3) = alookup k (parts s))).
    { intros k Hkg Hkb'. unfold s3; cbn [rend cattrs parts].
      destruct Hrd2 as [Hrd2 _]. destruct Hca2 as [Hca2 _]. rewrite Hrd2, Hca2 by exact Hkb'.
      unfold s1; cbn [rend cattrs parts]. repeat split.
      - rewrite alookup_aupdate_out; [now apply alookup_aremove_neq|].
        intro Hi. apply Hkb'. apply (ph_bodies_in_ids (tsize body) body); [lia | exact Hi].
      - rewrite alookup_aupdate_out; [now apply alookup_aremove_neq|].
        rewrite (ph_keys_eq (tsize body) body) by lia.
        intro Hi. apply Hkb'. apply (ph_bodies_in_ids (tsize body) body); [lia | exact Hi].
      - intro Hkc. rewrite alookup_parts_append_neq by exact Hkc. rewrite alookup_aremove_neq by exact Hkg.
        rewrite Hpp2 by assumption. now apply alookup_add_before_neq. }
    assert (Hin : forall k, In k (g :: ids body) ->
              alookup k (rend s3) = None /\ alookup k (cattrs s3) = None /\ alookup k (parts s3) = None).
    { intros k Hk. unfold s3; cbn [rend cattrs parts].
      assert (Hkc : k <> c) by (intro; subst; contradiction).
      rewrite alookup_parts_append_neq by exact Hkc.
      destruct (in_dec N.eq_dec k (ids body)) as [Hkb'|Hkb'].
      - destruct Hrd2 as [_ Hrd2]. destruct Hca2 as [_ Hca2]. rewrite Hrd2, Hca2 by exact Hkb'.
        repeat split. rewrite alookup_aremove_neq by (intro; subst; contradiction). now apply Hpn2.
      - destruct Hk as [Hk|Hk]; [subst k|contradiction].
        destruct Hrd2 as [Hrd2 _]. destruct Hca2 as [Hca2 _]. rewrite Hrd2, Hca2 by exact Hkb'.
        unfold s1; cbn [rend cattrs]. repeat split.
        + rewrite alookup_aupdate_out; [apply alookup_aremove_eq|].
          intro Hi. apply Hkb'. apply (ph_bodies_in_ids (tsize body) body); [lia | exact Hi].
        + rewrite alookup_aupdate_out; [apply alookup_aremove_eq|].
          rewrite (ph_keys_eq (tsize body) body) by lia.
          intro Hi. apply Hkb'. apply (ph_bodies_in_ids (tsize body) body); [lia | exact Hi].
        + apply alookup_aremove_eq. }
    assert (Hf13 : frame (g :: ids body) c s s3).
    { split; [unfold s3; cbn [content]; rewrite Hco2; reflexivity|].
      split; [split; intros k Hk; [apply Hout; intro; apply Hk; simpl; auto | apply Hin; exact Hk]|].
      split; [split; intros k Hk; [apply Hout; intro; apply Hk; simpl; auto | apply Hin; exact Hk]|].
      split; [intros k Hkc Hk; apply Hout; auto; intro; apply Hk; simpl; auto | intros k Hk; apply Hin; exact Hk]. }
    destruct (IH r ltac:(lia) A c p [] suffix Q s3) as (s4 & acc4 & Hst4 & Hq4 & Hg4 & Hf4); try assumption.
    { reflexivity. }
    { intros k Hk. assert (Hkx : ~ In k (g :: ids body)) by (intro Hk'; exact (Hdis k Hk' Hk)).
      destruct (Hout k) as (_ & _ & Hp); [intro; subst; apply Hkx; now left | intro; apply Hkx; now right |].
      rewrite Hp by (intro; subst; contradiction). apply Hpn, in_or_app; auto. }
    { intros k b Hi.
      assert (Hk : In k (ids r)) by (apply (ph_bodies_in_ids (tsize r) r); [lia | eapply in_map_fst; eassumption]).
      assert (Hkx : ~ In k (g :: ids body)) by (intro Hk'; exact (Hdis k Hk' Hk)).
      destruct (Hout k) as (Hr & _ & _); [intro; subst; apply Hkx; now left | intro; apply Hkx; now right |].
      rewrite Hr. apply Hreg. rewrite ph_bodies_cons. apply in_or_app; auto. }
    { intros k a Hi.
      assert (Hk : In k (ids r)).
      { apply (ph_bodies_in_ids (tsize r) r); [lia|]. rewrite <- (ph_keys_eq (tsize r) r A) by lia.
        eapply in_map_fst; eassumption. }
      assert (Hkx : ~ In k (g :: ids body)) by (intro Hk'; exact (Hdis k Hk' Hk)).
      destruct (Hout k) as (_ & Ha & _); [intro; subst; apply Hkx; now left | intro; apply Hkx; now right |].
      rewrite Ha. apply Hatt. rewrite ph_attrs_cons. apply in_or_app; auto. }
    exists s4, acc4. split; [|split; [exact Hq4|split]].
    + rewrite ninst_cons, ninst_comp.
      replace (2 * (S (ninst body) + ninst r))%nat with (1 + (2 * ninst body + (1 + 2 * ninst r)))%nat by lia.
      rewrite steps_add. cbn [steps]. rewrite Hstep. rewrite steps_add, Hst2. rewrite steps_add. cbn [steps].
      rewrite Hstep2. exact Hst4.
    + rewrite Hg4, Hs3c. rewrite inline_cons, inline_comp. simpl. repeat rewrite <- app_assoc. reflexivity.
    + eapply frame_trans; [exact Hcx | exact Hf13 | exact Hf4].
Qed.

(* ====================================================================================== *)
(* 5. a root component, a page                                                             *)
(* ====================================================================================== *)
Lemma post_render_spec tb c body :
  NoDup (c :: ids body) -> alookup c (snd tb) = None ->
  exists tb', post_render (2 * S (ninst body)) tb c body = Done (inline [] [IComp c body], tb') /\
              same_out (c :: ids body) (fst tb) (fst tb') /\ same_out (c :: ids body) (snd tb) (snd tb').
Proof.
  intros Hnd Hca. inversion Hnd as [|? ? Hcb Hndb]; subst.
  set (s1 := {| queue := split_go c None [] (flat [c] body) ++ []; parts := []; content := [];
                rend := aupdate (ph_bodies body) (aremove c (aset c body (fst tb)));
                cattrs := aupdate (ph_attrs [c] body) (aremove c (snd tb)) |}).
  assert (Hstep1 : step (init_state tb c body) = inl s1).
  { unfold step, init_state. cbn [queue q_child q_before q_parent q_grand rend cattrs parts content].
    rewrite alookup_aset_eq, Hca. reflexivity. }
  assert (Hkb : NoDup (map fst (ph_bodies body))) by (apply (ph_bodies_nodup (tsize body)); [lia | exact Hndb]).
  destruct (proc (tsize body) body (le_n _) [c] c None [] [] [] s1) as (s2 & acc2 & Hst2 & Hq2 & Hg2 & Hf2);
    try assumption.
  { unfold s1; cbn [queue]. now rewrite !app_nil_r. }
  { intros k _. reflexivity. }
  { intros k b Hi. unfold s1; cbn [rend]. now apply alookup_aupdate_in. }
  { intros k a Hi. unfold s1; cbn [cattrs]. apply alookup_aupdate_in; [|exact Hi].
    rewrite (ph_keys_eq (tsize body) body) by lia. exact Hkb. }
  cbn [split_go app] in Hq2. destruct Hf2 as (Hco2 & Hrd2 & Hca2 & _ & _).
  set (s3 := {| queue := []; parts := aremove c (parts s2); content := content s2 ++ pget s2 c ++ acc2;
                rend := rend s2; cattrs := cattrs s2 |}).
  assert (Hstep3 : step s2 = inl s3).
  { unfold step. rewrite Hq2. reflexivity. }
  assert (Hrun : steps (2 * S (ninst body)) (init_state tb c body) = Some s3).
  { replace (2 * S (ninst body))%nat with (1 + (2 * ninst body + 1))%nat by lia.
    rewrite steps_add. cbn [steps]. rewrite Hstep1. rewrite steps_add, Hst2. cbn [steps]. now rewrite Hstep3. }
  exists (rend s3, cattrs s3). split; [|split].
  - unfold post_render. rewrite (run_of_steps _ _ _ Hrun eq_refl). unfold s3; cbn [content rend cattrs].
    rewrite Hco2, Hg2. unfold s1 at 1 2; cbn [content]. unfold pget, aget; cbn [parts alookup].
    rewrite inline_cons, inline_comp. simpl. now rewrite app_nil_r.
  - unfold s3; cbn [fst rend]. destruct Hrd2 as [Ho Hi]. split.
    + intros k Hk. rewrite Ho by (intro; apply Hk; now right). unfold s1; cbn [rend].
      rewrite alookup_aupdate_out.
      * rewrite alookup_aremove_neq, alookup_aset_neq; try reflexivity; intro; subst; apply Hk; now left.
      * intro Hi'. apply Hk. right. apply (ph_bodies_in_ids (tsize body) body); [lia | exact Hi'].
    + intros k [<-|Hk]; [|now apply Hi]. rewrite Ho by exact Hcb. unfold s1; cbn [rend].
      rewrite alookup_aupdate_out; [apply alookup_aremove_eq|].
      intro Hi'. apply Hcb. apply (ph_bodies_in_ids (tsize body) body); [lia | exact Hi'].
  - unfold s3; cbn [snd cattrs]. destruct Hca2 as [Ho Hi]. split.
    + intros k Hk. rewrite Ho by (intro; apply Hk; now right). unfold s1; cbn [cattrs].
      rewrite alookup_aupdate_out.
      * apply alookup_aremove_neq. intro; subst; apply Hk; now left.
      * rewrite (ph_keys_eq (tsize body) body) by lia.
        intro Hi'. apply Hk. right. apply (ph_bodies_in_ids (tsize body) body); [lia | exact Hi'].
    + intros k [<-|Hk]; [|now apply Hi]. rewrite Ho by exact Hcb. unfold s1; cbn [cattrs].
      rewrite alookup_aupdate_out; [apply alookup_aremove_eq|].
      rewrite (ph_keys_eq (tsize body) body) by lia.
      intro Hi'. apply Hcb. apply (ph_bodies_in_ids (tsize body) body); [lia | exact Hi'].
Qed.

Lemma page_render_cons tb x r :
  page_render tb (x :: r) =
  match page_item tb x with
  | Done (a, tb1) => match page_render tb1 r with
                     | Done (b, tb2) => Done (a ++ b, tb2)
                     | Failed e => Failed e | OutOfFuel => OutOfFuel end
  | Failed e => Failed e | OutOfFuel => OutOfFuel end.
Proof. reflexivity. Qed.
Lemma page_item_elem tb t kids :
  page_item tb (IElem t kids) =
  match page_render tb kids with
  | Done (k, tb1) => Done (Open t [] :: k ++ [Close t], tb1)
  | Failed e => Failed e | OutOfFuel => OutOfFuel end.
Proof. reflexivity. Qed.

Definition page_spec (its : list item) : Prop :=
  forall tb, NoDup (ids its) -> (forall k, In k (ids its) -> alookup k (snd tb) = None) ->
  exists tb', page_render tb its = Done (inline [] its, tb') /\
              same_out (ids its) (fst tb) (fst tb') /\ same_out (ids its) (snd tb) (snd tb').

Lemma page_ok : forall n its, (tsize its <= n)%nat -> page_spec its.
Proof.
  induction n as [|n IH]; intros its Hs.
  { destruct its as [|x r]; [|rewrite tsize_cons in Hs; pose proof (tsize_item_pos x); lia].
    intros tb _ _. exists tb. repeat split; try reflexivity; intros k []. }
  destruct its as [|x r].
  { intros tb _ _. exists tb. repeat split; try reflexivity; intros k []. }
  rewrite tsize_cons in Hs. pose proof (tsize_item_pos x) as Hpos.
  intros tb Hnd Hcl. rewrite ids_cons in Hnd, Hcl. apply nodup_app in Hnd as (Hndx & Hndr & Hdis).
  rewrite page_render_cons.
  assert (Hx : exists tb1, page_item tb x = Done (inline_item [] x, tb1) /\
                 same_out (ids_item x) (fst tb) (fst tb1) /\ same_out (ids_item x) (snd tb) (snd tb1)).
  { destruct x as [t kids| |c body].
    - rewrite tsize_elem in Hs. rewrite ids_elem in *.
      destruct (IH kids ltac:(lia) tb Hndx) as (tb1 & Hp & H1 & H2).
      { intros k Hk. apply Hcl, in_or_app; auto. }
      exists tb1. rewrite page_item_elem, Hp. repeat split; try apply H1; try apply H2.
    - exists tb. repeat split; try reflexivity; intros k [].
    - rewrite ids_comp in *.
      destruct (post_render_spec tb c body Hndx) as (tb1 & Hp & H1 & H2).
      { apply Hcl. now left. }
      exists tb1. split; [|split; assumption].
      change (page_item tb (IComp c body)) with (post_render (2 * S (ninst body)) tb c body).
      rewrite Hp. rewrite inline_cons. now rewrite app_nil_r. }
  destruct Hx as (tb1 & Hp1 & Hr1 & Ha1). rewrite Hp1.
  destruct (IH r ltac:(lia) tb1 Hndr) as (tb2 & Hp2 & Hr2 & Ha2).
  { intros k Hk. destruct Ha1 as [Ho _]. rewrite Ho by (intro Hk'; exact (Hdis k Hk' Hk)).
    apply Hcl, in_or_app; auto. }
  rewrite Hp2. exists tb2. split; [now rewrite inline_cons|].
  split; eapply same_out_trans; eassumption.
Qed.

(* from clean tables a page leaves clean tables *)
Lemma page_from_empty its :
  NoDup (ids its) -> page_render ([], []) its = Done (inline [] its, ([], [])).
Proof.
  intro Hnd. destruct (page_ok (tsize its) its (le_n _) ([], []) Hnd) as ((r & ca) & Hp & [H1 H1'] & [H2 H2']).
  { reflexivity. }
  cbn [fst snd] in *. rewrite Hp.
  assert (r = []) as ->.
  { apply alookup_all_none_nil. intro k. destruct (in_dec N.eq_dec k (ids its)); [now apply H1' | now rewrite H1]. }
  assert (ca = []) as ->.
  { apply alookup_all_none_nil. intro k. destruct (in_dec N.eq_dec k (ids its)); [now apply H2' | now rewrite H2]. }
  reflexivity.
Qed.

(* ====================================================================================== *)
(* 6. the inlined document: which elements carry which id                                  *)
(* ====================================================================================== *)
Lemma toks_app a b : toks (a ++ b) = toks a ++ toks b.
Proof. induction a as [|x a IH]; [reflexivity|]. simpl app. rewrite !toks_cons, IH. now rewrite app_assoc. Qed.

Lemma toks_inlT : forall n its A, (tsize its <= n)%nat -> toks (inlT A its) = inline A its.
Proof.
  induction n as [|n IH]; intros its A Hs.
  - destruct its as [|x r]; [reflexivity|]. rewrite tsize_cons in Hs. pose proof (tsize_item_pos x). lia.
  - destruct its as [|x r]; [reflexivity|]. rewrite tsize_cons in Hs. pose proof (tsize_item_pos x) as Hp.
    rewrite inlT_cons, inline_cons, toks_app, (IH r) by lia. f_equal.
    destruct x as [t k| |c b].
    + rewrite inlT_elem, inline_elem, toks_cons, toks_elem. rewrite tsize_elem in Hs. rewrite (IH k) by lia.
      simpl. now rewrite app_nil_r.
    + reflexivity.
    + rewrite inlT_comp, inline_comp. rewrite tsize_comp in Hs. apply IH. lia.
Qed.

Lemma roots_carry : forall n its A, (tsize its <= n)%nat -> Forall (root_ok A) (inlT A its).
Proof.
  induction n as [|n IH]; intros its A Hs.
  - destruct its as [|x r]; [constructor|]. rewrite tsize_cons in Hs. pose proof (tsize_item_pos x). lia.
  - destruct its as [|x r]; [constructor|]. rewrite tsize_cons in Hs. pose proof (tsize_item_pos x) as Hp.
    rewrite inlT_cons. apply Forall_app. split; [|apply IH; lia].
    destruct x as [t k| |c b].
    + rewrite inlT_elem. constructor; [|constructor]. simpl. apply incl_refl.
    + repeat constructor.
    + rewrite inlT_comp. rewrite tsize_comp in Hs.
      eapply Forall_impl; [|apply (IH b (A ++ [c])); lia].
      intros [t a k|]; simpl; [|trivial]. intros Hi x Hx. apply Hi, in_or_app. now left.
Qed.

Lemma has_id_in c a : has_id c a = true <-> In c a.
Proof.
  unfold has_id. rewrite existsb_exists. split.
  - intros (x & Hx & E). apply N.eqb_eq in E. now subst.
  - intro H. exists c. split; [exact H | apply N.eqb_refl].
Qed.
Lemma has_id_false c a : ~ In c a -> has_id c a = false.
Proof. intro H. destruct (has_id c a) eqn:E; [apply has_id_in in E; contradiction | reflexivity]. Qed.

Lemma carrying_app c a b : carrying c (a ++ b) = (carrying c a + carrying c b)%nat.
Proof. induction a as [|x a IH]; [reflexivity|]. simpl app. rewrite !carrying_cons, IH. lia. Qed.
Lemma top_elems_app a b : top_elems (a ++ b) = (top_elems a + top_elems b)%nat.
Proof. unfold top_elems. now rewrite filter_app, app_length. Qed.

(* an id that is neither inherited nor allocated below occurs nowhere *)
Lemma carrying_absent : forall n its c A, (tsize its <= n)%nat ->
  ~ In c A -> ~ In c (ids its) -> carrying c (inlT A its) = O.
Proof.
  induction n as [|n IH]; intros its c A Hs HA Hi.
  - destruct its as [|x r]; [reflexivity|]. rewrite tsize_cons in Hs. pose proof (tsize_item_pos x). lia.
  - destruct its as [|x r]; [reflexivity|]. rewrite tsize_cons in Hs. pose proof (tsize_item_pos x) as Hp.
    rewrite ids_cons in Hi. rewrite inlT_cons, carrying_app.
    rewrite (IH r) by (lia || assumption || (intro; apply Hi, in_or_app; auto)).
    rewrite Nat.add_0_r. destruct x as [t k| |g b].
    + rewrite inlT_elem, carrying_cons, carrying_elem. rewrite tsize_elem in Hs. rewrite ids_elem in Hi.
      rewrite has_id_false by exact HA.
      rewrite (IH k) by (lia || (intros []) || (intro; apply Hi, in_or_app; auto)). reflexivity.
    + reflexivity.
    + rewrite inlT_comp. rewrite tsize_comp in Hs. rewrite ids_comp in Hi. apply IH; [lia | |].
      * intro H. apply in_app_or in H as [H|[H|[]]]; [contradiction | subst; apply Hi, in_or_app; left; now left].
      * intro H. apply Hi, in_or_app. left. now right.
Qed.

(* an inherited id that is not allocated below is carried by the top-level elements and by nothing else *)
Lemma carrying_inherited : forall n its c A, (tsize its <= n)%nat ->
  In c A -> ~ In c (ids its) -> carrying c (inlT A its) = top_elems (inlT A its).
Proof.
  induction n as [|n IH]; intros its c A Hs HA Hi.
  - destruct its as [|x r]; [reflexivity|]. rewrite tsize_cons in Hs. pose proof (tsize_item_pos x). lia.
  - destruct its as [|x r]; [reflexivity|]. rewrite tsize_cons in Hs. pose proof (tsize_item_pos x) as Hp.
    rewrite ids_cons in Hi. rewrite inlT_cons, carrying_app, top_elems_app.
    rewrite (IH r c A) by (lia || assumption || (intro; apply Hi, in_or_app; auto)).
    f_equal. destruct x as [t k| |g b].
    + rewrite inlT_elem, carrying_cons, carrying_elem. rewrite tsize_elem in Hs. rewrite ids_elem in Hi.
      assert (E : has_id c A = true) by (now apply has_id_in). rewrite E.
      rewrite (carrying_absent (tsize k) k c []) by (lia || (intros []) || (intro; apply Hi, in_or_app; auto)).
      reflexivity.
    + reflexivity.
    + rewrite inlT_comp. rewrite tsize_comp in Hs. rewrite ids_comp in Hi. apply IH; [lia | |].
      * apply in_or_app. now left.
      * intro H. apply Hi, in_or_app. left. now right.
Qed.

Lemma outputs_absent : forall n its c A, (tsize its <= n)%nat -> ~ In c (ids its) -> outputs c A its = [].
Proof.
  induction n as [|n IH]; intros its c A Hs Hi.
  - destruct its as [|x r]; [reflexivity|]. rewrite tsize_cons in Hs. pose proof (tsize_item_pos x). lia.
  - destruct its as [|x r]; [reflexivity|]. rewrite tsize_cons in Hs. pose proof (tsize_item_pos x) as Hp.
    rewrite ids_cons in Hi. rewrite outputs_cons.
    rewrite (IH r) by (lia || (intro; apply Hi, in_or_app; auto)). rewrite app_nil_r.
    destruct x as [t k| |g b].
    + rewrite outputs_elem. rewrite tsize_elem in Hs. rewrite ids_elem in Hi. apply IH; [lia|].
      intro; apply Hi, in_or_app; auto.
    + reflexivity.
    + rewrite outputs_comp. rewrite tsize_comp in Hs. rewrite ids_comp in Hi.
      destruct (N.eqb c g) eqn:E.
      * apply N.eqb_eq in E. subst. exfalso. apply Hi, in_or_app. left. now left.
      * simpl. apply IH; [lia|]. intro H. apply Hi, in_or_app. left. now right.
Qed.

(* the instance with id c has exactly one output; its top-level elements carry c (and everything inherited);
   the number of elements of the whole document that carry c is the number of those top-level elements *)
Definition marked_spec (c : N) (A : list N) (its : list item) : Prop :=
  exists B out, outputs c A its = [out] /\ Forall (root_ok (B ++ [c])) out /\
                carrying c (inlT A its) = top_elems out.

Lemma marked : forall n its c A, (tsize its <= n)%nat ->
  NoDup (ids its) -> ~ In c A -> In c (ids its) -> marked_spec c A its.
Proof.
  induction n as [|n IH]; intros its c A Hs Hnd HA Hi.
  - destruct its as [|x r]; [contradiction|]. rewrite tsize_cons in Hs. pose proof (tsize_item_pos x). lia.
  - destruct its as [|x r]; [contradiction|]. rewrite tsize_cons in Hs. pose proof (tsize_item_pos x) as Hp.
    rewrite ids_cons in Hnd, Hi. apply nodup_app in Hnd as (Hndx & Hndr & Hdis).
    unfold marked_spec. rewrite outputs_cons, inlT_cons, carrying_app.
    apply in_app_or in Hi as [Hi|Hi].
    + (* the instance is inside x *)
      assert (Hr : ~ In c (ids r)) by (now apply Hdis).
      rewrite (outputs_absent (tsize r) r) by (lia || assumption). rewrite app_nil_r.
      rewrite (carrying_absent (tsize r) r) by (lia || assumption). rewrite Nat.add_0_r.
      destruct x as [t k| |g b].
      * rewrite outputs_elem, inlT_elem, carrying_cons, carrying_elem. rewrite tsize_elem in Hs. rewrite ids_elem in *.
        rewrite has_id_false by exact HA.
        destruct (IH k c [] ltac:(lia) Hndx (fun f => f) Hi) as (B & out & Ho & Hf & Hc).
        exists B, out. repeat split; [exact Ho | exact Hf | simpl; rewrite Hc; lia].
      * contradiction.
      * rewrite outputs_comp, inlT_comp. rewrite tsize_comp in Hs. rewrite ids_comp in *.
        inversion Hndx as [|? ? Hgb Hndb]; subst.
        destruct (N.eqb c g) eqn:E.
        -- apply N.eqb_eq in E. subst g.
           rewrite (outputs_absent (tsize b) b) by (lia || assumption).
           exists A, (inlT (A ++ [c]) b). split; [reflexivity|]. split.
           ++ apply (roots_carry (tsize b)). lia.
           ++ apply (carrying_inherited (tsize b)); [lia | apply in_or_app; right; now left | exact Hgb].
        -- apply N.eqb_neq in E. destruct Hi as [Hi|Hi]; [congruence|]. simpl app.
           apply (IH b c (A ++ [g])); [lia | exact Hndb | | exact Hi].
           intro H. apply in_app_or in H as [H|[H|[]]]; [contradiction | congruence].
    + (* the instance is inside r *)
      assert (Hx : ~ In c (ids_item x)) by (intro Hx; exact (Hdis c Hx Hi)).
      destruct (IH r c A ltac:(lia) Hndr HA Hi) as (B & out & Ho & Hf & Hc).
      exists B, out. rewrite Ho, Hc. split; [|split; [exact Hf|]].
      * destruct x as [t k| |g b].
        -- rewrite outputs_elem. rewrite tsize_elem in Hs. rewrite ids_elem in Hx.
           now rewrite (outputs_absent (tsize k) k) by (lia || assumption).
        -- reflexivity.
        -- rewrite outputs_comp. rewrite tsize_comp in Hs. rewrite ids_comp in Hx.
           destruct (N.eqb c g) eqn:E; [apply N.eqb_eq in E; subst; exfalso; apply Hx; now left|].
           rewrite (outputs_absent (tsize b) b); [reflexivity | lia | intro; apply Hx; now right].
      * destruct x as [t k| |g b].
        -- rewrite inlT_elem, carrying_cons, carrying_elem. rewrite tsize_elem in Hs. rewrite ids_elem in Hx.
           rewrite has_id_false by exact HA.
           rewrite (carrying_absent (tsize k) k c []) by (lia || (intros []) || assumption). reflexivity.
        -- reflexivity.
        -- rewrite inlT_comp. rewrite tsize_comp in Hs. rewrite ids_comp in Hx.
           rewrite (carrying_absent (tsize b) b); [reflexivity | lia | | intro; apply Hx; now right].
           intro H. apply in_app_or in H as [H|[H|[]]]; [contradiction | subst; apply Hx; now left].
Qed.

(* chains: a component whose root is a component ... - the elements of the innermost template carry all ids *)
Lemma chain_inlT c cs body A : inlT_item A (chain_item c cs body) = inlT (A ++ c :: cs) body.
Proof.
  revert c A. induction cs as [|c' cs IH]; intros c A; simpl chain_item; rewrite inlT_comp.
  - reflexivity.
  - rewrite inlT_cons, IH. simpl. rewrite app_nil_r. now rewrite <- app_assoc.
Qed.

Lemma direct_elem_in : forall its A t kids, In (IElem t kids) its -> In (HElem t A (inlT [] kids)) (inlT A its).
Proof.
  induction its as [|x r IH]; intros A t kids Hi; [contradiction|].
  rewrite inlT_cons. apply in_or_app. destruct Hi as [->|Hi]; [left; rewrite inlT_elem; now left | right; now apply IH].
Qed.

(* ====================================================================================== *)
(* 7. expansion hands out pairwise distinct ids (counter supply)                           *)
(* ====================================================================================== *)
Definition good (nx : N) (its : list item) (n1 : N) : Prop :=
  (nx <= n1)%N /\ (forall k, In k (ids its) -> (nx <= k < n1)%N) /\ NoDup (ids its).

Lemma good_nil nx : good nx [] nx.
Proof. split; [lia|]. split; [intros k []|constructor]. Qed.

Lemma good_app a x b y c : good a x b -> good b y c -> good a (x ++ y) c.
Proof.
  intros (H1 & H2 & H3) (H4 & H5 & H6). split; [lia|]. rewrite ids_app. split.
  - intros k Hk. apply in_app_or in Hk as [Hk|Hk]; [apply H2 in Hk | apply H5 in Hk]; lia.
  - apply nodup_app. repeat split; try assumption.
    intros k Hk Hk'. apply H2 in Hk. apply H5 in Hk'. lia.
Qed.

Lemma seqM_good {A} (f : A -> N -> xres) (l : list A) :
  (forall a nx its n1, In a l -> f a nx = XOk its n1 -> good nx its n1) ->
  forall nx its n1, seqM f l nx = XOk its n1 -> good nx its n1.
Proof.
  induction l as [|a r IH]; intros Hf nx its n1 H; simpl in H.
  - inversion H; subst. apply good_nil.
  - destruct (f a nx) as [x m| |] eqn:E1; try discriminate.
    destruct (seqM f r m) as [y m2| |] eqn:E2; try discriminate.
    inversion H; subst. eapply good_app.
    + eapply Hf; [now left | exact E1].
    + eapply IH; [|exact E2]. intros. eapply Hf; [right|]; eassumption.
Qed.

Lemma expand_good : forall fuel lb e t nx its n1, expand fuel lb e t nx = XOk its n1 -> good nx its n1.
Proof.
  induction fuel as [|f IH]; intros lb e t nx its n1 H; [discriminate|].
  destruct t as [tag kids| |name dyn fill|dflt|n body]; cbn [expand] in H.
  - destruct (seqM (expand f lb e) kids nx) as [k m| |] eqn:E; try discriminate. inversion H; subst.
    assert (G : good nx k n1) by (eapply seqM_good; [|exact E]; intros; eapply IH; eassumption).
    destruct G as (G1 & G2 & G3). unfold good. rewrite ids_cons, ids_elem, app_nil_r. auto.
  - inversion H; subst. split; [lia|]. split; [intros k []|constructor].
  - destruct (alookup name lb) as [body|]; [|discriminate].
    destruct dyn.
    + destruct (seqM _ body (nx + 2)%N) as [k m| |] eqn:E; try discriminate. inversion H; subst.
      assert (G : good (nx + 2) k n1) by (eapply seqM_good; [|exact E]; intros; eapply IH; eassumption).
      destruct G as (G1 & G2 & G3). unfold good.
      rewrite ids_cons, ids_comp, ids_cons, ids_comp. simpl (ids []). rewrite !app_nil_r.
      split; [lia|]. split.
      * intros j [<-|[<-|Hj]]; [lia | lia | apply G2 in Hj; lia].
      * constructor; [intros [Hj|Hj]; [lia | apply G2 in Hj; lia]|].
        constructor; [intro Hj; apply G2 in Hj; lia | exact G3].
    + destruct (seqM _ body (nx + 1)%N) as [k m| |] eqn:E; try discriminate. inversion H; subst.
      assert (G : good (nx + 1) k n1) by (eapply seqM_good; [|exact E]; intros; eapply IH; eassumption).
      destruct G as (G1 & G2 & G3). unfold good.
      rewrite ids_cons, ids_comp. simpl (ids []). rewrite !app_nil_r.
      split; [lia|]. split.
      * intros j [<-|Hj]; [lia | apply G2 in Hj; lia].
      * constructor; [intro Hj; apply G2 in Hj; lia | exact G3].
  - destruct e as [|b eo]; (eapply seqM_good; [|exact H]; intros; eapply IH; eassumption).
  - eapply seqM_good; [|exact H]. intros a nx' its' n1' _ H'.
    eapply seqM_good; [|exact H']. intros; eapply IH; eassumption.
Qed.

Lemma expand_page_good fuel p its n : expand_page fuel p = XOk its n -> good 0%N its n.
Proof. unfold expand_page. intro H. eapply seqM_good; [|exact H]. intros; eapply expand_good; eassumption. Qed.

(* ====================================================================================== *)
(* 8. end to end                                                                           *)
(* ====================================================================================== *)
Lemma ids_distinct_lemma : forall fuel p its n, expand_page fuel p = XOk its n -> NoDup (ids its).
Proof. intros fuel p its n H. apply (expand_page_good _ _ _ _ H). Qed.

Lemma post_render_is_inlining_lemma : forall its,
  NoDup (ids its) -> page_render ([], []) its = Done (inline [] its, ([], [])).
Proof. exact page_from_empty. Qed.

Lemma inline_is_tree_lemma : forall A its, toks (inlT A its) = inline A its.
Proof. intros A its. apply (toks_inlT (tsize its)). lia. Qed.

Lemma root_run_lemma : forall tb c body,
  NoDup (c :: ids body) -> alookup c (snd tb) = None ->
  exists tb', post_render (2 * ninst [IComp c body]) tb c body = Done (inline [] [IComp c body], tb') /\
              same_out (c :: ids body) (fst tb) (fst tb') /\ same_out (c :: ids body) (snd tb) (snd tb').
Proof.
  intros tb c body H1 H2. destruct (post_render_spec tb c body H1 H2) as (tb' & H).
  exists tb'. rewrite ninst_cons, ninst_comp. simpl (ninst []). rewrite Nat.add_0_r. exact H.
Qed.

Lemma roots_and_only_roots_lemma : forall its c,
  NoDup (ids its) -> In c (ids its) ->
  exists B out, outputs c [] its = [out] /\ Forall (root_ok (B ++ [c])) out /\
                carrying c (inlT [] its) = top_elems out.
Proof. intros its c Hnd Hi. apply (marked (tsize its) its c []); auto. Qed.

Lemma foreign_id_absent_lemma : forall its c, ~ In c (ids its) -> carrying c (inlT [] its) = O.
Proof. intros its c H. apply (carrying_absent (tsize its)); auto. Qed.

Lemma shared_roots_lemma : forall A c cs body t kids,
  In (IElem t kids) body ->
  In (HElem t (A ++ c :: cs) (inlT [] kids)) (inlT_item A (chain_item c cs body)).
Proof. intros. rewrite chain_inlT. now apply direct_elem_in. Qed.

Lemma program_lemma : forall fuel p its n,
  expand_page fuel p = XOk its n ->
  page_render ([], []) its = Done (toks (inlT [] its), ([], [])) /\
  forall c, In c (ids its) ->
    exists B out, outputs c [] its = [out] /\ Forall (root_ok (B ++ [c])) out /\
                  carrying c (inlT [] its) = top_elems out.
Proof.
  intros fuel p its n H. pose proof (ids_distinct_lemma _ _ _ _ H) as Hnd. split.
  - rewrite inline_is_tree_lemma. now apply page_from_empty.
  - intros c Hc. now apply roots_and_only_roots_lemma.
Qed.
