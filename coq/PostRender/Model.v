(* Model for property C14 - root elements of a component instance, and only they, carry its render id.

   Anchors: perfutil/component.py:108-302 (component_post_render: deque of PostRenderQueueItem,
   html_parts_by_component_id, component_renderer_cache, child_component_attrs),
   dependencies.py:246-302 (set_component_attrs_for_js_and_css -> set_html_attributes with
   watch_on_attribute="djc-render-id"), component.py:1018 (gen_id), 1137-1187, 1208-1269 (renderer).

   Three layers, definitions only (proofs in PostRender/Proofs.v):
   1. programs (`tpl`, `prog`) and `expand`: what Django's template rendering does with elements,
      text, {% component %} (plain or through "dynamic"), the default {% slot %} / implicit fill and
      {% for %}; the result is the instance tree (`item`): every component instance with its render id
      and the fragment its template produced, child instances standing where their placeholders are.
      Ids come from a counter (the harness patches the id generator to a counter).
   2. M-model `post_render`: transliteration of the deferred-render queue, on flat token lists
      (the real code works on strings and finds the placeholders with a regex).
   3. S-model `inline` / `inlT`: recursive inlining with inherited root attributes.
   Only the `data-djc-id-<id>` attributes are modelled; an element is (tag, list of ids it carries). *)
From DJC Require Import Lib.Base.

(* ---------- association-list helpers (dict semantics: one visible binding per key) ---------- *)
Section Tab.
  Context {V : Type}.
  Definition aset (k : N) (v : V) (l : list (N * V)) : list (N * V) := (k, v) :: aremove k l.
  Definition aget (d : V) (k : N) (l : list (N * V)) : V :=
    match alookup k l with Some v => v | None => d end.
  (* dict.update(other) *)
  Definition aupdate (other l : list (N * V)) : list (N * V) :=
    fold_left (fun acc kv => aset (fst kv) (snd kv) acc) other l.
End Tab.

(* ---------- instance trees ---------- *)
Inductive item :=
| IElem (tag : N) (kids : list item)
| IText
| IComp (id : N) (body : list item).     (* an instance: its render id and its own fragment *)

(* tokens of serialised HTML; PhTok = <template djc-render-id="id" ...ids...></template> *)
Inductive tok :=
| Open (tag : N) (ids : list N)
| Close (tag : N)
| Txt
| PhTok (id : N) (ids : list N).

(* number of instances / all ids (document order, outer before inner) *)
Fixpoint ninst_item (it : item) : nat :=
  match it with
  | IElem _ kids => (fix go (l : list item) : nat := match l with [] => O | x :: r => ninst_item x + go r end) kids
  | IText => O
  | IComp _ body => S ((fix go (l : list item) : nat := match l with [] => O | x :: r => ninst_item x + go r end) body)
  end.
Definition ninst (its : list item) : nat :=
  (fix go (l : list item) : nat := match l with [] => O | x :: r => ninst_item x + go r end) its.

Fixpoint ids_item (it : item) : list N :=
  match it with
  | IElem _ kids => (fix go (l : list item) : list N := match l with [] => [] | x :: r => ids_item x ++ go r end) kids
  | IText => []
  | IComp c body => c :: (fix go (l : list item) : list N := match l with [] => [] | x :: r => ids_item x ++ go r end) body
  end.
Definition ids (its : list item) : list N :=
  (fix go (l : list item) : list N := match l with [] => [] | x :: r => ids_item x ++ go r end) its.

(* ---------- set_html_attributes + the placeholder a nested component leaves behind ---------- *)
(* `flat A its`: serialisation of a fragment whose top-level elements (and top-level placeholders)
   receive the attribute list A; everything below an element receives nothing. *)
Fixpoint flat_item (A : list N) (it : item) : list tok :=
  match it with
  | IElem t kids =>
      Open t A :: (fix go (l : list item) : list tok := match l with [] => [] | x :: r => flat_item [] x ++ go r end) kids
               ++ [Close t]
  | IText => [Txt]
  | IComp c _ => [PhTok c A]
  end.
Definition flat (A : list N) (its : list item) : list tok :=
  (fix go (l : list item) : list tok := match l with [] => [] | x :: r => flat_item A x ++ go r end) its.

(* the dictionary returned for watch_on_attribute: placeholder id -> attributes set on it *)
Fixpoint ph_attrs_item (A : list N) (it : item) : list (N * list N) :=
  match it with
  | IElem _ kids => (fix go (l : list item) := match l with [] => [] | x :: r => ph_attrs_item [] x ++ go r end) kids
  | IText => []
  | IComp c _ => [(c, A)]
  end.
Definition ph_attrs (A : list N) (its : list item) : list (N * list N) :=
  (fix go (l : list item) := match l with [] => [] | x :: r => ph_attrs_item A x ++ go r end) its.

(* renderers registered (component_renderer_cache[child] = ...) while the fragment's template runs *)
Fixpoint ph_bodies_item (it : item) : list (N * list item) :=
  match it with
  | IElem _ kids => (fix go (l : list item) := match l with [] => [] | x :: r => ph_bodies_item x ++ go r end) kids
  | IText => []
  | IComp c b => [(c, b)]
  end.
Definition ph_bodies (its : list item) : list (N * list item) :=
  (fix go (l : list item) := match l with [] => [] | x :: r => ph_bodies_item x ++ go r end) its.

(* ---------- S-model: inlining ---------- *)
Fixpoint inline_item (A : list N) (it : item) : list tok :=
  match it with
  | IElem t kids =>
      Open t A :: (fix go (l : list item) : list tok := match l with [] => [] | x :: r => inline_item [] x ++ go r end) kids
               ++ [Close t]
  | IText => [Txt]
  | IComp c body =>
      (fix go (l : list item) : list tok := match l with [] => [] | x :: r => inline_item (A ++ [c]) x ++ go r end) body
  end.
Definition inline (A : list N) (its : list item) : list tok :=
  (fix go (l : list item) : list tok := match l with [] => [] | x :: r => inline_item A x ++ go r end) its.

(* the same as a tree (used to state which elements are roots of which instance) *)
Inductive hnode := HElem (tag : N) (ids : list N) (kids : list hnode) | HText.

Fixpoint inlT_item (A : list N) (it : item) : list hnode :=
  match it with
  | IElem t kids =>
      [HElem t A ((fix go (l : list item) : list hnode := match l with [] => [] | x :: r => inlT_item [] x ++ go r end) kids)]
  | IText => [HText]
  | IComp c body =>
      (fix go (l : list item) : list hnode := match l with [] => [] | x :: r => inlT_item (A ++ [c]) x ++ go r end) body
  end.
Definition inlT (A : list N) (its : list item) : list hnode :=
  (fix go (l : list item) : list hnode := match l with [] => [] | x :: r => inlT_item A x ++ go r end) its.

Fixpoint toks_node (h : hnode) : list tok :=
  match h with
  | HElem t a kids => Open t a :: (fix go (l : list hnode) : list tok := match l with [] => [] | x :: r => toks_node x ++ go r end) kids ++ [Close t]
  | HText => [Txt]
  end.
Definition toks (hs : list hnode) : list tok :=
  (fix go (l : list hnode) : list tok := match l with [] => [] | x :: r => toks_node x ++ go r end) hs.

(* how many elements of a document carry id c; how many top-level elements it has *)
Definition has_id (c : N) (a : list N) : bool := existsb (N.eqb c) a.
Fixpoint carrying_node (c : N) (h : hnode) : nat :=
  match h with
  | HElem _ a kids => (if has_id c a then 1 else 0)
                      + (fix go (l : list hnode) : nat := match l with [] => O | x :: r => carrying_node c x + go r end) kids
  | HText => O
  end.
Definition carrying (c : N) (hs : list hnode) : nat :=
  (fix go (l : list hnode) : nat := match l with [] => O | x :: r => carrying_node c x + go r end) hs.
Definition is_elem (h : hnode) : bool := match h with HElem _ _ _ => true | HText => false end.
Definition top_elems (hs : list hnode) : nat := length (filter is_elem hs).

(* the output of the instance(s) with id c inside a document rendered with inherited attributes A *)
Fixpoint outputs_item (c : N) (A : list N) (it : item) : list (list hnode) :=
  match it with
  | IElem _ kids => (fix go (l : list item) := match l with [] => [] | x :: r => outputs_item c [] x ++ go r end) kids
  | IText => []
  | IComp c' body =>
      (if N.eqb c c' then [inlT_item A it] else [])
      ++ (fix go (l : list item) := match l with [] => [] | x :: r => outputs_item c (A ++ [c']) x ++ go r end) body
  end.
Definition outputs (c : N) (A : list N) (its : list item) : list (list hnode) :=
  (fix go (l : list item) := match l with [] => [] | x :: r => outputs_item c A x ++ go r end) its.

(* a component whose root is a component whose root is ... (ids c :: cs, outermost first) around `body` *)
Fixpoint chain_item (c : N) (cs : list N) (body : list item) : item :=
  IComp c (match cs with [] => body | c' :: r => [chain_item c' r body] end).

(* every top-level element of a document carries all ids of A *)
Definition root_ok (A : list N) (h : hnode) : Prop :=
  match h with HElem _ a _ => incl A a | HText => True end.

(* ---------- M-model: component_post_render ---------- *)
Record qitem := { q_before : list tok; q_child : option N; q_parent : option N; q_grand : option N }.

Record st := {
  queue : list qitem;                 (* process_queue *)
  parts : list (N * list tok);        (* html_parts_by_component_id (each list kept joined) *)
  content : list tok;                 (* content_parts *)
  rend : list (N * list item);        (* component_renderer_cache  (process-global) *)
  cattrs : list (N * list N)          (* child_component_attrs     (process-global) *)
}.

Inductive err := ERuntimeParentNone | EKeyRenderer.
Inductive res (A : Type) := Done (a : A) | Failed (e : err) | OutOfFuel.
Arguments Done {A}. Arguments Failed {A}. Arguments OutOfFuel {A}.

(* the finditer loop: split a fragment at its placeholders *)
Fixpoint split_go (c : N) (p : option N) (acc : list tok) (ts : list tok) : list qitem :=
  match ts with
  | [] => [ {| q_before := acc; q_child := None; q_parent := Some c; q_grand := p |} ]
  | PhTok g _ :: r => {| q_before := acc; q_child := Some g; q_parent := Some c; q_grand := p |} :: split_go c p [] r
  | t :: r => split_go c p (acc ++ [t]) r
  end.

(* get_html_parts(k).append(x) *)
Definition parts_append (k : N) (x : list tok) (ps : list (N * list tok)) : list (N * list tok) :=
  aset k (aget [] k ps ++ x) ps.

Definition step (s : st) : st + err :=
  match queue s with
  | [] => inl s
  | it :: q =>
    match q_child it with
    | None =>
        match q_parent it with
        | None => inr ERuntimeParentNone
        | Some p =>
            let html := aget [] p (parts s) ++ q_before it in      (* pop(parent, []) ; append ; join ; callback = identity *)
            let parts1 := aremove p (parts s) in
            match q_grand it with
            | Some g => inl {| queue := q; parts := parts_append g html parts1; content := content s;
                               rend := rend s; cattrs := cattrs s |}
            | None => inl {| queue := q; parts := parts1; content := content s ++ html;
                             rend := rend s; cattrs := cattrs s |}
            end
        end
    | Some c =>
        let parts0 :=
          match q_before it with
          | [] => inl (parts s)
          | _ :: _ => match q_parent it with
                      | None => inr ERuntimeParentNone
                      | Some p => inl (parts_append p (q_before it) (parts s))
                      end
          end in
        match parts0 with
        | inr e => inr e
        | inl parts1 =>
          match alookup c (rend s) with
          | None => inr EKeyRenderer
          | Some body =>
              let rend1 := aremove c (rend s) in
              let inherited := match alookup c (cattrs s) with Some l => l | None => [] end in   (* pop(child, None); falsy -> [] *)
              let cattrs1 := aremove c (cattrs s) in
              let A := inherited ++ [c] in
              let rend2 := aupdate (ph_bodies body) rend1 in            (* children registered while the template renders *)
              let html := flat A body in                                (* set_html_attributes *)
              let cattrs2 := aupdate (ph_attrs A body) cattrs1 in       (* child_component_attrs.update(...) *)
              inl {| queue := split_go c (q_parent it) [] html ++ q;    (* extendleft(reversed(parts_to_process)) *)
                     parts := parts1; content := content s; rend := rend2; cattrs := cattrs2 |}
          end
        end
    end
  end.

Fixpoint run (fuel : nat) (s : st) : res st :=
  match queue s with
  | [] => Done s
  | _ :: _ => match fuel with
              | O => OutOfFuel
              | S f => match step s with inl s' => run f s' | inr e => Failed e end
              end
  end.

Notation tables := (list (N * list item) * list (N * list N))%type (only parsing).

Definition init_state (tb : tables) (c : N) (body : list item) : st :=
  {| queue := [ {| q_before := []; q_child := Some c; q_parent := None; q_grand := None |} ];
     parts := []; content := [];
     rend := aset c body (fst tb); cattrs := snd tb |}.

(* a root component: returns the HTML and the process-global tables it leaves behind *)
Definition post_render (fuel : nat) (tb : tables) (c : N) (body : list item) : res (list tok * tables) :=
  match run fuel (init_state tb c body) with
  | Done s => Done (content s, (rend s, cattrs s))
  | Failed e => Failed e
  | OutOfFuel => OutOfFuel
  end.

(* a page: Django renders page-level nodes in place; every page-level component is a root run *)
Fixpoint page_item (tb : tables) (it : item) : res (list tok * tables) :=
  match it with
  | IElem t kids =>
      match (fix go (tb : tables) (l : list item) : res (list tok * tables) :=
               match l with
               | [] => Done ([], tb)
               | x :: r => match page_item tb x with
                           | Done (a, tb1) => match go tb1 r with
                                              | Done (b, tb2) => Done (a ++ b, tb2)
                                              | Failed e => Failed e | OutOfFuel => OutOfFuel end
                           | Failed e => Failed e | OutOfFuel => OutOfFuel end
               end) tb kids with
      | Done (k, tb1) => Done (Open t [] :: k ++ [Close t], tb1)
      | Failed e => Failed e | OutOfFuel => OutOfFuel
      end
  | IText => Done ([Txt], tb)
  | IComp c body => post_render (2 * ninst_item it) tb c body
  end.
Definition page_render (tb : tables) (its : list item) : res (list tok * tables) :=
  (fix go (tb : tables) (l : list item) : res (list tok * tables) :=
     match l with
     | [] => Done ([], tb)
     | x :: r => match page_item tb x with
                 | Done (a, tb1) => match go tb1 r with
                                    | Done (b, tb2) => Done (a ++ b, tb2)
                                    | Failed e => Failed e | OutOfFuel => OutOfFuel end
                 | Failed e => Failed e | OutOfFuel => OutOfFuel end
     end) tb its.

(* ---------- programs and their expansion into instance trees ---------- *)
Inductive tpl :=
| TElem (tag : N) (kids : list tpl)
| TText
| TComp (name : N) (dyn : bool) (fill : list tpl)   (* body of the tag = implicit default fill; [] = no fill *)
| TSlot (dflt : list tpl)                           (* {% slot "content" default %}dflt{% endslot %} *)
| TRep (n : nat) (body : list tpl).                 (* {% for %} over n items *)

Record prog := { lib : list (N * list tpl); page : list tpl }.

(* the fill visible to the slots of the template being rendered: its body and the fill that was
   visible where that body was written *)
Inductive env := ENone | EFill (body : list tpl) (outer : env).

Inductive xres := XOk (its : list item) (next : N) | XFuel | XNotRegistered.

Fixpoint seqM {A} (f : A -> N -> xres) (l : list A) (nx : N) : xres :=
  match l with
  | [] => XOk [] nx
  | a :: r => match f a nx with
              | XOk x n1 => match seqM f r n1 with
                            | XOk y n2 => XOk (x ++ y) n2
                            | e => e end
              | e => e end
  end.

Fixpoint expand (fuel : nat) (lb : list (N * list tpl)) (e : env) (t : tpl) (nx : N) : xres :=
  match fuel with
  | O => XFuel
  | S f =>
    match t with
    | TElem tag kids => match seqM (expand f lb e) kids nx with
                        | XOk k n1 => XOk [IElem tag k] n1
                        | x => x end
    | TText => XOk [IText] nx
    | TComp name dyn fill =>
        match alookup name lb with
        | None => XNotRegistered
        | Some body =>
            let e' := match fill with [] => ENone | _ :: _ => EFill fill e end in
            if dyn then
              (* DynamicComponent: an instance of its own whose whole output is the inner instance *)
              match seqM (expand f lb e') body (nx + 2) with
              | XOk k n1 => XOk [IComp nx [IComp (nx + 1) k]] n1
              | x => x end
            else
              match seqM (expand f lb e') body (nx + 1) with
              | XOk k n1 => XOk [IComp nx k] n1
              | x => x end
        end
    | TSlot dflt => match e with
                    | EFill b eo => seqM (expand f lb eo) b nx
                    | ENone => seqM (expand f lb e) dflt nx
                    end
    | TRep n body => seqM (fun _ : unit => seqM (expand f lb e) body) (repeat tt n) nx
    end
  end.

Definition expand_page (fuel : nat) (p : prog) : xres := seqM (expand fuel (lib p) ENone) (page p) 0%N.

(* ---------- correspondence ---------- *)
(* observed document: the element structure of the final HTML as tokens; ids are numbered canonically
   (see canon) so that the comparison does not depend on the order in which ids were handed out *)
Fixpoint insert_sorted (k : N) (l : list N) : list N :=
  match l with
  | [] => [k]
  | x :: r => if N.leb k x then k :: l else x :: insert_sorted k r
  end.
Definition sort_ids (l : list N) : list N := fold_right insert_sorted [] l.

(* renumber ids in order of first appearance (document order; inside one element: allocation order) *)
Fixpoint canon_go (m : list (N * N)) (nx : N) (ts : list tok) : list tok :=
  match ts with
  | [] => []
  | Open t a :: r =>
      let fresh := filter (fun i => negb (amem i m)) (sort_ids a) in
      let '(m', nx') := fold_left (fun (acc : list (N * N) * N) i =>
                                     let '(mm, n) := acc in if amem i mm then acc else ((i, n) :: mm, N.succ n))
                                  fresh (m, nx) in
      Open t (sort_ids (map (fun i => aget 0%N i m') a)) :: canon_go m' nx' r
  | x :: r => x :: canon_go m nx r
  end.
Definition canon (ts : list tok) : list tok := canon_go [] 0%N ts.

Definition tok_eqb (a b : tok) : bool :=
  match a, b with
  | Open t x, Open u y => N.eqb t u && list_eqb N.eqb x y
  | Close t, Close u => N.eqb t u
  | Txt, Txt => true
  | PhTok c x, PhTok d y => N.eqb c d && list_eqb N.eqb x y
  | _, _ => false
  end.

Definition no_txt (ts : list tok) : list tok := filter (fun t => match t with Txt => false | _ => true end) ts.

(* case = (expansion fuel, program, observed element tokens with canonical ids, number of instances observed) *)
Definition c14_case := (N * prog * list tok * N)%type.

Definition model_doc (fuel : N) (p : prog) : option (list tok * nat) :=
  match expand_page (N.to_nat fuel) p with
  | XOk its _ =>
      match page_render ([], []) its with
      | Done (ts, (r, ca)) =>
          (* the run must also leave the process-global tables empty *)
          match r, ca with [], [] => Some (ts, ninst its) | _, _ => None end
      | _ => None
      end
  | _ => None
  end.

Definition check_c14 (c : c14_case) : bool :=
  let '(fuel, p, obs, n) := c in
  match model_doc fuel p with
  | Some (ts, k) => list_eqb tok_eqb (canon (no_txt ts)) obs && N.eqb (N.of_nat k) n
  | None => false
  end.

(* second check: the instance tree is observed directly (fragments recorded per instance), the queue
   model runs on it.  case = (instance forest with observed ids, observed element tokens, raw ids) *)
Definition c14_tree_case := (list item * list tok)%type.
Definition check_c14_tree (c : c14_tree_case) : bool :=
  let '(its, obs) := c in
  match page_render ([], []) its with
  | Done (ts, ([], [])) => list_eqb tok_eqb (no_txt ts) obs && list_eqb tok_eqb (no_txt (inline [] its)) obs
  | _ => false
  end.

(* ---------- string level: recognising a placeholder and reading its id ---------- *)
(* Hand matcher for  nested_comp_pattern.match(s)  (pattern `<template [^>]*?djc-render-id="\w{6}"[^>]*?></template>`,
   anchored at the start of s) followed by render_id_pattern.search(match[0]) (first `djc-render-id="(\w{6})"`):
   none of the pieces can contain '>', so the tag interior is everything up to the first '>', that '>' must
   start `></template>`, and the id is the first occurrence of the key inside the interior.
   Result: the id and the text after the placeholder.  ASCII documents (\w = [0-9A-Za-z_]). *)
Import Coq.Strings.String.StringSyntax.
Local Delimit Scope string_scope with string.

Definition is_word (c : N) : bool :=
  ((48 <=? c) && (c <=? 57) || (65 <=? c) && (c <=? 90) || (c =? 95) || (97 <=? c) && (c <=? 122))%N.

Fixpoint take_until (c : N) (s : str) : str * str :=
  match s with
  | [] => ([], [])
  | x :: r => if N.eqb x c then ([], s) else let '(a, b) := take_until c r in (x :: a, b)
  end.

Definition ph_open : str := s2n "<template "%string.
Definition ph_key : str := s2n "djc-render-id="""%string.
Definition ph_close : str := s2n "></template>"%string.

Definition id_here (s : str) : option str :=
  let id := firstn 6 s in
  if Nat.eqb (length id) 6 && forallb is_word id && starts_with [34%N] (skipn 6 s) then Some id else None.

Fixpoint find_id (s : str) : option str :=
  match (if starts_with ph_key s then id_here (skipn (length ph_key) s) else None) with
  | Some id => Some id
  | None => match s with [] => None | _ :: r => find_id r end
  end.

Definition match_placeholder_at (s : str) : option (str * str) :=
  if starts_with ph_open s then
    let '(interior, rest) := take_until 62%N (skipn (length ph_open) s) in
    if starts_with ph_close rest then
      match find_id interior with
      | Some id => Some (id, skipn (length ph_close) rest)
      | None => None
      end
    else None
  else None.

(* case = (text, what `re` answers: id and number of characters left after the match) *)
Definition ph_case := (str * option (str * N))%type.
Definition check_ph (c : ph_case) : bool :=
  let '(s, e) := c in
  match match_placeholder_at s, e with
  | Some (id, rest), Some (id', n) => str_eqb id id' && N.eqb (N.of_nat (length rest)) n
  | None, None => true
  | _, _ => false
  end.
