(* Model for property C14 - root elements of a component instance, and only they, carry its render id.

   Anchors: perfutil/component.py:108-302 (component_post_render: deque of PostRenderQueueItem,
   html_parts_by_component_id, component_renderer_cache, child_component_attrs),
   dependencies.py:246-302 (set_component_attrs_for_js_and_css -> set_html_attributes with
   watch_on_attribute="djc-render-id"), component.py:1026 (gen_id), 1043-1051 (parent_id from the context key),
   1190-1208, 1244-1290 (renderer), slots.py:543-549, 599-618 (which context a fill is rendered with),
   components/dynamic.py:131-157 (inner component rendered from on_render_before with the INPUT context).

   Three layers, definitions only (proofs in PostRender/Proofs.v):
   1. programs (`tpl`, `prog`) and `expand`: what Django's template rendering does with elements, text,
      {% component %} (plain or through "dynamic") with named fills, {% slot %} (two names, default content, slots
      inside fills and defaults), {% for %}, {% if %} and a component rendered from Python (Component.render()
      called while the surrounding template is rendered); the result is the instance tree (`item`): every component
      instance with its render id and the fragment its template produced.  A component tag met with a context that
      carries a parent component id is a DEFERRED child (`IComp`: a placeholder stands where it was); a component
      met with a context WITHOUT a parent component (page level; fill content of a page-level tag in "isolated"
      mode; Component.render() from Python) is a complete ROOT RUN of component_post_render, executed
      re-entrantly while the surrounding template renders (`IRoot`: its finished HTML stands where it was).
      Ids come from a counter (the harness patches the id generator to a counter).
   2. M-model `post_render`: transliteration of the deferred-render queue, on flat token lists (the real code works
      on strings and finds the placeholders with a regex).  Nested root runs work on the SAME two process-global
      tables as the run they interrupt.
   3. S-model `inline` / `inlT`: recursive inlining with inherited root attributes.
   Only the `data-djc-id-<id>` attributes are modelled; an element is (tag, list of ids it carries).  The order of
   the attributes inside one tag is not modelled (the comparison sorts them): the model lists inherited ids first. *)
From DJC Require Import Lib.Base.

(* ---------- association-list helpers (dict semantics: one visible binding per key) ---------- *)
Section Tab.
  Context {V : Type}.
  Definition aset (k : N) (v : V) (l : list (N * V)) : list (N * V) := (k, v) :: aremove k l.
  Definition aget (d : V) (k : N) (l : list (N * V)) : V :=
    match alookup k l with Some v => v | None => d end.
  (* dict.update(other) *)
  Definition aupdate (other l : list (N * V)) : list (N * V) :=
    fold_left (fun acc kv => aset (fst kv) (snd kv) acc) other l.
End Tab.

(* ---------- instance trees ---------- *)
Inductive item :=
| IElem (tag : N) (kids : list item)
| IText
| IComp (id : N) (body : list item)      (* a deferred instance: its render id and its own fragment *)
| IRoot (id : N) (body : list item).     (* an instance rendered by a re-entrant root run *)

(* tokens of serialised HTML; PhTok = <template djc-render-id="id" ...ids...></template> *)
Inductive tok :=
| Open (tag : N) (ids : list N)
| Close (tag : N)
| Txt
| PhTok (id : N) (ids : list N).

(* number of instances / all ids (document order, outer before inner) *)
Fixpoint ninst_item (it : item) : nat :=
  match it with
  | IElem _ kids => (fix go (l : list item) : nat := match l with [] => O | x :: r => ninst_item x + go r end) kids
  | IText => O
  | IComp _ body => S ((fix go (l : list item) : nat := match l with [] => O | x :: r => ninst_item x + go r end) body)
  | IRoot _ body => S ((fix go (l : list item) : nat := match l with [] => O | x :: r => ninst_item x + go r end) body)
  end.
Definition ninst (its : list item) : nat :=
  (fix go (l : list item) : nat := match l with [] => O | x :: r => ninst_item x + go r end) its.

Fixpoint ids_item (it : item) : list N :=
  match it with
  | IElem _ kids => (fix go (l : list item) : list N := match l with [] => [] | x :: r => ids_item x ++ go r end) kids
  | IText => []
  | IComp c body => c :: (fix go (l : list item) : list N := match l with [] => [] | x :: r => ids_item x ++ go r end) body
  | IRoot c body => c :: (fix go (l : list item) : list N := match l with [] => [] | x :: r => ids_item x ++ go r end) body
  end.
Definition ids (its : list item) : list N :=
  (fix go (l : list item) : list N := match l with [] => [] | x :: r => ids_item x ++ go r end) its.

(* instances that the queue of the enclosing run has to process (those inside a re-entrant root are not its business) *)
Fixpoint ndef_item (it : item) : nat :=
  match it with
  | IElem _ kids => (fix go (l : list item) : nat := match l with [] => O | x :: r => ndef_item x + go r end) kids
  | IText => O
  | IComp _ body => S ((fix go (l : list item) : nat := match l with [] => O | x :: r => ndef_item x + go r end) body)
  | IRoot _ _ => O
  end.
Definition ndef (its : list item) : nat :=
  (fix go (l : list item) : nat := match l with [] => O | x :: r => ndef_item x + go r end) its.

(* ---------- S-model: inlining ---------- *)
(* an instance is an instance: whether it was rendered deferred or by a re-entrant root run makes no difference
   to what the property says about it *)
Fixpoint inline_item (A : list N) (it : item) : list tok :=
  match it with
  | IElem t kids =>
      Open t A :: (fix go (l : list item) : list tok := match l with [] => [] | x :: r => inline_item [] x ++ go r end) kids
               ++ [Close t]
  | IText => [Txt]
  | IComp c body =>
      (fix go (l : list item) : list tok := match l with [] => [] | x :: r => inline_item (A ++ [c]) x ++ go r end) body
  | IRoot c body =>
      (fix go (l : list item) : list tok := match l with [] => [] | x :: r => inline_item (A ++ [c]) x ++ go r end) body
  end.
Definition inline (A : list N) (its : list item) : list tok :=
  (fix go (l : list item) : list tok := match l with [] => [] | x :: r => inline_item A x ++ go r end) its.

(* the same as a tree (used to state which elements are roots of which instance) *)
Inductive hnode := HElem (tag : N) (ids : list N) (kids : list hnode) | HText.

Fixpoint inlT_item (A : list N) (it : item) : list hnode :=
  match it with
  | IElem t kids =>
      [HElem t A ((fix go (l : list item) : list hnode := match l with [] => [] | x :: r => inlT_item [] x ++ go r end) kids)]
  | IText => [HText]
  | IComp c body =>
      (fix go (l : list item) : list hnode := match l with [] => [] | x :: r => inlT_item (A ++ [c]) x ++ go r end) body
  | IRoot c body =>
      (fix go (l : list item) : list hnode := match l with [] => [] | x :: r => inlT_item (A ++ [c]) x ++ go r end) body
  end.
Definition inlT (A : list N) (its : list item) : list hnode :=
  (fix go (l : list item) : list hnode := match l with [] => [] | x :: r => inlT_item A x ++ go r end) its.

Fixpoint toks_node (h : hnode) : list tok :=
  match h with
  | HElem t a kids => Open t a :: (fix go (l : list hnode) : list tok := match l with [] => [] | x :: r => toks_node x ++ go r end) kids ++ [Close t]
  | HText => [Txt]
  end.
Definition toks (hs : list hnode) : list tok :=
  (fix go (l : list hnode) : list tok := match l with [] => [] | x :: r => toks_node x ++ go r end) hs.

(* how many elements of a document carry id c; how many top-level elements it has *)
Definition has_id (c : N) (a : list N) : bool := existsb (N.eqb c) a.
Fixpoint carrying_node (c : N) (h : hnode) : nat :=
  match h with
  | HElem _ a kids => (if has_id c a then 1 else 0)
                      + (fix go (l : list hnode) : nat := match l with [] => O | x :: r => carrying_node c x + go r end) kids
  | HText => O
  end.
Definition carrying (c : N) (hs : list hnode) : nat :=
  (fix go (l : list hnode) : nat := match l with [] => O | x :: r => carrying_node c x + go r end) hs.
Definition is_elem (h : hnode) : bool := match h with HElem _ _ _ => true | HText => false end.
Definition top_elems (hs : list hnode) : nat := length (filter is_elem hs).

(* the output of the instance(s) with id c inside a document rendered with inherited attributes A *)
Fixpoint outputs_item (c : N) (A : list N) (it : item) : list (list hnode) :=
  match it with
  | IElem _ kids => (fix go (l : list item) := match l with [] => [] | x :: r => outputs_item c [] x ++ go r end) kids
  | IText => []
  | IComp c' body =>
      (if N.eqb c c' then [inlT_item A it] else [])
      ++ (fix go (l : list item) := match l with [] => [] | x :: r => outputs_item c (A ++ [c']) x ++ go r end) body
  | IRoot c' body =>
      (if N.eqb c c' then [inlT_item A it] else [])
      ++ (fix go (l : list item) := match l with [] => [] | x :: r => outputs_item c (A ++ [c']) x ++ go r end) body
  end.
Definition outputs (c : N) (A : list N) (its : list item) : list (list hnode) :=
  (fix go (l : list item) := match l with [] => [] | x :: r => outputs_item c A x ++ go r end) its.

(* a component whose root is a component whose root is ... (ids c :: cs, outermost first) around `body` *)
Fixpoint chain_item (c : N) (cs : list N) (body : list item) : item :=
  IComp c (match cs with [] => body | c' :: r => [chain_item c' r body] end).

(* every top-level element of a document carries all ids of A *)
Definition root_ok (A : list N) (h : hnode) : Prop :=
  match h with HElem _ a _ => incl A a | HText => True end.

(* ---------- what a rendered fragment looks like (specification side of the renderer) ---------- *)
(* `flat A its`: serialisation of a fragment after set_html_attributes put the attribute list A on its top-level
   elements and top-level placeholders; everything below an element receives nothing; the output of a
   re-entrant root run is finished HTML (already inlined) whose top-level elements receive A as well. *)
Fixpoint flat_item (A : list N) (it : item) : list tok :=
  match it with
  | IElem t kids =>
      Open t A :: (fix go (l : list item) : list tok := match l with [] => [] | x :: r => flat_item [] x ++ go r end) kids
               ++ [Close t]
  | IText => [Txt]
  | IComp c _ => [PhTok c A]
  | IRoot c body => inline (A ++ [c]) body
  end.
Definition flat (A : list N) (its : list item) : list tok :=
  (fix go (l : list item) : list tok := match l with [] => [] | x :: r => flat_item A x ++ go r end) its.

(* the dictionary returned for watch_on_attribute: placeholder id -> attributes set on it *)
Fixpoint ph_attrs_item (A : list N) (it : item) : list (N * list N) :=
  match it with
  | IElem _ kids => (fix go (l : list item) := match l with [] => [] | x :: r => ph_attrs_item [] x ++ go r end) kids
  | IText => []
  | IComp c _ => [(c, A)]
  | IRoot _ _ => []
  end.
Definition ph_attrs (A : list N) (its : list item) : list (N * list N) :=
  (fix go (l : list item) := match l with [] => [] | x :: r => ph_attrs_item A x ++ go r end) its.

(* renderers registered (component_renderer_cache[child] = ...) while the fragment's template runs *)
Fixpoint ph_bodies_item (it : item) : list (N * list item) :=
  match it with
  | IElem _ kids => (fix go (l : list item) := match l with [] => [] | x :: r => ph_bodies_item x ++ go r end) kids
  | IText => []
  | IComp c b => [(c, b)]
  | IRoot _ _ => []
  end.
Definition ph_bodies (its : list item) : list (N * list item) :=
  (fix go (l : list item) := match l with [] => [] | x :: r => ph_bodies_item x ++ go r end) its.

(* ---------- M-model: component_post_render ---------- *)
Record qitem := { q_before : list tok; q_child : option N; q_parent : option N; q_grand : option N }.

Record st := {
  queue : list qitem;                 (* process_queue *)
  parts : list (N * list tok);        (* html_parts_by_component_id (each list kept joined) *)
  content : list tok;                 (* content_parts *)
  rend : list (N * list item);        (* component_renderer_cache  (process-global) *)
  cattrs : list (N * list N)          (* child_component_attrs     (process-global) *)
}.

Inductive err := ERuntimeParentNone | EKeyRenderer.
Inductive res (A : Type) := Done (a : A) | Failed (e : err) | OutOfFuel.
Arguments Done {A}. Arguments Failed {A}. Arguments OutOfFuel {A}.

Notation tables := (list (N * list item) * list (N * list N))%type (only parsing).

(* the finditer loop: split a fragment at its placeholders *)
Fixpoint split_go (c : N) (p : option N) (acc : list tok) (ts : list tok) : list qitem :=
  match ts with
  | [] => [ {| q_before := acc; q_child := None; q_parent := Some c; q_grand := p |} ]
  | PhTok g _ :: r => {| q_before := acc; q_child := Some g; q_parent := Some c; q_grand := p |} :: split_go c p [] r
  | t :: r => split_go c p (acc ++ [t]) r
  end.

(* get_html_parts(k).append(x) *)
Definition parts_append (k : N) (x : list tok) (ps : list (N * list tok)) : list (N * list tok) :=
  aset k (aget [] k ps ++ x) ps.

(* set_html_attributes on serialised HTML: the attributes go onto every element and placeholder at nesting
   depth 0 (d = number of currently open elements) *)
Fixpoint set_attrs (A : list N) (d : nat) (ts : list tok) : list tok :=
  match ts with
  | [] => []
  | Open t a :: r => Open t (match d with O => A ++ a | S _ => a end) :: set_attrs A (S d) r
  | Close t :: r => Close t :: set_attrs A (pred d) r
  | Txt :: r => Txt :: set_attrs A d r
  | PhTok g a :: r => PhTok g (match d with O => A ++ a | S _ => a end) :: set_attrs A d r
  end.

(* ... and the attributes of every placeholder, reported back for watch_on_attribute *)
Fixpoint watched (ts : list tok) : list (N * list N) :=
  match ts with
  | [] => []
  | PhTok g a :: r => (g, a) :: watched r
  | _ :: r => watched r
  end.

(* template.render(context) of an instance's template, in document order: a nested component with a parent
   registers its renderer and leaves a placeholder; a component without a parent is a complete root run
   (`nest`), which reads and writes the same two global tables and returns finished HTML *)
Section Render.
  Variable nest : tables -> N -> list item -> res (list tok * tables).
  Fixpoint render_item (tb : tables) (it : item) : res (list tok * tables) :=
    match it with
    | IElem t kids =>
        match (fix go (tb : tables) (l : list item) : res (list tok * tables) :=
                 match l with
                 | [] => Done ([], tb)
                 | x :: r => match render_item tb x with
                             | Done (a, tb1) => match go tb1 r with
                                                | Done (b, tb2) => Done (a ++ b, tb2)
                                                | Failed e => Failed e | OutOfFuel => OutOfFuel end
                             | Failed e => Failed e | OutOfFuel => OutOfFuel end
                 end) tb kids with
        | Done (k, tb1) => Done (Open t [] :: k ++ [Close t], tb1)
        | Failed e => Failed e | OutOfFuel => OutOfFuel
        end
    | IText => Done ([Txt], tb)
    | IComp g b => Done ([PhTok g []], (aset g b (fst tb), snd tb))   (* component_renderer_cache[g] = ... ; placeholder *)
    | IRoot r b => nest tb r b
    end.
  Definition render_tpl (tb : tables) (its : list item) : res (list tok * tables) :=
    (fix go (tb : tables) (l : list item) : res (list tok * tables) :=
       match l with
       | [] => Done ([], tb)
       | x :: r => match render_item tb x with
                   | Done (a, tb1) => match go tb1 r with
                                      | Done (b, tb2) => Done (a ++ b, tb2)
                                      | Failed e => Failed e | OutOfFuel => OutOfFuel end
                   | Failed e => Failed e | OutOfFuel => OutOfFuel end
       end) tb its.

  (* one iteration of the while loop *)
  Definition step (s : st) : res st :=
    match queue s with
    | [] => Done s
    | it :: q =>
      match q_child it with
      | None =>
          match q_parent it with
          | None => Failed ERuntimeParentNone
          | Some p =>
              let html := aget [] p (parts s) ++ q_before it in      (* pop(parent, []) ; append ; join ; callback = identity *)
              let parts1 := aremove p (parts s) in
              match q_grand it with
              | Some g => Done {| queue := q; parts := parts_append g html parts1; content := content s;
                                  rend := rend s; cattrs := cattrs s |}
              | None => Done {| queue := q; parts := parts1; content := content s ++ html;
                                rend := rend s; cattrs := cattrs s |}
              end
          end
      | Some c =>
          let parts0 :=
            match q_before it with
            | [] => inl (parts s)
            | _ :: _ => match q_parent it with
                        | None => inr ERuntimeParentNone
                        | Some p => inl (parts_append p (q_before it) (parts s))
                        end
            end in
          match parts0 with
          | inr e => Failed e
          | inl parts1 =>
            match alookup c (rend s) with
            | None => Failed EKeyRenderer
            | Some body =>
                let rend1 := aremove c (rend s) in                                     (* component_renderer_cache.pop(child) *)
                let inherited := match alookup c (cattrs s) with Some l => l | None => [] end in   (* pop(child, None); falsy -> [] *)
                let cattrs1 := aremove c (cattrs s) in
                let A := inherited ++ [c] in
                (* the renderer: template.render (children register, re-entrant root runs happen), then set_html_attributes *)
                match render_tpl (rend1, cattrs1) body with
                | Done (raw, (rend2, cattrs2)) =>
                    let html := set_attrs A 0 raw in
                    let cattrs3 := aupdate (watched html) cattrs2 in                   (* child_component_attrs.update(...) *)
                    Done {| queue := split_go c (q_parent it) [] html ++ q;            (* extendleft(reversed(parts_to_process)) *)
                            parts := parts1; content := content s; rend := rend2; cattrs := cattrs3 |}
                | Failed e => Failed e
                | OutOfFuel => OutOfFuel
                end
            end
          end
      end
    end.
End Render.

Definition init_state (tb : tables) (c : N) (body : list item) : st :=
  {| queue := [ {| q_before := []; q_child := Some c; q_parent := None; q_grand := None |} ];
     parts := []; content := [];
     rend := aset c body (fst tb); cattrs := snd tb |}.

Definition finish (r : res st) : res (list tok * tables) :=
  match r with
  | Done s => Done (content s, (rend s, cattrs s))
  | Failed e => Failed e
  | OutOfFuel => OutOfFuel
  end.

(* the while loop.  `fuel` bounds the iterations of this run and is handed on (minus what was used so far) to the
   root runs that start re-entrantly during one of its iterations *)
Fixpoint run (fuel : nat) (s : st) : res st :=
  match queue s with
  | [] => Done s
  | _ :: _ => match fuel with
              | O => OutOfFuel
              | S f => match step (fun tb c body => finish (run f (init_state tb c body))) s with
                       | Done s' => run f s'
                       | Failed e => Failed e
                       | OutOfFuel => OutOfFuel
                       end
              end
  end.

(* a root component: returns the HTML and the process-global tables it leaves behind *)
Definition post_render (fuel : nat) (tb : tables) (c : N) (body : list item) : res (list tok * tables) :=
  finish (run fuel (init_state tb c body)).

(* a page: Django renders page-level nodes in place; every page-level component is a root run *)
Fixpoint page_item (tb : tables) (it : item) : res (list tok * tables) :=
  match it with
  | IElem t kids =>
      match (fix go (tb : tables) (l : list item) : res (list tok * tables) :=
               match l with
               | [] => Done ([], tb)
               | x :: r => match page_item tb x with
                           | Done (a, tb1) => match go tb1 r with
                                              | Done (b, tb2) => Done (a ++ b, tb2)
                                              | Failed e => Failed e | OutOfFuel => OutOfFuel end
                           | Failed e => Failed e | OutOfFuel => OutOfFuel end
               end) tb kids with
      | Done (k, tb1) => Done (Open t [] :: k ++ [Close t], tb1)
      | Failed e => Failed e | OutOfFuel => OutOfFuel
      end
  | IText => Done ([Txt], tb)
  | IComp c body => post_render (2 * ninst_item it) tb c body
  | IRoot c body => post_render (2 * ninst_item it) tb c body
  end.
Definition page_render (tb : tables) (its : list item) : res (list tok * tables) :=
  (fix go (tb : tables) (l : list item) : res (list tok * tables) :=
     match l with
     | [] => Done ([], tb)
     | x :: r => match page_item tb x with
                 | Done (a, tb1) => match go tb1 r with
                                    | Done (b, tb2) => Done (a ++ b, tb2)
                                    | Failed e => Failed e | OutOfFuel => OutOfFuel end
                 | Failed e => Failed e | OutOfFuel => OutOfFuel end
     end) tb its.

(* ---------- programs and their expansion into instance trees ---------- *)
Inductive tpl :=
| TElem (tag : N) (kids : list tpl)
| TText
| TComp (name : N) (dyn : bool) (fills : list (N * list tpl))   (* {% fill slot %}body{% endfill %} per entry; [] = no fill *)
| TSlot (name : N) (dflt : list tpl)                            (* {% slot name %}dflt{% endslot %} *)
| TRep (n : nat) (body : list tpl)                              (* {% for %} over n items *)
| TIf (c : bool) (body : list tpl)                              (* {% if %} *)
| TPy (name : N).                                               (* {{ v }}, v = Comp.render() evaluated from Python right there *)

(* context_behavior: iso = true is "isolated", false is "django" *)
Record prog := { lib : list (N * list tpl); page : list tpl; iso : bool }.

(* the fills visible to the slots of the template being rendered, the fills that were visible where those fills
   were written, and whether the context at that place carried a parent component id *)
Inductive env := ENone | EFill (fills : list (N * list tpl)) (outer : env) (keyed : bool).

Inductive xres := XOk (its : list item) (next : N) | XFuel | XNotRegistered | XSlotOutsideComponent.

Fixpoint seqM {A} (f : A -> N -> xres) (l : list A) (nx : N) : xres :=
  match l with
  | [] => XOk [] nx
  | a :: r => match f a nx with
              | XOk x n1 => match seqM f r n1 with
                            | XOk y n2 => XOk (x ++ y) n2
                            | e => e end
              | e => e end
  end.

(* an instance met with (keyed = true) / without a parent component id in the context *)
Definition mk_inst (keyed : bool) (c : N) (body : list item) : item :=
  if keyed then IComp c body else IRoot c body.

(* `keyed`: does the context the node is rendered with carry a parent component id *)
Fixpoint expand (fuel : nat) (lb : list (N * list tpl)) (isolated : bool) (e : env) (keyed : bool) (t : tpl) (nx : N) : xres :=
  match fuel with
  | O => XFuel
  | S f =>
    match t with
    | TElem tag kids => match seqM (expand f lb isolated e keyed) kids nx with
                        | XOk k n1 => XOk [IElem tag k] n1
                        | x => x end
    | TText => XOk [IText] nx
    | TComp name dyn fills =>
        match alookup name lb with
        | None => XNotRegistered
        | Some body =>
            let e' := match fills with [] => ENone | _ :: _ => EFill fills e keyed end in
            if dyn then
              (* DynamicComponent: an instance of its own whose whole output is the inner instance, which it renders
                 from on_render_before with the context its own tag was given *)
              match seqM (expand f lb isolated e' true) body (nx + 2) with
              | XOk k n1 => XOk [mk_inst keyed nx [mk_inst keyed (nx + 1) k]] n1
              | x => x end
            else
              match seqM (expand f lb isolated e' true) body (nx + 1) with
              | XOk k n1 => XOk [mk_inst keyed nx k] n1
              | x => x end
        end
    | TSlot name dflt =>
        if keyed then
          match e with
          | EFill fills eo kf =>
              match alookup name fills with
              | Some b =>
                  (* "isolated": the fill is rendered with the context of the place where it was written;
                     "django": with the slot's context (the id of the fill's author, if any, replaces the key) *)
                  seqM (expand f lb isolated eo (if isolated then kf else true)) b nx
              | None => seqM (expand f lb isolated e keyed) dflt nx
              end
          | ENone => seqM (expand f lb isolated e keyed) dflt nx
          end
        else XSlotOutsideComponent
    | TRep n body => seqM (fun _ : unit => seqM (expand f lb isolated e keyed) body) (repeat tt n) nx
    | TIf c body => if c then seqM (expand f lb isolated e keyed) body nx else XOk [] nx
    | TPy name =>
        match alookup name lb with
        | None => XNotRegistered
        | Some body =>
            match seqM (expand f lb isolated ENone true) body (nx + 1) with
            | XOk k n1 => XOk [IRoot nx k] n1
            | x => x end
        end
    end
  end.

Definition expand_page (fuel : nat) (p : prog) : xres :=
  seqM (expand fuel (lib p) (iso p) ENone false) (page p) 0%N.

(* ---------- correspondence ---------- *)
(* observed document: the element structure of the final HTML as tokens; ids are numbered canonically
   (see canon) so that the comparison does not depend on the order in which ids were handed out *)
Fixpoint insert_sorted (k : N) (l : list N) : list N :=
  match l with
  | [] => [k]
  | x :: r => if N.leb k x then k :: l else x :: insert_sorted k r
  end.
Definition sort_ids (l : list N) : list N := fold_right insert_sorted [] l.

(* renumber ids in order of first appearance (document order; inside one element: allocation order) *)
Fixpoint canon_go (m : list (N * N)) (nx : N) (ts : list tok) : list tok :=
  match ts with
  | [] => []
  | Open t a :: r =>
      let fresh := filter (fun i => negb (amem i m)) (sort_ids a) in
      let '(m', nx') := fold_left (fun (acc : list (N * N) * N) i =>
                                     let '(mm, n) := acc in if amem i mm then acc else ((i, n) :: mm, N.succ n))
                                  fresh (m, nx) in
      Open t (sort_ids (map (fun i => aget 0%N i m') a)) :: canon_go m' nx' r
  | x :: r => x :: canon_go m nx r
  end.
Definition canon (ts : list tok) : list tok := canon_go [] 0%N ts.

Definition tok_eqb (a b : tok) : bool :=
  match a, b with
  | Open t x, Open u y => N.eqb t u && list_eqb N.eqb x y
  | Close t, Close u => N.eqb t u
  | Txt, Txt => true
  | PhTok c x, PhTok d y => N.eqb c d && list_eqb N.eqb x y
  | _, _ => false
  end.

Definition no_txt (ts : list tok) : list tok := filter (fun t => match t with Txt => false | _ => true end) ts.

(* number of re-entrant root runs below the page level (instances rendered without a parent although a
   component's template was being rendered) *)
Fixpoint nreent_item (inside : bool) (it : item) : nat :=
  match it with
  | IElem _ kids => (fix go (l : list item) : nat := match l with [] => O | x :: r => nreent_item inside x + go r end) kids
  | IText => O
  | IComp _ body => (fix go (l : list item) : nat := match l with [] => O | x :: r => nreent_item true x + go r end) body
  | IRoot _ body => (if inside then 1 else 0)
                    + (fix go (l : list item) : nat := match l with [] => O | x :: r => nreent_item true x + go r end) body
  end.
Definition nreent (its : list item) : nat :=
  (fix go (l : list item) : nat := match l with [] => O | x :: r => nreent_item false x + go r end) its.

(* case = (expansion fuel, program, observed element tokens with canonical ids, number of instances observed,
           number of instances observed to start as a root while another instance's template was being rendered) *)
Definition c14_case := (N * prog * list tok * N * N)%type.

Definition model_doc (fuel : N) (p : prog) : option (list tok * nat * nat) :=
  match expand_page (N.to_nat fuel) p with
  | XOk its _ =>
      match page_render ([], []) its with
      | Done (ts, (r, ca)) =>
          (* the run must also leave the process-global tables empty *)
          match r, ca with [], [] => Some (ts, ninst its, nreent its) | _, _ => None end
      | _ => None
      end
  | _ => None
  end.

Definition check_c14 (c : c14_case) : bool :=
  let '(fuel, p, obs, n, nr) := c in
  match model_doc fuel p with
  | Some (ts, k, kr) => list_eqb tok_eqb (canon (no_txt ts)) obs && N.eqb (N.of_nat k) n && N.eqb (N.of_nat kr) nr
  | None => false
  end.

(* ---------- string level: recognising a placeholder and reading its id ---------- *)
(* Hand matcher for  nested_comp_pattern.match(s)  (pattern `<template [^>]*?djc-render-id="\w{6}"[^>]*?></template>`,
   anchored at the start of s) followed by render_id_pattern.search(match[0]) (first `djc-render-id="(\w{6})"`):
   none of the pieces can contain '>', so the tag interior is everything up to the first '>', that '>' must
   start `></template>`, and the id is the first occurrence of the key inside the interior.
   Result: the id and the text after the placeholder.  ASCII documents (\w = [0-9A-Za-z_]). *)
Import Coq.Strings.String.StringSyntax.
Local Delimit Scope string_scope with string.

Definition is_word (c : N) : bool :=
  ((48 <=? c) && (c <=? 57) || (65 <=? c) && (c <=? 90) || (c =? 95) || (97 <=? c) && (c <=? 122))%N.

Fixpoint take_until (c : N) (s : str) : str * str :=
  match s with
  | [] => ([], [])
  | x :: r => if N.eqb x c then ([], s) else let '(a, b) := take_until c r in (x :: a, b)
  end.

Definition ph_open : str := s2n "<template "%string.
Definition ph_key : str := s2n "djc-render-id="""%string.
Definition ph_close : str := s2n "></template>"%string.

Definition id_here (s : str) : option str :=
  let id := firstn 6 s in
  if Nat.eqb (length id) 6 && forallb is_word id && starts_with [34%N] (skipn 6 s) then Some id else None.

Fixpoint find_id (s : str) : option str :=
  match (if starts_with ph_key s then id_here (skipn (length ph_key) s) else None) with
  | Some id => Some id
  | None => match s with [] => None | _ :: r => find_id r end
  end.

Definition match_placeholder_at (s : str) : option (str * str) :=
  if starts_with ph_open s then
    let '(interior, rest) := take_until 62%N (skipn (length ph_open) s) in
    if starts_with ph_close rest then
      match find_id interior with
      | Some id => Some (id, skipn (length ph_close) rest)
      | None => None
      end
    else None
  else None.

(* case = (text, what `re` answers: id and number of characters left after the match) *)
Definition ph_case := (str * option (str * N))%type.
Definition check_ph (c : ph_case) : bool :=
  let '(s, e) := c in
  match match_placeholder_at s, e with
  | Some (id, rest), Some (id', n) => str_eqb id id' && N.eqb (N.of_nat (length rest)) n
  | None, None => true
  | _, _ => false
  end.
