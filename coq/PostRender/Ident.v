(* Property C14, clause "the marker attribute carries the same id that Component.id reports during that render".

   Anchors: component.py:1026 (render_id = gen_id(), once per render, BEFORE get_context_data), 1027-1038 (MetadataItem
   carries that render_id), 621-626 (_with_metadata: append on enter, pop() on leave), 633-667 (Component.id =
   _metadata_stack[-1].render_id), 1091-1095 (get_context_data runs under _with_metadata), 1159-1163 (on_render_after),
   1254-1260 (on_render_before and template.render run under _with_metadata inside the deferred renderer),
   1263-1269 (the marker is built from the same local render_id), perfutil/component.py (order of the queue).

   Definitions and proofs.  On top of PostRender/Model.v (instance trees `item`, whose ids are used here as LABELS of
   the instances):
   - `page_events`: the sequence in which the implementation allocates render ids (EAlloc = the gen_id() call of
     _render_impl), enters / leaves the metadata stack of the Component OBJECT that renders the instance, and lets
     user code read Component.id (EReport) - in the order of the deferred-render queue: an instance is PREPARED
     (id allocated, get_context_data) when its tag is met while the parent's template renders; its template is
     rendered when its queue item is popped (depth first, document order); on_render_after when its last part is
     joined.  A root run (IRoot, or any page-level instance) does all of this at once.  `early c`: the instance is
     rendered from inside get_context_data of the enclosing instance (it is allocated right after its host);
     `obj c`: which Component object renders instance c (self.render(...) re-enters the SAME object).
   - `exec`: the metadata stacks (one deque per object: append / pop / [-1]) and what every read of Component.id returns.
   - `rid sup T c`: the render id of instance c = the supply's value at the position of c's allocation.
   - `rename`: the instance tree with every label replaced by the render id allocated for it. *)
From DJC Require Import Lib.Base PostRender.Model PostRender.Proofs.

Inductive hook := HGcd | HBefore | HTemplate | HAfter.
Inductive ev :=
| EAlloc (c : N)                    (* render_id = gen_id() for instance c *)
| EPush (o c : N)                   (* object o: _metadata_stack.append(metadata of c) *)
| EPop (o : N)                      (* object o: _metadata_stack.pop() *)
| EReport (h : hook) (c o : N).     (* user code of instance c (rendered by object o) reads self.id *)

Section Trace.
  Variable early : N -> bool.
  Variable obj : N -> N.

  Definition prep (c : N) (e : list ev) : list ev :=
    EAlloc c :: EPush (obj c) c :: e ++ [EReport HGcd c (obj c); EPop (obj c)].
  Definition rend (c : N) (m : list ev) : list ev :=
    EPush (obj c) c :: EReport HBefore c (obj c) :: m ++ [EReport HTemplate c (obj c); EPop (obj c)].
  Definition after (c : N) : list ev := [EPush (obj c) c; EReport HAfter c (obj c); EPop (obj c)].
  Definition whole (c : N) (e m l : list ev) : list ev := prep c e ++ rend c m ++ l ++ after c.

  (* a fragment: (what happens inside the host's get_context_data, while the host's template renders, and later,
     when the queue reaches the deferred children) *)
  Fixpoint frag_item (it : item) : list ev * list ev * list ev :=
    match it with
    | IElem _ kids =>
        (fix go (l : list item) : list ev * list ev * list ev :=
           match l with
           | [] => ([], [], [])
           | x :: r => let '(e1, m1, l1) := frag_item x in let '(e2, m2, l2) := go r in (e1 ++ e2, m1 ++ m2, l1 ++ l2)
           end) kids
    | IText => ([], [], [])
    | IComp g b =>
        let '(e, m, l) := (fix go (l : list item) : list ev * list ev * list ev :=
           match l with
           | [] => ([], [], [])
           | x :: r => let '(e1, m1, l1) := frag_item x in let '(e2, m2, l2) := go r in (e1 ++ e2, m1 ++ m2, l1 ++ l2)
           end) b in
        ([], prep g e, rend g m ++ l ++ after g)
    | IRoot c b =>
        let '(e, m, l) := (fix go (l : list item) : list ev * list ev * list ev :=
           match l with
           | [] => ([], [], [])
           | x :: r => let '(e1, m1, l1) := frag_item x in let '(e2, m2, l2) := go r in (e1 ++ e2, m1 ++ m2, l1 ++ l2)
           end) b in
        if early c then (whole c e m l, [], []) else ([], whole c e m l, [])
    end.
  Definition frag (its : list item) : list ev * list ev * list ev :=
    (fix go (l : list item) : list ev * list ev * list ev :=
       match l with
       | [] => ([], [], [])
       | x :: r => let '(e1, m1, l1) := frag_item x in let '(e2, m2, l2) := go r in (e1 ++ e2, m1 ++ m2, l1 ++ l2)
       end) its.

  (* a page: every page-level instance is a root run *)
  Fixpoint page_ev_item (it : item) : list ev :=
    match it with
    | IElem _ kids => (fix go (l : list item) : list ev := match l with [] => [] | x :: r => page_ev_item x ++ go r end) kids
    | IText => []
    | IComp c b => let '(e, m, l) := frag b in whole c e m l
    | IRoot c b => let '(e, m, l) := frag b in whole c e m l
    end.
  Definition page_events (its : list item) : list ev :=
    (fix go (l : list item) : list ev := match l with [] => [] | x :: r => page_ev_item x ++ go r end) its.
End Trace.

Fixpoint allocs (T : list ev) : list N :=
  match T with
  | [] => []
  | EAlloc c :: r => c :: allocs r
  | _ :: r => allocs r
  end.

(* position of the first occurrence *)
Fixpoint index (c : N) (l : list N) : nat :=
  match l with
  | [] => O
  | x :: r => if N.eqb c x then O else S (index c r)
  end.

Definition rid (sup : nat -> N) (T : list ev) (c : N) : N := sup (index c (allocs T)).

(* metadata stacks, one per Component object; the top is the LAST element (deque: append / pop / [-1]) *)
Notation stacks := (list (N * list N)) (only parsing).
Fixpoint exec (rho : N -> N) (T : list ev) (S : stacks) : option (stacks * list (hook * N * N)) :=
  match T with
  | [] => Some (S, [])
  | EAlloc _ :: r => exec rho r S
  | EPush o c :: r => exec rho r (aset o (aget [] o S ++ [rho c]) S)
  | EPop o :: r =>
      match aget [] o S with
      | [] => None                                        (* IndexError: pop from an empty deque *)
      | _ :: _ => exec rho r (aset o (removelast (aget [] o S)) S)
      end
  | EReport h c o :: r =>
      match aget [] o S with
      | [] => None                                        (* RuntimeError: id read outside of rendering execution *)
      | _ :: _ => match exec rho r S with
                  | Some (S', R) => Some (S', (h, c, last (aget [] o S) 0%N) :: R)
                  | None => None
                  end
      end
  end.

(* the instance tree with the allocated render ids in place of the labels *)
Fixpoint rename_item (f : N -> N) (it : item) : item :=
  match it with
  | IElem t kids => IElem t ((fix go (l : list item) : list item := match l with [] => [] | x :: r => rename_item f x :: go r end) kids)
  | IText => IText
  | IComp c b => IComp (f c) ((fix go (l : list item) : list item := match l with [] => [] | x :: r => rename_item f x :: go r end) b)
  | IRoot c b => IRoot (f c) ((fix go (l : list item) : list item := match l with [] => [] | x :: r => rename_item f x :: go r end) b)
  end.
Definition rename (f : N -> N) (its : list item) : list item :=
  (fix go (l : list item) : list item := match l with [] => [] | x :: r => rename_item f x :: go r end) its.

(* ---------------------------------------------------------------------------------------------- *)
(* unfolding                                                                                        *)
(* ---------------------------------------------------------------------------------------------- *)
Lemma frag_cons early obj x r :
  frag early obj (x :: r) =
  let '(e1, m1, l1) := frag_item early obj x in let '(e2, m2, l2) := frag early obj r in (e1 ++ e2, m1 ++ m2, l1 ++ l2).
Proof. reflexivity. Qed.
Lemma frag_item_elem early obj t k : frag_item early obj (IElem t k) = frag early obj k. Proof. reflexivity. Qed.
Lemma frag_item_comp early obj g b :
  frag_item early obj (IComp g b) =
  let '(e, m, l) := frag early obj b in ([], prep obj g e, rend obj g m ++ l ++ after obj g).
Proof. reflexivity. Qed.
Lemma frag_item_root early obj c b :
  frag_item early obj (IRoot c b) =
  let '(e, m, l) := frag early obj b in
  if early c then (whole obj c e m l, [], []) else ([], whole obj c e m l, []).
Proof. reflexivity. Qed.
Lemma page_events_cons early obj x r :
  page_events early obj (x :: r) = page_ev_item early obj x ++ page_events early obj r.
Proof. reflexivity. Qed.
Lemma page_ev_elem early obj t k : page_ev_item early obj (IElem t k) = page_events early obj k. Proof. reflexivity. Qed.
Lemma rename_cons f x r : rename f (x :: r) = rename_item f x :: rename f r. Proof. reflexivity. Qed.
Lemma rename_elem f t k : rename_item f (IElem t k) = IElem t (rename f k). Proof. reflexivity. Qed.
Lemma rename_comp f c b : rename_item f (IComp c b) = IComp (f c) (rename f b). Proof. reflexivity. Qed.
Lemma rename_root f c b : rename_item f (IRoot c b) = IRoot (f c) (rename f b). Proof. reflexivity. Qed.

(* ---------------------------------------------------------------------------------------------- *)
(* 1. every instance is allocated exactly once                                                      *)
(* ---------------------------------------------------------------------------------------------- *)
Definition cnt (c : N) (l : list N) : nat := count_occ N.eq_dec l c.
Lemma cnt_app c a b : cnt c (a ++ b) = (cnt c a + cnt c b)%nat.
Proof. apply count_occ_app. Qed.
Lemma cnt_cons c x l : cnt c (x :: l) = ((if N.eq_dec x c then 1 else 0) + cnt c l)%nat.
Proof. unfold cnt. simpl. destruct (N.eq_dec x c); reflexivity. Qed.
Lemma allocs_app a b : allocs (a ++ b) = allocs a ++ allocs b.
Proof. induction a as [|[c|o c|o|h c o] a IH]; simpl; [reflexivity | now rewrite IH | exact IH | exact IH | exact IH]. Qed.
Lemma allocs_whole obj c e m l : allocs (whole obj c e m l) = c :: allocs e ++ allocs m ++ allocs l.
Proof.
  unfold whole, prep, rend, after. rewrite !allocs_app. cbn [allocs app]. rewrite !allocs_app. cbn [allocs app].
  now rewrite !app_nil_r.
Qed.
Lemma allocs_prep obj c e : allocs (prep obj c e) = c :: allocs e.
Proof. unfold prep. cbn [allocs]. rewrite allocs_app. cbn [allocs]. now rewrite app_nil_r. Qed.
Lemma allocs_rest obj c m l : allocs (rend obj c m ++ l ++ after obj c) = allocs m ++ allocs l.
Proof.
  unfold rend, after. rewrite !allocs_app. cbn [allocs app]. rewrite !allocs_app. cbn [allocs app]. now rewrite !app_nil_r.
Qed.

Lemma frag_count early obj : forall n its, (tsize its <= n)%nat ->
  forall c, let '(e, m, l) := frag early obj its in
            (cnt c (allocs e) + cnt c (allocs m) + cnt c (allocs l) = cnt c (ids its))%nat.
Proof.
  induction n as [|n IH]; intros its Hs c.
  - destruct its as [|x r]; [reflexivity|]. rewrite tsize_cons in Hs. pose proof (tsize_item_pos x). lia.
  - destruct its as [|x r]; [reflexivity|]. rewrite tsize_cons in Hs. pose proof (tsize_item_pos x) as Hp.
    rewrite frag_cons. specialize (IH r ltac:(lia) c) as IHr.
    destruct (frag early obj r) as [[e2 m2] l2].
    assert (Hx : let '(e1, m1, l1) := frag_item early obj x in
                 (cnt c (allocs e1) + cnt c (allocs m1) + cnt c (allocs l1) = cnt c (ids_item x))%nat).
    { destruct x as [t k| |g b|g b].
      - rewrite frag_item_elem, ids_elem. rewrite tsize_elem in Hs. apply IH. lia.
      - reflexivity.
      - rewrite frag_item_comp, ids_comp. rewrite tsize_comp in Hs. specialize (IH b ltac:(lia) c).
        destruct (frag early obj b) as [[e m] l]. rewrite allocs_prep, allocs_rest. cbn [allocs].
        rewrite !cnt_cons, cnt_app. change (cnt c []) with 0%nat. lia.
      - rewrite frag_item_root, ids_root. rewrite tsize_root in Hs. specialize (IH b ltac:(lia) c).
        destruct (frag early obj b) as [[e m] l].
        destruct (early g); rewrite allocs_whole; cbn [allocs]; rewrite !cnt_cons, !cnt_app; change (cnt c []) with 0%nat; lia. }
    destruct (frag_item early obj x) as [[e1 m1] l1].
    rewrite !allocs_app, !cnt_app, ids_cons, cnt_app. lia.
Qed.

Lemma page_count early obj : forall n its, (tsize its <= n)%nat ->
  forall c, cnt c (allocs (page_events early obj its)) = cnt c (ids its).
Proof.
  induction n as [|n IH]; intros its Hs c.
  - destruct its as [|x r]; [reflexivity|]. rewrite tsize_cons in Hs. pose proof (tsize_item_pos x). lia.
  - destruct its as [|x r]; [reflexivity|]. rewrite tsize_cons in Hs. pose proof (tsize_item_pos x) as Hp.
    rewrite page_events_cons, allocs_app, cnt_app, ids_cons, cnt_app, (IH r) by lia. f_equal.
    destruct x as [t k| |g b|g b].
    + rewrite page_ev_elem, ids_elem. rewrite tsize_elem in Hs. apply IH. lia.
    + reflexivity.
    + cbn [page_ev_item]. rewrite ids_comp. pose proof (frag_count early obj (tsize b) b (le_n _) c) as H.
      destruct (frag early obj b) as [[e m] l]. rewrite allocs_whole, !cnt_cons, !cnt_app. lia.
    + cbn [page_ev_item]. rewrite ids_root. pose proof (frag_count early obj (tsize b) b (le_n _) c) as H.
      destruct (frag early obj b) as [[e m] l]. rewrite allocs_whole, !cnt_cons, !cnt_app. lia.
Qed.

Lemma cnt_in c l : In c l <-> (0 < cnt c l)%nat.
Proof. unfold cnt. apply count_occ_In. Qed.

Lemma allocs_perm early obj its :
  NoDup (ids its) ->
  NoDup (allocs (page_events early obj its)) /\ (forall c, In c (allocs (page_events early obj its)) <-> In c (ids its)).
Proof.
  intro Hnd. pose proof (page_count early obj (tsize its) its (le_n _)) as Hc. split.
  - apply (NoDup_count_occ N.eq_dec). intro c. fold (cnt c (allocs (page_events early obj its))). rewrite Hc.
    apply (NoDup_count_occ N.eq_dec). exact Hnd.
  - intro c. rewrite !cnt_in, Hc. reflexivity.
Qed.

Lemma index_inj l : forall c c', In c l -> In c' l -> index c l = index c' l -> c = c'.
Proof.
  induction l as [|x l IH]; intros c c' Hc Hc' E; [contradiction|]. simpl in E.
  destruct (N.eqb c x) eqn:E1; destruct (N.eqb c' x) eqn:E2; try discriminate.
  - apply N.eqb_eq in E1, E2. congruence.
  - apply N.eqb_neq in E1, E2. destruct Hc as [Hc|Hc]; [congruence|]. destruct Hc' as [Hc'|Hc']; [congruence|].
    apply IH; auto.
Qed.

(* ---------------------------------------------------------------------------------------------- *)
(* 2. the metadata stacks: every read of Component.id returns the id of the render it is made in     *)
(* ---------------------------------------------------------------------------------------------- *)
Lemma aget_aset_eq {V} (d : V) k v l : aget d k (aset k v l) = v.
Proof. unfold aget. now rewrite alookup_aset_eq. Qed.
Lemma aget_aset_neq {V} (d : V) k k' v l : k <> k' -> aget d k (aset k' v l) = aget d k l.
Proof. intro H. unfold aget. now rewrite alookup_aset_neq. Qed.

Lemma exec_app rho T1 : forall T2 S,
  exec rho (T1 ++ T2) S =
  match exec rho T1 S with
  | Some (S1, R1) => match exec rho T2 S1 with Some (S2, R2) => Some (S2, R1 ++ R2) | None => None end
  | None => None
  end.
Proof.
  induction T1 as [|[c|o c|o|h c o] T1 IH]; intros T2 S; cbn [app exec].
  - destruct (exec rho T2 S) as [[S2 R2]|]; reflexivity.
  - apply IH.
  - apply IH.
  - destruct (aget [] o S); [reflexivity | apply IH].
  - destruct (aget [] o S) eqn:E; [reflexivity|]. rewrite IH.
    destruct (exec rho T1 S) as [[S1 R1]|]; [|reflexivity].
    destruct (exec rho T2 S1) as [[S2 R2]|]; reflexivity.
Qed.

Definition rep_ok (rho : N -> N) (r : hook * N * N) : Prop := let '(_, c, v) := r in v = rho c.

(* a piece of the trace that leaves every stack as it found it and in which every report is right *)
Definition neutral (rho : N -> N) (T : list ev) : Prop :=
  forall S, exists S' R, exec rho T S = Some (S', R) /\ (forall o, aget [] o S' = aget [] o S) /\ Forall (rep_ok rho) R.

Lemma neutral_nil rho : neutral rho [].
Proof. intro S. exists S, []. repeat split. constructor. Qed.

Lemma neutral_app rho T1 T2 : neutral rho T1 -> neutral rho T2 -> neutral rho (T1 ++ T2).
Proof.
  intros H1 H2 S. destruct (H1 S) as (S1 & R1 & E1 & Q1 & F1). destruct (H2 S1) as (S2 & R2 & E2 & Q2 & F2).
  exists S2, (R1 ++ R2). rewrite exec_app, E1, E2. repeat split.
  - intro o. now rewrite Q2, Q1.
  - apply Forall_app. split; assumption.
Qed.

Lemma neutral_alloc rho c T : neutral rho T -> neutral rho (EAlloc c :: T).
Proof. intros H S. exact (H S). Qed.

(* _with_metadata(metadata of c) on object o around: reads of self.id, a neutral piece, reads of self.id *)
Lemma neutral_block rho o c (h1 : list hook) T (h2 : list hook) :
  neutral rho T ->
  neutral rho (EPush o c :: map (fun h => EReport h c o) h1 ++ T ++ map (fun h => EReport h c o) h2 ++ [EPop o]).
Proof.
  intros HT S. cbn [exec].
  set (S0 := aset o (aget [] o S ++ [rho c]) S).
  assert (Hrep : forall hs S1, aget [] o S1 = aget [] o S ++ [rho c] ->
            exec rho (map (fun h => EReport h c o) hs) S1 = Some (S1, map (fun h => (h, c, rho c)) hs)).
  { induction hs as [|h hs IH]; intros S1 H1; cbn [map exec]; [reflexivity|].
    rewrite H1. destruct (aget [] o S ++ [rho c]) eqn:E; [destruct (aget [] o S); discriminate|].
    rewrite <- E, IH by exact H1. now rewrite last_last. }
  assert (H0 : aget [] o S0 = aget [] o S ++ [rho c]) by (unfold S0; apply aget_aset_eq).
  destruct (HT S0) as (S1 & R1 & E1 & Q1 & F1).
  assert (H1 : aget [] o S1 = aget [] o S ++ [rho c]) by (now rewrite Q1).
  rewrite exec_app, (Hrep h1 S0 H0), exec_app, E1, exec_app, (Hrep h2 S1 H1).
  cbn [exec]. rewrite H1. destruct (aget [] o S ++ [rho c]) eqn:E; [destruct (aget [] o S); discriminate|].
  rewrite <- E, removelast_last.
  eexists _, _. split; [reflexivity|]. split.
  - intro o'. destruct (N.eq_dec o' o) as [->|Hn]; [apply aget_aset_eq|].
    rewrite aget_aset_neq by exact Hn. rewrite Q1. unfold S0. now apply aget_aset_neq.
  - repeat (apply Forall_app; split); try assumption; try (constructor);
      apply Forall_forall; intros [[h c'] v] Hi; apply in_map_iff in Hi as (h' & Hh & _); inversion Hh; reflexivity.
Qed.

Lemma neutral_prep rho obj c e : neutral rho e -> neutral rho (prep obj c e).
Proof. intro H. unfold prep. apply neutral_alloc. exact (neutral_block rho (obj c) c [] e [HGcd] H). Qed.
Lemma neutral_rend rho obj c m : neutral rho m -> neutral rho (rend obj c m).
Proof. intro H. exact (neutral_block rho (obj c) c [HBefore] m [HTemplate] H). Qed.
Lemma neutral_after rho obj c : neutral rho (after obj c).
Proof. exact (neutral_block rho (obj c) c [HAfter] [] [] (neutral_nil rho)). Qed.
Lemma neutral_whole rho obj c e m l : neutral rho e -> neutral rho m -> neutral rho l -> neutral rho (whole obj c e m l).
Proof.
  intros He Hm Hl. unfold whole. apply neutral_app; [now apply neutral_prep|].
  apply neutral_app; [now apply neutral_rend|]. apply neutral_app; [exact Hl | apply neutral_after].
Qed.

Lemma frag_neutral rho early obj : forall n its, (tsize its <= n)%nat ->
  let '(e, m, l) := frag early obj its in neutral rho e /\ neutral rho m /\ neutral rho l.
Proof.
  induction n as [|n IH]; intros its Hs.
  - destruct its as [|x r]; [repeat split; apply neutral_nil|]. rewrite tsize_cons in Hs. pose proof (tsize_item_pos x). lia.
  - destruct its as [|x r]; [repeat split; apply neutral_nil|]. rewrite tsize_cons in Hs. pose proof (tsize_item_pos x) as Hp.
    rewrite frag_cons. specialize (IH r ltac:(lia)) as IHr.
    destruct (frag early obj r) as [[e2 m2] l2]. destruct IHr as (He2 & Hm2 & Hl2).
    assert (Hx : let '(e1, m1, l1) := frag_item early obj x in neutral rho e1 /\ neutral rho m1 /\ neutral rho l1).
    { destruct x as [t k| |g b|g b].
      - rewrite frag_item_elem. rewrite tsize_elem in Hs. apply IH. lia.
      - repeat split; apply neutral_nil.
      - rewrite frag_item_comp. rewrite tsize_comp in Hs. specialize (IH b ltac:(lia)).
        destruct (frag early obj b) as [[e m] l]. destruct IH as (He & Hm & Hl).
        split; [apply neutral_nil|]. split; [now apply neutral_prep|].
        apply neutral_app; [now apply neutral_rend|]. apply neutral_app; [exact Hl | apply neutral_after].
      - rewrite frag_item_root. rewrite tsize_root in Hs. specialize (IH b ltac:(lia)).
        destruct (frag early obj b) as [[e m] l]. destruct IH as (He & Hm & Hl).
        destruct (early g); repeat split; try apply neutral_nil; now apply neutral_whole. }
    destruct (frag_item early obj x) as [[e1 m1] l1]. destruct Hx as (He1 & Hm1 & Hl1).
    repeat split; now apply neutral_app.
Qed.

Lemma page_neutral rho early obj : forall n its, (tsize its <= n)%nat -> neutral rho (page_events early obj its).
Proof.
  induction n as [|n IH]; intros its Hs.
  - destruct its as [|x r]; [apply neutral_nil|]. rewrite tsize_cons in Hs. pose proof (tsize_item_pos x). lia.
  - destruct its as [|x r]; [apply neutral_nil|]. rewrite tsize_cons in Hs. pose proof (tsize_item_pos x) as Hp.
    rewrite page_events_cons. apply neutral_app; [|apply IH; lia].
    destruct x as [t k| |g b|g b].
    + rewrite page_ev_elem. rewrite tsize_elem in Hs. apply IH. lia.
    + apply neutral_nil.
    + cbn [page_ev_item]. pose proof (frag_neutral rho early obj (tsize b) b (le_n _)) as H.
      destruct (frag early obj b) as [[e m] l]. destruct H as (He & Hm & Hl). now apply neutral_whole.
    + cbn [page_ev_item]. pose proof (frag_neutral rho early obj (tsize b) b (le_n _)) as H.
      destruct (frag early obj b) as [[e m] l]. destruct H as (He & Hm & Hl). now apply neutral_whole.
Qed.

(* which reads of Component.id the trace contains *)
Fixpoint reported (T : list ev) : list (hook * N) :=
  match T with
  | [] => []
  | EReport h c _ :: r => (h, c) :: reported r
  | _ :: r => reported r
  end.
Lemma reported_app a b : reported (a ++ b) = reported a ++ reported b.
Proof. induction a as [|[c|o c|o|h c o] a IH]; simpl; [reflexivity | exact IH | exact IH | exact IH | now rewrite IH]. Qed.

Lemma exec_reported rho T : forall S S' R, exec rho T S = Some (S', R) -> map (fun r => fst r) R = reported T.
Proof.
  induction T as [|[c|o c|o|h c o] T IH]; intros S S' R H; cbn [exec reported] in *.
  - inversion H; reflexivity.
  - eapply IH; eassumption.
  - eapply IH; eassumption.
  - destruct (aget [] o S); [discriminate | eapply IH; eassumption].
  - destruct (aget [] o S); [discriminate|]. destruct (exec rho T S) as [[S1 R1]|] eqn:E; [|discriminate].
    inversion H; subst. cbn [map fst]. f_equal. eapply IH; eassumption.
Qed.

(* every allocated instance reads its id at the end of get_context_data *)
Definition covers (T : list ev) : Prop := forall c, In c (allocs T) -> In (HGcd, c) (reported T).
Lemma covers_nil : covers []. Proof. intros c []. Qed.
Lemma covers_app a b : covers a -> covers b -> covers (a ++ b).
Proof.
  intros Ha Hb c Hc. rewrite allocs_app in Hc. rewrite reported_app. apply in_or_app.
  apply in_app_or in Hc as [Hc|Hc]; [left; now apply Ha | right; now apply Hb].
Qed.
Lemma covers_prep obj c e : covers e -> covers (prep obj c e).
Proof.
  intros He c' Hc. rewrite allocs_prep in Hc. unfold prep. cbn [reported]. rewrite reported_app. cbn [reported].
  apply in_or_app. destruct Hc as [<-|Hc]; [right; now left | left; now apply He].
Qed.
Lemma covers_rest obj c m l : covers m -> covers l -> covers (rend obj c m ++ l ++ after obj c).
Proof.
  intros Hm Hl c' Hc. rewrite allocs_rest in Hc. unfold rend, after. rewrite !reported_app. cbn [reported app].
  rewrite reported_app. right. apply in_or_app. apply in_app_or in Hc as [Hc|Hc].
  - left. apply in_or_app. left. now apply Hm.
  - right. apply in_or_app. left. now apply Hl.
Qed.
Lemma covers_whole obj c e m l : covers e -> covers m -> covers l -> covers (whole obj c e m l).
Proof. intros He Hm Hl. unfold whole. apply covers_app; [now apply covers_prep | now apply covers_rest]. Qed.

Lemma frag_covers early obj : forall n its, (tsize its <= n)%nat ->
  let '(e, m, l) := frag early obj its in covers e /\ covers m /\ covers l.
Proof.
  induction n as [|n IH]; intros its Hs.
  - destruct its as [|x r]; [repeat split; apply covers_nil|]. rewrite tsize_cons in Hs. pose proof (tsize_item_pos x). lia.
  - destruct its as [|x r]; [repeat split; apply covers_nil|]. rewrite tsize_cons in Hs. pose proof (tsize_item_pos x) as Hp.
    rewrite frag_cons. specialize (IH r ltac:(lia)) as IHr.
    destruct (frag early obj r) as [[e2 m2] l2]. destruct IHr as (He2 & Hm2 & Hl2).
    assert (Hx : let '(e1, m1, l1) := frag_item early obj x in covers e1 /\ covers m1 /\ covers l1).
    { destruct x as [t k| |g b|g b].
      - rewrite frag_item_elem. rewrite tsize_elem in Hs. apply IH. lia.
      - repeat split; apply covers_nil.
      - rewrite frag_item_comp. rewrite tsize_comp in Hs. specialize (IH b ltac:(lia)).
        destruct (frag early obj b) as [[e m] l]. destruct IH as (He & Hm & Hl).
        split; [apply covers_nil|]. split; [now apply covers_prep | now apply covers_rest].
      - rewrite frag_item_root. rewrite tsize_root in Hs. specialize (IH b ltac:(lia)).
        destruct (frag early obj b) as [[e m] l]. destruct IH as (He & Hm & Hl).
        destruct (early g); repeat split; try apply covers_nil; now apply covers_whole. }
    destruct (frag_item early obj x) as [[e1 m1] l1]. destruct Hx as (He1 & Hm1 & Hl1).
    repeat split; now apply covers_app.
Qed.

Lemma page_covers early obj : forall n its, (tsize its <= n)%nat -> covers (page_events early obj its).
Proof.
  induction n as [|n IH]; intros its Hs.
  - destruct its as [|x r]; [apply covers_nil|]. rewrite tsize_cons in Hs. pose proof (tsize_item_pos x). lia.
  - destruct its as [|x r]; [apply covers_nil|]. rewrite tsize_cons in Hs. pose proof (tsize_item_pos x) as Hp.
    rewrite page_events_cons. apply covers_app; [|apply IH; lia].
    destruct x as [t k| |g b|g b].
    + rewrite page_ev_elem. rewrite tsize_elem in Hs. apply IH. lia.
    + apply covers_nil.
    + cbn [page_ev_item]. pose proof (frag_covers early obj (tsize b) b (le_n _)) as H.
      destruct (frag early obj b) as [[e m] l]. destruct H as (He & Hm & Hl). now apply covers_whole.
    + cbn [page_ev_item]. pose proof (frag_covers early obj (tsize b) b (le_n _)) as H.
      destruct (frag early obj b) as [[e m] l]. destruct H as (He & Hm & Hl). now apply covers_whole.
Qed.

(* ---------------------------------------------------------------------------------------------- *)
(* 3. renaming                                                                                      *)
(* ---------------------------------------------------------------------------------------------- *)
Lemma ids_rename f : forall n its, (tsize its <= n)%nat -> ids (rename f its) = map f (ids its).
Proof.
  induction n as [|n IH]; intros its Hs.
  - destruct its as [|x r]; [reflexivity|]. rewrite tsize_cons in Hs. pose proof (tsize_item_pos x). lia.
  - destruct its as [|x r]; [reflexivity|]. rewrite tsize_cons in Hs. pose proof (tsize_item_pos x) as Hp.
    rewrite rename_cons, !ids_cons, map_app, (IH r) by lia. f_equal.
    destruct x as [t k| |g b|g b].
    + rewrite rename_elem, !ids_elem. rewrite tsize_elem in Hs. apply IH. lia.
    + reflexivity.
    + rewrite rename_comp, !ids_comp. rewrite tsize_comp in Hs. cbn [map]. f_equal. apply IH. lia.
    + rewrite rename_root, !ids_root. rewrite tsize_root in Hs. cbn [map]. f_equal. apply IH. lia.
Qed.

Lemma nodup_map_on {A B} (f : A -> B) l :
  NoDup l -> (forall x y, In x l -> In y l -> f x = f y -> x = y) -> NoDup (map f l).
Proof.
  induction 1 as [|x l Hx Hnd IH]; intro Hf; cbn [map]; constructor.
  - intro Hi. apply in_map_iff in Hi as (y & E & Hy). apply Hx.
    rewrite (Hf x y); [exact Hy | now left | now right | now symmetry].
  - apply IH. intros a b Ha Hb. apply Hf; now right.
Qed.

Lemma rename_chain f : forall cs c body,
  rename_item f (chain_item c cs body) = chain_item (f c) (map f cs) (rename f body).
Proof.
  induction cs as [|c' cs IH]; intros c body; cbn [chain_item map]; rewrite rename_comp; [reflexivity|].
  rewrite rename_cons, IH. reflexivity.
Qed.

Lemma in_rename f t k : forall body, In (IElem t k) body -> In (IElem t (rename f k)) (rename f body).
Proof.
  induction body as [|x r IH]; intro Hi; [contradiction|]. rewrite rename_cons.
  destruct Hi as [->|Hi]; [left; now rewrite rename_elem | right; now apply IH].
Qed.

(* ---------------------------------------------------------------------------------------------- *)
(* 4. end to end                                                                                    *)
(* ---------------------------------------------------------------------------------------------- *)
Lemma rid_distinct_lemma : forall early obj sup its,
  (forall i j, sup i = sup j -> i = j) -> NoDup (ids its) ->
  let rho := rid sup (page_events early obj its) in
  (forall c c', In c (ids its) -> In c' (ids its) -> rho c = rho c' -> c = c') /\ NoDup (ids (rename rho its)).
Proof.
  intros early obj sup its Hsup Hnd rho.
  destruct (allocs_perm early obj its Hnd) as [_ Hin].
  assert (Hinj : forall c c', In c (ids its) -> In c' (ids its) -> rho c = rho c' -> c = c').
  { intros c c' Hc Hc' E. unfold rho, rid in E. apply Hsup in E.
    apply (index_inj (allocs (page_events early obj its))); [now apply Hin | now apply Hin | exact E]. }
  split; [exact Hinj|]. rewrite (ids_rename rho (tsize its)) by lia. now apply nodup_map_on.
Qed.

Lemma component_id_lemma : forall early obj sup its,
  (forall i j, sup i = sup j -> i = j) -> NoDup (ids its) ->
  let T := page_events early obj its in
  let rho := rid sup T in
  exists S R,
    exec rho T [] = Some (S, R) /\ (forall o, aget [] o S = []) /\
    (forall h c v, In (h, c, v) R -> v = rho c) /\
    (forall c, In c (ids its) -> In (HGcd, c, rho c) R) /\
    page_render ([], []) (rename rho its) = Done (inline [] (rename rho its), ([], [])) /\
    (forall c, In c (ids its) ->
       exists B out, outputs (rho c) [] (rename rho its) = [out] /\ Forall (root_ok (B ++ [rho c])) out /\
                     carrying (rho c) (inlT [] (rename rho its)) = top_elems out).
Proof.
  intros early obj sup its Hsup Hnd T rho.
  destruct (page_neutral rho early obj (tsize its) its (le_n _) []) as (S & R & E & Q & F).
  destruct (rid_distinct_lemma early obj sup its Hsup Hnd) as [_ Hnd'].
  exists S, R. split; [exact E|]. split; [exact Q|]. split; [|split; [|split]].
  - intros h c v Hi. rewrite Forall_forall in F. exact (F _ Hi).
  - intros c Hc.
    assert (Ha : In c (allocs T)).
    { apply cnt_in. unfold T. rewrite (page_count early obj (tsize its) its (le_n _)). now apply cnt_in. }
    pose proof (page_covers early obj (tsize its) its (le_n _) c Ha) as Hr. fold T in Hr.
    rewrite <- (exec_reported rho T [] S R E) in Hr. apply in_map_iff in Hr as ([[h c'] v] & Eq & Hi).
    cbn [fst] in Eq. inversion Eq; subst. rewrite Forall_forall in F. pose proof (F _ Hi) as Hv. cbn in Hv. now subst.
  - now apply page_from_empty.
  - intros c Hc. apply roots_and_only_roots_lemma; [exact Hnd'|].
    rewrite (ids_rename rho (tsize its)) by lia. now apply in_map.
Qed.

Lemma shared_roots_ids_lemma : forall f A c cs body t kids,
  In (IElem t kids) body ->
  In (HElem t (A ++ map f (c :: cs)) (inlT [] (rename f kids))) (inlT_item A (rename_item f (chain_item c cs body))).
Proof.
  intros f A c cs body t kids Hi. rewrite rename_chain. cbn [map]. apply shared_roots_lemma. now apply in_rename.
Qed.

(* ---------------------------------------------------------------------------------------------- *)
(* 5. correspondence                                                                                *)
(* ---------------------------------------------------------------------------------------------- *)
Definition memb (c : N) (l : list N) : bool := existsb (N.eqb c) l.
Definition rename_tok (f : N -> N) (t : tok) : tok :=
  match t with
  | Open tg a => Open tg (sort_ids (map f a))
  | PhTok g a => PhTok (f g) (sort_ids (map f a))
  | x => x
  end.
Definition hook_eqb (a b : hook) : bool :=
  match a, b with HGcd, HGcd | HBefore, HBefore | HTemplate, HTemplate | HAfter, HAfter => true | _, _ => false end.
Fixpoint find_rep (h : hook) (c : N) (R : list (hook * N * N)) : option N :=
  match R with
  | [] => None
  | (h', c', v) :: r => if hook_eqb h h' && N.eqb c c' then Some v else find_rep h c r
  end.
(* observed per instance, in allocation order: Component.id at the end of get_context_data, and at the end of
   on_render_before when the harness read it there; model: the reads at the end of get_context_data / of the renderer *)
Fixpoint reps_agree (al : list N) (R : list (hook * N * N)) (obs : list (N * option N)) : bool :=
  match al, obs with
  | [], [] => true
  | c :: al', (g, b) :: obs' =>
      match find_rep HGcd c R with Some v => N.eqb v g | None => false end
      && match b with
         | None => true
         | Some w => match find_rep HTemplate c R with Some v => N.eqb v w | None => false end
         end
      && reps_agree al' R obs'
  | _, _ => false
  end.

(* case = (expansion fuel, program, labels of the instances rendered from inside get_context_data, (label, object) for
   the instances rendered by the object of another instance, observed element tokens with every id replaced by its
   ALLOCATION INDEX (order of the gen_id calls), number of instances, number of re-entrant root runs, observed reads
   of Component.id per instance in allocation order) *)
Definition c14i_case := (N * prog * list N * list (N * N) * list tok * N * N * list (N * option N))%type.

Definition check_c14i (c : c14i_case) : bool :=
  let '(fuel, p, earl, objs, obs, n, nr, reps) := c in
  match expand_page (N.to_nat fuel) p with
  | XOk its _ =>
      match page_render ([], []) its with
      | Done (ts, ([], [])) =>
          let T := page_events (fun c => memb c earl) (fun c => aget c c objs) its in
          let al := allocs T in
          let rho := fun c => N.of_nat (index c al) in          (* supply = 0, 1, 2, ...: ids by order of allocation *)
          list_eqb tok_eqb (map (rename_tok rho) (no_txt ts)) obs
          && N.eqb (N.of_nat (ninst its)) n && N.eqb (N.of_nat (nreent its)) nr
          && match exec rho T [] with
             | Some (_, R) => reps_agree al R reps
             | None => false
             end
      | _ => false
      end
  | _ => false
  end.
