(* String-level tie between the id supply, the placeholder text and the two placeholder regexes
   (perfutil/component.py:59-60, 124; util/misc.py:15-24).  Constants come from Gen/C14.v, which is regenerated
   from /repo on every run. *)
From DJC Require Import Lib.Base PostRender.Model.
From DJC Require Gen.C14.
Import Coq.Strings.String.StringSyntax.
Local Delimit Scope string_scope with string.

(* ---- anchors: the matcher of Model.v was written for exactly these source texts ---- *)
Example nested_comp_pattern_anchor :
  Gen.C14.nested_comp_pattern = s2n "<template [^>]*?djc-render-id=""\w{6}""[^>]*?></template>"%string.
Proof. reflexivity. Qed.
Example render_id_pattern_anchor :
  Gen.C14.render_id_pattern = s2n "djc-render-id=""(?P<render_id>\w{6})"""%string.
Proof. reflexivity. Qed.
(* flags = re.UNICODE only: no IGNORECASE / DOTALL / MULTILINE *)
Example pattern_flags_anchor : Gen.C14.nested_comp_pattern_flags = 32%N /\ Gen.C14.render_id_pattern_flags = 32%N.
Proof. split; reflexivity. Qed.
Example placeholder_prefix_anchor : Gen.C14.placeholder_prefix = ph_open ++ ph_key.
Proof. reflexivity. Qed.
Example placeholder_suffix_anchor : Gen.C14.placeholder_suffix = 34%N :: ph_close.
Proof. reflexivity. Qed.
Example ascii_word_anchor : forallb (fun c => Bool.eqb (is_word c) (existsb (N.eqb c) Gen.C14.ascii_word))
                                    (map N.of_nat (seq 0 128)) = true.
Proof. vm_compute. reflexivity. Qed.

(* the id supply: one nanoid.generate() call draws its randomness from os.urandom and from nothing else in the
   module's namespace, and re-seeding Python's global RNG does not make the ids repeat - the checked premise behind
   the assumption "the id supply is injective whatever user code does during the render" *)
Example id_supply_anchor :
  Gen.C14.id_entropy_source = s2n "os.urandom"%string /\ Gen.C14.id_supply_independent_of_global_rng = true.
Proof. split; reflexivity. Qed.

(* the placeholder of instance `id` after its parent's set_html_attributes put the attributes `attrs` on it *)
Definition tagged_placeholder (id : str) (attrs : list str) : str :=
  Gen.C14.placeholder_prefix ++ id ++ [34%N]
  ++ concat (map (fun a => Gen.C14.attr_prefix ++ a ++ Gen.C14.attr_suffix) attrs) ++ ph_close.

Definition id_char (c : N) : Prop := In c Gen.C14.id_alphabet.

(* ---- list lemmas ---- *)
Lemma starts_with_app p s : starts_with p (p ++ s) = true.
Proof. induction p as [|x p IH]; simpl; [reflexivity|]. now rewrite N.eqb_refl. Qed.
Lemma skipn_app_exact {A} (p s : list A) : skipn (length p) (p ++ s) = s.
Proof. induction p; simpl; auto. Qed.
Lemma firstn_app_exact {A} (p s : list A) : firstn (length p) (p ++ s) = p.
Proof. induction p; simpl; [reflexivity | now f_equal]. Qed.
Lemma skipn_app_n {A} n (p s : list A) : length p = n -> skipn n (p ++ s) = s.
Proof. intros <-. apply skipn_app_exact. Qed.
Lemma firstn_app_n {A} n (p s : list A) : length p = n -> firstn n (p ++ s) = p.
Proof. intros <-. apply firstn_app_exact. Qed.
Lemma take_until_app c a b : Forall (fun x => x <> c) a -> take_until c (a ++ c :: b) = (a, c :: b).
Proof.
  induction a as [|x a IH]; intro H; simpl.
  - now rewrite N.eqb_refl.
  - inversion H; subst. destruct (N.eqb x c) eqn:E; [apply N.eqb_eq in E; contradiction|].
    now rewrite IH.
Qed.

Lemma id_char_word c : id_char c -> is_word c = true.
Proof.
  assert (H : forallb is_word Gen.C14.id_alphabet = true) by (vm_compute; reflexivity).
  rewrite forallb_forall in H. exact (H c).
Qed.
Lemma word_not_gt c : is_word c = true -> c <> 62%N.
Proof. intros H ->. vm_compute in H. discriminate. Qed.

Lemma ng_of_forallb l : forallb (fun x => negb (N.eqb x 62%N)) l = true -> Forall (fun x => x <> 62%N) l.
Proof.
  intro H. rewrite forallb_forall in H. apply Forall_forall. intros x Hx E. apply H in Hx.
  subst. discriminate.
Qed.
Ltac ng := apply ng_of_forallb; vm_compute; reflexivity.

Lemma placeholder_roundtrip_lemma : forall id attrs tail,
  length id = Gen.C14.id_size -> Forall id_char id -> Forall (Forall id_char) attrs ->
  match_placeholder_at (tagged_placeholder id attrs ++ tail) = Some (id, tail).
Proof.
  intros id attrs tail Hlen Hid Hattrs.
  change Gen.C14.id_size with 6%nat in Hlen.
  set (astr := concat (map (fun a => Gen.C14.attr_prefix ++ a ++ Gen.C14.attr_suffix) attrs)).
  assert (Hs : tagged_placeholder id attrs ++ tail =
               ph_open ++ ((ph_key ++ id ++ [34%N] ++ astr) ++ 62%N :: (tl ph_close ++ tail))).
  { unfold tagged_placeholder. fold astr. rewrite placeholder_prefix_anchor.
    repeat rewrite <- app_assoc. reflexivity. }
  assert (Hng : Forall (fun x => x <> 62%N) (ph_key ++ id ++ [34%N] ++ astr)).
  { apply Forall_app. split; [ng|].
    apply Forall_app. split.
    - eapply Forall_impl; [|exact Hid]. intros c Hc. now apply word_not_gt, id_char_word.
    - apply Forall_app. split; [ng|].
      unfold astr. clear -Hattrs. induction Hattrs as [|a r Ha Hr IH]; cbn [map concat]; [constructor|].
      apply Forall_app. split; [|exact IH].
      apply Forall_app. split; [ng|]. apply Forall_app. split; [|ng].
      eapply Forall_impl; [|exact Ha]. intros c Hc. now apply word_not_gt, id_char_word. }
  unfold match_placeholder_at. rewrite Hs, starts_with_app, skipn_app_exact.
  rewrite (take_until_app _ _ _ Hng). cbv beta iota.
  change (62%N :: tl ph_close ++ tail) with (ph_close ++ tail).
  assert (Hf : find_id (ph_key ++ id ++ [34%N] ++ astr) = Some id).
  { assert (Hh : id_here (id ++ [34%N] ++ astr) = Some id).
    { unfold id_here. rewrite (firstn_app_n 6 _ _ Hlen), (skipn_app_n 6 _ _ Hlen), Hlen.
      assert (Hw : forallb is_word id = true).
      { apply forallb_forall. intros c Hc. apply id_char_word. rewrite Forall_forall in Hid. now apply Hid. }
      rewrite Hw. reflexivity. }
    destruct (ph_key ++ id ++ [34%N] ++ astr) eqn:E; [discriminate|]. rewrite <- E.
    unfold find_id. rewrite E. fold find_id. rewrite <- E.
    rewrite starts_with_app, skipn_app_exact, Hh. reflexivity. }
  rewrite Hf, starts_with_app, skipn_app_exact. reflexivity.
Qed.
