(* Proofs for Provide/Scope.v: the provider environment of the reference renderer Core/Sem.v is the stack of provide
   blocks enclosing the place in the RENDERED structure - for every program, state and fuel. *)
From DJC Require Import Lib.Base Core.Syntax Core.Sem Core.Proofs Core.ScopeProofs Provide.Scope.

(* ---------- small facts ---------- *)
Lemma slookup_none_keys {V} k (l : list (str * V)) : slookup k l = None <-> ~ In k (map fst l).
Proof.
  induction l as [|[k' v] l IH]; simpl; [tauto|].
  destruct (str_eqb k k') eqn:E.
  - apply str_eqb_eq in E. subst. split; [discriminate | intro H; exfalso; apply H; auto].
  - rewrite IH. split; [|tauto]. intros H [H1|H1]; [|tauto]. subst. rewrite str_eqb_refl in E. discriminate.
Qed.

Lemma slookup_stack {V} k (stk extra : list (str * V)) :
  (forall k, In k (map fst extra) -> In k (map fst stk)) -> slookup k (stk ++ extra) = slookup k stk.
Proof.
  intro H. rewrite slookup_app. destruct (slookup k stk) eqn:E; [reflexivity|].
  apply slookup_none_keys. apply slookup_none_keys in E. intro Hi. apply E. apply H. exact Hi.
Qed.

Lemma eval_data_ext ds kw pv pv' : (forall k, slookup k pv = slookup k pv') -> eval_data ds kw pv = eval_data ds kw pv'.
Proof.
  intro H. induction ds as [|[x d] ds IH]; simpl; [reflexivity|]. rewrite IH.
  destruct d; try reflexivity. rewrite H. reflexivity.
Qed.

Lemma eval_data_stack ds kw stk extra : sub_keys extra stk -> eval_data ds kw (stk ++ extra) = eval_data ds kw stk.
Proof. intro H. apply eval_data_ext. intro k. apply slookup_stack. exact H. Qed.

Lemma flatten1_RProv k r b : flatten1 (RProv k r b) = flatten b.
Proof. reflexivity. Qed.
Lemma flatten1_RComp c kw d b : flatten1 (RComp c kw d b) = flatten b.
Proof. reflexivity. Qed.
Lemma flatten1_RSlot h b : flatten1 (RSlot h b) = flatten b.
Proof. reflexivity. Qed.

Lemma flatten_app a b : flatten (a ++ b) = flatten a ++ flatten b.
Proof. induction a as [|n a IH]; simpl; [reflexivity|]. rewrite IH, app_assoc. reflexivity. Qed.

Lemma flatten_single n : flatten [n] = flatten1 n.
Proof. simpl. apply app_nil_r. Qed.

(* ---------- well-formedness: monotone in the visible providers ---------- *)
Lemma sub_keys_refl a : sub_keys a a.
Proof. intros k H. exact H. Qed.
Lemma sub_keys_trans a b c : sub_keys a b -> sub_keys b c -> sub_keys a c.
Proof. intros H1 H2 k H. apply H2, H1, H. Qed.
Lemma sub_keys_cons x a : sub_keys a (x :: a).
Proof. intros k H. right. exact H. Qed.
Lemma sub_keys_app_l a b : sub_keys a (a ++ b).
Proof. intros k H. unfold keys in *. rewrite map_app, in_app_iff. auto. Qed.
Lemma sub_keys_app_r a b : sub_keys b (a ++ b).
Proof. intros k H. unfold keys in *. rewrite map_app, in_app_iff. auto. Qed.
Lemma sub_keys_app a b c : sub_keys a c -> sub_keys b c -> sub_keys (a ++ b) c.
Proof. intros H1 H2 k H. unfold keys in H. rewrite map_app, in_app_iff in H. destruct H; auto. Qed.

Lemma wf_fills_mono pv pv' fills : wf_fills pv fills -> sub_keys pv pv' -> wf_fills pv' fills.
Proof.
  intros H Hs. induction fills as [|[k c] r IH]; [constructor|].
  inversion H; subst. constructor; [eapply sub_keys_trans; eauto | assumption | apply IH; assumption].
Qed.

Lemma wf_owner_mono pv pv' o : wf_owner pv o -> sub_keys pv pv' -> wf_owner pv' o.
Proof.
  intros H Hs. inversion H as [|? i Hi]; subst; constructor.
  inversion Hi; subst. constructor. eapply wf_fills_mono; eauto.
Qed.

Lemma wf_fills_lookup pv fills k c : wf_fills pv fills -> slookup k fills = Some c ->
  exists body btw cloc cout dv defv owner cprov,
    c = Clo body btw cloc cout dv defv owner cprov /\ sub_keys cprov pv /\ wf_owner cprov owner.
Proof.
  intros H. induction H as [| pv k' body btw cloc cout dv defv owner cprov r Hs Ho Hr IH]; simpl; [discriminate|].
  destruct (str_eqb k k'); [|exact IH]. intro E. inversion E; subst. repeat eexists; eauto.
Qed.

(* ---------- the fills a tag body declares record the providers and the instance at the tag ---------- *)
Definition clo_at (tagprov : penv) (owner : option inst) (c : closure) : Prop :=
  match c with Clo _ _ _ _ _ _ o cp => o = owner /\ cp = tagprov end.
Definition fills_at (tagprov : penv) (owner : option inst) (fills : list (str * closure)) : Prop :=
  Forall (fun kc => clo_at tagprov owner (snd kc)) fills.

Section TplInd.
  Variable P : tpl -> Prop.
  Variable Q : list tpl -> Prop.
  Hypothesis HText : forall s, P (TText s).
  Hypothesis HOut : forall e, P (TOut e).
  Hypothesis HIf : forall c a b, Q a -> Q b -> P (TIf c a b).
  Hypothesis HFor : forall x e body, Q body -> P (TFor x e body).
  Hypothesis HWith : forall x e body, Q body -> P (TWith x e body).
  Hypothesis HSlot : forall n d r data body, Q body -> P (TSlot n d r data body).
  Hypothesis HFill : forall n dv defv body, Q body -> P (TFill n dv defv body).
  Hypothesis HComp : forall c kw o body, Q body -> P (TComp c kw o body).
  Hypothesis HProvide : forall k kw body, Q body -> P (TProvide k kw body).
  Hypothesis Hnil : Q [].
  Hypothesis Hcons : forall t r, P t -> Q r -> Q (t :: r).

  Fixpoint tpl_ind2 (t : tpl) : P t :=
    let L := fix L (ts : list tpl) : Q ts := match ts with [] => Hnil | t :: r => Hcons t r (tpl_ind2 t) (L r) end in
    match t with
    | TText s => HText s
    | TOut e => HOut e
    | TIf c a b => HIf c a b (L a) (L b)
    | TFor x e body => HFor x e body (L body)
    | TWith x e body => HWith x e body (L body)
    | TSlot n d r data body => HSlot n d r data body (L body)
    | TFill n dv defv body => HFill n dv defv body (L body)
    | TComp c kw o body => HComp c kw o body (L body)
    | TProvide k kw body => HProvide k kw body (L body)
    end.
End TplInd.

(* the list function extract uses internally *)
Definition ex_list (tagprov : penv) :=
  fix ex_list (st : state) (btw : env) (ts : list tpl) : res (str * list (str * closure)) :=
    match ts with
    | [] => Ok ([], [])
    | t :: r => bind (extract tagprov st btw t) (fun a =>
                bind (ex_list st btw r) (fun b => Ok (fst a ++ fst b, snd a ++ snd b)))
    end.

Lemma ex_list_extract_list tagprov ts : forall st btw, ex_list tagprov st btw ts = extract_list tagprov st btw ts.
Proof. induction ts as [|t r IH]; intros st btw; simpl; [reflexivity|]. rewrite IH. reflexivity. Qed.

Lemma extract_fills_at tagprov : forall t st btw r,
  extract tagprov st btw t = Ok r -> fills_at tagprov (cur st) (snd r).
Proof.
  apply (tpl_ind2
    (fun t => forall st btw r, extract tagprov st btw t = Ok r -> fills_at tagprov (cur st) (snd r))
    (fun ts => forall st btw r, ex_list tagprov st btw ts = Ok r -> fills_at tagprov (cur st) (snd r))).
  - intros s st btw r H. inversion H; subst. constructor.
  - intros e st btw r H. inversion H; subst. constructor.
  - intros c a b IHa IHb st btw r H. change (extract tagprov st btw (TIf c a b))
      with (if truthy (eval c st) then ex_list tagprov st btw a else ex_list tagprov st btw b) in H.
    destruct (truthy (eval c st)); [apply (IHa _ _ _ H) | apply (IHb _ _ _ H)].
  - intros x e body IH st btw r H.
    change (extract tagprov st btw (TFor x e body)) with
      ((fix go (vs : list value) (i : N) : res (str * list (str * closure)) :=
         match vs with
         | [] => Ok ([], [])
         | v :: r =>
             let cv := VStr (num_str i) in
             bind (ex_list tagprov (bind_loc x v (bind_loc counter_key cv st)) ((x, v) :: (counter_key, cv) :: btw) body) (fun a =>
             bind (go r (N.succ i)) (fun b => Ok (fst a ++ fst b, snd a ++ snd b)))
         end) (loop_items (eval e st)) 1%N) in H.
    revert r H. generalize 1%N. induction (loop_items (eval e st)) as [|v vs IHv]; intros i r H.
    + inversion H; subst. constructor.
    + cbn zeta in H. apply bind_ok_inv in H as [a [Ha H]].
      apply bind_ok_inv in H as [b [Hb H]]. inversion H; subst. simpl.
      apply Forall_app. split; [apply (IH _ _ _ Ha) | apply (IHv _ _ Hb)].
  - intros x e body IH st btw r H.
    change (extract tagprov st btw (TWith x e body)) with
      (ex_list tagprov (bind_loc x (to_value (eval e st)) st) ((x, to_value (eval e st)) :: btw) body) in H.
    apply (IH _ _ _ H).
  - intros n d rq data body _ st btw r H. inversion H; subst. constructor.
  - intros n dv defv body _ st btw r H. simpl in H. destruct (eval n st) as [[nm| |]| |]; try discriminate.
    destruct (match dv with Some a => match defv with Some b => str_eqb a b | None => false end | None => false end); [discriminate|].
    inversion H; subst. simpl. constructor; [|constructor]. simpl. auto.
  - intros c kw o body _ st btw r H. inversion H; subst. constructor.
  - intros k kw body IH st btw r H.
    change (extract tagprov st btw (TProvide k kw body)) with
      (if is_ident k then ex_list tagprov st btw body else Err ETemplateSyntax) in H.
    destruct (is_ident k); [apply (IH _ _ _ H) | discriminate].
  - intros st btw r H. inversion H; subst. constructor.
  - intros t ts IHt IHts st btw r H. simpl in H. apply bind_ok_inv in H as [a [Ha H]].
    apply bind_ok_inv in H as [b [Hb H]]. inversion H; subst. simpl.
    apply Forall_app. split; [apply (IHt _ _ _ Ha) | apply (IHts _ _ _ Hb)].
Qed.

Lemma resolve_fills_at st body fills : resolve_fills st body = Ok fills -> fills_at (prov st) (cur st) fills.
Proof.
  unfold resolve_fills. destruct body as [|t0 body0]; [intro H; inversion H; constructor|].
  set (body := t0 :: body0). intro H. apply bind_ok_inv in H as [[content fs] [He H]].
  assert (Hat : fills_at (prov st) (cur st) fs).
  { rewrite <- ex_list_extract_list in He.
    assert (forall ts st btw r, ex_list (prov st) st btw ts = Ok r -> fills_at (prov st) (cur st) (snd r)).
    { induction ts as [|t ts IH]; intros st' btw r Hr.
      - inversion Hr; subst. constructor.
      - simpl in Hr. apply bind_ok_inv in Hr as [a [Ha Hr]].
        apply bind_ok_inv in Hr as [b [Hb Hr]]. inversion Hr; subst. simpl.
        apply Forall_app. split; [apply (extract_fills_at _ _ _ _ _ Ha) | apply (IH _ _ _ Hb)]. }
    apply (H0 _ _ _ _ He). }
  destruct fs as [|f fs'].
  - destruct (body_is_empty body); inversion H; subst; [constructor|]. constructor; [|constructor]. simpl. auto.
  - destruct (negb (all_space content)); [discriminate|].
    destruct (has_dup (map fst (f :: fs'))); [discriminate|]. inversion H; subst. exact Hat.
Qed.

Lemma fills_at_wf pv owner fills : fills_at pv owner fills -> wf_owner pv owner -> wf_fills pv fills.
Proof.
  intros H Ho. induction H as [|[k c] r Hc Hr IH]; [constructor|].
  destruct c as [body btw cloc cout dv defv o cp]. simpl in Hc. destruct Hc as [-> ->].
  constructor; [apply sub_keys_refl | exact Ho | exact IH].
Qed.

(* ---------- the invariant is kept by every state change of the renderer ---------- *)
Lemma inv_bind_loc st stk x v : scope_inv st stk -> scope_inv (bind_loc x v st) stk.
Proof. intro H. exact H. Qed.

Lemma inv_provide st stk key (record : env) :
  scope_inv st stk ->
  scope_inv {| loc := loc st; out := out st; cur := cur st; prov := (key, record) :: prov st |} ((key, record) :: stk).
Proof.
  intros [[extra [Hp Hs]] Ho]. split; simpl.
  - exists extra. split; [rewrite Hp; reflexivity|]. eapply sub_keys_trans; [exact Hs | apply sub_keys_cons].
  - eapply wf_owner_mono; [exact Ho | apply sub_keys_cons].
Qed.

Lemma inv_comp st stk cname fills data iso body :
  scope_inv st stk -> resolve_fills st body = Ok fills -> scope_inv (comp_state st cname fills data iso) stk.
Proof.
  intros [Hp Ho] Hr. split; simpl; [exact Hp|]. constructor. constructor.
  eapply fills_at_wf; [apply (resolve_fills_at _ _ _ Hr) | exact Ho].
Qed.

Lemma inv_fill st stk cn fills iso k c aliases :
  scope_inv st stk -> cur st = Some (Inst cn fills iso) -> slookup k fills = Some c ->
  scope_inv (fill_state iso st aliases c) stk.
Proof.
  intros [[extra [Hp Hs]] Ho] Hc Hl. rewrite Hc in Ho. inversion Ho as [|? i Hi]; subst. inversion Hi; subst.
  destruct (wf_fills_lookup _ _ _ _ H1 Hl) as [body [btw [cloc [cout [dv [defv [owner [cprov [-> [Hsub Hown]]]]]]]]]].
  destruct iso; simpl.
  - split; simpl.
    + exists (extra ++ cprov). split; [rewrite Hp, app_assoc; reflexivity|].
      apply sub_keys_app; [exact Hs|]. eapply sub_keys_trans; [exact Hsub|]. rewrite Hp.
      apply sub_keys_app; [apply sub_keys_refl | exact Hs].
    + eapply wf_owner_mono; [exact Hown | apply sub_keys_app_r].
  - split; simpl.
    + exists extra. auto.
    + eapply wf_owner_mono; [exact Hown | exact Hsub].
Qed.

(* ---------- agreement of the two renderers ---------- *)
Section Agree.
  Variable md : mode.
  Variable lib : list (str * cdef).

  Definition agree (recT : penv -> state -> tpl -> res (list rnode)) (rec : state -> tpl -> res str) : Prop :=
    forall stk st t, scope_inv st stk -> res_map flatten (recT stk st t) = rec st t.

  Section Step.
    Variable recT : penv -> state -> tpl -> res (list rnode).
    Variable rec : state -> tpl -> res str.
    Hypothesis Hag : agree recT rec.

    Lemma rl_agree ts : forall stk st, scope_inv st stk -> res_map flatten (rlT recT stk st ts) = rl rec st ts.
    Proof.
      induction ts as [|t r IH]; intros stk st Hi; simpl; [reflexivity|].
      rewrite <- (Hag stk st t Hi). destruct (recT stk st t) as [a| |]; simpl; try reflexivity.
      rewrite <- (IH stk st Hi). destruct (rlT recT stk st r) as [b| |]; simpl; try reflexivity.
      rewrite flatten_app. reflexivity.
    Qed.

    Lemma rloop_agree x body vs : forall stk st i, scope_inv st stk ->
      res_map flatten (rloopT recT x stk st body vs i) = rloop rec x st body vs i.
    Proof.
      induction vs as [|v r IH]; intros stk st i Hi; simpl; [reflexivity|].
      rewrite <- (rl_agree body stk _ (inv_bind_loc _ _ x v (inv_bind_loc _ _ counter_key _ Hi))).
      destruct (rlT recT stk _ body) as [a| |]; simpl; try reflexivity.
      rewrite <- (IH stk st _ Hi). destruct (rloopT recT x stk st body r (N.succ i)) as [b| |]; simpl; try reflexivity.
      rewrite flatten_app. reflexivity.
    Qed.

    Lemma step_agree : agree (stepT md lib recT) (render_step md lib rec).
    Proof.
      intros stk st t Hi.
      destruct t as [s|e|c a b|x e body|x e body|name isd isr data body|nm dv defv body|cname kw only body|key kw body]; simpl.
      - rewrite app_nil_r. reflexivity.
      - rewrite app_nil_r. reflexivity.
      - destruct (truthy (eval c st)); apply rl_agree; exact Hi.
      - apply rloop_agree; exact Hi.
      - apply rl_agree. apply inv_bind_loc. exact Hi.
      - (* slot *)
        destruct (cur st) as [[cn fills iso]|] eqn:Hc; [|reflexivity].
        destruct (double_filled name isd fills); [reflexivity|].
        destruct (slookup (fill_name_of name isd fills) fills) as [c|] eqn:Hl.
        + destruct (clo_defvar c) as [dn|].
          * rewrite <- (rl_agree body stk st Hi). destruct (rlT recT stk st body) as [d| |]; simpl; try reflexivity.
            rewrite <- (rl_agree (clo_body c) stk _ (inv_fill st stk cn fills iso _ c _ Hi Hc Hl)).
            destruct (rlT recT stk _ (clo_body c)) as [b| |]; simpl; try reflexivity.
            rewrite app_nil_r. reflexivity.
          * simpl. rewrite <- (rl_agree (clo_body c) stk _ (inv_fill st stk cn fills iso _ c _ Hi Hc Hl)).
            destruct (rlT recT stk _ (clo_body c)) as [b| |]; simpl; try reflexivity.
            rewrite app_nil_r. reflexivity.
        + destruct isr; [reflexivity|]. rewrite <- (rl_agree body stk st Hi).
          destruct (rlT recT stk st body) as [b| |]; simpl; try reflexivity. rewrite app_nil_r. reflexivity.
      - reflexivity.
      - (* component *)
        destruct (slookup cname lib) as [cd|]; [|reflexivity].
        destruct (resolve_fills st body) as [fills| |] eqn:Hr; try reflexivity. simpl.
        pose proof Hi as [[extra [Hp Hs]] Ho].
        replace (eval_data (c_data cd) (eval_kwargs kw st) (prov st)) with (eval_data (c_data cd) (eval_kwargs kw st) stk)
          by (rewrite Hp; symmetry; apply eval_data_stack; exact Hs).
        destruct (eval_data (c_data cd) (eval_kwargs kw st) stk) as [data| |]; try reflexivity. simpl.
        rewrite <- (rl_agree (c_tpl cd) stk _ (inv_comp st stk cname fills data (is_isolated md only) body Hi Hr)).
        destruct (rlT recT stk _ (c_tpl cd)) as [b| |]; simpl; try reflexivity. rewrite app_nil_r. reflexivity.
      - (* provide *)
        destruct (is_ident key); [|reflexivity].
        rewrite <- (rl_agree body _ _ (inv_provide st stk key (eval_kwargs kw st) Hi)).
        destruct (rlT recT _ _ body) as [b| |]; simpl; try reflexivity. rewrite app_nil_r. reflexivity.
    Qed.
  End Step.

  Lemma render_agree fuel : agree (renderT md lib fuel) (render md lib fuel).
  Proof.
    induction fuel as [|f IH]; intros stk st t Hi; [reflexivity|].
    exact (step_agree _ _ IH stk st t Hi).
  Qed.
End Agree.

(* the reference renderer = text of the structure-scoped renderer, for every program *)
Lemma scope_inv_initial ctx : scope_inv {| loc := ctx; out := []; cur := None; prov := [] |} [].
Proof. split; simpl; [exists []; split; [reflexivity | intros k []] | constructor]. Qed.

Lemma render_prog_agree fuel p : render_prog fuel p = res_map flatten (renderT_prog fuel p).
Proof.
  unfold render_prog, renderT_prog, render_list, renderT_list. symmetry.
  apply (rl_agree _ _ (render_agree (p_mode p) (p_lib p) fuel)). apply scope_inv_initial.
Qed.

(* ---------- the tree: every instance computed its data from the provide nodes above it ---------- *)
Lemma trees_ok_app lib stk a b : trees_ok lib stk a -> trees_ok lib stk b -> trees_ok lib stk (a ++ b).
Proof. induction a as [|n a IH]; simpl; [auto|]. intros [H1 H2] Hb. split; auto. Qed.

Lemma tree_ok_RProv lib stk k r b : tree_ok lib stk (RProv k r b) = trees_ok lib ((k, r) :: stk) b.
Proof. reflexivity. Qed.
Lemma tree_ok_RComp lib stk c kw d b :
  tree_ok lib stk (RComp c kw d b) =
  ((exists cd, slookup c lib = Some cd /\ eval_data (c_data cd) kw stk = Ok d) /\ trees_ok lib stk b).
Proof. reflexivity. Qed.
Lemma tree_ok_RSlot lib stk h b : tree_ok lib stk (RSlot h b) = (trees_ok lib stk h /\ trees_ok lib stk b).
Proof. reflexivity. Qed.

Section TreeOk.
  Variable md : mode.
  Variable lib : list (str * cdef).

  Definition okrec (recT : penv -> state -> tpl -> res (list rnode)) : Prop :=
    forall stk st t tr, recT stk st t = Ok tr -> trees_ok lib stk tr.

  Section Step.
    Variable recT : penv -> state -> tpl -> res (list rnode).
    Hypothesis Hok : okrec recT.

    Lemma rlT_ok ts : forall stk st tr, rlT recT stk st ts = Ok tr -> trees_ok lib stk tr.
    Proof.
      induction ts as [|t r IH]; intros stk st tr H; simpl in H.
      - inversion H; subst. exact I.
      - apply bind_ok_inv in H as [a [Ha H]]. apply bind_ok_inv in H as [b [Hb H]]. inversion H; subst.
        apply trees_ok_app; [apply (Hok _ _ _ _ Ha) | apply (IH _ _ _ Hb)].
    Qed.

    Lemma rloopT_ok x body vs : forall stk st i tr, rloopT recT x stk st body vs i = Ok tr -> trees_ok lib stk tr.
    Proof.
      induction vs as [|v r IH]; intros stk st i tr H; simpl in H.
      - inversion H; subst. exact I.
      - apply bind_ok_inv in H as [a [Ha H]]. apply bind_ok_inv in H as [b [Hb H]]. inversion H; subst.
        apply trees_ok_app; [apply (rlT_ok _ _ _ _ Ha) | apply (IH _ _ _ _ Hb)].
    Qed.

    Lemma stepT_ok : okrec (stepT md lib recT).
    Proof.
      intros stk st t tr H.
      destruct t as [s|e|c a b|x e body|x e body|name isd isr data body|nm dv defv body|cname kw only body|key kw body]; simpl in H.
      - inversion H; subst. simpl. auto.
      - inversion H; subst. simpl. auto.
      - destruct (truthy (eval c st)); apply (rlT_ok _ _ _ _ H).
      - apply (rloopT_ok _ _ _ _ _ _ _ H).
      - apply (rlT_ok _ _ _ _ H).
      - destruct (cur st) as [[cn fills iso]|]; [|discriminate].
        destruct (double_filled name isd fills); [discriminate|].
        destruct (slookup (fill_name_of name isd fills) fills) as [c|].
        + apply bind_ok_inv in H as [[hid al] [Hh H]]. apply bind_ok_inv in H as [b [Hb H]]. inversion H; subst.
          simpl. split; [|exact I]. split; [|apply (rlT_ok _ _ _ _ Hb)].
          destruct (clo_defvar c) as [dn|].
          * apply bind_ok_inv in Hh as [d [Hd Hh]]. inversion Hh; subst. apply (rlT_ok _ _ _ _ Hd).
          * inversion Hh; subst. exact I.
        + destruct isr; [discriminate|]. apply bind_ok_inv in H as [b [Hb H]]. inversion H; subst.
          simpl. split; [|exact I]. split; [exact I | apply (rlT_ok _ _ _ _ Hb)].
      - discriminate.
      - destruct (slookup cname lib) as [cd|] eqn:Hl; [|discriminate].
        apply bind_ok_inv in H as [fills [Hf H]]. apply bind_ok_inv in H as [data [Hd H]].
        apply bind_ok_inv in H as [b [Hb H]]. inversion H; subst.
        split; [|exact I]. rewrite tree_ok_RComp. split; [exists cd; auto | apply (rlT_ok _ _ _ _ Hb)].
      - destruct (is_ident key); [|discriminate]. apply bind_ok_inv in H as [b [Hb H]]. inversion H; subst.
        split; [|exact I]. rewrite tree_ok_RProv. apply (rlT_ok _ _ _ _ Hb).
    Qed.
  End Step.

  Lemma renderT_ok fuel : okrec (renderT md lib fuel).
  Proof.
    induction fuel as [|f IH]; intros stk st t tr H; [discriminate|]. exact (stepT_ok _ IH stk st t tr H).
  Qed.
End TreeOk.

(* every successful render of the reference semantics is the text of a tree in which each component instance computed
   its data from the provide nodes above it *)
Lemma render_prog_tree fuel p s :
  render_prog fuel p = Ok s ->
  exists tr, renderT_prog fuel p = Ok tr /\ flatten tr = s /\ trees_ok (p_lib p) [] tr.
Proof.
  rewrite render_prog_agree. destruct (renderT_prog fuel p) as [tr| |] eqn:E; simpl; intro H; try discriminate.
  inversion H; subst. exists tr. split; [reflexivity|]. split; [reflexivity|].
  unfold renderT_prog, renderT_list in E. apply (rlT_ok _ _ (renderT_ok (p_mode p) (p_lib p) fuel) _ _ _ _ E).
Qed.

(* ---------- provided values are private: only inject() reads them ---------- *)
Lemma lookup_with_prov pv st x : lookup x (with_prov pv st) = lookup x st.
Proof. reflexivity. Qed.
Lemma eval_with_prov pv st e : eval e (with_prov pv st) = eval e st.
Proof. destruct e; reflexivity. Qed.
Lemma eval_kwargs_with_prov pv st kw : eval_kwargs kw (with_prov pv st) = eval_kwargs kw st.
Proof.
  unfold eval_kwargs. apply map_ext. intro ke. rewrite eval_with_prov. reflexivity.
Qed.

Lemma slookup_In {V} k (l : list (str * V)) v : slookup k l = Some v -> In (k, v) l.
Proof.
  induction l as [|[k' v'] l IH]; simpl; [discriminate|].
  destruct (str_eqb k k') eqn:E; [|auto]. apply str_eqb_eq in E. intro H. inversion H; subst. auto.
Qed.

Lemma eval_data_no_inject ds kw pv pv' :
  (forall x d, In (x, d) ds -> match d with DInject _ _ _ => False | _ => True end) ->
  eval_data ds kw pv = eval_data ds kw pv'.
Proof.
  induction ds as [|[x d] ds IH]; intro H; simpl; [reflexivity|].
  rewrite IH by (intros x' d' Hin; apply (H x' d'); right; exact Hin).
  destruct d; try reflexivity. exfalso. apply (H x _ (or_introl eq_refl)).
Qed.

Section NoInject.
  Variable md : mode.
  Variable lib : list (str * cdef).
  Hypothesis Hni : no_inject lib.

  Definition indep (recT : penv -> state -> tpl -> res (list rnode)) : Prop :=
    forall stk stk' st t, recT stk st t = recT stk' st t.

  Section Step.
    Variable recT : penv -> state -> tpl -> res (list rnode).
    Hypothesis Hind : indep recT.

    Lemma rlT_indep ts : forall stk stk' st, rlT recT stk st ts = rlT recT stk' st ts.
    Proof.
      induction ts as [|t r IH]; intros stk stk' st; simpl; [reflexivity|].
      rewrite (Hind stk stk' st t). destruct (recT stk' st t); try reflexivity. simpl.
      rewrite (IH stk stk' st). reflexivity.
    Qed.

    Lemma rloopT_indep x body vs : forall stk stk' st i, rloopT recT x stk st body vs i = rloopT recT x stk' st body vs i.
    Proof.
      induction vs as [|v r IH]; intros stk stk' st i; simpl; [reflexivity|].
      rewrite (rlT_indep body stk stk'). destruct (rlT recT stk' _ body); try reflexivity. simpl.
      rewrite (IH stk stk' st). reflexivity.
    Qed.

    Lemma stepT_indep : indep (stepT md lib recT).
    Proof.
      intros stk stk' st t.
      destruct t as [s|e|c a b|x e body|x e body|name isd isr data body|nm dv defv body|cname kw only body|key kw body]; simpl;
        try reflexivity.
      - destruct (truthy (eval c st)); apply rlT_indep.
      - apply rloopT_indep.
      - apply rlT_indep.
      - destruct (cur st) as [[cn fills iso]|]; [|reflexivity].
        destruct (double_filled name isd fills); [reflexivity|].
        destruct (slookup (fill_name_of name isd fills) fills) as [c|].
        + rewrite (rlT_indep body stk stk' st). destruct (clo_defvar c) as [dn|].
          * destruct (rlT recT stk' st body); try reflexivity. simpl. rewrite (rlT_indep _ stk stk'). reflexivity.
          * simpl. rewrite (rlT_indep _ stk stk'). reflexivity.
        + rewrite (rlT_indep body stk stk' st). reflexivity.
      - destruct (slookup cname lib) as [cd|] eqn:Hl; [|reflexivity].
        destruct (resolve_fills st body); try reflexivity. simpl.
        rewrite (eval_data_no_inject (c_data cd) (eval_kwargs kw st) stk stk')
          by (intros x d Hin; apply (Hni cname cd x d (slookup_In _ _ _ Hl) Hin)).
        destruct (eval_data (c_data cd) (eval_kwargs kw st) stk'); try reflexivity. simpl.
        rewrite (rlT_indep _ stk stk'). reflexivity.
      - destruct (is_ident key); [|reflexivity].
        rewrite (rlT_indep body ((key, eval_kwargs kw st) :: stk) ((key, eval_kwargs kw st) :: stk')). reflexivity.
    Qed.
  End Step.

  Lemma renderT_indep fuel : indep (renderT md lib fuel).
  Proof.
    induction fuel as [|f IH]; intros stk stk' st t; [reflexivity|]. exact (stepT_indep _ IH stk stk' st t).
  Qed.
End NoInject.

(* if no component calls inject(), every provide block is transparent: the reference output is the one obtained when
   the provide stack is replaced by ANY other one (e.g. always empty) *)
Lemma provide_transparent_lemma md lib fuel st stk stk' t :
  no_inject lib -> scope_inv st stk ->
  render md lib fuel st t = res_map flatten (renderT md lib fuel stk' st t).
Proof.
  intros Hni Hi. rewrite <- (render_agree md lib fuel stk st t Hi).
  rewrite (renderT_indep md lib Hni fuel stk stk' st t). reflexivity.
Qed.

(* ---------- what inject() returns ---------- *)
(* the value of the FIRST entry with the key (nearest provider; an outer one with the same key is shadowed) *)
Lemma slookup_first {V} k (a b : list (str * V)) v : ~ In k (map fst a) -> slookup k (a ++ (k, v) :: b) = Some v.
Proof.
  intro H. rewrite slookup_app. apply slookup_none_keys in H. rewrite H. simpl. rewrite str_eqb_refl. reflexivity.
Qed.

Definition inject_result (pv : penv) (key field : str) (dflt : option str) : res value :=
  match slookup key pv with
  | Some fs => match slookup field fs with Some v => Ok v | None => Err EAttribute end
  | None => match dflt with Some d => Ok (VStr d) | None => Err EKey end
  end.

Lemma eval_data_inject x key field dflt ds kw pv :
  eval_data ((x, DInject key field dflt) :: ds) kw pv =
  bind (inject_result pv key field dflt) (fun v => bind (eval_data ds kw pv) (fun rest => Ok (rest ++ [(x, v)]))).
Proof. reflexivity. Qed.

Lemma inject_nearest_lemma a b key record field dflt :
  ~ In key (map fst a) ->
  inject_result (a ++ (key, record) :: b) key field dflt =
  match slookup field record with Some v => Ok v | None => Err EAttribute end.
Proof. intro H. unfold inject_result. rewrite (slookup_first key a b record H). reflexivity. Qed.

Lemma inject_outside_lemma pv key field dflt :
  ~ In key (map fst pv) ->
  inject_result pv key field dflt = match dflt with Some d => Ok (VStr d) | None => Err EKey end.
Proof. intro H. unfold inject_result. apply slookup_none_keys in H. rewrite H. reflexivity. Qed.

(* end to end: a provide tag around a consumer - the consumer's variable is the tag's evaluated keyword argument;
   whatever surrounds the tag (state, outer providers with the same key, mode, only) *)
Lemma slookup_eval_kwargs f kw st e : slookup f kw = Some e -> slookup f (eval_kwargs kw st) = Some (to_value (eval e st)).
Proof.
  unfold eval_kwargs. induction kw as [|[k e'] kw IH]; simpl; [discriminate|].
  destruct (str_eqb f k); [intro H; inversion H; reflexivity | exact IH].
Qed.

Lemma inject_payload_exact_lemma md lib f st key kw fld e cname x only dflt :
  is_ident key = true ->
  slookup cname lib = Some {| c_tpl := [TOut (EVar x)]; c_data := [(x, DInject key fld dflt)] |} ->
  slookup fld kw = Some e ->
  render md lib (S (S (S f))) st (TProvide key kw [TComp cname [] only []]) = Ok (print_x (XV (to_value (eval e st)))).
Proof.
  intros Hid Hl Hf. cbn [render render_step]. rewrite Hid. cbn [rl render render_step prov].
  rewrite Hl. cbn [resolve_fills bind c_data c_tpl eval_data].
  cbn [slookup]. rewrite str_eqb_refl. rewrite (slookup_eval_kwargs fld kw st e Hf).
  cbn [bind app rl render render_step]. unfold eval, lookup, comp_state. cbn [loc slookup]. rewrite str_eqb_refl.
  cbn [bind]. rewrite !app_nil_r. reflexivity.
Qed.

Lemma fill_state_prov_lemma st al body btw cloc cout dv defv owner cprov :
  prov (fill_state true st al (Clo body btw cloc cout dv defv owner cprov)) = prov st ++ cprov /\
  prov (fill_state false st al (Clo body btw cloc cout dv defv owner cprov)) = prov st.
Proof. split; reflexivity. Qed.

Lemma not_template_vars_lemma pv st e x :
  eval e (with_prov pv st) = eval e st /\ lookup x (with_prov pv st) = lookup x st.
Proof. split; [apply eval_with_prov | apply lookup_with_prov]. Qed.

(* what a fill body can inject is exactly what is visible at the slot where it is rendered: the providers recorded at the
   component tag (isolated mode) never win over, nor add to, the stack at the slot *)
Lemma fill_providers_are_slot_stack_lemma st stk cn fills iso k c aliases key :
  scope_inv st stk -> cur st = Some (Inst cn fills iso) -> slookup k fills = Some c ->
  slookup key (prov (fill_state iso st aliases c)) = slookup key stk.
Proof.
  intros Hi Hc Hl. destruct (inv_fill st stk cn fills iso k c aliases Hi Hc Hl) as [[extra [Hp Hs]] _].
  rewrite Hp. apply slookup_stack. exact Hs.
Qed.
