(* "Nearest enclosing provider OF THE RENDERED STRUCTURE", made explicit for the reference renderer Core/Sem.v.

   renderT is Core/Sem.render with two additions and one change:
     + it returns the rendered structure as a tree (rnode) instead of its text (flatten gives the text back);
     + it is handed `stk`, the stack of {% provide %} blocks whose body is being rendered right now, nearest first:
       pushed when a provide block is entered, handed down unchanged through every other construct - into component
       templates, into slot defaults and into fill bodies AT THE SLOT where they are rendered;
     * inject() (eval_data) reads `stk`, never the `prov` field of the state nor the `cprov` of a fill closure.
   Everything else (variable scoping, fill resolution, the state it threads) is Sem's, literally.
   ScopeProofs.v proves that the two renderers agree, for all programs, states and fuel.           Definitions only. *)
From DJC Require Import Lib.Base Core.Syntax Core.Sem.

Inductive rnode :=
| RText (s : str)                                        (* text or a printed variable *)
| RProv (key : str) (record : env) (body : list rnode)   (* a provide block: its key and evaluated kwargs *)
| RComp (cname : str) (kwv : env) (data : env) (body : list rnode)
                                                         (* a component instance: evaluated kwargs, result of get_context_data, rendered template *)
| RSlot (hidden body : list rnode).                      (* what a slot rendered: `body` = the fill (or the default content);
                                                            `hidden` = default content rendered only to bind the `default=` alias *)

Fixpoint flatten1 (n : rnode) : str :=
  let fl := fix fl (ns : list rnode) : str := match ns with [] => [] | n :: r => flatten1 n ++ fl r end in
  match n with
  | RText s => s
  | RProv _ _ b => fl b
  | RComp _ _ _ b => fl b
  | RSlot _ b => fl b
  end.
Fixpoint flatten (ns : list rnode) : str := match ns with [] => [] | n :: r => flatten1 n ++ flatten r end.

Definition res_map {A B} (f : A -> B) (r : res A) : res B :=
  match r with Ok a => Ok (f a) | Err k => Err k | OutOfFuel => OutOfFuel end.

Section RenderT.
  Variable md : mode.
  Variable lib : list (str * cdef).

  Section StepT.
    Variable rec : penv -> state -> tpl -> res (list rnode).

    Fixpoint rlT (stk : penv) (st : state) (ts : list tpl) : res (list rnode) :=
      match ts with
      | [] => Ok []
      | t :: r => bind (rec stk st t) (fun a => bind (rlT stk st r) (fun b => Ok (a ++ b)))
      end.

    Fixpoint rloopT (x : str) (stk : penv) (st : state) (body : list tpl) (vs : list value) (i : N) : res (list rnode) :=
      match vs with
      | [] => Ok []
      | v :: r =>
          bind (rlT stk (bind_loc x v (bind_loc counter_key (VStr (num_str i)) st)) body) (fun a =>
          bind (rloopT x stk st body r (N.succ i)) (fun b => Ok (a ++ b)))
      end.

    Definition stepT (stk : penv) (st : state) (t : tpl) : res (list rnode) :=
      match t with
      | TText s => Ok [RText s]
      | TOut e => Ok [RText (print_x (eval e st))]
      | TIf c a b => if truthy (eval c st) then rlT stk st a else rlT stk st b
      | TFor x e body => rloopT x stk st body (loop_items (eval e st)) 1%N
      | TWith x e body => rlT stk (bind_loc x (to_value (eval e st)) st) body
      | TProvide key kw body =>
          if is_ident key then
            let record := eval_kwargs kw st in
            bind (rlT ((key, record) :: stk)
                      {| loc := loc st; out := out st; cur := cur st; prov := (key, record) :: prov st |} body)
                 (fun b => Ok [RProv key record b])
          else Err ETemplateSyntax
      | TComp cname kw only body =>
          let kwv := eval_kwargs kw st in
          match slookup cname lib with
          | None => Err ENotRegistered
          | Some cd =>
              bind (resolve_fills st body) (fun fills =>
              bind (eval_data (c_data cd) kwv stk) (fun data =>           (* inject() sees the stack, nothing else *)
              bind (rlT stk (comp_state st cname fills data (is_isolated md only)) (c_tpl cd)) (fun b =>
                Ok [RComp cname kwv data b])))
          end
      | TFill _ _ _ _ => Err ETemplateSyntax
      | TSlot name is_default is_required data body =>
          match cur st with
          | None => Err ETemplateSyntax
          | Some (Inst _ fills iso) =>
              let sdata := VRec (eval_kwargs data st) in
              if double_filled name is_default fills then Err ETemplateSyntax
              else
                match slookup (fill_name_of name is_default fills) fills with
                | None => if is_required then Err ETemplateSyntax
                          else bind (rlT stk st body) (fun b => Ok [RSlot [] b])
                | Some c =>
                    bind (match clo_defvar c with
                          | Some dn => bind (rlT stk st body) (fun d => Ok (d, [(dn, VStr (flatten d))]))
                          | None => Ok ([], [])
                          end) (fun hd =>
                    let aliases := snd hd ++ match clo_dvar c with Some x => [(x, sdata)] | None => [] end in
                    (* the fill body is rendered HERE, at the slot: it gets the slot's stack *)
                    bind (rlT stk (fill_state iso st aliases c) (clo_body c)) (fun b => Ok [RSlot (fst hd) b]))
                end
          end
      end.
  End StepT.

  Fixpoint renderT (fuel : nat) (stk : penv) (st : state) (t : tpl) {struct fuel} : res (list rnode) :=
    match fuel with
    | O => OutOfFuel
    | S f => stepT (renderT f) stk st t
    end.

  Definition renderT_list (fuel : nat) (stk : penv) (st : state) (ts : list tpl) : res (list rnode) :=
    rlT (renderT fuel) stk st ts.
End RenderT.

Definition renderT_prog (fuel : nat) (p : prog) : res (list rnode) :=
  renderT_list (p_mode p) (p_lib p) fuel [] {| loc := p_ctx p; out := []; cur := None; prov := [] |} (p_page p).

(* ---------- the property, read off the tree alone ---------- *)
(* tree_ok lib stk n : every component instance in n computed its data (inject included) from the records of the
   RProv nodes above it in the tree, nearest first, followed by stk (what encloses the whole tree) *)
Fixpoint tree_ok (lib : list (str * cdef)) (stk : penv) (n : rnode) : Prop :=
  let all_ok := fix all_ok (stk : penv) (ns : list rnode) : Prop :=
    match ns with [] => True | n :: r => tree_ok lib stk n /\ all_ok stk r end in
  match n with
  | RText _ => True
  | RProv key record b => all_ok ((key, record) :: stk) b
  | RComp cname kwv data b =>
      (exists cd, slookup cname lib = Some cd /\ eval_data (c_data cd) kwv stk = Ok data) /\ all_ok stk b
  | RSlot h b => all_ok stk h /\ all_ok stk b
  end.
Definition trees_ok (lib : list (str * cdef)) : penv -> list rnode -> Prop :=
  fix all_ok (stk : penv) (ns : list rnode) : Prop :=
    match ns with [] => True | n :: r => tree_ok lib stk n /\ all_ok stk r end.

(* ---------- well-formed states (the invariant of the agreement proof) ---------- *)
Definition keys (pv : penv) : list str := map fst pv.
Definition sub_keys (a b : penv) : Prop := forall k, In k (keys a) -> In k (keys b).

(* the providers recorded in the fill closures of an instance are among those visible where the instance's slots are
   rendered, and so on for the owners of the fills *)
Inductive wf_inst : penv -> inst -> Prop :=
| WfInst pv cn fills iso : wf_fills pv fills -> wf_inst pv (Inst cn fills iso)
with wf_fills : penv -> list (str * closure) -> Prop :=
| WfNil pv : wf_fills pv []
| WfCons pv k body btw cloc cout dv defv owner cprov r :
    sub_keys cprov pv -> wf_owner cprov owner -> wf_fills pv r ->
    wf_fills pv ((k, Clo body btw cloc cout dv defv owner cprov) :: r)
with wf_owner : penv -> option inst -> Prop :=
| WfNone pv : wf_owner pv None
| WfSome pv i : wf_inst pv i -> wf_owner pv (Some i).

(* Sem's provider environment is the stack of the rendered structure, possibly followed by entries that every lookup
   skips because their key already occurs in the stack *)
Definition scope_inv (st : state) (stk : penv) : Prop :=
  (exists extra, prov st = stk ++ extra /\ sub_keys extra stk) /\ wf_owner (prov st) (cur st).

(* no component of the library calls inject() *)
Definition no_inject (lib : list (str * cdef)) : Prop :=
  forall cn cd x d, In (cn, cd) lib -> In (x, d) (c_data cd) -> match d with DInject _ _ _ => False | _ => True end.

(* the state with another provider environment *)
Definition with_prov (pv : penv) (st : state) : state := {| loc := loc st; out := out st; cur := cur st; prov := pv |}.
