(* Proofs about the M-model of perfutil/provide.py (Provide/Model.v).
   Level 2 (this file, first half): every table operation, seen through membership views.
   Level 1 (second half): an abstract machine over (active providers, pending components), the deferred trace of
   every well-formed tree run on it by induction over trees, and the simulation of the abstract machine by the tables. *)
From DJC Require Import Lib.Base Provide.Model.
From Coq Require Import Permutation.

(* ---------- sets as lists ---------- *)
Lemma nmem_In x l : nmem x l = true <-> In x l.
Proof.
  unfold nmem. rewrite existsb_exists. split.
  - intros [y [Hy He]]. apply N.eqb_eq in He. subst. exact Hy.
  - intro H. exists x. split; [exact H | apply N.eqb_refl].
Qed.

Lemma nmem_false x l : nmem x l = false <-> ~ In x l.
Proof.
  split.
  - intros H Hi. apply nmem_In in Hi. congruence.
  - intro H. destruct (nmem x l) eqn:E; [|reflexivity]. apply nmem_In in E. contradiction.
Qed.

Lemma In_sadd y x l : In y (sadd x l) <-> y = x \/ In y l.
Proof.
  unfold sadd. destruct (nmem x l) eqn:E.
  - apply nmem_In in E. split; [auto|]. intros [->|H]; assumption.
  - rewrite in_app_iff. simpl. split; [intros [H|[H|[]]]; auto | intros [H|H]; auto].
Qed.

Lemma In_srem y x l : In y (srem x l) <-> In y l /\ y <> x.
Proof.
  unfold srem. rewrite filter_In. split; intros [H1 H2]; split; auto.
  - intro E. subst. rewrite N.eqb_refl in H2. discriminate.
  - apply negb_true_iff. apply N.eqb_neq. exact H2.
Qed.

Lemma In_sdiff y a b : In y (sdiff a b) <-> In y a /\ ~ In y b.
Proof.
  unfold sdiff. rewrite filter_In. split; intros [H1 H2]; split; auto.
  - apply negb_true_iff in H2. apply nmem_false in H2. exact H2.
  - apply negb_true_iff. apply nmem_false. exact H2.
Qed.

Lemma sadd_not_nil x l : sadd x l <> [].
Proof.
  intro H. assert (In x (sadd x l)) by (apply In_sadd; auto). rewrite H in H0. contradiction.
Qed.

(* every element equals x, or some element differs *)
Lemma srem_nil_or x l : (srem x l = [] /\ forall y, In y l -> y = x) \/ (exists y, In y l /\ y <> x).
Proof.
  induction l as [|a l IH]; [left; split; [reflexivity | intros y []]|].
  destruct (N.eq_dec a x) as [->|Hn].
  - destruct IH as [[H1 H2]|[y [H1 H2]]].
    + left. split.
      * unfold srem in *. simpl. rewrite N.eqb_refl. simpl. exact H1.
      * intros y [<-|H]; auto.
    + right. exists y. split; [right|]; assumption.
  - right. exists a. split; [left; reflexivity | exact Hn].
Qed.

(* ---------- association lists ---------- *)
Section AssocLemmas.
  Context {V : Type}.
  Implicit Types l : list (N * V).

  Lemma alookup_aset q p (v : V) l : alookup q (aset p v l) = if N.eqb q p then Some v else alookup q l.
  Proof.
    induction l as [|[k w] l IH]; simpl.
    - destruct (N.eqb q p); reflexivity.
    - destruct (N.eqb p k) eqn:Epk; simpl.
      + apply N.eqb_eq in Epk. subst k. destruct (N.eqb q p); reflexivity.
      + destruct (N.eqb q k) eqn:Eqk.
        * apply N.eqb_eq in Eqk. subst k. rewrite N.eqb_sym in Epk. rewrite Epk. reflexivity.
        * exact IH.
  Qed.

  Lemma alookup_aremove q p l : alookup q (aremove p l) = if N.eqb q p then None else alookup q l.
  Proof.
    induction l as [|[k w] l IH]; simpl.
    - destruct (N.eqb q p); reflexivity.
    - destruct (N.eqb p k) eqn:Epk.
      + apply N.eqb_eq in Epk. subst k. rewrite IH. destruct (N.eqb q p); reflexivity.
      + simpl. destruct (N.eqb q k) eqn:Eqk.
        * apply N.eqb_eq in Eqk. subst k. rewrite N.eqb_sym in Epk. rewrite Epk. reflexivity.
        * exact IH.
  Qed.

  Lemma alookup_In_keys q l (v : V) : alookup q l = Some v -> In q (map fst l).
  Proof.
    induction l as [|[k w] l IH]; simpl; [discriminate|].
    destruct (N.eqb q k) eqn:E; [apply N.eqb_eq in E; auto | auto].
  Qed.

  Lemma In_keys_alookup q l : In q (map fst l) -> exists v, alookup q l = Some v.
  Proof.
    induction l as [|[k w] l IH]; simpl; [intros []|].
    intros [H|H]; destruct (N.eqb q k) eqn:E; eauto.
    subst. rewrite N.eqb_refl in E. discriminate.
  Qed.

  Lemma keys_aset p (v : V) l :
    map fst (aset p v l) = if nmem p (map fst l) then map fst l else map fst l ++ [p].
  Proof.
    induction l as [|[k w] l IH]; simpl; [reflexivity|].
    unfold nmem in *. simpl. destruct (N.eqb p k) eqn:E; simpl.
    - apply N.eqb_eq in E. subst. reflexivity.
    - rewrite IH. destruct (existsb (N.eqb p) (map fst l)); reflexivity.
  Qed.

  Lemma In_keys_aset q p (v : V) l : In q (map fst (aset p v l)) <-> q = p \/ In q (map fst l).
  Proof.
    rewrite keys_aset. destruct (nmem p (map fst l)) eqn:E.
    - apply nmem_In in E. split; [auto | intros [->|H]; assumption].
    - rewrite in_app_iff. simpl. split; [intros [H|[H|[]]]; auto | intros [H|H]; auto].
  Qed.

  Lemma NoDup_snoc (A : Type) (x : A) (l : list A) : NoDup l -> ~ In x l -> NoDup (l ++ [x]).
  Proof.
    intros H1 H2. apply (Permutation_NoDup (l := x :: l)); [apply Permutation_cons_append|].
    constructor; assumption.
  Qed.

  Lemma NoDup_keys_aset p (v : V) l : NoDup (map fst l) -> NoDup (map fst (aset p v l)).
  Proof.
    intro H. rewrite keys_aset. destruct (nmem p (map fst l)) eqn:E; [exact H|].
    apply nmem_false in E. apply NoDup_snoc; assumption.
  Qed.

  Lemma keys_aremove p l : map fst (aremove p l) = filter (fun k => negb (N.eqb k p)) (map fst l).
  Proof.
    induction l as [|[k w] l IH]; simpl; [reflexivity|].
    rewrite (N.eqb_sym k p). destruct (N.eqb p k); simpl; [exact IH | rewrite IH; reflexivity].
  Qed.

  Lemma NoDup_keys_aremove p l : NoDup (map fst l) -> NoDup (map fst (aremove p l)).
  Proof. intro H. rewrite keys_aremove. apply NoDup_filter. exact H. Qed.

  Lemma alookup_none_keys q l : alookup q l = None <-> ~ In q (map fst l).
  Proof.
    split.
    - intros H Hi. apply In_keys_alookup in Hi as [v Hv]. congruence.
    - intro H. destruct (alookup q l) eqn:E; [|reflexivity]. apply alookup_In_keys in E. contradiction.
  Qed.
End AssocLemmas.

(* ---------- views of the tables ---------- *)
(* Rf s p h : h is in provide_references[p] *)
Definition Rf (s : state) (p h : N) : Prop := exists l, alookup p (refs s) = Some l /\ In h l.
Definition nonempty_sets (s : state) : Prop := forall p l, alookup p (refs s) = Some l -> l <> [].
Definition keys_nodup (s : state) : Prop := NoDup (map fst (refs s)).
(* r is the only member of provide_references[p] *)
Definition sole (s : state) (p r : N) : Prop := exists l, alookup p (refs s) = Some l /\ In r l /\ srem r l = [].

Lemma add_ref_views r s p :
  cache (add_ref r s p) = cache s /\ allr (add_ref r s p) = allr s /\ frames (add_ref r s p) = frames s /\
  (forall q h, Rf (add_ref r s p) q h <-> Rf s q h \/ (q = p /\ h = r)) /\
  (nonempty_sets s -> nonempty_sets (add_ref r s p)) /\
  (keys_nodup s -> keys_nodup (add_ref r s p)).
Proof.
  unfold add_ref. repeat split; simpl; try reflexivity.
  - unfold Rf. simpl. intros [l [Hl Hh]]. rewrite alookup_aset in Hl.
    destruct (N.eqb q p) eqn:E.
    + apply N.eqb_eq in E. subst q. inversion Hl; subst l. apply In_sadd in Hh as [->|Hh]; [right; auto|].
      left. destruct (alookup p (refs s)) as [l0|]; [exists l0; auto | destruct Hh].
    + left. exists l. auto.
  - unfold Rf. simpl. intros [[l [Hl Hh]]|[-> ->]].
    + rewrite alookup_aset. destruct (N.eqb q p) eqn:E.
      * apply N.eqb_eq in E. subst q. rewrite Hl. eexists. split; [reflexivity|]. apply In_sadd. auto.
      * exists l. auto.
    + rewrite alookup_aset, N.eqb_refl. eexists. split; [reflexivity|]. apply In_sadd. auto.
  - intros Hne q l Hl. simpl in Hl. rewrite alookup_aset in Hl. destruct (N.eqb q p).
    + inversion Hl. apply sadd_not_nil.
    + eapply Hne; eauto.
  - unfold keys_nodup. simpl. apply NoDup_keys_aset.
Qed.

Lemma fold_add_ref_views r vis : forall s,
  cache (fold_left (add_ref r) vis s) = cache s /\ allr (fold_left (add_ref r) vis s) = allr s /\
  frames (fold_left (add_ref r) vis s) = frames s /\
  (forall q h, Rf (fold_left (add_ref r) vis s) q h <-> Rf s q h \/ (In q vis /\ h = r)) /\
  (nonempty_sets s -> nonempty_sets (fold_left (add_ref r) vis s)) /\
  (keys_nodup s -> keys_nodup (fold_left (add_ref r) vis s)).
Proof.
  induction vis as [|p vis IH]; intro s; simpl.
  - repeat split; auto. intros [H|[[] _]]. exact H.
  - destruct (add_ref_views r s p) as [H1 [H2 [H3 [H4 [H5 H6]]]]].
    destruct (IH (add_ref r s p)) as [I1 [I2 [I3 [I4 [I5 I6]]]]].
    repeat split; try congruence; auto.
    + intro H. apply I4 in H as [H|[H ->]]; [|auto]. apply H4 in H as [H|[-> ->]]; auto.
    + intros [Ha|[[<-|Hb] ->]]; apply I4.
      * left. apply H4. auto.
      * left. apply H4. auto.
      * auto.
Qed.

Lemma unreg_loop_spec r : forall keys s,
  NoDup keys ->
  (forall p, In p keys -> exists l, alookup p (refs s) = Some l) ->
  (forall p, In p keys -> sole s p r -> In p (cache s)) ->
  exists s', unreg_loop keys r s = Some s' /\
    allr s' = allr s /\ frames s' = frames s /\
    (forall q, alookup q (refs s') =
       if nmem q keys then
         match alookup q (refs s) with
         | Some l => if nmem r l then (match srem r l with [] => None | _ :: _ => Some (srem r l) end) else Some l
         | None => None
         end
       else alookup q (refs s)) /\
    (forall q, In q (cache s') <-> In q (cache s) /\ ~ (In q keys /\ sole s q r)) /\
    (keys_nodup s -> keys_nodup s').
Proof.
  induction keys as [|p ks IH]; intros s Hnd Hpres Hcache.
  - exists s. simpl. split; [reflexivity|]. split; [reflexivity|]. split; [reflexivity|].
    split; [intro q; reflexivity|]. split; [|auto].
    intro q. split; [intro Hq; split; [exact Hq | intros [[] _]] | intros [Hq _]; exact Hq].
  - inversion Hnd as [|? ? Hpn Hnd']; subst.
    destruct (Hpres p (or_introl eq_refl)) as [l Hl]. cbn [unreg_loop]. rewrite Hl.
    assert (Hnmem : forall q, nmem q (p :: ks) = (N.eqb q p || nmem q ks)%bool) by (intro q; reflexivity).
    destruct (nmem r l) eqn:Erl.
    + (* r is a member *)
      destruct (srem r l) as [|x l''] eqn:Esr.
      * (* last member: the entry and the cached data are deleted *)
        assert (Hsole : sole s p r).
        { exists l. split; [exact Hl|]. split; [apply nmem_In; exact Erl | exact Esr]. }
        pose proof (Hcache p (or_introl eq_refl) Hsole) as Hpc. cbn [set_refs cache refs].
        apply nmem_In in Hpc. rewrite Hpc.
        set (s2 := set_refs (aremove p (aset p [] (refs s))) (set_cache (srem p (cache s)) (set_refs (aset p [] (refs s)) s))).
        assert (Hlk : forall q, q <> p -> alookup q (refs s2) = alookup q (refs s)).
        { intros q Hq. unfold s2. simpl. rewrite alookup_aremove, alookup_aset.
          apply N.eqb_neq in Hq. rewrite Hq. reflexivity. }
        destruct (IH s2 Hnd') as [s' [Hrun [Ha [Hf [Hlook [Hc Hk]]]]]].
        { intros q Hq. rewrite Hlk; [apply Hpres; right; exact Hq | intro; subst; contradiction]. }
        { intros q Hq [l0 [Hl0 [Hr0 Hs0]]]. assert (q <> p) by (intro; subst; contradiction).
          rewrite Hlk in Hl0 by assumption. unfold s2. simpl. apply In_srem. split; [|assumption].
          apply Hcache; [right; exact Hq|]. exists l0. auto. }
        exists s'. split; [exact Hrun|]. split; [exact Ha|]. split; [exact Hf|]. split; [|split].
        -- intro q. rewrite Hlook, Hnmem. destruct (N.eqb q p) eqn:Eqp; cbn [orb].
           ++ apply N.eqb_eq in Eqp. subst q. apply nmem_false in Hpn. rewrite Hpn.
              unfold s2. simpl. rewrite alookup_aremove, N.eqb_refl, Hl, Erl, Esr. reflexivity.
           ++ apply N.eqb_neq in Eqp. rewrite (Hlk q Eqp). reflexivity.
        -- intro q. rewrite Hc. unfold s2 at 1. simpl. rewrite In_srem. split.
           ++ intros [[Hq Hqp] Hn]. split; [exact Hq|]. intros [[E|Hin] Hso]; [congruence|].
              apply Hn. split; [exact Hin|]. destruct Hso as [l0 [H1 H2]]. exists l0. rewrite Hlk; auto.
           ++ intros [Hq Hn]. assert (q <> p). { intro; subst. apply Hn. split; [left; reflexivity | exact Hsole]. }
              split; [split; assumption|]. intros [Hin [l0 [H1 H2]]]. apply Hn. split; [right; exact Hin|].
              exists l0. rewrite <- (Hlk q) by assumption. auto.
        -- intro Hkn. apply Hk. unfold keys_nodup, s2. simpl. apply NoDup_keys_aremove, NoDup_keys_aset. exact Hkn.
      * (* other members remain *)
        set (s1 := set_refs (aset p (x :: l'') (refs s)) s).
        assert (Hlk : forall q, q <> p -> alookup q (refs s1) = alookup q (refs s)).
        { intros q Hq. unfold s1. simpl. rewrite alookup_aset. apply N.eqb_neq in Hq. rewrite Hq. reflexivity. }
        destruct (IH s1 Hnd') as [s' [Hrun [Ha [Hf [Hlook [Hc Hk]]]]]].
        { intros q Hq. rewrite Hlk; [apply Hpres; right; exact Hq | intro; subst; contradiction]. }
        { intros q Hq [l0 [Hl0 [Hr0 Hs0]]]. assert (q <> p) by (intro; subst; contradiction).
          rewrite Hlk in Hl0 by assumption. unfold s1. simpl. apply Hcache; [right; exact Hq|]. exists l0. auto. }
        exists s'. split; [exact Hrun|]. split; [exact Ha|]. split; [exact Hf|]. split; [|split].
        -- intro q. rewrite Hlook, Hnmem. destruct (N.eqb q p) eqn:Eqp; cbn [orb].
           ++ apply N.eqb_eq in Eqp. subst q. apply nmem_false in Hpn. rewrite Hpn.
              unfold s1. simpl. rewrite alookup_aset, N.eqb_refl, Hl, Erl, Esr. reflexivity.
           ++ apply N.eqb_neq in Eqp. rewrite (Hlk q Eqp). reflexivity.
        -- intro q. rewrite Hc. unfold s1 at 1. simpl. split.
           ++ intros [Hq Hn]. split; [exact Hq|]. intros [[E|Hin] Hso].
              ** subst q. destruct Hso as [l0 [H1 [H2 H3]]]. rewrite Hl in H1. inversion H1; subst l0. congruence.
              ** assert (q <> p) by (intro; subst; contradiction). apply Hn. split; [exact Hin|].
                 destruct Hso as [l0 [H1 H2]]. exists l0. rewrite Hlk; auto.
           ++ intros [Hq Hn]. split; [exact Hq|]. intros [Hin [l0 [H1 H2]]].
              assert (q <> p) by (intro; subst; contradiction). apply Hn. split; [right; exact Hin|].
              exists l0. rewrite <- (Hlk q) by assumption. auto.
        -- intro Hkn. apply Hk. unfold keys_nodup, s1. simpl. apply NoDup_keys_aset. exact Hkn.
    + (* not a member: continue *)
      destruct (IH s Hnd') as [s' [Hrun [Ha [Hf [Hlook [Hc Hk]]]]]].
      { intros q Hq. apply Hpres. right. exact Hq. }
      { intros q Hq. apply Hcache. right. exact Hq. }
      exists s'. split; [exact Hrun|]. split; [exact Ha|]. split; [exact Hf|]. split; [|split].
      * intro q. rewrite Hlook, Hnmem. destruct (N.eqb q p) eqn:Eqp; cbn [orb]; [|reflexivity].
        apply N.eqb_eq in Eqp. subst q. apply nmem_false in Hpn. rewrite Hpn, Hl, Erl. reflexivity.
      * intro q. rewrite Hc. split.
        -- intros [Hq Hn]. split; [exact Hq|]. intros [[E|Hin] Hso].
           ++ subst q. destruct Hso as [l0 [H1 [H2 H3]]]. rewrite Hl in H1. inversion H1; subst l0.
              apply nmem_In in H2. congruence.
           ++ apply Hn. auto.
        -- intros [Hq Hn]. split; [exact Hq|]. intros [Hin Hso]. apply Hn. split; [right; exact Hin | exact Hso].
      * exact Hk.
Qed.

(* dom cache >= dom refs, the part of the invariant unregister needs *)
Definition refs_cached (s : state) : Prop := forall p h, Rf s p h -> In p (cache s).

Lemma unregister_views r s :
  keys_nodup s -> nonempty_sets s -> refs_cached s ->
  exists s', unregister r s = Some s' /\ frames s' = frames s /\
    (forall x, In x (allr s') <-> In x (allr s) /\ x <> r) /\
    (forall q h, Rf s' q h <-> Rf s q h /\ (In r (allr s) -> h <> r)) /\
    (forall q, In q (cache s') <-> In q (cache s) /\ ~ (In r (allr s) /\ sole s q r)) /\
    nonempty_sets s' /\ keys_nodup s'.
Proof.
  intros Hk Hne Hrc. unfold unregister. destruct (nmem r (allr s)) eqn:Er.
  - apply nmem_In in Er.
    set (s1 := set_allr (srem r (allr s)) s).
    destruct (unreg_loop_spec r (map fst (refs s1)) s1) as [s' [Hrun [Ha [Hf [Hlook [Hc Hkn]]]]]].
    + exact Hk.
    + intros p Hp. apply In_keys_alookup. exact Hp.
    + intros p _ [l [H1 [H2 H3]]]. apply (Hrc p r). exists l. auto.
    + exists s'. split; [exact Hrun|]. split; [rewrite Hf; reflexivity|].
      assert (Hlook' : forall q, alookup q (refs s') =
                match alookup q (refs s) with
                | Some l => if nmem r l then (match srem r l with [] => None | _ :: _ => Some (srem r l) end) else Some l
                | None => None
                end).
      { intro q. rewrite Hlook. unfold s1. simpl. destruct (nmem q (map fst (refs s))) eqn:E; [reflexivity|].
        apply nmem_false in E. apply alookup_none_keys in E. rewrite E. reflexivity. }
      split; [|split; [|split; [|split]]].
      * intro x. rewrite Ha. unfold s1. simpl. apply In_srem.
      * intros q h. unfold Rf. rewrite Hlook'. split.
        -- intros [l' [Hl' Hh]]. destruct (alookup q (refs s)) as [l|] eqn:El; [|discriminate].
           destruct (nmem r l) eqn:Erl.
           ++ destruct (srem r l) as [|x l''] eqn:Es; [discriminate|]. inversion Hl'; subst l'.
              rewrite <- Es in Hh. apply In_srem in Hh as [Hh1 Hh2]. split; [exists l; auto | auto].
           ++ inversion Hl'; subst l'. split; [exists l; auto|]. intros _ E. subst h.
              apply nmem_In in Hh. congruence.
        -- intros [[l [Hl Hh]] Hn]. specialize (Hn Er). rewrite Hl. destruct (nmem r l) eqn:Erl.
           ++ assert (Hin : In h (srem r l)) by (apply In_srem; auto).
              destruct (srem r l) as [|x l''] eqn:Es; [destruct Hin|]. exists (x :: l''). auto.
           ++ exists l. auto.
      * intro q. rewrite Hc. unfold s1 at 1. simpl. split.
        -- intros [Hq Hn]. split; [exact Hq|]. intros [_ Hso]. apply Hn. split; [|exact Hso].
           destruct Hso as [l [Hl _]]. apply alookup_In_keys in Hl. exact Hl.
        -- intros [Hq Hn]. split; [exact Hq|]. intros [_ Hso]. apply Hn. split; [exact Er | exact Hso].
      * intros q l' Hl'. rewrite Hlook' in Hl'. destruct (alookup q (refs s)) as [l|] eqn:El; [|discriminate].
        destruct (nmem r l).
        -- destruct (srem r l) as [|x l'']; [discriminate|]. inversion Hl'. discriminate.
        -- inversion Hl'; subst. eapply Hne; eauto.
      * apply Hkn. exact Hk.
  - apply nmem_false in Er. exists s. split; [reflexivity|]. split; [reflexivity|].
    split; [|split; [|split; [|split]]]; auto.
    + intro x. split; [|tauto]. intro Hx. split; [exact Hx|]. intro E. subst. contradiction.
    + intros q h. split; [|tauto]. intro H. split; [exact H|]. intro. contradiction.
    + intro q. split; [|tauto]. intro H. split; [exact H|]. intros [Hc _]. contradiction.
Qed.

Lemma Rf_set_cache s c p h : Rf (set_cache c s) p h <-> Rf s p h.
Proof. reflexivity. Qed.

(* provide_enter with the self reference *)
Lemma provide_enter_views p s :
  let s' := provide_enter true p s in
  (forall q, In q (cache s') <-> q = p \/ In q (cache s)) /\ allr s' = allr s /\
  frames s' = (p, allr s) :: frames s /\
  (forall q h, Rf s' q h <-> Rf s q h \/ (q = p /\ h = p)) /\
  (nonempty_sets s -> nonempty_sets s') /\ (keys_nodup s -> keys_nodup s').
Proof.
  unfold provide_enter.
  set (s1 := set_frames _ _).
  destruct (add_ref_views p s1 p) as [H1 [H2 [H3 [H4 [H5 H6]]]]].
  cbn zeta. split; [|split; [|split; [|split; [|split]]]].
  - intro q. rewrite H1. unfold s1. simpl. apply In_sadd.
  - rewrite H2. reflexivity.
  - rewrite H3. reflexivity.
  - intros q h. rewrite H4. reflexivity.
  - intro Hn. apply H5. exact Hn.
  - intro Hk. apply H6. exact Hk.
Qed.

(* cache_cleanup with the self reference, when the provider still holds its own reference *)
Lemma cache_cleanup_views p s :
  Rf s p p -> In p (cache s) -> nonempty_sets s -> keys_nodup s ->
  exists s', cache_cleanup true p s = Some s' /\ allr s' = allr s /\ frames s' = frames s /\
    (forall q h, Rf s' q h <-> Rf s q h /\ ~ (q = p /\ h = p)) /\
    (forall q, In q (cache s') <-> In q (cache s) /\ ~ (q = p /\ sole s p p)) /\
    nonempty_sets s' /\ keys_nodup s'.
Proof.
  intros [l [Hl Hpl]] Hpc Hne Hk. unfold cache_cleanup. rewrite Hl.
  set (s1 := set_refs (aset p (srem p l) (refs s)) s).
  assert (Hlk1 : forall q, alookup q (refs s1) = if N.eqb q p then Some (srem p l) else alookup q (refs s)).
  { intro q. unfold s1. simpl. apply alookup_aset. }
  rewrite (Hlk1 p), N.eqb_refl.
  destruct (srem p l) as [|x l''] eqn:Es.
  - (* the provider was the last holder: both entries go *)
    assert (Hc1 : nmem p (cache s1) = true) by (apply nmem_In; exact Hpc). rewrite Hc1.
    eexists. split; [reflexivity|]. simpl. split; [reflexivity|]. split; [reflexivity|].
    assert (Hall : forall y, In y l -> y = p).
    { destruct (srem_nil_or p l) as [[_ H]|[y [H1 H2]]]; [exact H|].
      assert (In y (srem p l)) by (apply In_srem; auto). rewrite Es in H. destruct H. }
    split; [|split; [|split]].
    + intros q h. unfold Rf. simpl. rewrite alookup_aremove, alookup_aset. destruct (N.eqb q p) eqn:E.
      * apply N.eqb_eq in E. subst q. split; [intros [l' [H _]]; discriminate|].
        intros [[l' [Hl' Hh]] Hn]. exfalso. apply Hn. split; [reflexivity|]. rewrite Hl in Hl'. inversion Hl'; subst. auto.
      * apply N.eqb_neq in E. split; [intros H; split; [exact H | intros [E' _]; contradiction] | intros [H _]; exact H].
    + intro q. rewrite In_srem. split.
      * intros [Hq Hn]. split; [exact Hq|]. intros [E _]. contradiction.
      * intros [Hq Hn]. split; [exact Hq|]. intro E. subst q. apply Hn. split; [reflexivity|]. exists l. auto.
    + intros q l' Hl'. simpl in Hl'. rewrite alookup_aremove, alookup_aset in Hl'.
      destruct (N.eqb q p); [discriminate | eapply Hne; eauto].
    + unfold keys_nodup. simpl. apply NoDup_keys_aremove, NoDup_keys_aset. exact Hk.
  - (* somebody else still references the data *)
    exists s1. split; [reflexivity|]. split; [reflexivity|]. split; [reflexivity|].
    split; [|split; [|split]].
    + intros q h. unfold Rf. rewrite Hlk1. destruct (N.eqb q p) eqn:E.
      * apply N.eqb_eq in E. subst q. rewrite Hl. split.
        -- intros [l' [H Hh]]. inversion H; subst l'. rewrite <- Es in Hh. apply In_srem in Hh as [H1 H2].
           split; [exists l; auto | intros [_ E]; contradiction].
        -- intros [[l' [H Hh]] Hn]. inversion H; subst l'. exists (x :: l''). split; [reflexivity|].
           rewrite <- Es. apply In_srem. split; [exact Hh|]. intro E. apply Hn. auto.
      * apply N.eqb_neq in E. split; [intros H; split; [exact H | intros [E' _]; contradiction] | intros [H _]; exact H].
    + intro q. unfold s1. simpl. split; [|tauto]. intro Hq. split; [exact Hq|].
      intros [_ [l' [H1 [_ H3]]]]. rewrite Hl in H1. inversion H1; subst l'. congruence.
    + intros q l' Hl'. rewrite Hlk1 in Hl'. destruct (N.eqb q p); [inversion Hl'; discriminate | eapply Hne; eauto].
    + unfold keys_nodup, s1. simpl. apply NoDup_keys_aset. exact Hk.
Qed.

Lemma register_views r vis s :
  let s' := register r vis s in
  cache s' = cache s /\ frames s' = frames s /\
  (cache s <> [] -> (forall x, In x (allr s') <-> x = r \/ In x (allr s)) /\
                    (forall q h, Rf s' q h <-> Rf s q h \/ (In q vis /\ h = r))) /\
  (cache s = [] -> s' = s) /\
  (nonempty_sets s -> nonempty_sets s') /\ (keys_nodup s -> keys_nodup s').
Proof.
  unfold register. destruct (cache s) as [|c0 cs] eqn:Ec; cbn zeta iota beta.
  - split; [exact Ec|]. split; [reflexivity|]. split; [intro Hc; exfalso; apply Hc; reflexivity|].
    split; [reflexivity|]. split; auto.
  - set (s1 := set_allr (sadd r (allr s)) s).
    destruct (fold_add_ref_views r vis s1) as [H1 [H2 [H3 [H4 [H5 H6]]]]].
    split; [rewrite H1; unfold s1; simpl; exact Ec|]. split; [rewrite H3; reflexivity|].
    split; [|split; [|split]].
    + intros _. split.
      * intro x. rewrite H2. unfold s1. simpl. apply In_sadd.
      * intros q h. rewrite H4. reflexivity.
    + intro H. discriminate.
    + intro Hn. apply H5. exact Hn.
    + intro Hk. apply H6. exact Hk.
Qed.

(* ================================================================================================ *)
(* The abstract machine: which providers are rendering their body, which components are registered
   and not yet finished (with the provide ids their context carried).                               *)
(* ================================================================================================ *)
Record G := { act : list N; pend : list (N * list N) }.

Definition gfresh (x : N) (g : G) : bool :=
  negb (nmem x (act g)) && negb (nmem x (map fst (pend g))) && negb (nmem x (concat (map snd (pend g)))).
(* somebody keeps provide id p alive: its own body is active, or a pending component carries it *)
Definition held (g : G) (p : N) : bool := nmem p (act g) || existsb (fun e => nmem p (snd e)) (pend g).
Definition premove (r : N) (l : list (N * list N)) : list (N * list N) := filter (fun e => negb (N.eqb (fst e) r)) l.

Definition astep (g : G) (e : event) : option G :=
  match e with
  | PEnter p => if gfresh p g then Some {| act := p :: act g; pend := pend g |} else None
  | PExit p => match act g with
               | q :: a => if N.eqb p q then Some {| act := a; pend := pend g |} else None
               | [] => None
               end
  | CReg r vis => if gfresh r g && forallb (held g) vis then Some {| act := act g; pend := pend g ++ [(r, vis)] |} else None
  | CInject r p => if held g p then Some g else None
  | CDone r => Some {| act := act g; pend := premove r (pend g) |}     (* a no-op for an id that is not pending *)
  | PFail _ | CFail _ => None
  end.

Fixpoint arun (g : G) (es : list event) : option G :=
  match es with
  | [] => Some g
  | e :: r => match astep g e with Some g1 => arun g1 r | None => None end
  end.

Record Abs (g : G) (s : state) : Prop := {
  abs_refs : forall p h, Rf s p h <-> (h = p /\ In p (act g)) \/ (exists vis, In (h, vis) (pend g) /\ In p vis);
  abs_all_pend : forall r, In r (allr s) -> In r (map fst (pend g));
  abs_pend_all : forall r vis, In (r, vis) (pend g) -> vis <> [] -> In r (allr s);
  abs_cache : forall p, In p (cache s) <-> exists h, Rf s p h;
  abs_nonempty : nonempty_sets s;
  abs_keys : keys_nodup s;
  abs_frames : map fst (frames s) = act g
}.
Definition Gwf (g : G) : Prop := NoDup (act g ++ map fst (pend g)).

Lemma held_spec g p : held g p = true <-> In p (act g) \/ exists h vis, In (h, vis) (pend g) /\ In p vis.
Proof.
  unfold held. rewrite orb_true_iff, nmem_In, existsb_exists. split.
  - intros [H|[[h vis] [H1 H2]]]; [auto|]. right. exists h, vis. split; [exact H1 | apply nmem_In; exact H2].
  - intros [H|[h [vis [H1 H2]]]]; [auto|]. right. exists (h, vis). split; [exact H1 | apply nmem_In; exact H2].
Qed.

Lemma held_live g s p : Abs g s -> held g p = true -> In p (cache s).
Proof.
  intros HA Hh. apply (abs_cache _ _ HA). apply held_spec in Hh as [H|[h [vis [H1 H2]]]].
  - exists p. apply (abs_refs _ _ HA). left. auto.
  - exists h. apply (abs_refs _ _ HA). right. exists vis. auto.
Qed.

Lemma gfresh_spec x g : gfresh x g = true ->
  ~ In x (act g) /\ ~ In x (map fst (pend g)) /\ ~ In x (concat (map snd (pend g))).
Proof.
  unfold gfresh. rewrite !andb_true_iff, !negb_true_iff, !nmem_false. tauto.
Qed.

Lemma In_premove e r l : In e (premove r l) <-> In e l /\ fst e <> r.
Proof.
  unfold premove. rewrite filter_In. split; intros [H1 H2]; split; auto.
  - apply negb_true_iff, N.eqb_neq in H2. exact H2.
  - apply negb_true_iff, N.eqb_neq. exact H2.
Qed.

Lemma NoDup_app_filter (f : N -> bool) (a b : list N) : NoDup (a ++ b) -> NoDup (a ++ filter f b).
Proof.
  induction a as [|x a IH]; simpl; intro H.
  - apply NoDup_filter. exact H.
  - inversion H as [|? ? Hx Hn]; subst. constructor; [|apply IH; exact Hn].
    intro Hi. apply Hx. apply in_app_iff in Hi as [Hi|Hi]; apply in_app_iff; [auto|].
    right. apply filter_In in Hi. tauto.
Qed.

Lemma keys_premove r l : map fst (premove r l) = filter (fun k => negb (N.eqb k r)) (map fst l).
Proof.
  induction l as [|[k v] l IH]; simpl; [reflexivity|].
  destruct (N.eqb k r); simpl; [exact IH | rewrite IH; reflexivity].
Qed.

Lemma NoDup_app_disjoint_N (a b : list N) x : NoDup (a ++ b) -> In x a -> In x b -> False.
Proof.
  induction a as [|y a IH]; simpl; intros H Ha Hb; [destruct Ha|].
  inversion H as [|? ? Hy Hn]; subst. destruct Ha as [->|Ha].
  - apply Hy. apply in_app_iff. auto.
  - apply (IH Hn Ha Hb).
Qed.

Lemma abs_empty : Abs {| act := []; pend := [] |} empty_state.
Proof.
  constructor; simpl.
  - intros p h. split.
    + intros [l [H _]]. discriminate.
    + intros [[_ []]|[vis [[] _]]].
  - intros r [].
  - intros r vis [].
  - intro p. split; [intros [] | intros [h [l [H _]]]; discriminate].
  - intros p l H. discriminate.
  - constructor.
  - reflexivity.
Qed.

Lemma step_sim g s e g' :
  Abs g s -> Gwf g -> astep g e = Some g' ->
  exists s', step true s e = Some s' /\ Abs g' s' /\ Gwf g'.
Proof.
  intros HA HW Hst. destruct e as [p|p|p|r vis|r p|r|r]; simpl in Hst; try discriminate.
  - (* PEnter *)
    destruct (gfresh p g) eqn:Ef; [|discriminate]. inversion Hst; subst g'; clear Hst.
    apply gfresh_spec in Ef as [F1 [F2 F3]].
    exists (provide_enter true p s). split; [reflexivity|].
    pose proof (provide_enter_views p s) as V. cbv zeta in V.
    set (s' := provide_enter true p s) in *. clearbody s'.
    destruct V as [V1 [V2 [V3 [V4 [V5 V6]]]]].
    split.
    + constructor; cbn [act pend].
      * intros q h. rewrite V4, (abs_refs _ _ HA). split.
        -- intros [[[-> H]|H]|[-> ->]]; simpl; auto.
        -- simpl. intros [[-> [<-|H]]|H]; auto.
      * intros r. rewrite V2. apply (abs_all_pend _ _ HA).
      * intros r vis. rewrite V2. apply (abs_pend_all _ _ HA).
      * intro q. rewrite V1, (abs_cache _ _ HA). split.
        -- intros [->|[h H]]; [exists p; apply V4; auto | exists h; apply V4; auto].
        -- intros [h H]. apply V4 in H as [H|[-> _]]; [right; exists h; exact H | auto].
      * apply V5, (abs_nonempty _ _ HA).
      * apply V6, (abs_keys _ _ HA).
      * rewrite V3. simpl. rewrite (abs_frames _ _ HA). reflexivity.
    + unfold Gwf in *. simpl. constructor; [|exact HW]. rewrite in_app_iff. tauto.
  - (* PExit *)
    destruct (act g) as [|q a] eqn:Ea; [discriminate|].
    destruct (N.eqb p q) eqn:Epq; [|discriminate]. apply N.eqb_eq in Epq. subst q.
    inversion Hst; subst g'; clear Hst.
    pose proof (abs_frames _ _ HA) as Hfr. rewrite Ea in Hfr.
    destruct (frames s) as [|[p0 before] fs] eqn:Efs; [discriminate|]. simpl in Hfr. inversion Hfr; subst p0.
    unfold Gwf in HW. rewrite Ea in HW. simpl in HW. inversion HW as [|? ? Hpn HW']; subst.
    rewrite in_app_iff in Hpn.
    assert (Hpp : Rf s p p). { apply (abs_refs _ _ HA). left. rewrite Ea. simpl. auto. }
    set (s1 := set_frames fs s).
    destruct (cache_cleanup_views p s1) as [s' [C1 [C2 [C3 [C4 [C5 [C6 C7]]]]]]].
    { exact Hpp. } { apply (abs_cache _ _ HA). exists p. exact Hpp. }
    { exact (abs_nonempty _ _ HA). } { exact (abs_keys _ _ HA). }
    exists s'. split.
    { simpl. unfold provide_exit, pop_frame. rewrite Efs, N.eqb_refl. exact C1. }
    split; [|exact HW'].
    constructor; simpl.
    + intros q h. rewrite C4. change (Rf s1 q h) with (Rf s q h). rewrite (abs_refs _ _ HA), Ea. simpl. split.
      * intros [[[-> [E|H]]|H] Hn]; auto. exfalso. apply Hn. auto.
      * intros [[-> H]|[vis [H1 H2]]].
        -- split; [auto|]. intros [E _]. subst. tauto.
        -- split; [right; exists vis; auto|]. intros [_ E]. subst h. apply Hpn. right.
           apply in_map_iff. exists (p, vis). auto.
    + intros r. rewrite C2. apply (abs_all_pend _ _ HA).
    + intros r vis. rewrite C2. apply (abs_pend_all _ _ HA).
    + intro q. rewrite C5. change (In q (cache s1)) with (In q (cache s)). rewrite (abs_cache _ _ HA). split.
      * intros [[h Hh] Hn]. destruct (N.eq_dec q p) as [->|Hqp].
        -- destruct Hpp as [l [Hl Hpl]]. destruct (srem_nil_or p l) as [[Hs Hall]|[y [Hy Hyp]]].
           ++ exfalso. apply Hn. split; [reflexivity|]. exists l. auto.
           ++ exists y. apply C4. split; [exists l; auto | intros [_ E]; contradiction].
        -- exists h. apply C4. split; [exact Hh | intros [E _]; contradiction].
      * intros [h Hh]. apply C4 in Hh as [Hh Hn]. split; [exists h; exact Hh|].
        intros [-> [l [Hl [_ Hs]]]]. destruct Hh as [l' [Hl' Hh]]. change (refs s1) with (refs s) in *.
        rewrite Hl in Hl'. inversion Hl'; subst l'.
        assert (Hin : In h (srem p l)) by (apply In_srem; split; [exact Hh | intro E; apply Hn; auto]).
        rewrite Hs in Hin. destruct Hin.
    + exact C6.
    + exact C7.
    + rewrite C3. simpl. congruence.
  - (* CReg *)
    destruct (gfresh r g && forallb (held g) vis) eqn:Ec; [|discriminate].
    inversion Hst; subst g'; clear Hst. apply andb_true_iff in Ec as [Ef Eh].
    apply gfresh_spec in Ef as [F1 [F2 F3]].
    assert (Hheld : forall p, In p vis -> held g p = true) by (apply forallb_forall; exact Eh).
    exists (register r vis s). split; [reflexivity|].
    pose proof (register_views r vis s) as V. cbv zeta in V.
    set (s' := register r vis s) in *. clearbody s'.
    destruct V as [R1 [R2 [R3 [R4 [R5 R6]]]]].
    split.
    + destruct (cache s) as [|c0 cs] eqn:Ecache.
      * (* nothing provided anywhere: the component does not register; it cannot see any provider *)
        assert (vis = []).
        { destruct vis as [|p vis']; [reflexivity|]. pose proof (held_live _ _ p HA (Hheld p (or_introl eq_refl))) as H.
          rewrite Ecache in H. destruct H. }
        subst vis. rewrite (R4 eq_refl). constructor; simpl.
        -- intros q h. rewrite (abs_refs _ _ HA). split.
           ++ intros [H|[vis [H1 H2]]]; [auto|]. right. exists vis. rewrite in_app_iff. auto.
           ++ intros [H|[vis [H1 H2]]]; [auto|]. right. apply in_app_iff in H1 as [H1|[H1|[]]].
              ** exists vis. auto.
              ** inversion H1; subst. destruct H2.
        -- intros x Hx. rewrite map_app, in_app_iff. left. apply (abs_all_pend _ _ HA). exact Hx.
        -- intros x vis Hx Hv. apply in_app_iff in Hx as [Hx|[Hx|[]]].
           ++ apply (abs_pend_all _ _ HA x vis); assumption.
           ++ inversion Hx; subst. contradiction.
        -- intro q. try rewrite <- Ecache. apply (abs_cache _ _ HA).
        -- exact (abs_nonempty _ _ HA).
        -- exact (abs_keys _ _ HA).
        -- exact (abs_frames _ _ HA).
      * assert (Hne : c0 :: cs <> []) by discriminate. destruct (R3 Hne) as [Ra Rr].
        constructor; simpl.
        -- intros q h. rewrite Rr, (abs_refs _ _ HA). split.
           ++ intros [[H|[vis' [H1 H2]]]|[H ->]]; [auto | |].
              ** right. exists vis'. rewrite in_app_iff. auto.
              ** right. exists vis. rewrite in_app_iff. simpl. auto.
           ++ intros [H|[vis' [H1 H2]]]; [auto|]. apply in_app_iff in H1 as [H1|[H1|[]]].
              ** left. right. exists vis'. auto.
              ** inversion H1; subst. auto.
        -- intros x Hx. apply Ra in Hx as [->|Hx]; rewrite map_app, in_app_iff; simpl; [auto|].
           left. apply (abs_all_pend _ _ HA). exact Hx.
        -- intros x vis' Hx Hv. apply Ra. apply in_app_iff in Hx as [Hx|[Hx|[]]].
           ++ right. apply (abs_pend_all _ _ HA x vis'); assumption.
           ++ inversion Hx; subst. auto.
        -- intro q. rewrite R1, <- Ecache, (abs_cache _ _ HA). split.
           ++ intros [h H]. exists h. apply Rr. auto.
           ++ intros [h H]. apply Rr in H as [H|[H ->]]; [exists h; exact H|].
              apply (abs_cache _ _ HA). apply (held_live _ _ q HA). apply Hheld. exact H.
        -- apply R5, (abs_nonempty _ _ HA).
        -- apply R6, (abs_keys _ _ HA).
        -- rewrite R2. exact (abs_frames _ _ HA).
    + unfold Gwf in *. simpl. rewrite map_app. simpl. rewrite app_assoc. apply NoDup_snoc; [exact HW|].
      rewrite in_app_iff. tauto.
  - (* CInject *)
    destruct (held g p) eqn:Eh; [|discriminate]. inversion Hst; subst g'.
    exists s. split; [|auto]. simpl. pose proof (held_live _ _ p HA Eh) as H. apply nmem_In in H. rewrite H. reflexivity.
  - (* CDone *)
    inversion Hst; subst g'; clear Hst.
    assert (Hract : In r (allr s) -> ~ In r (act g)).
    { intros Hv H. apply (abs_all_pend _ _ HA) in Hv. unfold Gwf in HW.
      apply (NoDup_app_disjoint_N _ _ r HW H Hv). }
    destruct (unregister_views r s) as [s' [U1 [U2 [U3 [U4 [U5 [U6 U7]]]]]]].
    { exact (abs_keys _ _ HA). } { exact (abs_nonempty _ _ HA). }
    { intros p h H. apply (abs_cache _ _ HA). exists h. exact H. }
    exists s'. split; [exact U1|]. split.
    + assert (Hdec : In r (allr s) \/ ~ In r (allr s)).
      { destruct (nmem r (allr s)) eqn:E; [left; apply nmem_In; exact E | right; apply nmem_false; exact E]. }
      constructor; simpl.
      * intros q h. rewrite U4, (abs_refs _ _ HA). split.
        -- intros [[H|[vis [H1 H2]]] Hn]; [auto|]. right. exists vis. split; [|exact H2].
           apply In_premove. split; [exact H1|]. simpl. intro E. subst h.
           assert (Hv : In r (allr s)). { apply (abs_pend_all _ _ HA r vis H1). intro E. subst vis. destruct H2. }
           exact (Hn Hv eq_refl).
        -- intros [[-> H]|[vis [H1 H2]]].
           ++ split; [auto|]. intros Hv E. subst. exact (Hract Hv H).
           ++ apply In_premove in H1 as [H1 H3]. split; [right; exists vis; auto|]. intros _. exact H3.
      * intros x Hx. apply U3 in Hx as [Hx Hxr]. apply (abs_all_pend _ _ HA) in Hx.
        apply in_map_iff in Hx as [[x' v] [E Hin]]. simpl in E. subst x'. apply in_map_iff. exists (x, v).
        split; [reflexivity|]. apply In_premove. auto.
      * intros x vis Hx Hv. apply In_premove in Hx as [Hx Hxr]. apply U3. split; [|exact Hxr].
        apply (abs_pend_all _ _ HA x vis); assumption.
      * intro q. rewrite U5, (abs_cache _ _ HA). split.
        -- intros [[h Hh] Hn]. destruct Hdec as [Hv|Hv].
           ++ destruct Hh as [l [Hl Hh]]. destruct (srem_nil_or r l) as [[Hs Hall]|[y [Hy Hyr]]].
              ** exfalso. apply Hn. split; [exact Hv|]. exists l. split; [exact Hl|]. split; [|exact Hs].
                 rewrite <- (Hall h Hh). exact Hh.
              ** exists y. apply U4. split; [exists l; auto | auto].
           ++ exists h. apply U4. split; [exact Hh | intro; contradiction].
        -- intros [h Hh]. apply U4 in Hh as [Hh Hn]. split; [exists h; exact Hh|].
           intros [Hv [l [Hl [_ Hs]]]]. destruct Hh as [l' [Hl' Hh]]. rewrite Hl in Hl'. inversion Hl'; subst l'.
           assert (Hin : In h (srem r l)) by (apply In_srem; auto). rewrite Hs in Hin. destruct Hin.
      * exact U6.
      * exact U7.
      * rewrite U2. exact (abs_frames _ _ HA).
    + unfold Gwf in *. simpl. rewrite keys_premove. apply NoDup_app_filter. exact HW.
Qed.

Lemma sim_run es : forall g s g',
  Abs g s -> Gwf g -> arun g es = Some g' ->
  exists s', run true s es = Some s' /\ Abs g' s' /\ Gwf g'.
Proof.
  induction es as [|e es IH]; intros g s g' HA HW Hr; simpl in *.
  - inversion Hr; subst. exists s. auto.
  - destruct (astep g e) as [g1|] eqn:Ea; [|discriminate].
    destruct (step_sim g s e g1 HA HW Ea) as [s1 [Hs [HA1 HW1]]]. rewrite Hs.
    apply (IH g1 s1 g' HA1 HW1 Hr).
Qed.

Lemma arun_app a : forall g b, arun g (a ++ b) = match arun g a with Some g1 => arun g1 b | None => None end.
Proof.
  induction a as [|e a IH]; intros g b; simpl; [reflexivity|].
  destruct (astep g e); [apply IH | reflexivity].
Qed.

Lemma run_app sr a : forall s b, run sr s (a ++ b) = match run sr s a with Some s1 => run sr s1 b | None => None end.
Proof.
  induction a as [|e a IH]; intros s b; simpl; [reflexivity|].
  destruct (step sr s e); [apply IH | reflexivity].
Qed.

(* ================================================================================================ *)
(* Level 1: the deferred trace of every well-formed tree runs on the abstract machine               *)
(* ================================================================================================ *)
Section TreeInd.
  Variable P : tree -> Prop.
  Variable Q : list tree -> Prop.
  Hypothesis HProv : forall p body, Q body -> P (Prov p body).
  Hypothesis HComp : forall root r vis inj inj2 body, Q body -> P (Comp root r vis inj inj2 body).
  Hypothesis Hnil : Q [].
  Hypothesis Hcons : forall t r, P t -> Q r -> Q (t :: r).

  Fixpoint tree_ind2 (t : tree) : P t :=
    match t with
    | Prov p body =>
        HProv p body ((fix L (ts : list tree) : Q ts := match ts with [] => Hnil | t :: r => Hcons t r (tree_ind2 t) (L r) end) body)
    | Comp root r vis inj inj2 body =>
        HComp root r vis inj inj2 body ((fix L (ts : list tree) : Q ts := match ts with [] => Hnil | t :: r => Hcons t r (tree_ind2 t) (L r) end) body)
    end.

  Fixpoint tree_list_ind2 (ts : list tree) : Q ts :=
    match ts with [] => Hnil | t :: r => Hcons t r (tree_ind2 t) (tree_list_ind2 r) end.
End TreeInd.

(* unfolding equations (the nested fixes of Model.v are the list functions) *)
Lemma imm_Prov p body : imm (Prov p body) = PEnter p :: imml body ++ [PExit p].
Proof. reflexivity. Qed.
Lemma imm_root r vis inj inj2 body :
  imm (Comp true r vis inj inj2 body) =
  map (CInject r) inj ++ CReg r vis :: map (CInject r) inj2 ++ imml body ++ dfrl body ++ [CDone r]
  ++ map CDone (r :: regs_imml body ++ regs_dfrl body).
Proof. reflexivity. Qed.
Lemma imm_nested r vis inj inj2 body : imm (Comp false r vis inj inj2 body) = map (CInject r) inj ++ [CReg r vis].
Proof. reflexivity. Qed.
Lemma dfr_Prov p body : dfr (Prov p body) = dfrl body.
Proof. reflexivity. Qed.
Lemma dfr_root r vis inj inj2 body : dfr (Comp true r vis inj inj2 body) = [].
Proof. reflexivity. Qed.
Lemma dfr_nested r vis inj inj2 body :
  dfr (Comp false r vis inj inj2 body) = map (CInject r) inj2 ++ imml body ++ dfrl body ++ [CDone r].
Proof. reflexivity. Qed.
Lemma regs_imm_Prov p body : regs_imm (Prov p body) = regs_imml body.
Proof. reflexivity. Qed.
Lemma regs_dfr_Prov p body : regs_dfr (Prov p body) = regs_dfrl body.
Proof. reflexivity. Qed.
Lemma ids_Prov p body : ids (Prov p body) = p :: idsl body.
Proof. reflexivity. Qed.
Lemma ids_Comp root r vis inj inj2 body : ids (Comp root r vis inj inj2 body) = r :: idsl body.
Proof. reflexivity. Qed.
Lemma wf_Prov avail p body : wf avail (Prov p body) = wfl (p :: avail) body.
Proof. reflexivity. Qed.
Lemma wf_Comp avail root r vis inj inj2 body :
  wf avail (Comp root r vis inj inj2 body) = subset vis avail && subset inj vis && subset inj2 vis && wfl vis body.
Proof. reflexivity. Qed.

(* what a template leaves behind in the queue: the nested components registered while it rendered *)
Fixpoint pendof (t : tree) : list (N * list N) :=
  match t with
  | Prov p body => (fix L (ts : list tree) := match ts with [] => [] | t :: r => pendof t ++ L r end) body
  | Comp true _ _ _ _ _ => []
  | Comp false r vis _ _ _ => [(r, vis)]
  end.
Fixpoint pendofl (ts : list tree) : list (N * list N) := match ts with [] => [] | t :: r => pendof t ++ pendofl r end.
Lemma pendof_Prov p body : pendof (Prov p body) = pendofl body.
Proof. reflexivity. Qed.

(* ids created while the template renders (shell) / only later, from the queue (inner) *)
Fixpoint shell (t : tree) : list N :=
  match t with
  | Prov p body => p :: (fix L (ts : list tree) := match ts with [] => [] | t :: r => shell t ++ L r end) body
  | Comp true r _ _ _ body => r :: idsl body
  | Comp false r _ _ _ _ => [r]
  end.
Fixpoint shelll (ts : list tree) : list N := match ts with [] => [] | t :: r => shell t ++ shelll r end.
Fixpoint inner (t : tree) : list N :=
  match t with
  | Prov p body => (fix L (ts : list tree) := match ts with [] => [] | t :: r => inner t ++ L r end) body
  | Comp true _ _ _ _ _ => []
  | Comp false _ _ _ _ body => idsl body
  end.
Fixpoint innerl (ts : list tree) : list N := match ts with [] => [] | t :: r => inner t ++ innerl r end.
Lemma shell_Prov p body : shell (Prov p body) = p :: shelll body.
Proof. reflexivity. Qed.
Lemma inner_Prov p body : inner (Prov p body) = innerl body.
Proof. reflexivity. Qed.

Lemma ids_split_perm : forall t, Permutation (ids t) (shell t ++ inner t).
Proof.
  apply (tree_ind2 (fun t => Permutation (ids t) (shell t ++ inner t))
                   (fun ts => Permutation (idsl ts) (shelll ts ++ innerl ts))).
  - intros p body IH. rewrite ids_Prov, shell_Prov, inner_Prov. simpl. constructor. exact IH.
  - intros root r vis inj inj2 body IH. rewrite ids_Comp. destruct root; simpl.
    + rewrite app_nil_r. apply Permutation_refl.
    + apply Permutation_refl.
  - apply Permutation_refl.
  - intros t r IHt IHr. simpl.
    apply (Permutation_trans (Permutation_app IHt IHr)).
    rewrite <- !app_assoc. apply Permutation_app_head.
    rewrite !app_assoc. apply Permutation_app_tail. apply Permutation_app_comm.
Qed.

Lemma idsl_split_perm : forall ts, Permutation (idsl ts) (shelll ts ++ innerl ts).
Proof.
  induction ts as [|t r IH]; simpl; [apply Permutation_refl|].
  apply (Permutation_trans (Permutation_app (ids_split_perm t) IH)).
  rewrite <- !app_assoc. apply Permutation_app_head.
  rewrite !app_assoc. apply Permutation_app_tail. apply Permutation_app_comm.
Qed.

(* ---------- bookkeeping lemmas ---------- *)
Definition gids (g : G) : list N := act g ++ map fst (pend g) ++ concat (map snd (pend g)).
Definition fresh_for (g : G) (xs : list N) : Prop := forall x, In x xs -> ~ In x (gids g).
Definition pdrop (rs : list N) (l : list (N * list N)) : list (N * list N) := filter (fun e => negb (nmem (fst e) rs)) l.

Lemma G_eta g : {| act := act g; pend := pend g |} = g.
Proof. destruct g; reflexivity. Qed.

Lemma In_concat_snd x (l : list (N * list N)) : In x (concat (map snd l)) <-> exists h vis, In (h, vis) l /\ In x vis.
Proof.
  rewrite in_concat. split.
  - intros [vis [H1 H2]]. apply in_map_iff in H1 as [[h v] [E H1]]. simpl in E. subst v. eauto.
  - intros [h [vis [H1 H2]]]. exists vis. split; [|exact H2]. apply in_map_iff. exists (h, vis). auto.
Qed.

Lemma held_gids g p : held g p = true -> In p (gids g).
Proof.
  intro H. apply held_spec in H as [H|H]; unfold gids; rewrite !in_app_iff; [auto|].
  right. right. apply In_concat_snd. exact H.
Qed.

Lemma held_by_entry g h vis p : In (h, vis) (pend g) -> In p vis -> held g p = true.
Proof. intros H1 H2. apply held_spec. right. eauto. Qed.

Lemma held_pend_app a l x p : held {| act := a; pend := l |} p = true -> held {| act := a; pend := l ++ x |} p = true.
Proof.
  rewrite !held_spec. simpl. intros [H|[h [vis [H1 H2]]]]; [auto|]. right. exists h, vis. rewrite in_app_iff. auto.
Qed.

Lemma held_act_cons a l q p : held {| act := a; pend := l |} p = true -> held {| act := q :: a; pend := l |} p = true.
Proof. rewrite !held_spec. simpl. intros [H|H]; auto. Qed.

Lemma gfresh_of_notin x g : ~ In x (gids g) -> gfresh x g = true.
Proof.
  unfold gids, gfresh. rewrite !in_app_iff. intro H.
  rewrite !andb_true_iff, !negb_true_iff, !nmem_false. tauto.
Qed.

Lemma gids_pend_app a l x y :
  In y (gids {| act := a; pend := l ++ x |}) ->
  In y (gids {| act := a; pend := l |}) \/ In y (map fst x) \/ In y (concat (map snd x)).
Proof.
  unfold gids. simpl. rewrite !map_app, concat_app, !in_app_iff. tauto.
Qed.

Lemma gids_pdrop a l rs y : In y (gids {| act := a; pend := pdrop rs l |}) -> In y (gids {| act := a; pend := l |}).
Proof.
  unfold gids. simpl. rewrite !in_app_iff. intros [H|[H|H]]; [auto| |].
  - right. left. apply in_map_iff in H as [e [E H]]. apply filter_In in H as [H _]. apply in_map_iff. eauto.
  - right. right. apply In_concat_snd in H as [h [vis [H1 H2]]]. apply filter_In in H1 as [H1 _].
    apply In_concat_snd. eauto.
Qed.

Lemma pdrop_nil l : pdrop [] l = l.
Proof.
  unfold pdrop. induction l as [|e l IH]; [reflexivity|]. cbn [filter].
  change (nmem (fst e) []) with false. cbn [negb]. rewrite IH. reflexivity.
Qed.

Lemma pdrop_pdrop a b l : pdrop b (pdrop a l) = pdrop (a ++ b) l.
Proof.
  unfold pdrop. induction l as [|e l IH]; simpl; [reflexivity|].
  assert (E : nmem (fst e) (a ++ b) = nmem (fst e) a || nmem (fst e) b) by (unfold nmem; apply existsb_app).
  rewrite E. destruct (nmem (fst e) a); simpl; [exact IH|].
  destruct (nmem (fst e) b); simpl; [exact IH | rewrite IH; reflexivity].
Qed.

Lemma pdrop_cancel rs l x :
  (forall e, In e x -> In (fst e) rs) -> (forall e, In e l -> ~ In (fst e) rs) -> pdrop rs (l ++ x) = l.
Proof.
  intros Hx Hl. unfold pdrop. rewrite filter_app.
  replace (filter _ x) with (@nil (N * list N)).
  - rewrite app_nil_r. induction l as [|e l IH]; simpl; [reflexivity|].
    assert (nmem (fst e) rs = false) by (apply nmem_false; apply Hl; left; reflexivity).
    rewrite H. simpl. rewrite IH; [reflexivity|]. intros e' He'. apply Hl. right. exact He'.
  - symmetry. induction x as [|e x IH]; simpl; [reflexivity|].
    assert (nmem (fst e) rs = true) by (apply nmem_In; apply Hx; left; reflexivity).
    rewrite H. simpl. apply IH. intros e' He'. apply Hx. right. exact He'.
Qed.

Lemma premove_pdrop r l : premove r l = pdrop [r] l.
Proof.
  unfold premove, pdrop. apply filter_ext. intro e. unfold nmem. simpl. rewrite orb_false_r. reflexivity.
Qed.

Lemma NoDup_app_disjoint (a b : list N) x : NoDup (a ++ b) -> In x a -> In x b -> False.
Proof.
  induction a as [|y a IH]; simpl; intros H Ha Hb; [destruct Ha|].
  inversion H as [|? ? Hy Hn]; subst. destruct Ha as [->|Ha].
  - apply Hy. apply in_app_iff. auto.
  - apply (IH Hn Ha Hb).
Qed.

Lemma NoDup_app_l (a b : list N) : NoDup (a ++ b) -> NoDup a.
Proof.
  induction a as [|y a IH]; simpl; intro H; [constructor|].
  inversion H as [|? ? Hy Hn]; subst. constructor; [|apply IH; exact Hn].
  intro Hi. apply Hy. apply in_app_iff. auto.
Qed.

Lemma NoDup_app_r (a b : list N) : NoDup (a ++ b) -> NoDup b.
Proof.
  induction a as [|y a IH]; simpl; intro H; [exact H|]. inversion H; subst. apply IH. assumption.
Qed.

Lemma subset_spec a b : subset a b = true <-> forall x, In x a -> In x b.
Proof.
  unfold subset. rewrite forallb_forall. split; intros H x Hx; [apply nmem_In | apply nmem_In]; auto.
Qed.

Lemma In_shell_ids t x : In x (shell t) -> In x (ids t).
Proof.
  intro H. apply (Permutation_in _ (Permutation_sym (ids_split_perm t))). apply in_app_iff. auto.
Qed.
Lemma In_inner_ids t x : In x (inner t) -> In x (ids t).
Proof.
  intro H. apply (Permutation_in _ (Permutation_sym (ids_split_perm t))). apply in_app_iff. auto.
Qed.
Lemma In_shelll_idsl ts x : In x (shelll ts) -> In x (idsl ts).
Proof.
  intro H. apply (Permutation_in _ (Permutation_sym (idsl_split_perm ts))). apply in_app_iff. auto.
Qed.
Lemma In_innerl_idsl ts x : In x (innerl ts) -> In x (idsl ts).
Proof.
  intro H. apply (Permutation_in _ (Permutation_sym (idsl_split_perm ts))). apply in_app_iff. auto.
Qed.
Lemma shelll_innerl_disjoint ts x : NoDup (idsl ts) -> In x (shelll ts) -> In x (innerl ts) -> False.
Proof.
  intros H. apply NoDup_app_disjoint. apply (Permutation_NoDup (idsl_split_perm ts)). exact H.
Qed.

(* the registered ids are shell ids; the provide ids they carry come from `avail` or from enclosing shell providers *)
Lemma pendof_facts : forall t,
  (forall x, In x (map fst (pendof t)) -> In x (shell t)) /\
  (forall avail x, wf avail t = true -> In x (concat (map snd (pendof t))) -> In x avail \/ In x (shell t)).
Proof.
  apply (tree_ind2
    (fun t => (forall x, In x (map fst (pendof t)) -> In x (shell t)) /\
              (forall avail x, wf avail t = true -> In x (concat (map snd (pendof t))) -> In x avail \/ In x (shell t)))
    (fun ts => (forall x, In x (map fst (pendofl ts)) -> In x (shelll ts)) /\
               (forall avail x, wfl avail ts = true -> In x (concat (map snd (pendofl ts))) -> In x avail \/ In x (shelll ts)))).
  - intros p body [IH1 IH2]. rewrite pendof_Prov, shell_Prov. split.
    + intros x H. right. apply IH1. exact H.
    + intros avail x Hw H. rewrite wf_Prov in Hw. destruct (IH2 (p :: avail) x Hw H) as [[<-|Ha]|Hs].
      * right. left. reflexivity.
      * left. exact Ha.
      * right. right. exact Hs.
  - intros root r vis inj inj2 body _. destruct root.
    + split; [intros x [] | intros avail x _ []].
    + split.
      * intros x H. simpl in H. destruct H as [<-|[]]. simpl. auto.
      * intros avail x Hw H. simpl in H. rewrite app_nil_r in H. left. rewrite wf_Comp in Hw.
        apply andb_true_iff in Hw as [Hw _]. apply andb_true_iff in Hw as [Hw _]. apply andb_true_iff in Hw as [Hw _].
        apply (proj1 (subset_spec vis avail) Hw). exact H.
  - split; [intros x [] | intros avail x _ []].
  - intros t r [IHt1 IHt2] [IHr1 IHr2]. simpl. split.
    + intros x H. rewrite map_app in H. apply in_app_iff in H. apply in_app_iff. destruct H; auto.
    + intros avail x Hw H. apply andb_true_iff in Hw as [Hw1 Hw2].
      rewrite map_app, concat_app in H. apply in_app_iff in H as [H|H].
      * destruct (IHt2 avail x Hw1 H); [auto|]. right. apply in_app_iff. auto.
      * destruct (IHr2 avail x Hw2 H); [auto|]. right. apply in_app_iff. auto.
Qed.

Lemma pendofl_rids ts x : In x (map fst (pendofl ts)) -> In x (shelll ts).
Proof.
  induction ts as [|t r IH]; simpl; [intros []|].
  rewrite map_app, !in_app_iff. intros [H|H]; [left; apply (proj1 (pendof_facts t)); exact H | right; apply IH; exact H].
Qed.

Lemma pendofl_vis ts avail x : wfl avail ts = true -> In x (concat (map snd (pendofl ts))) -> In x avail \/ In x (shelll ts).
Proof.
  induction ts as [|t r IH]; simpl; [intros _ []|].
  intros Hw H. apply andb_true_iff in Hw as [Hw1 Hw2]. rewrite map_app, concat_app in H.
  apply in_app_iff in H as [H|H].
  - destruct (proj2 (pendof_facts t) avail x Hw1 H); [auto|]. right. apply in_app_iff. auto.
  - destruct (IH Hw2 H); [auto|]. right. apply in_app_iff. auto.
Qed.

Lemma arun_injects r inj : forall g rest,
  (forall p, In p inj -> held g p = true) -> arun g (map (CInject r) inj ++ rest) = arun g rest.
Proof.
  induction inj as [|p inj IH]; intros g rest H; simpl; [reflexivity|].
  rewrite (H p (or_introl eq_refl)). apply IH. intros q Hq. apply H. right. exact Hq.
Qed.

(* ---------- the main induction ---------- *)
Definition P_imm (t : tree) : Prop := forall g avail,
  wf avail t = true -> NoDup (ids t) -> fresh_for g (ids t) -> (forall p, In p avail -> held g p = true) ->
  arun g (imm t) = Some {| act := act g; pend := pend g ++ pendof t |}.
Definition P_dfr (t : tree) : Prop := forall g avail,
  wf avail t = true -> NoDup (ids t) -> fresh_for g (inner t) -> (forall e, In e (pendof t) -> In e (pend g)) ->
  arun g (dfr t) = Some {| act := act g; pend := pdrop (map fst (pendof t)) (pend g) |}.
Definition P_imml (ts : list tree) : Prop := forall g avail,
  wfl avail ts = true -> NoDup (idsl ts) -> fresh_for g (idsl ts) -> (forall p, In p avail -> held g p = true) ->
  arun g (imml ts) = Some {| act := act g; pend := pend g ++ pendofl ts |}.
Definition P_dfrl (ts : list tree) : Prop := forall g avail,
  wfl avail ts = true -> NoDup (idsl ts) -> fresh_for g (innerl ts) -> (forall e, In e (pendofl ts) -> In e (pend g)) ->
  arun g (dfrl ts) = Some {| act := act g; pend := pdrop (map fst (pendofl ts)) (pend g) |}.

(* rendering a template and then emptying the queue it filled leaves the machine as it was *)
Lemma run_body body :
  P_imml body -> P_dfrl body ->
  forall g vis, wfl vis body = true -> NoDup (idsl body) -> fresh_for g (idsl body) ->
    (forall p, In p vis -> held g p = true) ->
    arun g (imml body ++ dfrl body) = Some g.
Proof.
  intros HI HD g vis Hw Hnd Hfr Hheld. rewrite arun_app, (HI g vis Hw Hnd Hfr Hheld).
  rewrite (HD _ vis Hw Hnd).
  - simpl. rewrite pdrop_cancel; [apply f_equal, G_eta| |].
    + intros e He. apply in_map. exact He.
    + intros e He Hin. apply pendofl_rids, In_shelll_idsl in Hin. apply (Hfr _ Hin).
      unfold gids. rewrite !in_app_iff. right. left. apply in_map. exact He.
  - intros x Hx Hg. destruct g as [a l]. simpl in Hg. apply gids_pend_app in Hg as [Hg|[Hg|Hg]].
    + apply (Hfr x (In_innerl_idsl _ _ Hx) Hg).
    + apply pendofl_rids in Hg. apply (shelll_innerl_disjoint body x Hnd Hg Hx).
    + destruct (pendofl_vis body vis x Hw Hg) as [Hv|Hs].
      * apply (Hfr x (In_innerl_idsl _ _ Hx)). apply held_gids. apply Hheld. exact Hv.
      * apply (shelll_innerl_disjoint body x Hnd Hs Hx).
  - simpl. intros e He. apply in_app_iff. auto.
Qed.

Lemma case_Prov p body : P_imml body /\ P_dfrl body -> P_imm (Prov p body) /\ P_dfr (Prov p body).
Proof.
intros [HI HD]. split.
+ intros g avail Hw Hnd Hfr Hheld. rewrite imm_Prov, pendof_Prov. rewrite ids_Prov in *. rewrite wf_Prov in Hw.
  inversion Hnd as [|? ? Hpn Hnd']; subst.
  cbn [arun astep]. rewrite (gfresh_of_notin p g) by (apply Hfr; left; reflexivity).
  rewrite arun_app. rewrite (HI {| act := p :: act g; pend := pend g |} (p :: avail) Hw Hnd').
  * cbn [arun astep act pend]. rewrite N.eqb_refl. reflexivity.
  * intros x Hx Hg. unfold gids in Hg. simpl in Hg. destruct Hg as [<-|Hg]; [contradiction|].
    apply (Hfr x (or_intror Hx)). exact Hg.
  * intros q [<-|Hq].
    -- apply held_spec. left. simpl. auto.
    -- apply held_act_cons. rewrite G_eta. apply Hheld. exact Hq.
+ intros g avail Hw Hnd Hfr Hpend. rewrite dfr_Prov, pendof_Prov. rewrite ids_Prov in Hnd. rewrite wf_Prov in Hw.
  inversion Hnd; subst. rewrite inner_Prov in Hfr. rewrite pendof_Prov in Hpend.
  apply (HD g (p :: avail)); assumption.
Qed.

(* the ids a template enters into the root's callback table are ids of the template *)
Lemma regs_in_ids : forall t, (forall x, In x (regs_imm t) -> In x (ids t)) /\ (forall x, In x (regs_dfr t) -> In x (ids t)).
Proof.
  apply (tree_ind2 (fun t => (forall x, In x (regs_imm t) -> In x (ids t)) /\ (forall x, In x (regs_dfr t) -> In x (ids t)))
                   (fun ts => (forall x, In x (regs_imml ts) -> In x (idsl ts)) /\ (forall x, In x (regs_dfrl ts) -> In x (idsl ts)))).
  - intros p body [H1 H2]. rewrite regs_imm_Prov, regs_dfr_Prov, ids_Prov. split; intros x H; right; auto.
  - intros root r vis inj inj2 body [H1 H2]. rewrite ids_Comp. destruct root; simpl; split; intros x H; try contradiction.
    + destruct H as [<-|[]]. auto.
    + right. apply in_app_iff in H as [H|H]; auto.
  - split; intros x [].
  - intros t r [Ht1 Ht2] [Hr1 Hr2]. simpl. split; intros x H; apply in_app_iff in H; apply in_app_iff; destruct H; auto.
Qed.

Lemma premove_absent r l : ~ In r (map fst l) -> premove r l = l.
Proof.
  unfold premove. induction l as [|e l IH]; simpl; intro H; [reflexivity|].
  destruct (N.eqb (fst e) r) eqn:E; simpl.
  - apply N.eqb_eq in E. exfalso. apply H. auto.
  - rewrite IH; [reflexivity|]. intro Hi. apply H. auto.
Qed.

(* the root's final sweep over the ids of its render tree finds nothing left to unregister *)
Lemma arun_purge xs : forall g, (forall x, In x xs -> ~ In x (map fst (pend g))) -> arun g (map CDone xs) = Some g.
Proof.
  induction xs as [|x xs IH]; intros g H; simpl; [reflexivity|].
  rewrite premove_absent by (apply H; left; reflexivity). rewrite G_eta. apply IH.
  intros y Hy. apply H. right. exact Hy.
Qed.

Lemma case_Comp root r vis inj inj2 body :
  P_imml body /\ P_dfrl body -> P_imm (Comp root r vis inj inj2 body) /\ P_dfr (Comp root r vis inj inj2 body).
Proof.
  intros [HI HD].
  (* get_context_data (inject), then registration: the injected ids are kept alive by what encloses the component *)
  assert (Hreg : forall g avail, wf avail (Comp root r vis inj inj2 body) = true -> fresh_for g (r :: idsl body) ->
            (forall p, In p avail -> held g p = true) -> forall rest,
            arun g (map (CInject r) inj ++ CReg r vis :: rest) = arun {| act := act g; pend := pend g ++ [(r, vis)] |} rest).
  { intros g avail Hw Hfr Hheld rest. rewrite wf_Comp in Hw.
    apply andb_true_iff in Hw as [Hw _]. apply andb_true_iff in Hw as [Hw _]. apply andb_true_iff in Hw as [Hw1 Hw2].
    rewrite arun_injects.
    - cbn [arun astep]. rewrite (gfresh_of_notin r g) by (apply Hfr; left; reflexivity).
      assert (Hv : forallb (held g) vis = true).
      { apply forallb_forall. intros q Hq. apply Hheld. apply (proj1 (subset_spec _ _) Hw1). exact Hq. }
      rewrite Hv. reflexivity.
    - intros q Hq. apply Hheld. apply (proj1 (subset_spec _ _) Hw1). apply (proj1 (subset_spec _ _) Hw2). exact Hq. }
  split.
  + intros g avail Hw Hnd Hfr Hheld. rewrite ids_Comp in *. inversion Hnd as [|? ? Hrn Hnd']; subst.
    pose proof Hw as Hw0. rewrite wf_Comp in Hw. apply andb_true_iff in Hw as [Hw Hwb].
    apply andb_true_iff in Hw as [Hw Hw3]. apply andb_true_iff in Hw as [Hw1 Hw2].
    assert (Hvis_g : forall q, In q vis -> In q (gids g)).
    { intros q Hq. apply held_gids, Hheld. apply (proj1 (subset_spec _ _) Hw1). exact Hq. }
    destruct root.
    * (* root component: injects, registers, renders its template and its whole queue, unregisters, sweeps *)
      rewrite imm_root, (Hreg g avail Hw0 Hfr Hheld).
      rewrite arun_injects.
      -- rewrite app_assoc, arun_app.
         rewrite (run_body body HI HD {| act := act g; pend := pend g ++ [(r, vis)] |} vis Hwb Hnd').
         ++ cbn [app arun astep act pend]. rewrite premove_pdrop, pdrop_cancel.
            ** rewrite arun_purge; [simpl; rewrite app_nil_r; reflexivity|]. simpl.
               intros x Hx Hin. apply (Hfr x).
               --- destruct Hx as [<-|Hx]; [left; reflexivity|]. right.
                   apply in_app_iff in Hx as [Hx|Hx].
                   +++ clear -Hx. induction body as [|t ts IH]; [destruct Hx|]. simpl in *. apply in_app_iff in Hx. apply in_app_iff.
                       destruct Hx as [Hx|Hx]; [left; apply (proj1 (regs_in_ids t)); exact Hx | right; apply IH; exact Hx].
                   +++ clear -Hx. induction body as [|t ts IH]; [destruct Hx|]. simpl in *. apply in_app_iff in Hx. apply in_app_iff.
                       destruct Hx as [Hx|Hx]; [left; apply (proj2 (regs_in_ids t)); exact Hx | right; apply IH; exact Hx].
               --- unfold gids. rewrite !in_app_iff. auto.
            ** intros e [<-|[]]. simpl. auto.
            ** intros e He [E|[]]. apply (Hfr r (or_introl eq_refl)). unfold gids. rewrite !in_app_iff.
               right. left. rewrite E. apply in_map. exact He.
         ++ intros x Hx Hg. destruct g as [a l]. simpl in Hg. apply gids_pend_app in Hg as [Hg|[Hg|Hg]].
            ** apply (Hfr x (or_intror Hx) Hg).
            ** simpl in Hg. destruct Hg as [<-|[]]. contradiction.
            ** simpl in Hg. rewrite app_nil_r in Hg. apply (Hfr x (or_intror Hx)). apply Hvis_g. exact Hg.
         ++ intros q Hq. apply (held_by_entry _ r vis); [simpl; apply in_app_iff; simpl; auto | exact Hq].
      -- intros q Hq. apply (held_by_entry _ r vis); [simpl; apply in_app_iff; simpl; auto|].
         apply (proj1 (subset_spec _ _) Hw3). exact Hq.
    * (* nested component: injects and registers only *)
      rewrite imm_nested, (Hreg g avail Hw0 Hfr Hheld). reflexivity.
  + intros g avail Hw Hnd Hfr Hpend. destruct root.
    * rewrite dfr_root. simpl. rewrite pdrop_nil, G_eta. reflexivity.
    * rewrite dfr_nested. rewrite ids_Comp in Hnd. inversion Hnd as [|? ? Hrn Hnd']; subst.
      rewrite wf_Comp in Hw. apply andb_true_iff in Hw as [Hw Hwb]. apply andb_true_iff in Hw as [Hw Hw3].
      assert (Hin : In (r, vis) (pend g)) by (apply Hpend; simpl; auto).
      rewrite arun_injects.
      -- rewrite app_assoc, arun_app.
         rewrite (run_body body HI HD g vis Hwb Hnd').
         ++ cbn [arun astep]. rewrite premove_pdrop. reflexivity.
         ++ exact Hfr.
         ++ intros q Hq. apply (held_by_entry g r vis); assumption.
      -- intros q Hq. apply (held_by_entry g r vis); [exact Hin|]. apply (proj1 (subset_spec _ _) Hw3). exact Hq.
Qed.

Lemma case_nil : P_imml [] /\ P_dfrl [].
Proof.
split.
+ intros g avail _ _ _ _. simpl. rewrite app_nil_r, G_eta. reflexivity.
+ intros g avail _ _ _ _. simpl. rewrite pdrop_nil, G_eta. reflexivity.
Qed.

Lemma case_cons t r : P_imm t /\ P_dfr t -> P_imml r /\ P_dfrl r -> P_imml (t :: r) /\ P_dfrl (t :: r).
Proof.
intros [HIt HDt] [HIr HDr]. split.
+ intros g avail Hw Hnd Hfr Hheld. simpl in *. apply andb_true_iff in Hw as [Hw1 Hw2].
  rewrite arun_app, (HIt g avail Hw1 (NoDup_app_l _ _ Hnd)).
  * rewrite (HIr _ avail Hw2 (NoDup_app_r _ _ Hnd)).
    -- simpl. rewrite app_assoc. reflexivity.
    -- intros x Hx Hg. destruct g as [a l]. simpl in Hg. apply gids_pend_app in Hg as [Hg|[Hg|Hg]].
       ++ apply (Hfr x); [apply in_app_iff; auto | exact Hg].
       ++ apply (proj1 (pendof_facts t)), In_shell_ids in Hg. apply (NoDup_app_disjoint _ _ x Hnd Hg Hx).
       ++ destruct (proj2 (pendof_facts t) avail x Hw1 Hg) as [Hv|Hs].
          ** apply (Hfr x); [apply in_app_iff; auto|]. apply held_gids, Hheld. exact Hv.
          ** apply In_shell_ids in Hs. apply (NoDup_app_disjoint _ _ x Hnd Hs Hx).
    -- intros q Hq. simpl. destruct g as [a l]. apply held_pend_app. apply Hheld. exact Hq.
  * intros x Hx. apply Hfr. apply in_app_iff. auto.
  * exact Hheld.
+ intros g avail Hw Hnd Hfr Hpend. simpl in *. apply andb_true_iff in Hw as [Hw1 Hw2].
  rewrite arun_app, (HDt g avail Hw1 (NoDup_app_l _ _ Hnd)).
  * rewrite (HDr _ avail Hw2 (NoDup_app_r _ _ Hnd)).
    -- simpl. rewrite pdrop_pdrop, map_app. reflexivity.
    -- intros x Hx Hg. destruct g as [a l]. simpl in Hg. apply gids_pdrop in Hg.
       apply (Hfr x); [apply in_app_iff; auto | exact Hg].
    -- intros e He. simpl. unfold pdrop. apply filter_In. split; [apply Hpend; apply in_app_iff; auto|].
       apply negb_true_iff, nmem_false. intro Hin.
       apply (proj1 (pendof_facts t)), In_shell_ids in Hin.
       assert (Hr : In (fst e) (idsl r)) by (apply In_shelll_idsl, pendofl_rids, in_map; exact He).
       apply (NoDup_app_disjoint _ _ _ Hnd Hin Hr).
  * intros x Hx. apply Hfr. apply in_app_iff. auto.
  * intros e He. apply Hpend. apply in_app_iff. auto.
Qed.

Lemma tree_main : forall t, P_imm t /\ P_dfr t.
Proof.
  exact (tree_ind2 (fun t => P_imm t /\ P_dfr t) (fun ts => P_imml ts /\ P_dfrl ts) case_Prov case_Comp case_nil case_cons).
Qed.

Lemma tree_list_main : forall ts, P_imml ts /\ P_dfrl ts.
Proof.
  exact (tree_list_ind2 (fun t => P_imm t /\ P_dfr t) (fun ts => P_imml ts /\ P_dfrl ts) case_Prov case_Comp case_nil case_cons).
Qed.

(* ================================================================================================ *)
(* The theorems about the tables                                                                    *)
(* ================================================================================================ *)
Definition g0 : G := {| act := []; pend := [] |}.

Lemma nodupb_spec l : nodupb l = true -> NoDup l.
Proof.
  induction l as [|x l IH]; simpl; intro H; [constructor|].
  apply andb_true_iff in H as [H1 H2]. apply negb_true_iff, nmem_false in H1. constructor; auto.
Qed.

Lemma arun_trace_of page : wf_page page = true -> arun g0 (trace_of page) = Some g0.
Proof.
  intro H. unfold wf_page in H. apply andb_true_iff in H as [Hw Hn]. apply nodupb_spec in Hn.
  destruct (tree_list_main page) as [HI HD]. unfold trace_of.
  apply (run_body page HI HD g0 [] Hw Hn).
  - intros x _ [].
  - intros p [].
Qed.

Lemma Gwf_g0 : Gwf g0.
Proof. constructor. Qed.

(* every prefix of the trace runs on the tables without a KeyError, and the tables stay abstracted by the machine *)
Lemma prefix_runs page pre post :
  wf_page page = true -> trace_of page = pre ++ post ->
  exists g s, arun g0 pre = Some g /\ run true empty_state pre = Some s /\ Abs g s /\ Gwf g /\
              arun g post = Some g0.
Proof.
  intros Hw He. pose proof (arun_trace_of page Hw) as Hr. rewrite He, arun_app in Hr.
  destruct (arun g0 pre) as [g|] eqn:Ep; [|discriminate].
  destruct (sim_run pre g0 empty_state g abs_empty Gwf_g0 Ep) as [s [Hs [HA HW]]].
  exists g, s. auto.
Qed.

Lemma abs_g0_empty s : Abs g0 s -> s = empty_state.
Proof.
  intro HA. destruct s as [c r a f].
  assert (Hnr : forall p h, ~ Rf {| cache := c; refs := r; allr := a; frames := f |} p h).
  { intros p h H. apply (abs_refs _ _ HA) in H as [[_ []]|[vis [[] _]]]. }
  assert (c = []).
  { destruct c as [|x c]; [reflexivity|]. exfalso.
    destruct (proj1 (abs_cache _ _ HA x) (or_introl eq_refl)) as [h H]. apply (Hnr x h H). }
  assert (r = []).
  { destruct r as [|[k l] r]; [reflexivity|]. exfalso.
    assert (Hl : alookup k (refs {| cache := c; refs := (k, l) :: r; allr := a; frames := f |}) = Some l)
      by (simpl; rewrite N.eqb_refl; reflexivity).
    pose proof (abs_nonempty _ _ HA k l Hl) as Hne. destruct l as [|h l]; [apply Hne; reflexivity|].
    apply (Hnr k h). exists (h :: l). split; [exact Hl | left; reflexivity]. }
  assert (a = []).
  { destruct a as [|x a]; [reflexivity|]. exfalso. apply (abs_all_pend _ _ HA x). left. reflexivity. }
  assert (f = []).
  { pose proof (abs_frames _ _ HA) as H2. simpl in H2. destruct f; [reflexivity | discriminate]. }
  subst. reflexivity.
Qed.

(* after the trace of any well-formed tree all tables (and the stack of context-manager frames) are empty,
   and no table operation raised on the way *)
Lemma tables_empty_lemma page : wf_page page = true -> run true empty_state (trace_of page) = Some empty_state.
Proof.
  intro Hw. destruct (prefix_runs page (trace_of page) [] Hw (eq_sym (app_nil_r _))) as [g [s [Hg [Hs [HA [_ Hp]]]]]].
  simpl in Hp. inversion Hp; subst g. rewrite Hs. f_equal. apply abs_g0_empty. exact HA.
Qed.

(* whenever inject() dereferences a provide id, the entry is in provide_cache *)
Lemma live_at_inject_lemma page pre r p post :
  wf_page page = true -> trace_of page = pre ++ CInject r p :: post ->
  exists s, run true empty_state pre = Some s /\ In p (cache s).
Proof.
  intros Hw He. destruct (prefix_runs page pre _ Hw He) as [g [s [_ [Hs [HA [_ Hp]]]]]].
  exists s. split; [exact Hs|]. simpl in Hp. destruct (held g p) eqn:Eh; [|discriminate].
  apply (held_live g s p HA Eh).
Qed.

(* ... and the same at registration: every provide id a component's context carries is alive when it registers
   (so register never resurrects a deleted entry's reference set) *)
Lemma live_at_register_lemma page pre r vis post :
  wf_page page = true -> trace_of page = pre ++ CReg r vis :: post ->
  exists s, run true empty_state pre = Some s /\ forall p, In p vis -> In p (cache s).
Proof.
  intros Hw He. destruct (prefix_runs page pre _ Hw He) as [g [s [_ [Hs [HA [_ Hp]]]]]].
  exists s. split; [exact Hs|]. simpl in Hp. destruct (gfresh r g && forallb (held g) vis) eqn:Eh; [|discriminate].
  apply andb_true_iff in Eh as [_ Eh]. intros p Hp'. apply (held_live g s p HA).
  apply (proj1 (forallb_forall _ _) Eh). exact Hp'.
Qed.

(* at every point of the trace: the entry is present exactly while its reference set has a member, and the members
   are exactly the provider itself while its body renders and the registered, unfinished components that carry the id *)
Lemma entry_iff_referenced_lemma page pre post :
  wf_page page = true -> trace_of page = pre ++ post ->
  exists s, run true empty_state pre = Some s /\
    (forall p, In p (cache s) <-> exists h l, alookup p (refs s) = Some l /\ In h l) /\
    (forall p l, alookup p (refs s) = Some l -> l <> []).
Proof.
  intros Hw He. destruct (prefix_runs page pre post Hw He) as [g [s [_ [Hs [HA _]]]]].
  exists s. split; [exact Hs|]. split.
  - intro p. rewrite (abs_cache _ _ HA). unfold Rf. split; intros [h H]; [exists h; exact H | destruct H as [l H]; exists h, l; exact H].
  - exact (abs_nonempty _ _ HA).
Qed.

(* deletion happens at the step that removes the last reference, and only then *)
Lemma deleted_when_last_reference_goes_lemma page pre e post p :
  wf_page page = true -> trace_of page = pre ++ e :: post ->
  exists s s', run true empty_state pre = Some s /\ step true s e = Some s' /\
    (In p (cache s) -> ~ In p (cache s') ->
       (exists h l, alookup p (refs s) = Some l /\ In h l) /\ alookup p (refs s') = None) /\
    (In p (cache s) -> alookup p (refs s') <> None -> In p (cache s')).
Proof.
  intros Hw He.
  destruct (entry_iff_referenced_lemma page pre (e :: post) Hw He) as [s [Hs [Hc Hn]]].
  assert (He' : trace_of page = (pre ++ [e]) ++ post) by (rewrite <- app_assoc; exact He).
  destruct (entry_iff_referenced_lemma page (pre ++ [e]) post Hw He') as [s' [Hs' [Hc' Hn']]].
  rewrite run_app, Hs in Hs'. simpl in Hs'. destruct (step true s e) as [s1|] eqn:Est; [|discriminate].
  inversion Hs'; subst s1. exists s, s'. split; [exact Hs|]. split; [exact Est|]. split.
  - intros Hin Hout. split; [apply Hc; exact Hin|].
    destruct (alookup p (refs s')) as [l|] eqn:El; [|reflexivity]. exfalso. apply Hout. apply Hc'.
    destruct l as [|h l]; [exfalso; apply (Hn' p [] El); reflexivity|]. exists h, (h :: l). split; [first [exact El | reflexivity] | left; reflexivity].
  - intros _ Hl. apply Hc'. destruct (alookup p (refs s')) as [l|] eqn:El; [|contradiction].
    destruct l as [|h l]; [exfalso; apply (Hn' p [] El); reflexivity|]. exists h, (h :: l). split; [first [exact El | reflexivity] | left; reflexivity].
Qed.

(* ---------- the protocol before fix 9b964de (no self reference) violates liveness ---------- *)
Definition two_root_siblings : list tree := [Prov 1 [Comp true 2 [1] [1] [] []; Comp true 3 [1] [1] [] []]]%N.

Lemma liveness_without_self_reference_refuted_lemma :
  exists page pre r p post s,
    wf_page page = true /\ trace_of page = pre ++ CInject r p :: post /\
    run false empty_state pre = Some s /\ ~ In p (cache s).
Proof.
  exists two_root_siblings, [PEnter 1; CInject 2 1; CReg 2 [1]; CDone 2; CDone 2]%N, 3%N, 1%N, [CReg 3 [1]; CDone 3; CDone 3; PExit 1]%N.
  eexists. split; [vm_compute; reflexivity|]. split; [vm_compute; reflexivity|].
  split; [vm_compute; reflexivity|]. simpl. intros [].
Qed.
