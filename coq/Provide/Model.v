(* M-model of /repo/src/django_components/perfutil/provide.py as it is after /repo 9b964de (the provider holds a reference
   to its own entry while its body renders), driven by the event alphabet of DESIGN Appendix B in the order the deferred
   renderer produces after /repo 51f6eaa (component.py: get_context_data/inject FIRST, then register_provide_reference;
   the root finally unregisters every id of its render tree once more).  Definitions only.

     provide_cache        : Dict[str, NamedTuple]   -> cache : list N           (only the key set matters here)
     provide_references   : Dict[str, Set[str]]     -> refs  : list (N * list N)  (association list, insertion order)
     all_reference_ids    : Set[str]                -> allr  : list N
     all_reference_ids_before (local of the context manager managed_provide_cache, one per active provider)
                                                    -> frames : list (N * list N), newest first

   A Python KeyError raised by the table code itself (dict.pop / dict[...] on a missing key) is the result `None`.
   Ids are N (the harness numbers the 6-character ids).  `selfref` = false gives the protocol before 9b964de. *)
From DJC Require Import Lib.Base.

(* ---------- sets as lists ---------- *)
Definition nmem (x : N) (l : list N) : bool := existsb (N.eqb x) l.
Definition sadd (x : N) (l : list N) : list N := if nmem x l then l else l ++ [x].
Definition srem (x : N) (l : list N) : list N := filter (fun y => negb (N.eqb y x)) l.
Definition sdiff (a b : list N) : list N := filter (fun y => negb (nmem y b)) a.

(* dict[k] = v : replaces in place or appends (insertion order kept, as list(d.keys()) shows it) *)
Fixpoint aset {V} (k : N) (v : V) (l : list (N * V)) : list (N * V) :=
  match l with
  | [] => [(k, v)]
  | (k', v') :: r => if N.eqb k k' then (k, v) :: r else (k', v') :: aset k v r
  end.

Record state := {
  cache : list N;
  refs : list (N * list N);
  allr : list N;
  frames : list (N * list N)
}.

Definition empty_state : state := {| cache := []; refs := []; allr := []; frames := [] |}.

Definition set_cache (c : list N) (s : state) : state := {| cache := c; refs := refs s; allr := allr s; frames := frames s |}.
Definition set_refs (r : list (N * list N)) (s : state) : state := {| cache := cache s; refs := r; allr := allr s; frames := frames s |}.
Definition set_allr (a : list N) (s : state) : state := {| cache := cache s; refs := refs s; allr := a; frames := frames s |}.
Definition set_frames (f : list (N * list N)) (s : state) : state := {| cache := cache s; refs := refs s; allr := allr s; frames := f |}.

(* ---------- unregister_provide_reference(reference_id) ---------- *)
(*   for provide_id in list(provide_references.keys()):
         if reference_id not in provide_references[provide_id]: continue
         provide_references[provide_id].remove(reference_id)
         if not provide_references[provide_id]:
             provide_cache.pop(provide_id); provide_references.pop(provide_id)                      *)
Fixpoint unreg_loop (keys : list N) (r : N) (s : state) : option state :=
  match keys with
  | [] => Some s
  | p :: ks =>
      match alookup p (refs s) with
      | None => None                                             (* provide_references[provide_id] : KeyError *)
      | Some l =>
          if nmem r l then
            let l' := srem r l in
            let s1 := set_refs (aset p l' (refs s)) s in
            match l' with
            | [] => if nmem p (cache s1)
                    then unreg_loop ks r (set_refs (aremove p (refs s1)) (set_cache (srem p (cache s1)) s1))
                    else None                                    (* provide_cache.pop(provide_id) : KeyError *)
            | _ :: _ => unreg_loop ks r s1
            end
          else unreg_loop ks r s
      end
  end.

Definition unregister (r : N) (s : state) : option state :=
  if nmem r (allr s)
  then let s1 := set_allr (srem r (allr s)) s in unreg_loop (map fst (refs s1)) r s1
  else Some s.                                                   (* not registered: nothing to do *)

(* ---------- register_provide_reference(context, reference_id) ---------- *)
(* vis = the provide ids stored under the _DJC_INJECT__* keys of context.flatten() *)
Definition add_ref (r : N) (s : state) (p : N) : state :=
  let l := match alookup p (refs s) with Some l => l | None => [] end in
  set_refs (aset p (sadd r l) (refs s)) s.

Definition register (r : N) (vis : list N) (s : state) : state :=
  match cache s with
  | [] => s                                                      (* if not provide_cache: return *)
  | _ :: _ => fold_left (add_ref r) vis (set_allr (sadd r (allr s)) s)
  end.

(* ---------- managed_provide_cache(provide_id) ---------- *)
Definition cache_cleanup (selfref : bool) (p : N) (s : state) : option state :=
  let s1 := if selfref
            then match alookup p (refs s) with
                 | Some l => set_refs (aset p (srem p l) (refs s)) s   (* provide_references[provide_id].discard(provide_id) *)
                 | None => s
                 end
            else s in
  match alookup p (refs s1) with
  | Some [] =>                                                   (* in provide_references and empty *)
      if nmem p (cache s1)
      then Some (set_cache (srem p (cache s1)) (set_refs (aremove p (refs s1)) s1))
      else None                                                  (* provide_cache.pop : KeyError *)
  | Some (_ :: _) => Some s1
  | None => Some (set_cache (srem p (cache s1)) s1)              (* elif not referenced and (still) in provide_cache: pop *)
  end.

(* ProvideNode.render up to the `yield`: set_provided_context_var stores the payload, then the context manager is entered *)
Definition provide_enter (selfref : bool) (p : N) (s : state) : state :=
  let s0 := set_cache (sadd p (cache s)) s in                    (* provide_cache[provide_id] = payload *)
  let s1 := set_frames ((p, allr s0) :: frames s0) s0 in         (* all_reference_ids_before = all_reference_ids.copy() *)
  if selfref then add_ref p s1 p                                 (* provide_references.setdefault(provide_id, set()).add(provide_id) *)
  else s1.

Definition pop_frame (p : N) (s : state) : option (list N * state) :=
  match frames s with
  | (p', before) :: fs => if N.eqb p p' then Some (before, set_frames fs s) else None
  | [] => None
  end.

(* normal exit of the with-block *)
Definition provide_exit (selfref : bool) (p : N) (s : state) : option state :=
  match pop_frame p s with
  | Some (_, s1) => cache_cleanup selfref p s1
  | None => None
  end.

(* the except-branch: unregister every reference id added since entry, then clean up *)
Fixpoint unregister_all (ids : list N) (s : state) : option state :=
  match ids with
  | [] => Some s
  | r :: rs => match unregister r s with Some s1 => unregister_all rs s1 | None => None end
  end.

Definition provide_fail (selfref : bool) (p : N) (s : state) : option state :=
  match pop_frame p s with
  | Some (before, s1) =>
      match unregister_all (sdiff (allr s1) before) s1 with
      | Some s2 => cache_cleanup selfref p s2
      | None => None
      end
  | None => None
  end.

(* ---------- events ---------- *)
Inductive event :=
| PEnter (p : N)                    (* {% provide %}: payload stored, context manager entered *)
| PExit (p : N)                     (* body rendered, with-block left normally *)
| PFail (p : N)                     (* body raised: except-branch *)
| CReg (r : N) (vis : list N)       (* Component._render_impl: register_provide_reference(context, render_id) *)
| CInject (r p : N)                 (* inject() found key -> provide_cache[p] *)
| CDone (r : N)                     (* on_component_rendered: unregister_provide_reference(render_id) *)
| CFail (r : N).                    (* the component raised; no table operation of its own *)

Definition step (selfref : bool) (s : state) (e : event) : option state :=
  match e with
  | PEnter p => Some (provide_enter selfref p s)
  | PExit p => provide_exit selfref p s
  | PFail p => provide_fail selfref p s
  | CReg r vis => Some (register r vis s)
  | CInject r p => if nmem p (cache s) then Some s else None    (* provide_cache[cache_key] : KeyError when deleted *)
  | CDone r => unregister r s
  | CFail r => Some s
  end.

Fixpoint run (selfref : bool) (s : state) (es : list event) : option state :=
  match es with
  | [] => Some s
  | e :: r => match step selfref s e with Some s1 => run selfref s1 r | None => None end
  end.

(* ---------- render trees and the deferred schedule ---------- *)
(* The rendered structure, as far as the tables are concerned.
   Prov p body                 : a {% provide %} block with id p
   Comp root r vis inj inj2 b  : a component render with id r; `root` = no parent component in its context (its queue is
                                 processed at once, inside whatever is being rendered); vis = provide ids in its context;
                                 inj = ids it injects in get_context_data (BEFORE it registers, /repo 51f6eaa);
                                 inj2 = ids it injects when its template is rendered (on_render_before);
                                 b = what its template renders (fill content rendered at its slots included) *)
Inductive tree :=
| Prov (p : N) (body : list tree)
| Comp (root : bool) (r : N) (vis inj inj2 : list N) (body : list tree).

(* imm t : events while the template containing t is being rendered.
   dfr t : events produced later, when the post-render queue reaches the nested components t left behind
           (placeholders are processed in order, depth first).
   regs_imm / regs_dfr : the ids entered into the root's post_render_callbacks by those two phases, in order.
   A component runs get_context_data (inject), then registers, when its tag is reached; a nested one returns a
   placeholder and its template is rendered from the queue.  A root component runs its whole queue on the spot and then
   (in a finally) unregisters every id of its render tree once more - a no-op after a clean render. *)
Fixpoint regs_imm (t : tree) : list N :=
  let regs_imml := fix regs_imml (ts : list tree) : list N := match ts with [] => [] | t :: r => regs_imm t ++ regs_imml r end in
  match t with
  | Prov p body => regs_imml body
  | Comp true _ _ _ _ _ => []                     (* a root keeps its own table of callbacks *)
  | Comp false r _ _ _ _ => [r]
  end.
Fixpoint regs_imml (ts : list tree) : list N := match ts with [] => [] | t :: r => regs_imm t ++ regs_imml r end.

Fixpoint regs_dfr (t : tree) : list N :=
  let regs_dfrl := fix regs_dfrl (ts : list tree) : list N := match ts with [] => [] | t :: r => regs_dfr t ++ regs_dfrl r end in
  match t with
  | Prov p body => regs_dfrl body
  | Comp true _ _ _ _ _ => []
  | Comp false _ _ _ _ body => regs_imml body ++ regs_dfrl body
  end.
Fixpoint regs_dfrl (ts : list tree) : list N := match ts with [] => [] | t :: r => regs_dfr t ++ regs_dfrl r end.

Fixpoint imm (t : tree) : list event :=
  let imml := fix imml (ts : list tree) : list event := match ts with [] => [] | t :: r => imm t ++ imml r end in
  let dfrl := fix dfrl (ts : list tree) : list event := match ts with [] => [] | t :: r => dfr t ++ dfrl r end in
  match t with
  | Prov p body => PEnter p :: imml body ++ [PExit p]
  | Comp true r vis inj inj2 body =>
      map (CInject r) inj ++ CReg r vis :: map (CInject r) inj2 ++ imml body ++ dfrl body ++ [CDone r]
      ++ map CDone (r :: regs_imml body ++ regs_dfrl body)
  | Comp false r vis inj inj2 body => map (CInject r) inj ++ [CReg r vis]
  end
with dfr (t : tree) : list event :=
  let imml := fix imml (ts : list tree) : list event := match ts with [] => [] | t :: r => imm t ++ imml r end in
  let dfrl := fix dfrl (ts : list tree) : list event := match ts with [] => [] | t :: r => dfr t ++ dfrl r end in
  match t with
  | Prov p body => dfrl body
  | Comp true r vis inj inj2 body => []
  | Comp false r vis inj inj2 body => map (CInject r) inj2 ++ imml body ++ dfrl body ++ [CDone r]
  end.

Fixpoint imml (ts : list tree) : list event := match ts with [] => [] | t :: r => imm t ++ imml r end.
Fixpoint dfrl (ts : list tree) : list event := match ts with [] => [] | t :: r => dfr t ++ dfrl r end.

(* a page = the top-level template. Through Template.render every top-level component is a root; trace_of is defined
   for every tree nevertheless (what the page leaves in the queue is processed after it) *)
Definition trace_of (page : list tree) : list event := imml page ++ dfrl page.

(* ---------- well-formed trees ---------- *)
Fixpoint ids (t : tree) : list N :=
  let idsl := fix idsl (ts : list tree) : list N := match ts with [] => [] | t :: r => ids t ++ idsl r end in
  match t with
  | Prov p body => p :: idsl body
  | Comp _ r _ _ _ body => r :: idsl body
  end.
Fixpoint idsl (ts : list tree) : list N := match ts with [] => [] | t :: r => ids t ++ idsl r end.

Definition subset (a b : list N) : bool := forallb (fun x => nmem x b) a.

(* avail = provide ids a context at this place can carry: those of the enclosing provide blocks up to the enclosing
   component, plus what that component's own context carried *)
Fixpoint wf (avail : list N) (t : tree) : bool :=
  let wfl := fix wfl (avail : list N) (ts : list tree) : bool := match ts with [] => true | t :: r => wf avail t && wfl avail r end in
  match t with
  | Prov p body => wfl (p :: avail) body
  | Comp _ r vis inj inj2 body => subset vis avail && subset inj vis && subset inj2 vis && wfl vis body
  end.
Fixpoint wfl (avail : list N) (ts : list tree) : bool := match ts with [] => true | t :: r => wf avail t && wfl avail r end.

Fixpoint nodupb (l : list N) : bool := match l with [] => true | x :: r => negb (nmem x r) && nodupb r end.

Definition wf_page (page : list tree) : bool := wfl [] page && nodupb (idsl page).

(* ---------- correspondence cases ---------- *)
(* tables compared as sets (Python sets / dict key order are not observable) *)
Definition set_eqb (a b : list N) : bool := subset a b && subset b a.
Definition refs_eqb (a b : list (N * list N)) : bool :=
  forallb (fun kv => match alookup (fst kv) b with Some l => set_eqb (snd kv) l | None => false end) a &&
  forallb (fun kv => match alookup (fst kv) a with Some l => set_eqb (snd kv) l | None => false end) b.

Definition tables := (list N * list (N * list N) * list N)%type.
Definition tables_eqb (s : state) (t : tables) : bool :=
  let '(c, r, a) := t in set_eqb (cache s) c && refs_eqb (refs s) r && set_eqb (allr s) a.

Definition of_tables (t : tables) : state :=
  let '(c, r, a) := t in {| cache := c; refs := r; allr := a; frames := [] |}.

(* a recorded render: tables before, then every event with the tables observed after it; None = the table code raised.
   Result: the model's final state, or None at the first difference *)
Fixpoint replay (s : state) (evs : list (event * option tables)) : option state :=
  match evs with
  | [] => Some s
  | (e, obs) :: r =>
      match step true s e, obs with
      | Some s1, Some t => if tables_eqb s1 t then replay s1 r else None
      | None, None => Some s                 (* both raise: the render ends here *)
      | _, _ => None
      end
  end.

Definition event_eqb (a b : event) : bool :=
  match a, b with
  | PEnter p, PEnter q | PExit p, PExit q | PFail p, PFail q | CDone p, CDone q | CFail p, CFail q => N.eqb p q
  | CReg r v, CReg r' v' => N.eqb r r' && set_eqb v v'
  | CInject r p, CInject r' p' => N.eqb r r' && N.eqb p p'
  | _, _ => false
  end.

Record trace_case := {
  tc_init : tables;
  tc_events : list (event * option tables);
  tc_tree : option (list tree);       (* Some: the render succeeded; the recorded structure *)
  tc_clean : bool                     (* the render succeeded starting from empty tables: they must be empty afterwards *)
}.

Definition check_trace (c : trace_case) : bool :=
  match replay (of_tables (tc_init c)) (tc_events c) with
  | None => false
  | Some s =>
      match tc_tree c with
      | Some page =>
          (* the hypotheses of the theorems hold for the recorded structure, and the deferred schedule is the recorded order *)
          wf_page page && list_eqb event_eqb (trace_of page) (map fst (tc_events c))
      | None => true
      end &&
      (if tc_clean c then match cache s, refs s, allr s with [], [], [] => true | _, _, _ => false end else true)
  end.
