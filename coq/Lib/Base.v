(* Shared basics for all models: symbols, strings as lists of code points,
   association lists, the result type, and the case-comparison helpers used by the
   correspondence check (cases are evaluated inside Coq with vm_compute). *)
From Coq Require Export List Bool NArith ZArith Arith Lia.
From Coq Require String Ascii.
Export ListNotations.

(* ---------- symbols and strings ---------- *)
Definition sym := N.
Definition str := list N.

Definition s2n (s : String.string) : str :=
  List.map Ascii.N_of_ascii (String.list_ascii_of_string s).

Fixpoint str_eqb (a b : str) : bool :=
  match a, b with
  | [], [] => true
  | x :: a', y :: b' => N.eqb x y && str_eqb a' b'
  | _, _ => false
  end.

Lemma str_eqb_eq a b : str_eqb a b = true <-> a = b.
Proof.
  revert b; induction a as [|x a IH]; intros [|y b]; simpl; split; intro H;
    try reflexivity; try discriminate.
  - apply andb_true_iff in H as [H1 H2]. apply N.eqb_eq in H1. apply IH in H2. congruence.
  - inversion H; subst. rewrite N.eqb_refl. simpl. apply IH. reflexivity.
Qed.

Lemma str_eqb_refl a : str_eqb a a = true.
Proof. apply str_eqb_eq. reflexivity. Qed.

(* ---------- generic list equality given an element equality ---------- *)
Fixpoint list_eqb {A} (eqb : A -> A -> bool) (a b : list A) : bool :=
  match a, b with
  | [], [] => true
  | x :: a', y :: b' => eqb x y && list_eqb eqb a' b'
  | _, _ => false
  end.

Definition option_eqb {A} (eqb : A -> A -> bool) (a b : option A) : bool :=
  match a, b with
  | None, None => true
  | Some x, Some y => eqb x y
  | _, _ => false
  end.

Definition pair_eqb {A B} (ea : A -> A -> bool) (eb : B -> B -> bool) (a b : A * B) : bool :=
  ea (fst a) (fst b) && eb (snd a) (snd b).

(* ---------- correspondence helper: indices of failing cases ---------- *)
Fixpoint bad_indices_from {A} (f : A -> bool) (l : list A) (i : N) : list N :=
  match l with
  | [] => []
  | x :: r => if f x then bad_indices_from f r (N.succ i)
              else i :: bad_indices_from f r (N.succ i)
  end.
Definition bad_indices {A} (f : A -> bool) (l : list A) : list N := bad_indices_from f l 0%N.

(* ---------- association lists over N keys ---------- *)
Section Assoc.
  Context {V : Type}.
  Fixpoint alookup (k : N) (l : list (N * V)) : option V :=
    match l with
    | [] => None
    | (k', v) :: r => if N.eqb k k' then Some v else alookup k r
    end.
  Fixpoint aremove (k : N) (l : list (N * V)) : list (N * V) :=
    match l with
    | [] => []
    | (k', v) :: r => if N.eqb k k' then aremove k r else (k', v) :: aremove k r
    end.
  Definition amem (k : N) (l : list (N * V)) : bool :=
    match alookup k l with Some _ => true | None => false end.
End Assoc.

(* ---------- string helpers over str ---------- *)
Fixpoint starts_with (p s : str) : bool :=
  match p, s with
  | [], _ => true
  | x :: p', y :: s' => N.eqb x y && starts_with p' s'
  | _ :: _, [] => false
  end.

Fixpoint ends_with_aux (p s : str) (n : nat) : bool :=
  (* n = length s - length p when s at least as long *)
  match n with
  | O => str_eqb p s
  | S n' => match s with [] => false | _ :: s' => ends_with_aux p s' n' end
  end.
Definition ends_with (p s : str) : bool :=
  if Nat.leb (length p) (length s) then ends_with_aux p s (length s - length p) else false.

Fixpoint contains (p s : str) : bool :=
  starts_with p s || match s with [] => false | _ :: s' => contains p s' end.

Fixpoint count_sym (c : N) (s : str) : N :=
  match s with
  | [] => 0%N
  | x :: r => ((if N.eqb x c then 1 else 0) + count_sym c r)%N
  end.
