(* Lemmas about the finder model (property C17). *)
From Coq Require Import String.
From DJC Require Import Lib.Base Finder.Model.
From DJC Require Gen.C17.

(* ================================================================================================ *)
(* 1. literal suffixes                                                                              *)
(* ================================================================================================ *)
Definition ends_lit (s name : str) : Prop := exists pre, name = pre ++ s.

Lemma ends_with_aux_spec p : forall n s,
  ends_with_aux p s n = true <-> exists pre, length pre = n /\ s = pre ++ p.
Proof.
  induction n as [|n IH]; intros s.
  - assert (E : ends_with_aux p s 0 = str_eqb p s) by (destruct s; reflexivity).
    rewrite E, str_eqb_eq. split.
    + intros ->. exists []. auto.
    + intros [pre [Hl ->]]. destruct pre; [reflexivity | discriminate].
  - destruct s as [|x s]; cbn [ends_with_aux].
    + split; [discriminate|]. intros [pre [Hl He]]. destruct pre; discriminate.
    + rewrite IH. split.
      * intros [pre [Hl ->]]. exists (x :: pre). simpl. auto.
      * intros [pre [Hl He]]. destruct pre as [|y pre]; [discriminate|].
        simpl in *. inversion He; subst. exists pre. auto.
Qed.

Lemma ends_with_spec p s : ends_with p s = true <-> ends_lit p s.
Proof.
  unfold ends_with, ends_lit. destruct (Nat.leb_spec (length p) (length s)) as [Hle|Hlt].
  - rewrite ends_with_aux_spec. split.
    + intros [pre [_ ->]]. eauto.
    + intros [pre ->]. exists pre. split; [|reflexivity]. rewrite app_length. lia.
  - split; [discriminate|]. intros [pre ->]. rewrite app_length in Hlt. lia.
Qed.

Lemma strip_nl_spec name pre : strip_nl name = Some pre <-> name = pre ++ [NL].
Proof.
  unfold strip_nl. split.
  - destruct (rev name) as [|x r] eqn:E; [discriminate|].
    destruct (N.eqb_spec x NL); [|discriminate]. intros [= <-]. subst x.
    rewrite <- (rev_involutive name), E. reflexivity.
  - intros ->. rewrite rev_app_distr. simpl. rewrite rev_involutive. reflexivity.
Qed.

Lemma suffix_match_spec s name :
  suffix_match s name = true <-> ends_lit s name \/ ends_lit (s ++ [NL]) name.
Proof.
  unfold suffix_match. rewrite orb_true_iff, ends_with_spec. split.
  - intros [H|H]; [left; exact H|]. right.
    destruct (strip_nl name) as [pre|] eqn:E; [|discriminate].
    apply strip_nl_spec in E. apply ends_with_spec in H. destruct H as [pre' ->].
    exists pre'. rewrite E, app_assoc. reflexivity.
  - intros [H|[pre H]]; [left; exact H|]. right.
    assert (E : strip_nl name = Some (pre ++ s)) by (apply strip_nl_spec; rewrite H, app_assoc; reflexivity).
    rewrite E. apply ends_with_spec. exists pre. reflexivity.
Qed.

(* what a pattern means *)
Definition pat_holds (p : pat) (name : str) : Prop :=
  match p with
  | Suffix s => ends_lit s name \/ ends_lit (s ++ [NL]) name
  | Compiled m => m name = true
  end.

Lemma pat_match_spec p name : pat_match p name = true <-> pat_holds p name.
Proof. destruct p; simpl; [apply suffix_match_spec | tauto]. Qed.

(* the property's predicate on a name *)
Definition exposable (c : config) (name : str) : Prop :=
  (exists p, In p (eff_allowed c) /\ pat_holds p name) /\
  (forall p, In p (eff_forbidden c) -> ~ pat_holds p name).

Lemma is_path_valid_spec c name : is_path_valid c name = true <-> exposable c name.
Proof.
  unfold is_path_valid, exposable. rewrite andb_true_iff, existsb_exists, forallb_forall.
  split; intros [Ha Hf]; split.
  - destruct Ha as [p [Hi Hm]]. exists p. split; [exact Hi|]. apply pat_match_spec. exact Hm.
  - intros p Hi Hh. apply pat_match_spec in Hh. specialize (Hf p Hi). rewrite Hh in Hf. discriminate.
  - destruct Ha as [p [Hi Hm]]. exists p. split; [exact Hi|]. apply pat_match_spec. exact Hm.
  - intros p Hi. destruct (pat_match p name) eqn:E; [|reflexivity].
    exfalso. apply (Hf p Hi). apply pat_match_spec. exact E.
Qed.

(* the suffix -> regex conversion of the current source is the one the model was written for *)
Example suffix_regex_anchor : Gen.C17.suffix_regex_probe = s2n "\.a\$b$"%string.
Proof. reflexivity. Qed.

(* the generator of Gen/C17.v found the shapes it expects in the current source (defaults are lists of suffix strings) *)
Example generator_anchor : Gen.C17.generator_error = [].
Proof. reflexivity. Qed.

(* list() *)
Lemma list_spec c t f : In f (finder_list c t) <-> In f (files t) /\ exposable c f.
Proof. unfold finder_list. rewrite filter_In, is_path_valid_spec. tauto. Qed.

(* ================================================================================================ *)
(* 2. path arithmetic                                                                               *)
(* ================================================================================================ *)
Definition slashfree (g : str) : Prop := ~ In SLASH g.
Definition clean_seg (g : str) : Prop := g <> [] /\ g <> DOT /\ g <> DOTDOT /\ ~ In SLASH g.

(* "/s1/s2/.../sn" *)
Definition below (segs : list str) : str := concat (map (cons SLASH) segs).

(* a normalised absolute path with k = 1 or 2 leading slashes *)
Definition render (k : nat) (stack : list str) : str :=
  repeat SLASH (k - 1) ++ match stack with [] => [SLASH] | _ :: _ => below stack end.

(* what relpath gives for a path that lies `segs` below the start *)
Definition relname (segs : list str) : str :=
  match segs with [] => DOT | _ :: _ => join_with SLASH segs end.

Lemma str_eqb_neq a b : str_eqb a b = false <-> a <> b.
Proof.
  split.
  - intros H E. apply str_eqb_eq in E. congruence.
  - intros H. destruct (str_eqb a b) eqn:E; [|reflexivity]. apply str_eqb_eq in E. contradiction.
Qed.

Lemma starts_with_spec p : forall s, starts_with p s = true <-> exists rest, s = p ++ rest.
Proof.
  induction p as [|x p IH]; intros s; simpl.
  - split; [eauto | reflexivity].
  - destruct s as [|y s].
    + split; [discriminate|]. intros [rest H]. discriminate.
    + rewrite andb_true_iff, N.eqb_eq, IH. split.
      * intros [-> [rest ->]]. eauto.
      * intros [rest H]. inversion H; subst. eauto.
Qed.

Lemma below_cons a l : below (a :: l) = SLASH :: a ++ below l.
Proof. reflexivity. Qed.

Lemma below_app l1 l2 : below (l1 ++ l2) = below l1 ++ below l2.
Proof. unfold below. rewrite map_app, concat_app. reflexivity. Qed.

Lemma join_below : forall l a, join_with SLASH (a :: l) = a ++ below l.
Proof.
  induction l as [|b l IH]; intros a.
  - simpl. rewrite app_nil_r. reflexivity.
  - change (join_with SLASH (a :: b :: l)) with (a ++ SLASH :: join_with SLASH (b :: l)).
    rewrite IH, below_cons. reflexivity.
Qed.

Lemma below_relname segs : segs <> [] -> below segs = SLASH :: relname segs.
Proof. destruct segs as [|a l]; [congruence|]. intros _. unfold relname. rewrite join_below. reflexivity. Qed.

Lemma split_on_nonnil c s : split_on c s <> [].
Proof. destruct s as [|x r]; simpl; [discriminate|]. destruct (N.eqb x c); [discriminate|]. destruct (split_on c r); discriminate. Qed.

Lemma split_on_slashfree : forall s, Forall slashfree (split_on SLASH s).
Proof.
  induction s as [|x r IH]; simpl.
  - constructor; [intros []|constructor].
  - destruct (N.eqb_spec x SLASH) as [E|E].
    + constructor; [intros []|exact IH].
    + destruct (split_on SLASH r) as [|h t]; [constructor; [|constructor]|].
      * intros [H|[]]. congruence.
      * inversion IH; subst. constructor; [|assumption].
        intros [H|H]; [congruence|contradiction].
Qed.

Lemma clean_not_dotdot g : clean_seg g -> str_eqb g DOTDOT = false.
Proof. intros [_ [_ [H _]]]. apply str_eqb_neq. exact H. Qed.

Lemma norm_step_push abs stk g : clean_seg g -> norm_step abs stk g = g :: stk.
Proof.
  intros [H1 [H2 [H3 _]]]. unfold norm_step.
  apply str_eqb_neq in H1, H2, H3. rewrite H1, H2, H3. reflexivity.
Qed.

Lemma norm_step_clean stk comp :
  Forall clean_seg stk -> slashfree comp -> Forall clean_seg (norm_step true stk comp).
Proof.
  intros Hs Hc. unfold norm_step.
  destruct (str_eqb comp []) eqn:E1; [exact Hs|].
  destruct (str_eqb comp DOT) eqn:E2; [exact Hs|]. cbn [orb].
  destruct (str_eqb comp DOTDOT) eqn:E3; cbn [negb orb andb].
  - destruct stk as [|top r]; [constructor|].
    inversion Hs; subst. rewrite (clean_not_dotdot top) by assumption. assumption.
  - constructor; [|exact Hs]. apply str_eqb_neq in E1, E2, E3. repeat split; assumption.
Qed.

Lemma fold_clean : forall comps stk,
  Forall slashfree comps -> Forall clean_seg stk -> Forall clean_seg (fold_left (norm_step true) comps stk).
Proof.
  induction comps as [|c comps IH]; intros stk Hc Hs; simpl; [exact Hs|].
  inversion Hc; subst. apply IH; [assumption|]. apply norm_step_clean; assumption.
Qed.

Lemma fold_push abs : forall comps acc,
  Forall clean_seg comps -> fold_left (norm_step abs) comps acc = rev comps ++ acc.
Proof.
  induction comps as [|c comps IH]; intros acc H; simpl; [reflexivity|].
  inversion H; subst. rewrite norm_step_push by assumption. rewrite IH by assumption.
  rewrite <- app_assoc. reflexivity.
Qed.

Lemma initial_slashes_12 s : starts_with [SLASH] s = true -> initial_slashes s = 1 \/ initial_slashes s = 2.
Proof.
  intros H. unfold initial_slashes. rewrite H.
  destruct (starts_with [SLASH; SLASH] s && negb (starts_with [SLASH; SLASH; SLASH] s)); auto.
Qed.

Lemma repeat_render k stack : k = 1 \/ k = 2 ->
  repeat SLASH k ++ join_with SLASH stack = render k stack.
Proof.
  intros Hk. unfold render. destruct stack as [|a l].
  - destruct Hk; subst; reflexivity.
  - rewrite join_below, below_cons. destruct Hk; subst; reflexivity.
Qed.

(* Lemma A: the normal form of an absolute path *)
Lemma norm_abs_shape s : starts_with [SLASH] s = true ->
  exists k stack, (k = 1 \/ k = 2) /\ Forall clean_seg stack /\ normpath s = render k stack.
Proof.
  intros Habs. destruct s as [|x s']; [discriminate|].
  pose proof (initial_slashes_12 _ Habs) as Hk.
  exists (initial_slashes (x :: s')), (rev (norm_comps true (split_on SLASH (x :: s')))).
  split; [exact Hk|]. split.
  - apply Forall_rev. apply fold_clean; [apply split_on_slashfree | constructor].
  - unfold normpath.
    assert (Hlt : Nat.ltb 0 (initial_slashes (x :: s')) = true) by (destruct Hk as [-> | ->]; reflexivity).
    rewrite Hlt. rewrite repeat_render by exact Hk.
    remember (render _ _) as r eqn:Er. destruct r; [|reflexivity].
    exfalso. unfold render in Er.
    destruct (rev (norm_comps true (split_on SLASH (x :: s')))); destruct Hk as [Hk|Hk]; rewrite Hk in Er; discriminate.
Qed.

(* splitting a clean rendered path gives its segments back *)
Lemma split_below : forall stack g, Forall slashfree stack -> slashfree g ->
  split_on SLASH (g ++ below stack) = g :: stack.
Proof.
  induction stack as [|a l IH]; intros g Hs Hg.
  - unfold below; simpl. rewrite app_nil_r. induction g as [|x g IHg]; [reflexivity|].
    simpl. destruct (N.eqb_spec x SLASH) as [E|E]; [exfalso; apply Hg; left; auto|].
    rewrite IHg; [reflexivity|]. intros H; apply Hg; right; exact H.
  - inversion Hs; subst. rewrite below_cons. induction g as [|x g IHg].
    + simpl app. cbn [split_on]. rewrite N.eqb_refl. rewrite IH by assumption. reflexivity.
    + simpl. destruct (N.eqb_spec x SLASH) as [E|E]; [exfalso; apply Hg; left; auto|].
      rewrite IHg; [reflexivity|]. intros H; apply Hg; right; exact H.
Qed.

Lemma clean_slashfree l : Forall clean_seg l -> Forall slashfree l.
Proof. apply Forall_impl. intros g [_ [_ [_ H]]]. exact H. Qed.

Lemma clean_head g : clean_seg g -> exists c r, g = c :: r /\ c <> SLASH.
Proof.
  intros [H1 [_ [_ H4]]]. destruct g as [|c r]; [congruence|]. exists c, r. split; [reflexivity|].
  intros E. apply H4. left. auto.
Qed.

Lemma split_render k stack : k = 1 \/ k = 2 -> Forall clean_seg stack ->
  split_on SLASH (render k stack) = repeat [] k ++ match stack with [] => [[]] | _ => stack end.
Proof.
  intros Hk Hc. unfold render. destruct stack as [|a l].
  - destruct Hk; subst; reflexivity.
  - pose proof (split_below (a :: l) [] (clean_slashfree _ Hc) (fun H => H)) as E. simpl app in E.
    destruct Hk; subst; cbn [repeat Nat.sub app].
    + exact E.
    + cbn [split_on]. rewrite N.eqb_refl. rewrite E. reflexivity.
Qed.

Lemma initial_slashes_render k stack : k = 1 \/ k = 2 -> Forall clean_seg stack ->
  initial_slashes (render k stack) = k.
Proof.
  intros Hk Hc. unfold render. destruct stack as [|a l].
  - destruct Hk; subst; reflexivity.
  - inversion Hc; subst. destruct (clean_head a) as [c [r [-> Hne]]]; [assumption|].
    rewrite below_cons. apply N.eqb_neq in Hne. rewrite N.eqb_sym in Hne.
    destruct Hk; subst; unfold initial_slashes; cbn [repeat Nat.sub app starts_with];
      rewrite ?N.eqb_refl, ?Hne; reflexivity.
Qed.

Lemma filter_nonempty_clean l : Forall clean_seg l -> filter (fun g : str => negb (is_nil g)) l = l.
Proof.
  induction l as [|a l IH]; intros H; [reflexivity|]. inversion H; subst. simpl.
  destruct a as [|c r]; [destruct H2 as [H2 _]; congruence|]. simpl. rewrite IH by assumption. reflexivity.
Qed.

(* normpath is idempotent on its normal forms *)
Lemma norm_render k stack : k = 1 \/ k = 2 -> Forall clean_seg stack ->
  normpath (render k stack) = render k stack.
Proof.
  intros Hk Hc.
  assert (Hne : exists x r, render k stack = x :: r).
  { unfold render. destruct stack; destruct Hk; subst; cbn; eauto. }
  destruct Hne as [x [r Er]]. unfold normpath. rewrite Er. rewrite <- Er.
  rewrite initial_slashes_render by assumption.
  assert (Hlt : Nat.ltb 0 k = true) by (destruct Hk; subst; reflexivity). rewrite Hlt.
  rewrite split_render by assumption.
  assert (Hn : norm_comps true (repeat [] k ++ match stack with [] => [[]] | _ => stack end) = rev stack).
  { unfold norm_comps. rewrite fold_left_app.
    assert (E0 : @fold_left (list str) (list N) (norm_step true) (@repeat (list N) [] k) [] = []) by (destruct Hk; subst; reflexivity).
    rewrite E0. destruct stack as [|a l]; [reflexivity|].
    rewrite fold_push by assumption. rewrite app_nil_r. reflexivity. }
  rewrite Hn, rev_involutive, repeat_render by assumption. rewrite Er. reflexivity.
Qed.

Lemma segs_of_render s k stack : k = 1 \/ k = 2 -> Forall clean_seg stack ->
  normpath s = render k stack -> segs_of s = stack.
Proof.
  intros Hk Hc E. unfold segs_of. rewrite E, split_render by assumption.
  rewrite filter_app.
  assert (E0 : @filter (list N) (fun g : list N => negb (is_nil g)) (@repeat (list N) [] k) = []) by (destruct Hk; subst; reflexivity).
  rewrite E0. destruct stack as [|a l]; [reflexivity|]. apply filter_nonempty_clean. exact Hc.
Qed.

Lemma strip_common_app : forall a b, strip_common a (a ++ b) = ([], b).
Proof.
  induction a as [|x a IH]; intros b; simpl.
  - destruct b; reflexivity.
  - rewrite str_eqb_refl. apply IH.
Qed.

Lemma render_app k rsegs segs : rsegs <> [] -> render k (rsegs ++ segs) = render k rsegs ++ below segs.
Proof.
  intros H. unfold render. destruct rsegs as [|a l]; [congruence|].
  change ((a :: l) ++ segs) with (a :: (l ++ segs)). rewrite !below_cons, below_app, <- !app_assoc.
  simpl. rewrite <- app_assoc. reflexivity.
Qed.

(* relpath of a path that lies below the start *)
Lemma relpath_below root k rsegs segs :
  k = 1 \/ k = 2 -> Forall clean_seg rsegs -> Forall clean_seg segs ->
  normpath root = render k rsegs ->
  relpath (render k (rsegs ++ segs)) root = relname segs.
Proof.
  intros Hk Hr Hs E. unfold relpath.
  rewrite (segs_of_render root k rsegs) by assumption.
  assert (Hall : Forall clean_seg (rsegs ++ segs)) by (apply Forall_app; auto).
  rewrite (segs_of_render (render k (rsegs ++ segs)) k (rsegs ++ segs)) by (auto using norm_render).
  rewrite strip_common_app. simpl. destruct segs; reflexivity.
Qed.

(* ---------- Lemma B: a normal form that textually starts with "<normal form>/" lies below it ---------- *)
Lemma seg_cancel : forall s r X Y,
  slashfree s -> slashfree r ->
  (X = [] \/ exists X', X = SLASH :: X') -> (exists Y', Y = SLASH :: Y') ->
  s ++ X = r ++ Y -> s = r /\ X = Y.
Proof.
  induction s as [|a s IH]; intros r X Y Hs Hr HX HY E.
  - destruct r as [|c r]; [auto|]. exfalso. simpl in E.
    destruct HX as [-> | [X' ->]]; [discriminate|]. inversion E; subst. apply Hr. left. reflexivity.
  - destruct r as [|c r].
    + exfalso. destruct HY as [Y' ->]. simpl in E. inversion E; subst. apply Hs. left. reflexivity.
    + simpl in E. inversion E; subst.
      destruct (IH r X Y) as [E1 E2]; auto.
      * intros H; apply Hs; right; exact H.
      * intros H; apply Hr; right; exact H.
      * subst. auto.
Qed.

Lemma below_head l : l = [] /\ below l = [] \/ exists X', below l = SLASH :: X'.
Proof. destruct l as [|a l]; [left; auto | right; rewrite below_cons; eauto]. Qed.

Lemma below_prefix : forall rstack stack rest,
  Forall slashfree rstack -> Forall slashfree stack ->
  below stack = below rstack ++ SLASH :: rest ->
  exists segs, stack = rstack ++ segs.
Proof.
  induction rstack as [|r rs IH]; intros stack rest Hr Hs E.
  - exists stack. reflexivity.
  - destruct stack as [|s ss]; [rewrite below_cons in E; discriminate|].
    rewrite !below_cons in E. simpl in E. inversion E as [E']. rewrite <- app_assoc in E'.
    inversion Hr; subst. inversion Hs; subst.
    destruct (seg_cancel s r (below ss) (below rs ++ SLASH :: rest)) as [E1 E2]; auto.
    + destruct (below_head ss) as [[_ H]|H]; auto.
    + destruct (below_head rs) as [[_ H]|[X' H]]; rewrite H; simpl; eauto.
    + subst. destruct (IH ss rest) as [segs ->]; auto. exists segs. reflexivity.
Qed.

Lemma render_prefix kq kb stack rstack rest :
  (kq = 1 \/ kq = 2) -> (kb = 1 \/ kb = 2) ->
  Forall clean_seg stack -> Forall clean_seg rstack -> rstack <> [] ->
  render kq stack = render kb rstack ++ SLASH :: rest ->
  kq = kb /\ exists segs, stack = rstack ++ segs.
Proof.
  intros Hq Hb Hs Hr Hne E.
  destruct rstack as [|r rs]; [congruence|].
  inversion Hr as [|? ? Hr1 Hr2]; subst.
  destruct (clean_head r Hr1) as [c [r' [-> Hc]]].
  unfold render in E. rewrite below_cons in E.
  destruct stack as [|s ss].
  - exfalso. destruct Hq; destruct Hb; subst; cbn in E; inversion E; subst; congruence.
  - inversion Hs as [|? ? Hs1 Hs2]; subst.
    destruct (clean_head s Hs1) as [d [s' [-> Hd]]].
    rewrite below_cons in E.
    destruct Hq; destruct Hb; subst; cbn [repeat Nat.sub app] in E.
    + split; [reflexivity|].
      apply (below_prefix ((c :: r') :: rs) ((d :: s') :: ss) rest); try (apply clean_slashfree; assumption).
      rewrite !below_cons. exact E.
    + exfalso. simpl in E. inversion E; subst. congruence.
    + exfalso. simpl in E. inversion E; subst. congruence.
    + split; [reflexivity|]. assert (E' := f_equal (@tl N) E). cbn [tl] in E'.
      apply (below_prefix ((c :: r') :: rs) ((d :: s') :: ss) rest); try (apply clean_slashfree; assumption).
      rewrite !below_cons. exact E'.
Qed.

Lemma all_slashes_render k stack : k = 1 \/ k = 2 -> Forall clean_seg stack ->
  all_slashes (render k stack) = false -> stack <> [].
Proof. intros Hk _ H ->. destruct Hk; subst; discriminate. Qed.

Lemma path_join_abs root p : starts_with [SLASH] root = true -> starts_with [SLASH] (path_join root p) = true.
Proof.
  intros H. unfold path_join. destruct (starts_with [SLASH] p) eqn:E; [exact E|].
  destruct root as [|x r]; [discriminate|]. simpl in H. apply andb_true_iff in H as [H _].
  destruct (is_nil (x :: r) || ends_with [SLASH] (x :: r)); simpl; rewrite H; reflexivity.
Qed.

(* what safe_join returns, for every base and every path *)
Lemma safe_join_shape root p q :
  starts_with [SLASH] root = true -> all_slashes (normpath root) = false ->
  safe_join root p = Some q ->
  exists k rsegs segs, (k = 1 \/ k = 2) /\ Forall clean_seg rsegs /\ rsegs <> [] /\ Forall clean_seg segs /\
                       normpath root = render k rsegs /\ q = render k (rsegs ++ segs).
Proof.
  intros Habs Hns H. unfold safe_join in H.
  destruct (norm_abs_shape root Habs) as [kb [rstack [Hkb [Hr Eb]]]].
  destruct (norm_abs_shape (path_join root p) (path_join_abs root p Habs)) as [kq [stack [Hkq [Hs Eq]]]].
  rewrite Hns, orb_false_r in H.
  assert (Hne : rstack <> []) by (rewrite Eb in Hns; exact (all_slashes_render kb rstack Hkb Hr Hns)).
  destruct (starts_with (normpath root ++ [SLASH]) (normpath (path_join root p))) eqn:E1.
  - inversion H; subst q. apply starts_with_spec in E1 as [rest E1].
    rewrite Eq, Eb, <- app_assoc in E1. simpl in E1.
    destruct (render_prefix kq kb stack rstack rest) as [-> [segs ->]]; auto.
    exists kb, rstack, segs. apply Forall_app in Hs as [_ Hs]. repeat split; auto.
  - simpl in H. destruct (str_eqb (normpath (path_join root p)) (normpath root)) eqn:E2; [|discriminate].
    inversion H; subst q. apply str_eqb_eq in E2.
    exists kb, rstack, []. rewrite app_nil_r. repeat split; auto. rewrite E2. exact Eb.
Qed.

(* no_escape_from_root *)
Lemma no_escape_lemma root p q :
  starts_with [SLASH] root = true -> all_slashes (normpath root) = false ->
  safe_join root p = Some q ->
  exists segs, Forall clean_seg segs /\ q = normpath root ++ below segs.
Proof.
  intros Habs Hns H.
  destruct (safe_join_shape root p q Habs Hns H) as [k [rsegs [segs [Hk [Hr [Hne [Hs [Eb Eq]]]]]]]].
  exists segs. split; [exact Hs|]. rewrite Eq, Eb. apply render_app. exact Hne.
Qed.

(* ================================================================================================ *)
(* 3. find                                                                                          *)
(* ================================================================================================ *)
Lemma path_exists_spec w q : path_exists w q = true <-> In q w.
Proof.
  unfold path_exists. rewrite existsb_exists. split.
  - intros [x [Hi He]]. apply str_eqb_eq in He. subst. exact Hi.
  - intros H. exists q. split; [exact H | apply str_eqb_refl].
Qed.

(* the string find_location validates is the path below the component directory *)
Lemma safe_join_relpath root p q :
  starts_with [SLASH] root = true -> all_slashes (normpath root) = false ->
  safe_join root p = Some q ->
  exists segs, Forall clean_seg segs /\ q = normpath root ++ below segs /\ relpath q root = relname segs.
Proof.
  intros Habs Hns H.
  destruct (safe_join_shape root p q Habs Hns H) as [k [rsegs [segs [Hk [Hr [Hne [Hs [Eb Eq]]]]]]]].
  exists segs. split; [exact Hs|]. split.
  - rewrite Eq, Eb. apply render_app. exact Hne.
  - rewrite Eq. eapply relpath_below; eauto.
Qed.

Lemma find_in_spec c root w p q :
  starts_with [SLASH] root = true ->
  (find_in c root w p = FFound q <->
   safe_join root p = Some q /\ In q w /\ exposable c (relpath q root)).
Proof.
  intros Habs. unfold find_in. rewrite Habs. cbn [negb].
  destruct (safe_join root p) as [q'|] eqn:Esj.
  - split.
    + destruct (path_exists w q' && is_path_valid c (relpath q' root)) eqn:E; [|discriminate].
      intros [= <-]. apply andb_true_iff in E as [E1 E2]. split; [reflexivity|]. split.
      * apply path_exists_spec. exact E1.
      * apply is_path_valid_spec. exact E2.
    + intros [[= ->] [Hin Hex]]. apply path_exists_spec in Hin. apply is_path_valid_spec in Hex.
      rewrite Hin, Hex. reflexivity.
  - split; [discriminate|]. intros [H _]. discriminate.
Qed.

Lemma find_spec c root t p q :
  starts_with [SLASH] root = true ->
  (find_location c root t p = FFound q <->
   safe_join root p = Some q /\ In q (world root t) /\ exposable c (relpath q root)).
Proof. apply find_in_spec. Qed.

Lemma find_in_suspicious c root w p :
  starts_with [SLASH] root = true ->
  (find_in c root w p = FSuspicious <-> safe_join root p = None).
Proof.
  intros Habs. unfold find_in. rewrite Habs. cbn [negb].
  destruct (safe_join root p) as [q'|]; [|tauto].
  destruct (path_exists w q' && is_path_valid c (relpath q' root)); split; discriminate.
Qed.

Lemma find_suspicious c root t p :
  starts_with [SLASH] root = true ->
  (find_location c root t p = FSuspicious <-> safe_join root p = None).
Proof. apply find_in_suspicious. Qed.

Lemma find_in_modelled c root w p :
  starts_with [SLASH] root = true -> find_in c root w p <> FUnmodelled.
Proof.
  intros Habs. unfold find_in. rewrite Habs. cbn [negb].
  destruct (safe_join root p) as [q'|]; [|discriminate].
  destruct (path_exists w q' && is_path_valid c (relpath q' root)); discriminate.
Qed.

(* ================================================================================================ *)
(* 4. find and list agree                                                                           *)
(* ================================================================================================ *)
(* a relative path as the OS reports it: non-empty, '/'-joined clean segments *)
Definition wf_rel (f : str) : Prop :=
  exists fsegs, fsegs <> [] /\ Forall clean_seg fsegs /\ f = join_with SLASH fsegs.

(* a resolved component directory: absolute, normalised, not the file-system root *)
Definition resolved_dir (root : str) : Prop :=
  starts_with [SLASH] root = true /\ normpath root = root /\ all_slashes root = false.

Lemma resolved_ns root : resolved_dir root -> all_slashes (normpath root) = false.
Proof. intros [_ [E H]]. rewrite E. exact H. Qed.

(* whatever lookup path is used: a file returned by find passes the filter that list() applies *)
Lemma found_is_valid c root t p f :
  resolved_dir root ->
  find_location c root t p = FFound (root ++ SLASH :: f) -> is_path_valid c f = true.
Proof.
  intros Hres H. pose proof Hres as [Habs [En Hns]].
  apply find_spec in H as [Hsj [_ Hex]]; [|exact Habs].
  destruct (safe_join_relpath root p _ Habs (resolved_ns _ Hres) Hsj) as [segs [Hs [Eq Erel]]].
  rewrite En in Eq. apply app_inv_head in Eq.
  destruct segs as [|a l]; [discriminate|].
  rewrite below_relname in Eq by discriminate.
  assert (Ef : relname (a :: l) = f) by congruence.
  rewrite Ef in Erel. rewrite Erel in Hex. apply is_path_valid_spec. exact Hex.
Qed.

Lemma render_nonempty k l : l <> [] -> render k l = repeat SLASH (k - 1) ++ below l.
Proof. destruct l; [congruence | reflexivity]. Qed.

Lemma render_not_end_slash k rsegs : Forall clean_seg rsegs -> rsegs <> [] ->
  ends_with [SLASH] (render k rsegs) = false.
Proof.
  intros Hc Hne. destruct (ends_with [SLASH] (render k rsegs)) eqn:E; [|reflexivity]. exfalso.
  apply ends_with_spec in E as [pre E]. rewrite render_nonempty in E by exact Hne.
  destruct (exists_last Hne) as [init [g ->]].
  apply Forall_app in Hc as [_ Hg]. inversion Hg as [|? ? [Hg1 [_ [_ Hg4]]] _]; subst.
  destruct (exists_last Hg1) as [g' [c ->]].
  rewrite below_app in E. unfold below at 2 in E. simpl in E. rewrite app_nil_r in E.
  replace (repeat SLASH (k - 1) ++ below init ++ SLASH :: g' ++ [c])
    with ((repeat SLASH (k - 1) ++ below init ++ SLASH :: g') ++ [c]) in E
    by (rewrite <- !app_assoc; simpl; reflexivity).
  apply app_inj_tail in E as [_ Ec]. apply Hg4. apply in_or_app. right. left. auto.
Qed.

Lemma safe_join_clean root f :
  resolved_dir root -> wf_rel f ->
  safe_join root f = Some (root ++ SLASH :: f) /\ relpath (root ++ SLASH :: f) root = f.
Proof.
  intros [Habs [En Hns]] [fsegs [Hfne [Hf Ef]]].
  destruct (norm_abs_shape root Habs) as [k [rsegs [Hk [Hr Eb]]]].
  assert (Eroot : root = render k rsegs) by congruence.
  assert (Hne : rsegs <> []) by (rewrite Eroot in Hns; exact (all_slashes_render k rsegs Hk Hr Hns)).
  assert (Efr : f = relname fsegs) by (destruct fsegs; [congruence | exact Ef]).
  assert (Eq : root ++ SLASH :: f = render k (rsegs ++ fsegs)).
  { rewrite render_app by exact Hne. rewrite below_relname by exact Hfne. rewrite <- Efr, <- Eroot. reflexivity. }
  assert (Hall : Forall clean_seg (rsegs ++ fsegs)) by (apply Forall_app; auto).
  assert (Ej : path_join root f = root ++ SLASH :: f).
  { unfold path_join.
    assert (E1 : starts_with [SLASH] f = false).
    { destruct fsegs as [|a l]; [congruence|]. inversion Hf; subst.
      destruct (clean_head a) as [c [r [-> Hc]]]; [assumption|].
      rewrite join_below. cbn [app starts_with]. apply N.eqb_neq in Hc. rewrite N.eqb_sym, Hc. reflexivity. }
    rewrite E1. destruct root as [|x r]; [discriminate|]. cbn [is_nil orb].
    rewrite Eroot at 1. rewrite render_not_end_slash by assumption. reflexivity. }
  split.
  - unfold safe_join. rewrite Ej, En, Eq, norm_render by assumption. rewrite <- Eq.
    assert (E2 : starts_with (root ++ [SLASH]) (root ++ SLASH :: f) = true).
    { apply starts_with_spec. exists f. rewrite <- app_assoc. reflexivity. }
    rewrite E2. reflexivity.
  - rewrite Eq, Efr. eapply relpath_below; eauto.
Qed.

(* every file that list() yields is found under its own name *)
Lemma listed_is_found c root t f :
  resolved_dir root -> wf_rel f -> In f (files t) -> is_path_valid c f = true ->
  find_location c root t f = FFound (root ++ SLASH :: f).
Proof.
  intros Hres Hwf Hin Hv. pose proof Hres as [Habs _].
  destruct (safe_join_clean root f Hres Hwf) as [Esj Erel].
  apply find_spec; [exact Habs|]. split; [exact Esj|]. split.
  - unfold world. right. apply in_map_iff. exists f. split; [reflexivity|]. apply in_or_app. right. exact Hin.
  - rewrite Erel. apply is_path_valid_spec. exact Hv.
Qed.

Lemma find_agrees_with_list_lemma c root t f :
  resolved_dir root -> wf_rel f -> In f (files t) ->
  (In f (finder_list c t) <-> find_location c root t f = FFound (root ++ SLASH :: f)) /\
  (forall p, find_location c root t p = FFound (root ++ SLASH :: f) -> In f (finder_list c t)).
Proof.
  intros Hres Hwf Hin. split; [split|].
  - intros H. apply filter_In in H as [_ Hv]. apply listed_is_found; assumption.
  - intros H. apply filter_In. split; [exact Hin|]. eapply found_is_valid; eauto.
  - intros p H. apply filter_In. split; [exact Hin|]. eapply found_is_valid; eauto.
Qed.

(* ================================================================================================ *)
(* 5. default settings                                                                              *)
(* ================================================================================================ *)
Definition backend_suffixes : list str :=
  map s2n [".py"; ".pyc"; ".html"; ".django"; ".dj"; ".tpl"]%string.

(* Decidable sufficient condition, re-checked against the defaults of the CURRENT source on every run:
   a backend suffix s is safe when some default-forbidden suffix is a suffix of s, or when no default-allowed suffix
   can end a name that ends with s (two suffixes of one string are comparable), both up to the newline corner. *)
Definition comparable (x y : str) : bool := ends_with x y || ends_with y x.
Definition compat (a s : str) : bool :=
  comparable a s || comparable a (s ++ [NL]) || comparable (a ++ [NL]) s || comparable (a ++ [NL]) (s ++ [NL]).
Definition backend_safe (allowed forbidden : list str) (s : str) : bool :=
  existsb (fun f => ends_with f s) forbidden || forallb (fun a => negb (compat a s)) allowed.

Lemma default_backend_safe :
  forallb (backend_safe Gen.C17.default_allowed Gen.C17.default_forbidden) backend_suffixes = true.
Proof. vm_compute. reflexivity. Qed.

Lemma backend_slashfree :
  forallb (fun s => negb (existsb (N.eqb SLASH) s)) backend_suffixes = true.
Proof. vm_compute. reflexivity. Qed.

Lemma default_rejects_dot : is_path_valid default_config DOT = false.
Proof. vm_compute. reflexivity. Qed.

Lemma ends_comparable x y n : ends_lit x n -> ends_lit y n -> comparable x y = true.
Proof.
  intros [p1 E1] [p2 E2]. subst n. unfold comparable. apply orb_true_iff.
  apply app_eq_app in E2 as [l [[_ E]|[_ E]]].
  - left. apply ends_with_spec. exists l. exact E.
  - right. apply ends_with_spec. exists l. exact E.
Qed.

Lemma pat_holds_weaken f s name : ends_lit f s -> pat_holds (Suffix s) name -> pat_holds (Suffix f) name.
Proof.
  intros [l ->] [[pre ->]|[pre ->]]; [left | right].
  - exists (pre ++ l). rewrite app_assoc. reflexivity.
  - exists (pre ++ l). rewrite <- !app_assoc. reflexivity.
Qed.

Lemma pat_holds_compat a s name : pat_holds (Suffix a) name -> pat_holds (Suffix s) name -> compat a s = true.
Proof.
  unfold compat. intros [Ha|Ha] [Hs|Hs]; rewrite (ends_comparable _ _ name Ha Hs); rewrite ?orb_true_r; reflexivity.
Qed.

Lemma default_never_backend name s :
  In s backend_suffixes -> pat_holds (Suffix s) name -> is_path_valid default_config name = false.
Proof.
  intros Hs Hh. destruct (is_path_valid default_config name) eqn:E; [|reflexivity]. exfalso.
  apply is_path_valid_spec in E as [[p [Hp Hph]] Hf].
  pose proof default_backend_safe as H. rewrite forallb_forall in H. specialize (H s Hs).
  unfold backend_safe in H. apply orb_true_iff in H as [H|H].
  - apply existsb_exists in H as [f [Hfi Hfe]]. apply ends_with_spec in Hfe.
    apply (Hf (Suffix f)).
    + change (eff_forbidden default_config) with (map Suffix Gen.C17.default_forbidden). apply in_map. exact Hfi.
    + eapply pat_holds_weaken; eauto.
  - change (eff_allowed default_config) with (map Suffix Gen.C17.default_allowed) in Hp.
    apply in_map_iff in Hp as [a [<- Ha]]. rewrite forallb_forall in H. specialize (H a Ha).
    rewrite (pat_holds_compat a s name Hph Hh) in H. discriminate.
Qed.

Lemma ends_lit_below s a f : slashfree s -> ends_lit s (a ++ SLASH :: f) -> ends_lit s f.
Proof.
  intros Hs [pre E]. apply app_eq_app in E as [l [[E1 E2]|[E1 E2]]].
  - exfalso. apply Hs. rewrite E2. apply in_or_app. right. left. reflexivity.
  - destruct l as [|x l].
    + exfalso. apply Hs. simpl in E2. rewrite <- E2. left. reflexivity.
    + simpl in E2. inversion E2; subst. exists l. reflexivity.
Qed.

Lemma pat_holds_below s a f : slashfree s -> pat_holds (Suffix s) (a ++ SLASH :: f) -> pat_holds (Suffix s) f.
Proof.
  intros Hs [H|H]; [left | right]; eapply ends_lit_below; eauto.
  intros Hi. apply in_app_or in Hi as [Hi|[Hi|[]]]; [exact (Hs Hi)|discriminate].
Qed.

Lemma default_find_never_backend root t p q s :
  starts_with [SLASH] root = true -> all_slashes (normpath root) = false ->
  find_location default_config root t p = FFound q ->
  In s backend_suffixes -> ~ pat_holds (Suffix s) q.
Proof.
  intros Habs Hns H Hs Hh.
  apply find_spec in H as [Hsj [_ Hex]]; [|exact Habs].
  destruct (safe_join_relpath root p q Habs Hns Hsj) as [segs [Hc [Eq Erel]]].
  apply is_path_valid_spec in Hex. rewrite Erel in Hex.
  destruct segs as [|a l].
  - simpl in Hex. rewrite default_rejects_dot in Hex. discriminate.
  - rewrite below_relname in Eq by discriminate. rewrite Eq in Hh.
    assert (Hsf : slashfree s).
    { pose proof backend_slashfree as B. rewrite forallb_forall in B. specialize (B s Hs).
      intros Hi. apply negb_true_iff in B. assert (existsb (N.eqb SLASH) s = true); [|congruence].
      apply existsb_exists. exists SLASH. split; [exact Hi | apply N.eqb_refl]. }
    apply pat_holds_below in Hh; [|exact Hsf].
    rewrite (default_never_backend _ s Hs Hh) in Hex. discriminate.
Qed.

Lemma default_list_never_backend t f s :
  In f (finder_list default_config t) -> In s backend_suffixes -> ~ pat_holds (Suffix s) f.
Proof.
  intros H Hs Hh. apply filter_In in H as [_ Hv]. rewrite (default_never_backend f s Hs Hh) in Hv. discriminate.
Qed.

(* a suffix is a literal: apart from the trailing-newline corner of `$` nothing but "ends with" is expressed *)
Lemma suffix_literal s name :
  (forall pre, name <> pre ++ [NL]) -> (suffix_match s name = true <-> ends_lit s name).
Proof.
  intros Hn. rewrite suffix_match_spec. split; [|auto].
  intros [H|[pre H]]; [exact H|]. exfalso. apply (Hn (pre ++ s)). rewrite H, app_assoc. reflexivity.
Qed.
