(* Model of django_components.finders.ComponentsFileSystemFinder (property C17), POSIX paths.

   Transliterated (M-model), line by line:
     finders.py      _is_path_valid, find_location (prefix is always "" because get_component_dirs returns Paths),
                     list
     app_settings.py STATIC_FILES_ALLOWED / STATIC_FILES_FORBIDDEN incl. the deprecated `forbidden_static_files`
                     (defaults are GENERATED from the source: Gen/C17.v)
     util/misc.py    any_regex_match / no_regex_match
     Django          safe_join;  posixpath.join / normpath / relpath / dirname test of safe_join

   A suffix string p is compiled by the code to  re.compile(re.escape(p) + "$")  and used with .search():
   that is "the name ends with p, or the name ends with p followed by one final newline" (`$` also matches
   before a trailing newline).  Compiled patterns given by the user are opaque predicates on the name.
   Definitions only; proofs are in Finder/Proofs.v. *)
From DJC Require Import Lib.Base.
From DJC Require Gen.C17.

Definition SLASH : N := 47%N.
Definition NL : N := 10%N.
Definition DOT : str := [46%N].
Definition DOTDOT : str := [46%N; 46%N].

Definition is_nil {A} (l : list A) : bool := match l with [] => true | _ => false end.

(* ---------- patterns and configuration ---------- *)
Inductive pat := Suffix (s : str) | Compiled (m : str -> bool).

(* Some pre  iff  name = pre ++ "\n" *)
Definition strip_nl (name : str) : option str :=
  match rev name with
  | x :: r => if N.eqb x NL then Some (rev r) else None
  | [] => None
  end.

(* re.compile(re.escape(s) + "$").search(name) is not None *)
Definition suffix_match (s name : str) : bool :=
  ends_with s name || match strip_nl name with Some pre => ends_with s pre | None => false end.

Definition pat_match (p : pat) (name : str) : bool :=
  match p with Suffix s => suffix_match s name | Compiled m => m name end.

(* the three settings of COMPONENTS that matter; None = not set *)
Record config := {
  static_files_allowed : option (list pat);
  static_files_forbidden : option (list pat);
  forbidden_static_files : option (list pat)     (* deprecated name, used only when static_files_forbidden is None *)
}.

Definition default_config : config :=
  {| static_files_allowed := None; static_files_forbidden := None; forbidden_static_files := None |}.

Definition eff_allowed (c : config) : list pat :=
  match static_files_allowed c with Some l => l | None => map Suffix Gen.C17.default_allowed end.

Definition eff_forbidden (c : config) : list pat :=
  match static_files_forbidden c with
  | Some l => l
  | None => match forbidden_static_files c with
            | Some l => l
            | None => map Suffix Gen.C17.default_forbidden
            end
  end.

(* any_regex_match(path, allowed) and no_regex_match(path, forbidden) *)
Definition is_path_valid (c : config) (name : str) : bool :=
  existsb (fun p => pat_match p name) (eff_allowed c)
  && forallb (fun p => negb (pat_match p name)) (eff_forbidden c).

(* ---------- posixpath ---------- *)
(* s.split(c) *)
Fixpoint split_on (c : N) (s : str) : list str :=
  match s with
  | [] => [[]]
  | x :: r => if N.eqb x c then [] :: split_on c r
              else match split_on c r with
                   | h :: t => (x :: h) :: t
                   | [] => [[x]]            (* unreachable: split_on never returns [] *)
                   end
  end.

Fixpoint join_with (sep : N) (l : list str) : str :=
  match l with
  | [] => []
  | x :: r => match r with [] => x | _ :: _ => x ++ sep :: join_with sep r end
  end.

(* 0, 1 or 2 (exactly two leading slashes are kept by POSIX) *)
Definition initial_slashes (s : str) : nat :=
  if starts_with [SLASH] s then
    if starts_with [SLASH; SLASH] s && negb (starts_with [SLASH; SLASH; SLASH] s) then 2 else 1
  else 0.

(* one iteration of the loop of normpath; the stack `new_comps` is kept reversed (top first) *)
Definition norm_step (abs : bool) (stk : list str) (comp : str) : list str :=
  if str_eqb comp [] || str_eqb comp DOT then stk
  else if negb (str_eqb comp DOTDOT)
          || (negb abs && is_nil stk)
          || match stk with top :: _ => str_eqb top DOTDOT | [] => false end
       then comp :: stk
       else match stk with [] => [] | _ :: r => r end.

Definition norm_comps (abs : bool) (comps : list str) : list str := fold_left (norm_step abs) comps [].

Definition normpath (s : str) : str :=
  match s with
  | [] => DOT
  | _ :: _ =>
      let k := initial_slashes s in
      let r := repeat SLASH k ++ join_with SLASH (rev (norm_comps (Nat.ltb 0 k) (split_on SLASH s))) in
      match r with [] => DOT | _ :: _ => r end
  end.

(* posixpath.join(a, p) *)
Definition path_join (a p : str) : str :=
  if starts_with [SLASH] p then p
  else if is_nil a || ends_with [SLASH] a then a ++ p
  else a ++ SLASH :: p.

(* dirname(bp) == bp  for a normalised absolute bp: bp is "/" or "//" *)
Definition all_slashes (s : str) : bool := forallb (N.eqb SLASH) s.

(* django.utils._os.safe_join(base, p) for an ABSOLUTE base (abspath = normpath then); None = SuspiciousFileOperation *)
Definition safe_join (base p : str) : option str :=
  let final := normpath (path_join base p) in
  let bp := normpath base in
  if starts_with (bp ++ [SLASH]) final || str_eqb final bp || all_slashes bp then Some final else None.

(* posixpath.relpath(path, start) for absolute arguments *)
Definition segs_of (s : str) : list str :=
  filter (fun g => negb (is_nil g)) (split_on SLASH (normpath s)).

Fixpoint strip_common (a b : list str) : list str * list str :=
  match a, b with
  | x :: a', y :: b' => if str_eqb x y then strip_common a' b' else (a, b)
  | _, _ => (a, b)
  end.

Definition relpath (path start : str) : str :=
  let '(s', p') := strip_common (segs_of start) (segs_of path) in
  let rel := map (fun _ => DOTDOT) s' ++ p' in
  match rel with [] => DOT | _ :: _ => join_with SLASH rel end.

(* ---------- the file system below one component directory ---------- *)
(* paths relative to the component dir, '/'-joined; `dirs` lists every directory below the root *)
Record tree := { dirs : list str; files : list str }.

(* what os.path.exists answers for the paths safe_join can return (root itself and everything below) *)
Definition world (root : str) (t : tree) : list str :=
  root :: map (fun r => root ++ SLASH :: r) (dirs t ++ files t).

Definition path_exists (w : list str) (q : str) : bool := existsb (str_eqb q) w.

(* ---------- the finder ---------- *)
Inductive fres :=
| FFound (q : str)
| FNotFound
| FSuspicious            (* SuspiciousFileOperation raised by safe_join *)
| FUnmodelled.           (* relative component dir: the loader refuses those (ValueError), abspath would need the cwd *)

(* find_location(root, path, prefix="") *)
Definition find_location (c : config) (root : str) (t : tree) (path : str) : fres :=
  if negb (starts_with [SLASH] root) then FUnmodelled
  else match safe_join root path with
       | None => FSuspicious
       | Some q =>
           let rel_path := relpath q root in
           if path_exists (world root t) q && is_path_valid c rel_path then FFound q else FNotFound
       end.

(* [path for path, storage in finder.list([])] for one location, in the order of `files` *)
Definition finder_list (c : config) (t : tree) : list str := filter (is_path_valid c) (files t).

(* ---------- concrete compiled patterns used by the correspondence (hand matchers, no regex engine) ---------- *)
Inductive cre :=
| ReContains (s : str)      (* re.compile(re.escape(s)) *)
| ReStarts (s : str)        (* re.compile("^" + re.escape(s)) *)
| ReEndsZ (s : str)         (* re.compile(re.escape(s) + r"\Z") *)
| ReSegStart (s : str).     (* re.compile("(^|/)" + re.escape(s)) *)

Definition re_search (r : cre) (name : str) : bool :=
  match r with
  | ReContains s => contains s name
  | ReStarts s => starts_with s name
  | ReEndsZ s => ends_with s name
  | ReSegStart s => starts_with s name || contains (SLASH :: s) name
  end.

(* ---------- correspondence cases ---------- *)
Definition fres_eqb (a b : fres) : bool :=
  match a, b with
  | FFound x, FFound y => str_eqb x y
  | FNotFound, FNotFound => true
  | FSuspicious, FSuspicious => true
  | FUnmodelled, FUnmodelled => true
  | _, _ => false
  end.

(* one directory tree, several configurations:
   (root, tree, lookup paths, [(config, find result per lookup, list() result sorted)]) ; `files` is sorted *)
Definition finder_case := (str * tree * list str * list (config * list fres * list str))%type.
Definition check_finder (c : finder_case) : bool :=
  let '(root, t, lookups, obs) := c in
  forallb (fun o : config * list fres * list str =>
             let '(cfg, finds, listed) := o in
             list_eqb fres_eqb (map (find_location cfg root t) lookups) finds
             && list_eqb str_eqb (finder_list cfg t) listed) obs.

(* _is_path_valid on plain strings: (config, [(name, observed)]) *)
Definition valid_case := (config * list (str * bool))%type.
Definition check_valid (c : valid_case) : bool :=
  let '(cfg, obs) := c in
  forallb (fun o : str * bool => Bool.eqb (is_path_valid cfg (fst o)) (snd o)) obs.

(* safe_join + relpath on plain strings: (root, [(path, observed safe_join result, observed relpath of it)]) *)
Definition sj_case := (str * list (str * option (str * str)))%type.
Definition check_sj (c : sj_case) : bool :=
  let '(root, obs) := c in
  forallb (fun o : str * option (str * str) =>
             match safe_join root (fst o), snd o with
             | None, None => true
             | Some q, Some (q', rel') => str_eqb q q' && str_eqb (relpath q root) rel'
             | _, _ => false
             end) obs.
