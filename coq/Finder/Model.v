(* Model of django_components.finders.ComponentsFileSystemFinder (property C17), POSIX paths.

   Transliterated (M-model), line by line:
     finders.py      _is_path_valid, find_location (prefix is always "" because get_component_dirs returns Paths),
                     find (all=False / all=True over `locations`), list
     Django          collectstatic's first-destination-wins bookkeeping, staticfiles.views.serve (normpath + lstrip + find)
     app_settings.py STATIC_FILES_ALLOWED / STATIC_FILES_FORBIDDEN incl. the deprecated `forbidden_static_files`
                     (defaults are GENERATED from the source: Gen/C17.v)
     util/misc.py    any_regex_match / no_regex_match
     Django          safe_join;  posixpath.join / normpath / relpath / dirname test of safe_join

   A suffix string p is compiled by the code to  re.compile(re.escape(p) + "$")  and used with .search():
   that is "the name ends with p, or the name ends with p followed by one final newline" (`$` also matches
   before a trailing newline).  Compiled patterns given by the user are opaque predicates on the name.
   Definitions only; proofs are in Finder/Proofs.v. *)
From DJC Require Import Lib.Base.
From DJC Require Gen.C17.

Definition SLASH : N := 47%N.
Definition NL : N := 10%N.
Definition DOT : str := [46%N].
Definition DOTDOT : str := [46%N; 46%N].

Definition is_nil {A} (l : list A) : bool := match l with [] => true | _ => false end.

(* ---------- patterns and configuration ---------- *)
Inductive pat := Suffix (s : str) | Compiled (m : str -> bool).

(* Some pre  iff  name = pre ++ "\n" *)
Definition strip_nl (name : str) : option str :=
  match rev name with
  | x :: r => if N.eqb x NL then Some (rev r) else None
  | [] => None
  end.

(* re.compile(re.escape(s) + "$").search(name) is not None *)
Definition suffix_match (s name : str) : bool :=
  ends_with s name || match strip_nl name with Some pre => ends_with s pre | None => false end.

Definition pat_match (p : pat) (name : str) : bool :=
  match p with Suffix s => suffix_match s name | Compiled m => m name end.

(* the three settings of COMPONENTS that matter; None = not set *)
Record config := {
  static_files_allowed : option (list pat);
  static_files_forbidden : option (list pat);
  forbidden_static_files : option (list pat)     (* deprecated name, used only when static_files_forbidden is None *)
}.

Definition default_config : config :=
  {| static_files_allowed := None; static_files_forbidden := None; forbidden_static_files := None |}.

Definition eff_allowed (c : config) : list pat :=
  match static_files_allowed c with Some l => l | None => map Suffix Gen.C17.default_allowed end.

Definition eff_forbidden (c : config) : list pat :=
  match static_files_forbidden c with
  | Some l => l
  | None => match forbidden_static_files c with
            | Some l => l
            | None => map Suffix Gen.C17.default_forbidden
            end
  end.

(* any_regex_match(path, allowed) and no_regex_match(path, forbidden) *)
Definition is_path_valid (c : config) (name : str) : bool :=
  existsb (fun p => pat_match p name) (eff_allowed c)
  && forallb (fun p => negb (pat_match p name)) (eff_forbidden c).

(* ---------- posixpath ---------- *)
(* s.split(c) *)
Fixpoint split_on (c : N) (s : str) : list str :=
  match s with
  | [] => [[]]
  | x :: r => if N.eqb x c then [] :: split_on c r
              else match split_on c r with
                   | h :: t => (x :: h) :: t
                   | [] => [[x]]            (* unreachable: split_on never returns [] *)
                   end
  end.

Fixpoint join_with (sep : N) (l : list str) : str :=
  match l with
  | [] => []
  | x :: r => match r with [] => x | _ :: _ => x ++ sep :: join_with sep r end
  end.

(* 0, 1 or 2 (exactly two leading slashes are kept by POSIX) *)
Definition initial_slashes (s : str) : nat :=
  if starts_with [SLASH] s then
    if starts_with [SLASH; SLASH] s && negb (starts_with [SLASH; SLASH; SLASH] s) then 2 else 1
  else 0.

(* one iteration of the loop of normpath; the stack `new_comps` is kept reversed (top first) *)
Definition norm_step (abs : bool) (stk : list str) (comp : str) : list str :=
  if str_eqb comp [] || str_eqb comp DOT then stk
  else if negb (str_eqb comp DOTDOT)
          || (negb abs && is_nil stk)
          || match stk with top :: _ => str_eqb top DOTDOT | [] => false end
       then comp :: stk
       else match stk with [] => [] | _ :: r => r end.

Definition norm_comps (abs : bool) (comps : list str) : list str := fold_left (norm_step abs) comps [].

Definition normpath (s : str) : str :=
  match s with
  | [] => DOT
  | _ :: _ =>
      let k := initial_slashes s in
      let r := repeat SLASH k ++ join_with SLASH (rev (norm_comps (Nat.ltb 0 k) (split_on SLASH s))) in
      match r with [] => DOT | _ :: _ => r end
  end.

(* posixpath.join(a, p) *)
Definition path_join (a p : str) : str :=
  if starts_with [SLASH] p then p
  else if is_nil a || ends_with [SLASH] a then a ++ p
  else a ++ SLASH :: p.

(* dirname(bp) == bp  for a normalised absolute bp: bp is "/" or "//" *)
Definition all_slashes (s : str) : bool := forallb (N.eqb SLASH) s.

(* django.utils._os.safe_join(base, p) for an ABSOLUTE base (abspath = normpath then); None = SuspiciousFileOperation *)
Definition safe_join (base p : str) : option str :=
  let final := normpath (path_join base p) in
  let bp := normpath base in
  if starts_with (bp ++ [SLASH]) final || str_eqb final bp || all_slashes bp then Some final else None.

(* posixpath.relpath(path, start) for absolute arguments *)
Definition segs_of (s : str) : list str :=
  filter (fun g => negb (is_nil g)) (split_on SLASH (normpath s)).

Fixpoint strip_common (a b : list str) : list str * list str :=
  match a, b with
  | x :: a', y :: b' => if str_eqb x y then strip_common a' b' else (a, b)
  | _, _ => (a, b)
  end.

Definition relpath (path start : str) : str :=
  let '(s', p') := strip_common (segs_of start) (segs_of path) in
  let rel := map (fun _ => DOTDOT) s' ++ p' in
  match rel with [] => DOT | _ :: _ => join_with SLASH rel end.

(* ---------- the file system below one component directory ---------- *)
(* paths relative to the component dir, '/'-joined; `dirs` lists every directory below the root *)
Record tree := { dirs : list str; files : list str }.

(* what os.path.exists answers for the paths safe_join can return (root itself and everything below) *)
Definition world (root : str) (t : tree) : list str :=
  root :: map (fun r => root ++ SLASH :: r) (dirs t ++ files t).

Definition path_exists (w : list str) (q : str) : bool := existsb (str_eqb q) w.

(* ---------- the finder ---------- *)
Inductive fres :=
| FFound (q : str)
| FNotFound
| FSuspicious            (* SuspiciousFileOperation raised by safe_join *)
| FUnmodelled.           (* relative component dir: the loader refuses those (ValueError), abspath would need the cwd *)

(* find_location(root, path, prefix="") against the set `w` of existing paths *)
Definition find_in (c : config) (root : str) (w : list str) (path : str) : fres :=
  if negb (starts_with [SLASH] root) then FUnmodelled
  else match safe_join root path with
       | None => FSuspicious
       | Some q =>
           let rel_path := relpath q root in
           if path_exists w q && is_path_valid c rel_path then FFound q else FNotFound
       end.

(* one existing component directory with the tree below it *)
Definition find_location (c : config) (root : str) (t : tree) (path : str) : fres :=
  find_in c root (world root t) path.

(* [path for path, storage in finder.list([])] for one location, in the order of `files` *)
Definition finder_list (c : config) (t : tree) : list str := filter (is_path_valid c) (files t).

(* ---------- several component directories (COMPONENTS.dirs + app dirs) ---------- *)
(* `finder.locations`, in its order.  loc_present = os.path.isdir(root): directories named in COMPONENTS.dirs need not exist *)
Record location := { loc_root : str; loc_present : bool; loc_tree : tree }.

Definition loc_world (l : location) : list str :=
  if loc_present l then world (loc_root l) (loc_tree l) else [].

Definition find_loc (c : config) (l : location) (path : str) : fres :=
  find_in c (loc_root l) (loc_world l) path.

(* finder.find(path)  (all=False): the first location with a match wins; an exception raised on the way propagates *)
Fixpoint find_first (c : config) (locs : list location) (path : str) : fres :=
  match locs with
  | [] => FNotFound
  | l :: r => match find_loc c l path with
              | FNotFound => find_first c r path
              | other => other
              end
  end.

(* finder.find(path, all=True): the matches of every location, in order; any SuspiciousFileOperation propagates *)
Inductive fares :=
| FAll (qs : list str)
| FASuspicious
| FAUnmodelled.

Fixpoint find_all (c : config) (locs : list location) (path : str) : fares :=
  match locs with
  | [] => FAll []
  | l :: r => match find_loc c l path with
              | FSuspicious => FASuspicious
              | FUnmodelled => FAUnmodelled
              | FNotFound => find_all c r path
              | FFound q => match find_all c r path with FAll qs => FAll (q :: qs) | e => e end
              end
  end.

(* [(storage.location, path) for path, storage in finder.list([])]: location by location, missing directories skipped *)
Definition list_loc (c : config) (l : location) : list (str * str) :=
  if loc_present l then map (pair (loc_root l)) (finder_list c (loc_tree l)) else [].

Definition finder_list_all (c : config) (locs : list location) : list (str * str) :=
  flat_map (list_loc c) locs.

(* collectstatic: `found_files` - the first (location, path) pair seen for a relative path is copied, later ones are ignored *)
Fixpoint collect (seen : list str) (l : list (str * str)) : list (str * str) :=
  match l with
  | [] => []
  | (r, f) :: rest => if existsb (str_eqb f) seen then collect seen rest
                      else (r, f) :: collect (f :: seen) rest
  end.

Definition collected (c : config) (locs : list location) : list (str * str) :=
  collect [] (finder_list_all c locs).

(* the dev server: django.contrib.staticfiles.views.serve(request, path):
     normalized = posixpath.normpath(path).lstrip("/");  absolute = finders.find(normalized)  -> 404 when nothing is found;
     django.views.static.serve then answers 404 for a directory and streams a regular file *)
Fixpoint lstrip_slash (s : str) : str :=
  match s with
  | x :: r => if N.eqb x SLASH then lstrip_slash r else s
  | [] => []
  end.

Definition serve_lookup (p : str) : str := lstrip_slash (normpath p).

Definition is_file_of (l : location) (q : str) : bool :=
  loc_present l && existsb (fun f => str_eqb q (loc_root l ++ SLASH :: f)) (files (loc_tree l)).

Inductive sres :=
| SFile (q : str)        (* 200, body = content of the regular file q *)
| S404
| SSuspicious            (* SuspiciousFileOperation (400 in a running server) *)
| SUnmodelled.

Definition serve (c : config) (locs : list location) (p : str) : sres :=
  match find_first c locs (serve_lookup p) with
  | FFound q => if existsb (fun l => is_file_of l q) locs then SFile q else S404
  | FNotFound => S404
  | FSuspicious => SSuspicious
  | FUnmodelled => SUnmodelled
  end.

(* ---------- concrete compiled patterns used by the correspondence (hand matchers, no regex engine) ---------- *)
Inductive cre :=
| ReContains (s : str)      (* re.compile(re.escape(s)) *)
| ReStarts (s : str)        (* re.compile("^" + re.escape(s)) *)
| ReEndsZ (s : str)         (* re.compile(re.escape(s) + r"\Z") *)
| ReSegStart (s : str)      (* re.compile("(^|/)" + re.escape(s)) *)
| ReTable (l : list str).   (* ANY user-compiled regex (flags, inline flags, groups, backreferences): the set of the names of the
                               case on which the pattern's OWN p.search(name) succeeds, evaluated by the harness - the pattern stays
                               an opaque predicate for the model, as in the theorems *)

Definition re_search (r : cre) (name : str) : bool :=
  match r with
  | ReContains s => contains s name
  | ReStarts s => starts_with s name
  | ReEndsZ s => ends_with s name
  | ReSegStart s => starts_with s name || contains (SLASH :: s) name
  | ReTable l => existsb (str_eqb name) l
  end.

(* ---------- correspondence cases ---------- *)
Definition fres_eqb (a b : fres) : bool :=
  match a, b with
  | FFound x, FFound y => str_eqb x y
  | FNotFound, FNotFound => true
  | FSuspicious, FSuspicious => true
  | FUnmodelled, FUnmodelled => true
  | _, _ => false
  end.

Definition fares_eqb (a b : fares) : bool :=
  match a, b with
  | FAll x, FAll y => list_eqb str_eqb x y
  | FASuspicious, FASuspicious => true
  | FAUnmodelled, FAUnmodelled => true
  | _, _ => false
  end.

Definition sres_eqb (a b : sres) : bool :=
  match a, b with
  | SFile x, SFile y => str_eqb x y
  | S404, S404 => true
  | SSuspicious, SSuspicious => true
  | SUnmodelled, SUnmodelled => true
  | _, _ => false
  end.

Definition pair_str_eqb (a b : str * str) : bool := pair_eqb str_eqb str_eqb a b.

(* one physical layout, several configurations:
   (finder.locations with the tree below each, lookup paths,
    [(config, per lookup (find(p), find(p, all=True)), list([]) as (storage.location, path) - sorted inside a location)]) *)
Definition finder_case :=
  (list location * list str * list (config * list (fres * fares) * list (str * str)))%type.
Definition check_finder (c : finder_case) : bool :=
  let '(locs, lookups, obs) := c in
  forallb (fun o : config * list (fres * fares) * list (str * str) =>
             let '(cfg, finds, listed) := o in
             list_eqb (pair_eqb fres_eqb fares_eqb)
                      (map (fun p => (find_first cfg locs p, find_all cfg locs p)) lookups) finds
             && list_eqb pair_str_eqb (finder_list_all cfg locs) listed) obs.

(* dev server and collectstatic on one layout:
   (locations, [(config, [(request path, observed answer)], source paths `collectstatic --dry-run` pretends to copy)]);
   the copies are compared as a multiset of absolute source paths (the command prints nothing else) *)
Definition collected_paths (c : config) (locs : list location) : list str :=
  map (fun rf : str * str => fst rf ++ SLASH :: snd rf) (collected c locs).

Definition count_str (x : str) (l : list str) : nat := length (filter (str_eqb x) l).
Definition same_multiset (a b : list str) : bool :=
  Nat.eqb (length a) (length b) && forallb (fun x => Nat.eqb (count_str x a) (count_str x b)) a.

Definition served_case :=
  (list location * list (config * list (str * sres) * list str))%type.
Definition check_served (c : served_case) : bool :=
  let '(locs, obs) := c in
  forallb (fun o : config * list (str * sres) * list str =>
             let '(cfg, reqs, coll) := o in
             forallb (fun r : str * sres => sres_eqb (serve cfg locs (fst r)) (snd r)) reqs
             && same_multiset (collected_paths cfg locs) coll) obs.

(* _is_path_valid on plain strings: (config, [(name, observed)]) *)
Definition valid_case := (config * list (str * bool))%type.
Definition check_valid (c : valid_case) : bool :=
  let '(cfg, obs) := c in
  forallb (fun o : str * bool => Bool.eqb (is_path_valid cfg (fst o)) (snd o)) obs.

(* safe_join + relpath on plain strings: (root, [(path, observed safe_join result, observed relpath of it)]) *)
Definition sj_case := (str * list (str * option (str * str)))%type.
Definition check_sj (c : sj_case) : bool :=
  let '(root, obs) := c in
  forallb (fun o : str * option (str * str) =>
             match safe_join root (fst o), snd o with
             | None, None => true
             | Some q, Some (q', rel') => str_eqb q q' && str_eqb (relpath q root) rel'
             | _, _ => false
             end) obs.
