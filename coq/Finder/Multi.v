(* Property C17, second part: SEVERAL component directories (finder.locations), find(all=False / all=True), list over all
   locations, collectstatic's first-destination-wins rule, the dev-server view, and the literal reading of suffixes
   (the `$`-before-newline corner made explicit).  Lemmas only; statements are repeated in Props/C17.v. *)
From Coq Require Import String.
From DJC Require Import Lib.Base Finder.Model Finder.Proofs.
From DJC Require Gen.C17.

(* ================================================================================================ *)
(* 6. the literal reading of the configuration                                                      *)
(* ================================================================================================ *)
Definition pat_holds_lit (p : pat) (name : str) : Prop :=
  match p with
  | Suffix s => ends_lit s name
  | Compiled m => m name = true
  end.

(* "its name ends with an allowed suffix or matches an allowed pattern and matches no forbidden one", read literally *)
Definition exposable_lit (c : config) (name : str) : Prop :=
  (exists p, In p (eff_allowed c) /\ pat_holds_lit p name) /\
  (forall p, In p (eff_forbidden c) -> ~ pat_holds_lit p name).

Lemma pat_holds_lit_weaker p name : pat_holds_lit p name -> pat_holds p name.
Proof. destruct p; simpl; auto. Qed.

Lemma pat_holds_no_nl p name :
  (forall pre, name <> pre ++ [NL]) -> (pat_holds p name <-> pat_holds_lit p name).
Proof.
  intros Hn. destruct p as [s|m]; simpl; [|tauto]. split; [|auto].
  intros [H|[pre H]]; [exact H|]. exfalso. apply (Hn (pre ++ s)). rewrite H, app_assoc. reflexivity.
Qed.

Lemma literal_reading c name :
  (forall pre, name <> pre ++ [NL]) -> (is_path_valid c name = true <-> exposable_lit c name).
Proof.
  intros Hn. rewrite is_path_valid_spec. unfold exposable, exposable_lit. split; intros [[p [Hi Hp]] Hf]; split.
  - exists p. split; [exact Hi|]. apply pat_holds_no_nl; assumption.
  - intros p' Hi' Hl. apply (Hf p' Hi'). apply pat_holds_lit_weaker. exact Hl.
  - exists p. split; [exact Hi|]. apply pat_holds_lit_weaker. exact Hp.
  - intros p' Hi' Hh. apply (Hf p' Hi'). apply pat_holds_no_nl; assumption.
Qed.

(* in every case (newline or not) a literally matching forbidden pattern hides the name *)
Lemma forbidden_literal_respected c name :
  is_path_valid c name = true -> forall p, In p (eff_forbidden c) -> ~ pat_holds_lit p name.
Proof.
  intros H p Hi Hl. apply is_path_valid_spec in H as [_ Hf]. apply (Hf p Hi). apply pat_holds_lit_weaker. exact Hl.
Qed.

Lemma ends_lit_nl s base : ends_lit (s ++ [NL]) (base ++ [NL]) <-> ends_lit s base.
Proof.
  split; intros [pre H].
  - rewrite app_assoc in H. apply app_inj_tail in H as [H _]. exists pre. exact H.
  - exists pre. rewrite H, app_assoc. reflexivity.
Qed.

(* a name with ONE final newline is judged by suffix strings with and without that newline *)
Definition pat_holds_nl (p : pat) (base : str) : Prop :=
  match p with
  | Suffix s => ends_lit s (base ++ [NL]) \/ ends_lit s base
  | Compiled m => m (base ++ [NL]) = true
  end.

Lemma pat_holds_nl_spec p base : pat_holds p (base ++ [NL]) <-> pat_holds_nl p base.
Proof. destruct p as [s|m]; simpl; [|tauto]. rewrite ends_lit_nl. tauto. Qed.

Lemma newline_reading c base :
  is_path_valid c (base ++ [NL]) = true <->
  (exists p, In p (eff_allowed c) /\ pat_holds_nl p base) /\
  (forall p, In p (eff_forbidden c) -> ~ pat_holds_nl p base).
Proof.
  rewrite is_path_valid_spec. unfold exposable. split; intros [[p [Hi Hp]] Hf]; split.
  - exists p. split; [exact Hi|]. apply pat_holds_nl_spec. exact Hp.
  - intros p' Hi' H. apply (Hf p' Hi'). apply pat_holds_nl_spec. exact H.
  - exists p. split; [exact Hi|]. apply pat_holds_nl_spec. exact Hp.
  - intros p' Hi' H. apply (Hf p' Hi'). apply pat_holds_nl_spec. exact H.
Qed.

(* ================================================================================================ *)
(* 7. find over several locations                                                                    *)
(* ================================================================================================ *)
Definition found_of (c : config) (p : str) (l : location) : list str :=
  match find_loc c l p with FFound q => [q] | _ => [] end.

Definition refuses (c : config) (p : str) (l : location) : Prop :=
  find_loc c l p = FSuspicious \/ find_loc c l p = FUnmodelled.

Lemma find_all_cases c p : forall locs,
  (find_all c locs p = FAll (flat_map (found_of c p) locs) /\ forall l, In l locs -> ~ refuses c p l) \/
  ((find_all c locs p = FASuspicious \/ find_all c locs p = FAUnmodelled) /\ exists l, In l locs /\ refuses c p l).
Proof.
  induction locs as [|l r IH]; simpl.
  - left. split; [reflexivity | intros l []].
  - unfold found_of at 1. destruct (find_loc c l p) as [q| | |] eqn:E.
    + destruct IH as [[H1 H2]|[H1 [l' [Hi Hr]]]].
      * left. rewrite H1. split; [reflexivity|].
        intros l' [<-|Hi]; [unfold refuses; rewrite E; intros [H|H]; discriminate | apply H2; exact Hi].
      * right. split; [destruct H1 as [-> | ->]; auto | exists l'; auto].
    + destruct IH as [[H1 H2]|[H1 [l' [Hi Hr]]]].
      * left. split; [exact H1|].
        intros l' [<-|Hi]; [unfold refuses; rewrite E; intros [H|H]; discriminate | apply H2; exact Hi].
      * right. split; [exact H1 | exists l'; auto].
    + right. split; [auto|]. exists l. split; [auto | left; exact E].
    + right. split; [auto|]. exists l. split; [auto | right; exact E].
Qed.

Lemma find_all_spec c p locs qs :
  find_all c locs p = FAll qs <->
  (forall l, In l locs -> ~ refuses c p l) /\ qs = flat_map (found_of c p) locs.
Proof.
  destruct (find_all_cases c p locs) as [[H1 H2]|[H1 [l [Hi Hr]]]]; split.
  - rewrite H1. intros [= <-]. auto.
  - intros [_ ->]. exact H1.
  - intros H. destruct H1 as [H1|H1]; rewrite H1 in H; discriminate.
  - intros [H _]. exfalso. exact (H l Hi Hr).
Qed.

Lemma in_found_of c p locs q :
  In q (flat_map (found_of c p) locs) <-> exists l, In l locs /\ find_loc c l p = FFound q.
Proof.
  rewrite in_flat_map. unfold found_of. split; intros [l [Hi H]]; exists l; (split; [exact Hi|]).
  - destruct (find_loc c l p) as [q'| | |]; simpl in H; try contradiction. destruct H as [->|[]]. reflexivity.
  - rewrite H. left. reflexivity.
Qed.

(* find(path): the first location with a match wins *)
Lemma find_first_found c p q : forall locs,
  find_first c locs p = FFound q <->
  exists l1 l l2, locs = l1 ++ l :: l2 /\ (forall l', In l' l1 -> find_loc c l' p = FNotFound) /\ find_loc c l p = FFound q.
Proof.
  induction locs as [|h r IH]; simpl.
  - split; [discriminate|]. intros [l1 [l [l2 [H _]]]]. destruct l1; discriminate.
  - split.
    + destruct (find_loc c h p) as [q'| | |] eqn:E; try discriminate.
      * intros [= ->]. exists [], h, r. split; [reflexivity|]. split; [intros l' []|exact E].
      * intros H. apply IH in H as [l1 [l [l2 [-> [H1 H2]]]]].
        exists (h :: l1), l, l2. split; [reflexivity|]. split; [|exact H2].
        intros l' [<-|Hi]; [exact E | apply H1; exact Hi].
    + intros [l1 [l [l2 [Hl [H1 H2]]]]]. destruct l1 as [|h' l1]; simpl in Hl; inversion Hl; subst.
      * rewrite H2. reflexivity.
      * rewrite (H1 h' (or_introl eq_refl)). apply IH. exists l1, l, l2. split; [reflexivity|]. split; [|exact H2].
        intros l' Hi. apply H1. right. exact Hi.
Qed.

Lemma find_first_head_of_all c p : forall locs qs,
  find_all c locs p = FAll qs ->
  find_first c locs p = match qs with [] => FNotFound | q :: _ => FFound q end.
Proof.
  induction locs as [|h r IH]; intros qs; simpl.
  - intros [= <-]. reflexivity.
  - destruct (find_loc c h p) as [q'| | |] eqn:E; try discriminate.
    + destruct (find_all c r p); try discriminate. intros [= <-]. reflexivity.
    + apply IH.
Qed.

Lemma find_first_in_all c p locs q :
  find_first c locs p = FFound q -> exists l, In l locs /\ find_loc c l p = FFound q.
Proof.
  intros H. apply find_first_found in H as [l1 [l [l2 [-> [_ H]]]]]. exists l. split; [|exact H].
  apply in_or_app. right. left. reflexivity.
Qed.

(* ---------- no escape, several roots ---------- *)
Definition good_root (root : str) : Prop :=
  starts_with [SLASH] root = true /\ all_slashes (normpath root) = false.

Lemma resolved_good root : resolved_dir root -> good_root root.
Proof. intros H. split; [exact (proj1 H) | apply resolved_ns; exact H]. Qed.

Lemma loc_world_present l q : In q (loc_world l) -> loc_present l = true /\ In q (world (loc_root l) (loc_tree l)).
Proof. unfold loc_world. destruct (loc_present l); [auto | intros []]. Qed.

Lemma find_loc_found_shape c l p q :
  good_root (loc_root l) -> find_loc c l p = FFound q ->
  loc_present l = true /\ In q (world (loc_root l) (loc_tree l)) /\
  exists segs, Forall clean_seg segs /\ q = normpath (loc_root l) ++ below segs /\ exposable c (relname segs).
Proof.
  intros [Habs Hns] H. apply find_in_spec in H as [Hsj [Hin Hex]]; [|exact Habs].
  apply loc_world_present in Hin as [Hp Hin]. split; [exact Hp|]. split; [exact Hin|].
  destruct (safe_join_relpath _ p q Habs Hns Hsj) as [segs [Hc [Eq Erel]]].
  exists segs. rewrite <- Erel. auto.
Qed.

(* the results of find, whichever form *)
Definition returned (c : config) (locs : list location) (p q : str) : Prop :=
  find_first c locs p = FFound q \/ exists qs, find_all c locs p = FAll qs /\ In q qs.

Lemma returned_by_some_location c locs p q :
  returned c locs p q -> exists l, In l locs /\ find_loc c l p = FFound q.
Proof.
  intros [H|[qs [H Hi]]].
  - apply find_first_in_all. exact H.
  - apply find_all_spec in H as [_ ->]. apply in_found_of. exact Hi.
Qed.

Lemma no_escape_multi c locs p q :
  (forall l, In l locs -> good_root (loc_root l)) -> returned c locs p q ->
  exists l segs, In l locs /\ loc_present l = true /\ Forall clean_seg segs /\
                 q = normpath (loc_root l) ++ below segs /\ In q (loc_world l) /\ exposable c (relname segs).
Proof.
  intros Hg H. apply returned_by_some_location in H as [l [Hi H]].
  destruct (find_loc_found_shape c l p q (Hg l Hi) H) as [Hp [Hw [segs [Hc [Eq Hex]]]]].
  exists l, segs. split; [exact Hi|]. split; [exact Hp|]. split; [exact Hc|]. split; [exact Eq|]. split; [|exact Hex].
  unfold loc_world. rewrite Hp. exact Hw.
Qed.

(* ---------- list over all locations ---------- *)
Lemma list_all_spec c locs r f :
  In (r, f) (finder_list_all c locs) <->
  exists l, In l locs /\ loc_root l = r /\ loc_present l = true /\ In f (files (loc_tree l)) /\ exposable c f.
Proof.
  unfold finder_list_all. rewrite in_flat_map. split.
  - intros [l [Hi H]]. exists l. split; [exact Hi|]. unfold list_loc in H.
    destruct (loc_present l); [|contradiction]. apply in_map_iff in H as [f' [[= <- <-] H]].
    apply list_spec in H. tauto.
  - intros [l [Hi [<- [Hp [Hf Hex]]]]]. exists l. split; [exact Hi|]. unfold list_loc. rewrite Hp.
    apply in_map. apply list_spec. auto.
Qed.

(* ---------- find and list agree, several roots ---------- *)
Lemma find_loc_clean c l f :
  resolved_dir (loc_root l) -> wf_rel f ->
  (find_loc c l f = FFound (loc_root l ++ SLASH :: f) \/ find_loc c l f = FNotFound) /\
  (find_loc c l f = FFound (loc_root l ++ SLASH :: f) <->
   In (loc_root l ++ SLASH :: f) (loc_world l) /\ exposable c f).
Proof.
  intros Hres Hwf. pose proof Hres as [Habs _].
  destruct (safe_join_clean _ f Hres Hwf) as [Esj Erel].
  assert (Hiff : find_loc c l f = FFound (loc_root l ++ SLASH :: f) <->
                 In (loc_root l ++ SLASH :: f) (loc_world l) /\ exposable c f).
  { unfold find_loc. rewrite find_in_spec by exact Habs. rewrite Erel. split; [tauto|]. intros [H1 H2]. auto. }
  split; [|exact Hiff].
  unfold find_loc, find_in. rewrite Habs, Esj. cbn [negb].
  destruct (path_exists (loc_world l) (loc_root l ++ SLASH :: f) && is_path_valid c (relpath (loc_root l ++ SLASH :: f) (loc_root l)));
    [left | right]; reflexivity.
Qed.

Lemma root_slash_not_root (root x : str) : root ++ SLASH :: x <> root.
Proof. intros H. rewrite <- (app_nil_r root) in H at 2. apply app_inv_head in H. discriminate. Qed.

Lemma in_world_below root t f : In (root ++ SLASH :: f) (world root t) <-> In f (dirs t ++ files t).
Proof.
  unfold world. split.
  - intros [H|H]; [exfalso; symmetry in H; exact (root_slash_not_root _ _ H)|].
    apply in_map_iff in H as [f' [E H]]. apply app_inv_head in E. inversion E; subst. exact H.
  - intros H. right. apply in_map_iff. exists f. auto.
Qed.

Lemma find_agrees_with_list_all_lemma c locs l f :
  (forall l', In l' locs -> resolved_dir (loc_root l')) ->
  In l locs -> loc_present l = true -> wf_rel f -> In f (files (loc_tree l)) ->
  find_all c locs f = FAll (flat_map (found_of c f) locs) /\
  (In (loc_root l, f) (finder_list_all c locs) <-> In (loc_root l ++ SLASH :: f) (flat_map (found_of c f) locs)).
Proof.
  intros Hres Hl Hp Hwf Hf. split.
  - apply find_all_spec. split; [|reflexivity]. intros l' Hi' [H|H];
      destruct (proj1 (find_loc_clean c l' f (Hres l' Hi') Hwf)) as [E|E]; rewrite E in H; discriminate.
  - rewrite in_found_of, list_all_spec. split.
    + intros [l0 [Hi0 [Er [Hp0 [Hf0 Hex]]]]]. exists l. split; [exact Hl|].
      apply (find_loc_clean c l f (Hres l Hl) Hwf). split; [|exact Hex].
      unfold loc_world. rewrite Hp. apply in_world_below. apply in_or_app. right. exact Hf.
    + intros [l' [Hi' H]]. exists l. split; [exact Hl|]. split; [reflexivity|]. split; [exact Hp|]. split; [exact Hf|].
      destruct (proj1 (find_loc_clean c l' f (Hres l' Hi') Hwf)) as [E|E]; rewrite E in H; [|discriminate].
      apply (find_loc_clean c l' f (Hres l' Hi') Hwf) in E. exact (proj2 E).
Qed.

(* whatever the lookup path: what find returns is the directory itself, a sub-directory, or a LISTED file *)
Lemma returned_is_listed c locs p q :
  (forall l, In l locs -> resolved_dir (loc_root l)) -> returned c locs p q ->
  exists l, In l locs /\ loc_present l = true /\
    ((q = loc_root l /\ exposable c DOT) \/
     exists r, q = loc_root l ++ SLASH :: r /\ exposable c r /\
               (In r (dirs (loc_tree l)) \/ In (loc_root l, r) (finder_list_all c locs))).
Proof.
  intros Hres H.
  destruct (no_escape_multi c locs p q (fun l Hi => resolved_good _ (Hres l Hi)) H)
    as [l [segs [Hi [Hp [Hc [Eq [Hw Hex]]]]]]].
  exists l. split; [exact Hi|]. split; [exact Hp|].
  destruct (Hres l Hi) as [_ [En _]]. rewrite En in Eq.
  destruct segs as [|a s].
  - left. simpl in Eq. rewrite app_nil_r in Eq. auto.
  - right. rewrite below_relname in Eq by discriminate. exists (relname (a :: s)). split; [exact Eq|]. split; [exact Hex|].
    unfold loc_world in Hw. rewrite Hp, Eq in Hw. apply in_world_below in Hw. apply in_app_or in Hw as [Hd|Hf]; [left; exact Hd|].
    right. apply list_all_spec. exists l. auto.
Qed.

(* ================================================================================================ *)
(* 8. collectstatic                                                                                  *)
(* ================================================================================================ *)
Lemma seen_spec f seen : existsb (str_eqb f) seen = true <-> In f seen.
Proof. apply (path_exists_spec seen f). Qed.

Lemma collect_spec : forall l seen r f,
  In (r, f) (collect seen l) <->
  exists l1 l2, l = l1 ++ (r, f) :: l2 /\ ~ In f seen /\ ~ In f (map snd l1).
Proof.
  induction l as [|[r0 f0] rest IH]; intros seen r f; simpl.
  - split; [intros []|]. intros [l1 [l2 [H _]]]. destruct l1; discriminate.
  - destruct (existsb (str_eqb f0) seen) eqn:E.
    + apply seen_spec in E. rewrite IH. split.
      * intros [l1 [l2 [-> [Hs Hn]]]]. exists ((r0, f0) :: l1), l2. split; [reflexivity|]. split; [exact Hs|].
        simpl. intros [<-|H]; [exact (Hs E) | exact (Hn H)].
      * intros [l1 [l2 [Hl [Hs Hn]]]]. destruct l1 as [|x l1]; simpl in Hl; inversion Hl; subst.
        -- exfalso. exact (Hs E).
        -- exists l1, l2. split; [reflexivity|]. split; [exact Hs|]. intros H. apply Hn. right. exact H.
    + assert (Hns : ~ In f0 seen) by (intros H; apply seen_spec in H; congruence).
      simpl. rewrite IH. split.
      * intros [[= <- <-]|[l1 [l2 [-> [Hs Hn]]]]].
        -- exists [], rest. split; [reflexivity|]. split; [exact Hns | intros []].
        -- exists ((r0, f0) :: l1), l2. split; [reflexivity|]. split; [intros H; apply Hs; right; exact H|].
           simpl. intros [<-|H]; [apply Hs; left; reflexivity | exact (Hn H)].
      * intros [l1 [l2 [Hl [Hs Hn]]]]. destruct l1 as [|x l1]; simpl in Hl; inversion Hl; subst.
        -- left. reflexivity.
        -- right. exists l1, l2. split; [reflexivity|]. split.
           ++ intros [<-|H]; [apply Hn; left; reflexivity | exact (Hs H)].
           ++ intros H. apply Hn. right. exact H.
Qed.

Lemma collected_spec c locs r f :
  In (r, f) (collected c locs) <->
  exists l1 l2, finder_list_all c locs = l1 ++ (r, f) :: l2 /\ ~ In f (map snd l1).
Proof.
  unfold collected. rewrite collect_spec. split; intros [l1 [l2 H]]; exists l1, l2; tauto.
Qed.

Lemma first_occurrence : forall (l : list (str * str)) f,
  In f (map snd l) -> exists l1 r l2, l = l1 ++ (r, f) :: l2 /\ ~ In f (map snd l1).
Proof.
  induction l as [|[r0 f0] rest IH]; intros f; simpl; [intros []|].
  destruct (str_eqb f0 f) eqn:E.
  - apply str_eqb_eq in E. subst f0. intros _. exists [], r0, rest. split; [reflexivity | intros []].
  - apply str_eqb_neq in E. intros [H|H]; [contradiction|].
    destruct (IH f H) as [l1 [r [l2 [-> Hn]]]]. exists ((r0, f0) :: l1), r, l2. split; [reflexivity|].
    simpl. intros [H'|H']; [contradiction | exact (Hn H')].
Qed.

(* the set of relative names copied by collectstatic = the set of relative names list() yields *)
Lemma collected_names c locs f :
  In f (map snd (collected c locs)) <-> In f (map snd (finder_list_all c locs)).
Proof.
  split.
  - intros H. apply in_map_iff in H as [[r f'] [E H]]. simpl in E. subst f'.
    apply collected_spec in H as [l1 [l2 [-> _]]]. rewrite map_app. apply in_or_app. right. left. reflexivity.
  - intros H. destruct (first_occurrence _ f H) as [l1 [r [l2 [E Hn]]]].
    apply in_map_iff. exists (r, f). split; [reflexivity|]. apply collected_spec. exists l1, l2. auto.
Qed.

Lemma collected_subset c locs x : In x (collected c locs) -> In x (finder_list_all c locs).
Proof.
  destruct x as [r f]. intros H. apply collected_spec in H as [l1 [l2 [-> _]]]. apply in_or_app. right. left. reflexivity.
Qed.

(* ================================================================================================ *)
(* 9. the dev server                                                                                 *)
(* ================================================================================================ *)
Lemma serve_file c locs p q :
  serve c locs p = SFile q -> find_first c locs (serve_lookup p) = FFound q.
Proof.
  unfold serve. destruct (find_first c locs (serve_lookup p)) as [q'| | |]; try discriminate.
  destruct (existsb (fun l => is_file_of l q') locs); [|discriminate]. intros [= ->]. reflexivity.
Qed.

Lemma serve_only_exposed c locs p q :
  (forall l, In l locs -> resolved_dir (loc_root l)) -> serve c locs p = SFile q ->
  exists l, In l locs /\ loc_present l = true /\
    ((q = loc_root l /\ exposable c DOT) \/
     exists r, q = loc_root l ++ SLASH :: r /\ exposable c r /\
               (In r (dirs (loc_tree l)) \/ In (loc_root l, r) (finder_list_all c locs))).
Proof.
  intros Hres H. apply serve_file in H. apply (returned_is_listed c locs (serve_lookup p) q Hres). left. exact H.
Qed.

(* a clean relative name is looked up as it is *)
Lemma lstrip_noslash c r : c <> SLASH -> lstrip_slash (c :: r) = c :: r.
Proof. intros H. simpl. apply N.eqb_neq in H. rewrite H. reflexivity. Qed.

Lemma normpath_rel s : s <> [] -> starts_with [SLASH] s = false ->
  normpath s = match join_with SLASH (rev (norm_comps false (split_on SLASH s))) with [] => DOT | x :: r => x :: r end.
Proof. destruct s as [|y s]; [congruence|]. intros _ H. unfold normpath, initial_slashes. rewrite H.
  change (Nat.ltb 0 0) with false. cbn [repeat app].
  destruct (join_with SLASH (rev (norm_comps false (split_on SLASH (y :: s))))); reflexivity.
Qed.

Lemma serve_lookup_clean f : wf_rel f -> serve_lookup f = f.
Proof.
  intros [fsegs [Hne [Hc Ef]]]. destruct fsegs as [|a l]; [congruence|].
  inversion Hc as [|? ? Ha Hl]; subst. destruct (clean_head a Ha) as [x [a' [-> Hx]]].
  rewrite join_below in *. unfold serve_lookup.
  assert (Hs0 : starts_with [SLASH] ((x :: a') ++ below l) = false).
  { cbn [app starts_with]. apply N.eqb_neq in Hx. rewrite N.eqb_sym, Hx. reflexivity. }
  assert (En : normpath ((x :: a') ++ below l) = (x :: a') ++ below l).
  { rewrite normpath_rel; [|discriminate|exact Hs0].
    rewrite split_below; [|apply clean_slashfree; exact Hl|destruct Ha as [_ [_ [_ H]]]; exact H].
    unfold norm_comps. rewrite fold_push by exact Hc. rewrite app_nil_r, rev_involutive, join_below. reflexivity. }
  rewrite En. apply lstrip_noslash. exact Hx.
Qed.

Lemma serve_clean c locs f : wf_rel f ->
  serve c locs f = match find_first c locs f with
                   | FFound q => if existsb (fun l => is_file_of l q) locs then SFile q else S404
                   | FNotFound => S404
                   | FSuspicious => SSuspicious
                   | FUnmodelled => SUnmodelled
                   end.
Proof. intros H. unfold serve. rewrite (serve_lookup_clean f H). reflexivity. Qed.

(* a collected file is served by the dev server under its own name, unless a DIRECTORY of that name exists in a location *)
Lemma flat_map_split {A B} (g : A -> list B) : forall locs l1 x l2,
  flat_map g locs = l1 ++ x :: l2 ->
  exists la l lb a b, locs = la ++ l :: lb /\ g l = a ++ x :: b /\ l1 = flat_map g la ++ a /\ l2 = b ++ flat_map g lb.
Proof.
  induction locs as [|h t IH]; intros l1 x l2 H; simpl in H.
  - destruct l1; discriminate.
  - apply app_eq_app in H as [m [[H1 H2]|[H1 H2]]].
    + destruct m as [|y m'].
      * rewrite app_nil_r in H1. simpl in H2. symmetry in H2.
        destruct (IH [] x l2 H2) as [la [l [lb [a [b [E1 [E2 [E3 E4]]]]]]]].
        exists (h :: la), l, lb, a, b. split; [rewrite E1; reflexivity|]. split; [exact E2|]. split; [|exact E4].
        simpl. rewrite <- app_assoc, <- E3, app_nil_r. symmetry. exact H1.
      * simpl in H2. inversion H2; subst. exists [], h, t, l1, m'. simpl. auto.
    + destruct (IH m x l2 H2) as [la [l [lb [a [b [E1 [E2 [E3 E4]]]]]]]].
      exists (h :: la), l, lb, a, b. split; [rewrite E1; reflexivity|]. split; [exact E2|]. split; [|exact E4].
      simpl. rewrite <- app_assoc, <- E3. exact H1.
Qed.

Lemma in_list_loc c l r f :
  In (r, f) (list_loc c l) <-> loc_root l = r /\ loc_present l = true /\ In f (files (loc_tree l)) /\ exposable c f.
Proof.
  unfold list_loc. destruct (loc_present l).
  - rewrite in_map_iff. split.
    + intros [f' [[= <- <-] H]]. apply list_spec in H. tauto.
    + intros [<- [_ [H1 H2]]]. exists f. split; [reflexivity|]. apply list_spec. auto.
  - split; [intros [] | intros [_ [H _]]; discriminate].
Qed.

Lemma serve_collected c locs r f :
  (forall l, In l locs -> resolved_dir (loc_root l)) -> wf_rel f ->
  (forall l, In l locs -> loc_present l = true -> ~ In f (dirs (loc_tree l))) ->
  In (r, f) (collected c locs) ->
  serve c locs f = SFile (r ++ SLASH :: f).
Proof.
  intros Hres Hwf Hnd H. apply collected_spec in H as [l1 [l2 [E Hn]]].
  unfold finder_list_all in E. apply flat_map_split in E as [la [l0 [lb [a [b [-> [E2 [-> _]]]]]]]].
  assert (H0 : In (r, f) (list_loc c l0)) by (rewrite E2; apply in_or_app; right; left; reflexivity).
  apply in_list_loc in H0 as [Er [Hp [Hf Hex]]].
  assert (Hin0 : In l0 (la ++ l0 :: lb)) by (apply in_or_app; right; left; reflexivity).
  assert (Hfirst : find_first c (la ++ l0 :: lb) f = FFound (r ++ SLASH :: f)).
  { apply find_first_found. exists la, l0, lb. split; [reflexivity|]. split.
    - intros l' Hi'. assert (Hin' : In l' (la ++ l0 :: lb)) by (apply in_or_app; left; exact Hi').
      destruct (find_loc_clean c l' f (Hres l' Hin') Hwf) as [[Hc|Hc] Hiff]; [|exact Hc]. exfalso.
      apply Hiff in Hc as [Hw _]. apply loc_world_present in Hw as [Hp' Hw]. apply in_world_below in Hw.
      apply in_app_or in Hw as [Hd|Hf']; [exact (Hnd l' Hin' Hp' Hd)|].
      apply Hn. rewrite map_app. apply in_or_app. left. apply in_map_iff. exists (loc_root l', f). split; [reflexivity|].
      apply in_flat_map. exists l'. split; [exact Hi'|]. apply in_list_loc. auto.
    - rewrite <- Er. apply (find_loc_clean c l0 f (Hres l0 Hin0) Hwf). split; [|exact Hex].
      unfold loc_world. rewrite Hp. apply in_world_below. apply in_or_app. right. exact Hf. }
  rewrite (serve_clean c _ f Hwf), Hfirst.
  assert (Hex' : existsb (fun l => is_file_of l (r ++ SLASH :: f)) (la ++ l0 :: lb) = true).
  { apply existsb_exists. exists l0. split; [exact Hin0|]. unfold is_file_of. rewrite Hp. cbn [andb].
    apply existsb_exists. exists f. split; [exact Hf|]. rewrite Er. apply str_eqb_refl. }
  rewrite Hex'. reflexivity.
Qed.

(* ================================================================================================ *)
(* 10. default settings, several roots                                                               *)
(* ================================================================================================ *)
Lemma default_find_in_never_backend root w p q s :
  good_root root -> find_in default_config root w p = FFound q ->
  In s backend_suffixes -> ~ pat_holds (Suffix s) q.
Proof.
  intros [Habs Hns] H Hs Hh.
  apply find_in_spec in H as [Hsj [_ Hex]]; [|exact Habs].
  destruct (safe_join_relpath root p q Habs Hns Hsj) as [segs [Hc [Eq Erel]]].
  apply is_path_valid_spec in Hex. rewrite Erel in Hex.
  destruct segs as [|a l].
  - simpl in Hex. rewrite default_rejects_dot in Hex. discriminate.
  - rewrite below_relname in Eq by discriminate. rewrite Eq in Hh.
    assert (Hsf : slashfree s).
    { pose proof backend_slashfree as B. rewrite forallb_forall in B. specialize (B s Hs).
      intros Hi. apply negb_true_iff in B. assert (existsb (N.eqb SLASH) s = true); [|congruence].
      apply existsb_exists. exists SLASH. split; [exact Hi | apply N.eqb_refl]. }
    apply pat_holds_below in Hh; [|exact Hsf].
    rewrite (default_never_backend _ s Hs Hh) in Hex. discriminate.
Qed.

Lemma default_returned_never_backend locs p q s :
  (forall l, In l locs -> good_root (loc_root l)) ->
  returned default_config locs p q \/ (exists p', serve default_config locs p' = SFile q) ->
  In s backend_suffixes -> ~ pat_holds (Suffix s) q.
Proof.
  intros Hg H Hs.
  assert (Hr : exists p0, returned default_config locs p0 q).
  { destruct H as [H|[p' H]]; [exists p; exact H|]. exists (serve_lookup p'). left. apply serve_file. exact H. }
  destruct Hr as [p0 Hr]. apply returned_by_some_location in Hr as [l [Hi Hf]].
  exact (default_find_in_never_backend _ _ p0 q s (Hg l Hi) Hf Hs).
Qed.

Lemma default_list_all_never_backend locs r f s :
  In (r, f) (finder_list_all default_config locs) \/ In (r, f) (collected default_config locs) ->
  In s backend_suffixes -> ~ pat_holds (Suffix s) f.
Proof.
  intros H Hs Hh.
  assert (Hl : In (r, f) (finder_list_all default_config locs)) by (destruct H as [H|H]; [exact H | apply collected_subset; exact H]).
  apply list_all_spec in Hl as [l [_ [_ [_ [_ Hex]]]]]. apply is_path_valid_spec in Hex.
  rewrite (default_never_backend f s Hs Hh) in Hex. discriminate.
Qed.
