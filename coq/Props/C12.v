(* Property C12 - parsing any tag terminates with success or TemplateSyntaxError.
   Only statements here; the model is TagParse/Model.v, the proofs are in TagParse/Proofs.v.

   What "terminates" means for the model: every `while` loop of parse_tag is a fuelled Fixpoint.  The fuel
   handed to each loop is linear in the input that is left when the loop starts (outer loop: |s|+1, container
   stack loop: |rest|+1, filter-parts loop: |rest|+2), and the theorems show it is never exhausted - i.e. each
   loop body runs at most that many times because every iteration consumes input or stops.  `parse_tag_iterations_linear`
   makes the amortised count explicit: over a whole parse the three loop bodies run at most 5*|s|+4 times in total.  The cost
   of one body in CPython (string concatenation, slicing, the helper scans over the rest of the text) is not modelled:
   it enters `parse_tag_steps_quadratic` as an explicit hypothesis, and the time clause is observed by the watchdog /
   scaling test of harness/c12.py.

   Round trip: `serialize_reparse` (documented grammar = C02's TagParse/Spec.v).  Whole templates: `template_lexing_total`
   (C09's Lexer model). *)
From DJC Require Import Lib.Base TagParse.Model TagParse.Proofs Gen.C12.
From DJC Require Import TagParse.Extra TagParse.Steps TagParse.Resolve TagParse.Spec TagParse.ParseProofs TagParse.RoundTrip
     TagParse.TemplateProofs.
From DJC Require Lexer.Model.
Import Coq.Strings.String.StringSyntax.
Delimit Scope string_scope with string.

(* ---- anchors: the constants and regex patterns the model was written for are those of the source ---- *)
Example tag_whitespace_anchor : Gen.C12.tag_whitespace = WS. Proof. reflexivity. Qed.
Example tag_filter_anchor : Gen.C12.tag_filter = FILTER. Proof. reflexivity. Qed.
Example tag_spread_anchor : Gen.C12.tag_spread = SPREAD. Proof. reflexivity. Qed.
Example max_nesting_depth_anchor : Gen.C12.max_nesting_depth = N.of_nat MAX_NESTING_DEPTH. Proof. reflexivity. Qed.
Example dynamic_expr_re_anchor : Gen.C12.dynamic_expr_re =
  s2n "^(?P<quote>['\""]).*?(?:(?:\{\{.*?\}\})|(?:\{%.*?%\})|(?:\{#.*?#\})).*?(?P=quote)$"%string
  /\ Gen.C12.dynamic_expr_re_flags = 32%N.
Proof. split; reflexivity. Qed.
Example take_until_patterns_anchor : Gen.C12.take_until_patterns =
  [s2n "(?:\\.|[^'])*"%string; s2n "(?:\\.|[^""])*"%string; s2n "[^'""]*"%string; s2n "[^'""%]*"%string].
Proof. reflexivity. Qed.

(* ---- parse_tag ---- *)
(* Totality with the linear fuel, and the exception class, in one statement (DESIGN section 6). *)
Theorem parse_tag_total : forall s : str,
  exists r, parse_tag s = r /\ r <> OutOfFuel /\ (forall k, r = Err k -> k = TemplateSyntaxError).
Proof.
  intro s. exists (parse_tag s). split; [reflexivity|]. split.
  - exact (parse_tag_total_lemma s).
  - exact (parse_tag_error_class_lemma s).
Qed.
Print Assumptions parse_tag_total.

(* No KeyError (meta["expects_key"]), no IndexError (stack[-1], entries[0], values_parts[-1]), nothing else. *)
Theorem parse_tag_raises_only_template_syntax_error : forall (s : str) (k : errkind),
  parse_tag s = Err k -> k = TemplateSyntaxError.
Proof. exact parse_tag_error_class_lemma. Qed.
Print Assumptions parse_tag_raises_only_template_syntax_error.

(* The mechanism named by the property: an iteration of the container-stack loop (which includes the whole
   filter-parts loop of one value) strictly advances the cursor, or raises, or ends the loop - whatever the
   frames on the stack are, as long as the root sits at the bottom and every dict frame has its meta key. *)
Theorem every_stack_iteration_advances : forall key c0 top below total c' stack' total',
  stack_ok (top :: below) ->
  stack_step key c0 top below total = SCont c' stack' total' ->
  length (rest c') < length (rest c0) /\ rev (done c') ++ rest c' = rev (done c0) ++ rest c0.
Proof.
  intros key c0 top below total c' stack' total' Hok H.
  pose proof (stack_step_spec key c0 top below total Hok) as Hs. rewrite H in Hs.
  destruct Hs as [[Ht Hl] _]. split; [exact Hl | exact Ht].
Qed.
Print Assumptions every_stack_iteration_advances.

(* `normalized` is the input itself: the scanner never drops, duplicates or reorders a character. *)
Theorem parse_tag_normalized_is_input : forall (s n : str) (a : list attr), parse_tag s = Ok (n, a) -> n = s.
Proof. exact parse_tag_normalized_lemma. Qed.
Print Assumptions parse_tag_normalized_is_input.

(* ---- serialize: recursion depth ---- *)
(* Since fix d8e2fba parse_tag refuses to push a list / dict when more than MAX_NESTING_DEPTH frames are on the
   stack, so every parsed attribute value has nesting depth <= MAX_NESTING_DEPTH + 1 (the +1 is the "simple"
   root wrapper) - for every input. *)
Theorem parsed_nesting_depth_bounded : forall (s n : str) (a : list attr),
  parse_tag s = Ok (n, a) -> attrs_depth a <= S MAX_NESTING_DEPTH.
Proof. exact parse_tag_depth_lemma. Qed.
Print Assumptions parsed_nesting_depth_bounded.

(* serialize needs exactly one Python-level nesting per level of the AST: with d levels available and an AST of
   depth <= d there is no RecursionError (any AST, parsed or not). *)
Theorem serialize_depth_suffices : forall (a : list attr) (d : nat),
  attrs_depth a <= d -> serialize_tag d a <> Err RecursionError.
Proof. intros a d. exact (serialize_tag_no_recursion_error d a). Qed.
Print Assumptions serialize_depth_suffices.

(* Hence, with CPython's default limit (1000 frames, two per level: 500 levels) serialising what parse_tag
   returned never overflows the stack - the full statement, no guard on the input. *)
Definition py_levels : nat := 500.
Theorem serialize_no_recursion_error : forall (s n : str) (a : list attr),
  parse_tag s = Ok (n, a) -> serialize_tag py_levels a <> Err RecursionError.
Proof.
  intros s n a H. apply serialize_tag_no_recursion_error.
  apply parse_tag_depth_lemma in H. unfold py_levels, MAX_NESTING_DEPTH in *. lia.
Qed.
Print Assumptions serialize_no_recursion_error.

(* the former witness of the defect (501 nested brackets, RecursionError in serialize) is now refused by the parser,
   while 100 nested brackets still parse and serialise *)
Definition deep_witness : str := repeat 91%N 501 ++ repeat 93%N 501.
Example deep_witness_rejected : parse_tag deep_witness = Err TemplateSyntaxError.
Proof. vm_compute. reflexivity. Qed.
Example depth_100_accepted :
  exists a, parse_tag (repeat 91%N 100 ++ repeat 93%N 100) = Ok (repeat 91%N 100 ++ repeat 93%N 100, a)
            /\ attrs_depth a = 100 /\ serialize_tag py_levels a = Ok (repeat 91%N 100 ++ repeat 93%N 100).
Proof. eexists. vm_compute. split; [reflexivity|]. split; reflexivity. Qed.
Example depth_101_rejected : parse_tag (repeat 91%N 101 ++ repeat 93%N 101) = Err TemplateSyntaxError.
Proof. vm_compute. reflexivity. Qed.

(* ---- the `{% ... %}` re-scanner of template_parser.py ---- *)
Theorem detailed_tag_parser_total : forall s : str,
  detailed_tag s <> OutOfFuel /\ (forall k, detailed_tag s = Err k -> k = TemplateSyntaxError).
Proof.
  intro s. pose proof (detailed_tag_spec s) as H. split.
  - intro E. rewrite E in H. exact H.
  - intros k E. rewrite E in H. exact H.
Qed.
Print Assumptions detailed_tag_parser_total.

(* ---- the time clause: number of loop-body executions ---- *)
(* parse_tag_t is parse_tag with counters for the bodies of its three `while` loops (attributes, container stack, filter
   parts); its first component is parse_tag itself. *)
Theorem counted_parse_is_parse_tag : forall s : str, fst (parse_tag_t s) = parse_tag s.
Proof. exact parse_tag_t_fst. Qed.
Print Assumptions counted_parse_is_parse_tag.

(* Amortised over the whole run - successful or not - the three loop bodies together execute at most 5*|s|+4 times: every
   execution is paid for by input that is consumed (the fuel alone would only give a product of the three budgets). *)
Theorem parse_tag_iterations_linear : forall s : str, parse_tag_iters s <= 5 * length s + 4.
Proof. exact parse_tag_iters_linear. Qed.
Print Assumptions parse_tag_iterations_linear.

(* Quadratic time = linear number of bodies x linear cost of one body.  The second factor is a HYPOTHESIS about CPython
   (helper scans, `normalized += token`, slices: each at most proportional to the text) - stated, not proved; the key scan that
   is rewound (`index -= len(key)`) makes a body cost proportional to the rest of the text, so quadratic is attained. *)
Theorem parse_tag_steps_quadratic : forall (body_cost : nat -> nat) (k : nat),
  (forall n, body_cost n <= k * (n + 1)) ->
  forall s : str, parse_tag_iters s * body_cost (length s) <= k * (5 * length s + 4) * (length s + 1).
Proof. exact parse_tag_cost_quadratic. Qed.
Print Assumptions parse_tag_steps_quadratic.

(* ---- the round-trip clause ---- *)
(* For every argument list `a` of the documented grammar (arglist_ok: C02's Spec.v) written under ANY layout `lay` (every
   insignificant white-space run, trailing commas): parse_tag accepts the text, the attributes serialise (TagAttr.serialize
   joined by single spaces, >= 102 recursion levels available), the canonical text parses again, and the second parse has
   the same keys and the same value ASTs as the first (start_index is the only field that may differ). *)
Theorem serialize_reparse : forall (allowed : list str) (lay : layout) (tag : str) (a : arglist) (d : nat),
  arglist_ok tag allowed a = true -> 101 < d ->
  exists attrs s attrs',
    parse_tag (print lay tag a) = Ok (print lay tag a, attrs)
    /\ serialize_tag d attrs = Ok s
    /\ parse_tag s = Ok (s, attrs')
    /\ map kv attrs' = map kv attrs.
Proof. exact serialize_reparse_lemma. Qed.
Print Assumptions serialize_reparse.

(* the canonical serialisation is the same argument list printed under the layout of serialize(): one space between
   arguments, after `,` and after the `:` of a dict pair, nothing elsewhere *)
Theorem serialization_is_canonical_printing : forall (allowed : list str) (tag : str) (a : arglist) (attrs : list attr) (d : nat),
  arglist_ok tag allowed a = true -> 101 < d ->
  map kv attrs = (None, tok_node tag) :: map item_kv (items_with_slash a) ->
  serialize_tag d attrs = Ok (print ser_layout tag a).
Proof. exact serialize_is_print. Qed.
Print Assumptions serialization_is_canonical_printing.

(* ---- "every template source" ---- *)
(* parse_template (C09's transliteration: restart loop + Django's DebugLexer + _detailed_tag_parser) returns tokens or one of
   the two TemplateSyntaxError messages of _detailed_tag_parser (Lexer.Model.perr) for every source and either setting of
   multiline_tags; the restart loop ends within |s|+1 iterations (surplus fuel changes nothing), each of which lexes the
   rest of the text once - a quadratic number of lexer steps at most. *)
Theorem template_lexing_total : forall (d : bool) (s : str),
  exists r, Lexer.Model.parse_template d s = r
            /\ ((exists toks, r = Lexer.Model.POk toks) \/ (exists e, r = Lexer.Model.PErr e))
            /\ forall k, Lexer.Model.pt_go (S (length s) + k) d s 0 0 None [] = r.
Proof.
  intros d s. exists (Lexer.Model.parse_template d s). split; [reflexivity|]. split.
  - exact (template_total_lemma d s).
  - exact (template_restarts_lemma d s).
Qed.
Print Assumptions template_lexing_total.

(* ---- the bits of a component tag: TagFormatter.parse (tag_formatter.py), which runs before parse_tag in the tag function ---- *)
(* ComponentFormatter.parse on the non-empty bit list of a tag: a component name and fewer bits than it was given, or
   TemplateSyntaxError.  Its tests are plain string primitives (`=` in the first bit, startswith name=, quotes at both ends),
   one pass over the bits: nothing here can take more than linear time - a regex in this place is outside the model. *)
Theorem component_formatter_total : forall tokens : list str, tokens <> [] ->
  match component_formatter_parse tokens with
  | Ok (_, final) => length final < length tokens
  | Err k => k = TemplateSyntaxError
  | OutOfFuel => False
  end.
Proof. exact component_formatter_total_lemma. Qed.
Print Assumptions component_formatter_total.

(* ---- non-vacuity ---- *)
Example parse_ok_example :
  exists a, parse_tag (s2n "component 'x' a=[1, *b] {""k"": v|f:2} ...d /"%string) = Ok (s2n "component 'x' a=[1, *b] {""k"": v|f:2} ...d /"%string, a)
            /\ length a = 6 /\ attrs_depth a = 1.
Proof. eexists. vm_compute. split; [reflexivity|]. split; reflexivity. Qed.
Example parse_err_example : parse_tag (s2n "a=[1, **b]"%string) = Err TemplateSyntaxError.
Proof. vm_compute. reflexivity. Qed.
Example stack_ok_example : stack_ok [mkframe TDict None [] (Some true); mkframe TList None [] None; root_frame].
Proof. repeat constructor; simpl; try discriminate. Qed.
Example detailed_ok_example :
  detailed_tag (s2n "{% component ""a %} b"" 'c' %} tail"%string) = Ok (s2n "component ""a %} b"" 'c'"%string, 28%N).
Proof. vm_compute. reflexivity. Qed.

(* the hypotheses of serialize_reparse are satisfiable, with nested literals, spreads, filters, a translation and a flag *)
Definition rt_example : arglist :=
  mkarglist [IPos (SLeaf (mkleaf (AStr 39%N (s2n "x"%string)) []));
             IKw (s2n "a"%string) (SList [(false, SLeaf (mkleaf (AVar (s2n "1"%string)) [])); (true, SLeaf (mkleaf (AVar (s2n "b"%string)) []))]);
             IPos (SDict [(Some (mkleaf (AStr 34%N (s2n "k"%string)) []),
                           SLeaf (mkleaf (AVar (s2n "v"%string)) [(s2n "f"%string, Some (AVar (s2n "2"%string)))]));
                          (None, SLeaf (mkleaf (AVar (s2n "d"%string)) []))]);
             ISpread (SLeaf (mkleaf (AVar (s2n "e"%string)) []));
             IPos (SLeaf (mkleaf (ATrans 34%N (s2n "t"%string)) []));
             IFlag (s2n "only"%string)] true.
Example rt_example_ok : arglist_ok (s2n "component"%string) [s2n "only"%string] rt_example = true.
Proof. vm_compute. reflexivity. Qed.
Example rt_example_text :
  print ser_layout (s2n "component"%string) rt_example
  = s2n "component 'x' a=[1, *b] {""k"": v|f:2, **d} ...e _(""t"") only /"%string.
Proof. vm_compute. reflexivity. Qed.
Example rt_example_roundtrip : roundtrip_ok (print ser_layout (s2n "component"%string) rt_example) = true.
Proof. vm_compute. reflexivity. Qed.
(* the linear bound is nearly attained: 4 bodies per character on `a a a ...`, and the counters of a small example *)
Example iterations_example : parse_tag_iters (s2n "a=[1, 2|f:3] 'x'|y"%string) = 15 /\ parse_tag_iters (s2n "a a a a a a a a"%string) = 32.
Proof. split; vm_compute; reflexivity. Qed.
Example template_example :
  template_obs true (s2n "a{% component ""x %} y"" %}b{{ v }}"%string) = Some (TToks 4 33)
  /\ template_obs true (s2n "{% slot 'a %}"%string) = Some (TErrString 39).
Proof. split; vm_compute; reflexivity. Qed.
Example formatter_example :
  component_formatter_parse [s2n "component"%string; s2n "a=1"%string; s2n "name='x'"%string] = Ok (s2n "x"%string, [s2n "a=1"%string])
  /\ component_formatter_parse [s2n "component"%string; s2n "aaaaaaaaaaaaaaaaaaaaaaaa"%string] = Err TemplateSyntaxError.
Proof. split; vm_compute; reflexivity. Qed.
