(* C01M - mechanism-level model M of the component renderer (Core/Mech.v: a transliteration of what the code does with
   Django's Context layer stack, render ids and component_context_cache), deepening C01 / C03 / C05, which are decided
   against the lexically scoped reference renderer S (Core/Sem.v).  Proofs in Core/MechProofs.v.
   Every run also compares M with the implementation and M with S on generated programs (harness/c01m.py). *)
From DJC Require Import Lib.Base Core.Syntax Core.Sem Core.Mech Core.MechProofs Core.MechDjango Core.MechIsoProv Core.MechPass Core.MechFor.
From DJC Require Gen.C01M.
From Coq Require Import String.
Local Open Scope string_scope.
Local Open Scope list_scope.

(* the internal keys of the model are the ones of the source tree under test (coq/Gen/C01M.v is regenerated from
   django_components/context.py and slots.py at the start of every run) *)
Example internal_keys_anchor :
  Gen.C01M.component_context_key = KEY /\ Gen.C01M.inject_key_prefix = INJ_PREFIX /\
  Gen.C01M.fill_gen_key = GEN_FILL /\ Gen.C01M.default_slot_key = default_key.
Proof. repeat split; reflexivity. Qed.

(* ===================== 1. every push has its pop ===================== *)
(* Whatever node is rendered - text, scopes, provide, slot tags (filled or not, with render_func's insert(i)/pop(i) at
   the computed index incl. i = -1), fill tags, component tags (fill extraction layer, isolated copy, data layer,
   internal-key layer), {{ default }} slot references - in whatever global state, on whatever Context (any layers, any
   internal keys), in either context behaviour, for any component library and any fuel: if the render succeeds, the
   Context is the same object with the same layer list as before.  (The failing path is C06's subject.) *)
Theorem ctx_restored : forall md lib fuel g c t a g' c',
  mrender md lib fuel g c t = MOk (a, g', c') -> c' = c.
Proof. exact ctx_restored_lemma. Qed.
Print Assumptions ctx_restored.

Theorem ctx_restored_list : forall md lib fuel ts g c a g' c',
  mrender_list md lib fuel g c ts = MOk (a, g', c') -> c' = c.
Proof. exact ctx_restored_list_lemma. Qed.
Print Assumptions ctx_restored_list.

(* ===================== 2. fills are private to their instance ===================== *)
(* write side: rendering anything never changes the component name, the fills or the outer Context of a
   component_context_cache entry that exists already, never creates an entry under an id that was handed out before,
   and ids only grow - so the fills stored at a component tag under its fresh render id stay what they were for the
   whole life of the instance, whatever other instances are rendered meanwhile (both modes, all programs) *)
Theorem fills_private_to_instance : forall md lib fuel g c t a g' c',
  mrender md lib fuel g c t = MOk (a, g', c') ->
  (g_next g <= g_next g')%N /\
  forall j, (j < g_next g)%N ->
    match alookup j (g_cctx g) with
    | Some ci => exists ci', alookup j (g_cctx g') = Some ci' /\ ci_name ci' = ci_name ci /\
                             ci_fills ci' = ci_fills ci /\ ci_outer ci' = ci_outer ci
    | None => alookup j (g_cctx g') = None
    end.
Proof. exact cctx_stable_lemma. Qed.
Print Assumptions fills_private_to_instance.

(* read side, ALL instances (tag-created or not), both modes, any layer list, any other cache content: a slot tag that
   finds id `rid` under _DJC_COMPONENT_CTX and entry `ci` under that id renders exactly the slot function stored in
   `ci` under its fill name (`default` for the flagged slot when such a fill exists), on the Context the mode prescribes;
   nothing else of the cache occurs on the right-hand side.  (Since /repo 7d75a37 there is no index search over the
   layer list any more that could substitute another instance's fills.) *)
Theorem fills_looked_up_by_id_only : forall md rec name isd isr data body g c kwv rid ci g1 sf,
  mkwargs data (dicts c) = Some kwv -> is_extracting (dicts c) = false ->
  cget KEY (dicts c) = Some (CId rid) -> alookup rid (g_cctx g) = Some ci ->
  slot_default_check rid ci name isd g = MOk g1 ->
  isd && negb (str_eqb name default_key) && smem name (ci_fills ci) && smem default_key (ci_fills ci) = false ->
  slookup (if isd && smem default_key (ci_fills ci) then default_key else name) (ci_fills ci) = Some sf ->
  mslot md rec name isd isr data body g c =
    mbind (slot_extra md ci true (dicts c)) (fun extra =>
      if is_django md then
        mbind (m_render_func rec sf (VRec kwv) (CSlotRef body (oid c) (oid c) (dicts c) (slot_rvars (dicts c))) g1
                 (with_dicts c (cpush extra (dicts c)))) (fun '(a, g3, c2) => MOk (a, g3, with_dicts c2 (cpop (dicts c2))))
      else
        let '(used, g2) := match ci_outer ci with
                           | Some o => (o, g1)
                           | None => let '(o, g') := fresh g1 in ({| oid := o; dicts := [builtins] |}, g')
                           end in
        mbind (m_render_func rec sf (VRec kwv) (CSlotRef body (oid c) (oid used) (dicts c) (slot_rvars (dicts c))) g2
                 (with_dicts used (cpush extra (dicts used)))) (fun '(a, g3, _) => MOk (a, g3, c))).
Proof. exact mslot_filled_lemma. Qed.
Print Assumptions fills_looked_up_by_id_only.

(* ... and when that entry has no fill under the fill name: TemplateSyntaxError if `required`, else the slot's OWN
   default content on its own Context (so slots nested in it find the same id again) *)
Theorem unfilled_slot_renders_own_default_mech : forall md rec name isd data body g c kwv rid ci g1,
  mkwargs data (dicts c) = Some kwv -> is_extracting (dicts c) = false ->
  cget KEY (dicts c) = Some (CId rid) -> alookup rid (g_cctx g) = Some ci ->
  slot_default_check rid ci name isd g = MOk g1 ->
  isd && negb (str_eqb name default_key) && smem name (ci_fills ci) && smem default_key (ci_fills ci) = false ->
  slookup (if isd && smem default_key (ci_fills ci) then default_key else name) (ci_fills ci) = None ->
  mslot md rec name isd true data body g c = MErr ETemplateSyntax /\
  mslot md rec name isd false data body g c =
    mbind (slot_extra md ci false (dicts c)) (fun extra =>
      mbind (m_render_func rec (unfilled_fn body) (VRec kwv) (CSlotRef body (oid c) (oid c) (dicts c) (slot_rvars (dicts c))) g1
               (with_dicts c (cpush extra (dicts c)))) (fun '(a, g3, c2) => MOk (a, g3, with_dicts c2 (cpop (dicts c2))))).
Proof. exact mslot_unfilled_lemma. Qed.
Print Assumptions unfilled_slot_renders_own_default_mech.

(* ===================== 3. M refines S ===================== *)
(* For every program of the fragment wf_prog and every fuel, the mechanism model and the lexically scoped reference
   renderer give the same result: same output, same error class, same out-of-fuel.  Unbounded: any number of
   components, any nesting depth, by induction on the fuel and on the templates.
   wf_prog (decidable, Core/Mech.v): isolated context behaviour (the `only` flag is then immaterial); templates built
   from text, {{ }}, if, with, slot tags (named / default / required / repeated / nested in slot defaults, slot data,
   component_vars.is_filled), component tags with keyword arguments and any body (none, implicit default, named fills,
   conditional, with-bound and dynamically named fills, data= aliases, components nested in fills to any depth);
   binders are identifiers that shadow no visible name and no internal key; one name for the slots flagged `default`
   per template.
   _partial - NOT covered by the proof (covered by the per-run comparison M vs S and M vs implementation only):
   django mode (see mech_refines_sem_django_partial below); {% provide %} / inject (see
   mech_refines_sem_isolated_provide_partial below); pass-through slots (see mech_refines_sem_isolated_passthrough_partial
   below); {% for %} at template level (see mech_refines_sem_isolated_for_partial below); the default= alias ({{ default }} SlotRef); slot tags and is_filled
   tests written inside the body of a component tag (pass-through slots). *)
Theorem mech_refines_sem_isolated_partial : forall p fuel,
  wf_prog p = true -> mout_of (mrender_prog fuel p) = embed (render_prog fuel p).
Proof. exact mech_refines_sem_isolated_lemma. Qed.
Print Assumptions mech_refines_sem_isolated_partial.

(* The same in DJANGO mode (dynamic scoping: a component template also sees what was visible at its tag, fill content
   runs on the slot's Context with the component key overridden by the fill owner's).
   wf_prog_django (decidable, Core/Mech.v): django context behaviour, no `only` flag; the node kinds of wf_prog; and
   no with-variable bound inside the body of a component tag bears the name of a page variable, of a get_context_data
   variable or of a with-variable bound at template level (pairwise distinct binder names imply this; any other
   shadowing - recursion included - is allowed, S and M order the layers alike).  That condition is exactly where the
   mechanism deviates from S otherwise: render_func inserts the variables captured between tag and fill ABOVE the
   inner component's data layer (C03 class c03-django-fill-variables-inserted-above-inner-component-data).
   _partial: for / provide / default= alias / pass-through slots / `only` are not covered by the proof. *)
Theorem mech_refines_sem_django_partial : forall p fuel,
  wf_prog_django p = true -> mout_of (mrender_prog fuel p) = embed (render_prog fuel p).
Proof. exact mech_refines_sem_django_lemma. Qed.
Print Assumptions mech_refines_sem_django_partial.

(* Isolated mode, the fragment WIDENED by {% provide %} and inject() (wf_prog_prov = wf_prog + provide tags anywhere:
   page, templates, slot defaults, component-tag bodies, fill content, any key - a non-identifier key raises in both
   models - + get_context_data calling inject() with or without default).  This is C05's "inject returns the nearest
   enclosing provide of the rendered structure" at mechanism level: S's provider environment (nearest first; for fill
   content: the providers around the slot, then those around the component tag) = M's _DJC_INJECT__<key> entries as
   they travel through ProvideNode's layer, make_isolated_context_copy, the layer SlotNode.render pushes
   (Context.flatten()), snapshots, + provide_cache.  (provide_cache entry LIFETIME is C05's Provide model, not M.)
   _partial: for / default= alias / pass-through slots are not covered. *)
Theorem mech_refines_sem_isolated_provide_partial : forall p fuel,
  wf_prog_prov p = true -> mout_of (mrender_prog fuel p) = embed (render_prog fuel p).
Proof. exact mech_refines_sem_isolated_provide_lemma. Qed.
Print Assumptions mech_refines_sem_isolated_provide_partial.

(* Isolated mode, the fragment WIDENED by PASS-THROUGH SLOTS (wf_prog_pass = wf_prog, except that slot tags - named /
   default / required, with default content and slot data - and component_vars.is_filled reads may also be written inside
   the body of a component tag: fill content, implicit default content, also between tag and fill where they render
   nothing; the `default`-flagged slot tags written anywhere in one template, tag bodies included, bear one name).
   Such a slot belongs to the instance whose template contains the component tag (S: the closure's owner); M finds that
   instance's id under _DJC_COMPONENT_CTX of the outer Context snapshot the fill content is rendered on, and its fills in
   component_context_cache under that id.  Any nesting depth (a passed-through slot filled by content that passes a slot
   of the next enclosing instance through, ...).  Proof: ghost map render id -> S instance (Core/MechPass.v).
   _partial: for / provide / default= alias are not covered (provide: see the theorem above, not combined). *)
Theorem mech_refines_sem_isolated_passthrough_partial : forall p fuel,
  wf_prog_pass p = true -> mout_of (mrender_prog fuel p) = embed (render_prog fuel p).
Proof. exact mech_refines_sem_isolated_passthrough_lemma. Qed.
Print Assumptions mech_refines_sem_isolated_passthrough_partial.

(* Isolated mode, the fragment WIDENED by {% for %} AT TEMPLATE LEVEL (wf_prog_for = wf_prog + loops over any
   expression of the fragment - a page / data list variable - in page and component templates, also inside slot defaults,
   if / with and other loops; a loop body may contain text, {{ x }} / {{ forloop.counter }}, if, with, nested loops and
   slot tags (filled: the fill is rendered on the instance's outer Context, without the loop layer; unfilled: the default
   content sees the loop variable and counter).  ForNode's single layer {forloop, x}, rewritten per iteration, = S's
   per-iteration bindings of x and the counter.
   _partial, NOT covered: a component tag inside a loop body (the isolated copy forwards the loop layer into the
   component and fills re-capture it: C03's recorded deviations, M != S without a name condition), a loop inside the
   body of a component tag (looped fills), and no combination with provide / pass-through slots. *)
Theorem mech_refines_sem_isolated_for_partial : forall p fuel,
  wf_prog_for p = true -> mout_of (mrender_prog fuel p) = embed (render_prog fuel p).
Proof. exact mech_refines_sem_isolated_for_lemma. Qed.
Print Assumptions mech_refines_sem_isolated_for_partial.

(* ---------- non-vacuity ---------- *)
(* a program of the fragment: nested components, a slot nested in another slot's default, a required slot, the default
   flag, slot data read through a data= alias, a with-bound dynamically named fill, a conditional fill, an implicit
   default body containing a component tag, is_filled *)
Definition ex_inner : cdef :=
  {| c_tpl := [TText (s2n "<"); TOut (EVar (s2n "d"));
               TSlot (s2n "a") false false [(s2n "k", EVar (s2n "d"))]
                 [TText (s2n "A-default["); TSlot (s2n "b") true false [] [TText (s2n "B-default")]; TText (s2n "]")];
               TOut (EFilled (s2n "a")); TText (s2n ">")];
     c_data := [(s2n "d", DKw (s2n "x"))] |}.
Definition ex_outer : cdef :=
  {| c_tpl := [TText (s2n "{");
               TWith (s2n "w") (EStr (s2n "a"))
                 [TComp (s2n "inner") [(s2n "x", EVar (s2n "e"))] false
                    [TWith (s2n "nm") (EVar (s2n "w"))
                       [TFill (EVar (s2n "nm")) (Some (s2n "sd")) None
                          [TText (s2n "fill:"); TOut (EDot (s2n "sd") (s2n "k")); TOut (EVar (s2n "nm")); TOut (EVar (s2n "e"));
                           TComp (s2n "inner") [(s2n "x", EStr (s2n "deep"))] true [TText (s2n "implicit")]]];
                     TIf (EVar (s2n "e")) [TFill (EStr (s2n "unused")) None None [TText (s2n "never")]] []]];
               TSlot (s2n "req") false true [] []; TText (s2n "}")];
     c_data := [(s2n "e", DKw (s2n "y"))] |}.
Definition ex_prog : prog :=
  {| p_lib := [(s2n "outer", ex_outer); (s2n "inner", ex_inner)];
     p_page := [TText (s2n "P:");
                TComp (s2n "outer") [(s2n "y", EVar (s2n "p"))] false [TFill (EStr (s2n "req")) None None [TOut (EVar (s2n "p"))]]];
     p_ctx := [(s2n "p", VStr (s2n "V"))]; p_mode := Isolated |}.

Example refinement_premise_satisfiable :
  wf_prog ex_prog = true /\
  mout_of (mrender_prog 30 ex_prog) = MOk (s2n "P:{<Vfill:VaV<deepA-default[implicit]False>True>V}").
Proof. vm_compute. split; reflexivity. Qed.

(* loops: a page-level loop; a component template looping over its data list around forloop.counter, the loop variable,
   a slot tag with slot data (filled by the page / unfilled: default content reads the loop variable and counter) and a
   nested loop; after the loop forloop.counter is empty again.  The page's fill content does not see the loop variable. *)
Definition ex_row : cdef :=
  {| c_tpl := [TText (s2n "(");
               TFor (s2n "it") (EVar (s2n "items"))
                 [TOut ECounter; TText (s2n ":"); TOut (EVar (s2n "it"));
                  TSlot (s2n "cell") false false [(s2n "k", EVar (s2n "it"))] [TText (s2n "="); TOut (EVar (s2n "it")); TOut ECounter];
                  TFor (s2n "j") (EVar (s2n "items")) [TOut ECounter]; TText (s2n ";")];
               TSlot (s2n "foot") false false [] [TText (s2n "nofoot")]; TOut ECounter; TText (s2n ")")];
     c_data := [(s2n "items", DKw (s2n "xs"))] |}.
Definition ex_for (fills : list tpl) : prog :=
  {| p_lib := [(s2n "row", ex_row)];
     p_page := [TFor (s2n "p") (EVar (s2n "ps")) [TText (s2n "p"); TOut ECounter];
                TComp (s2n "row") [(s2n "xs", EVar (s2n "ps"))] false fills];
     p_ctx := [(s2n "ps", VList [VStr (s2n "a"); VStr (s2n "b")])]; p_mode := Isolated |}.
Definition ex_for_fill : list tpl :=
  [TFill (EStr (s2n "cell")) (Some (s2n "d")) None [TText (s2n "["); TOut (EDot (s2n "d") (s2n "k")); TOut (EVar (s2n "it")); TText (s2n "]")]].
Example for_refinement_premise_satisfiable :
  wf_prog_for (ex_for ex_for_fill) = true /\ wf_prog (ex_for ex_for_fill) = false /\
  mout_of (mrender_prog 30 (ex_for ex_for_fill)) = MOk (s2n "p1p2(1:a[a]12;2:b[b]12;nofoot)") /\
  wf_prog_for (ex_for []) = true /\ mout_of (mrender_prog 30 (ex_for [])) = MOk (s2n "p1p2(1:a=a112;2:b=b212;nofoot)").
Proof. vm_compute. repeat split; reflexivity. Qed.

(* pass-through slots: component mid fills leaf's slot with content that contains mid's OWN slot "t" (default-flagged,
   slot data taken from leaf's slot data, default content with a nested slot "u") and reads is_filled.u; a second leaf tag
   has an implicit body with mid's required slot "u".  The page fills mid's slots: all of them / only "u" / none
   (-> the required passed-through slot raises).  The first program is outside wf_prog. *)
Definition ex_leaf : cdef :=
  {| c_tpl := [TText (s2n "["); TSlot (s2n "s") true false [(s2n "k", EVar (s2n "cd"))] [TText (s2n "leaf-default")]; TText (s2n "]")];
     c_data := [(s2n "cd", DStr (s2n "CD"))] |}.
Definition ex_mid : cdef :=
  {| c_tpl := [TText (s2n "(");
               TComp (s2n "leaf") [] false
                 [TFill (EStr (s2n "s")) (Some (s2n "sd")) None
                    [TText (s2n "fill("); TOut (EFilled (s2n "u"));
                     TSlot (s2n "t") true false [(s2n "k", EDot (s2n "sd") (s2n "k"))]
                       [TText (s2n "t-default["); TSlot (s2n "u") false false [] [TText (s2n "u-default")]; TText (s2n "]")];
                     TText (s2n ")")]];
               TComp (s2n "leaf") [] false [TText (s2n "implicit:"); TSlot (s2n "u") false true [] []];
               TText (s2n ")")];
     c_data := [] |}.
Definition ex_pass (fills : list tpl) : prog :=
  {| p_lib := [(s2n "mid", ex_mid); (s2n "leaf", ex_leaf)];
     p_page := [TComp (s2n "mid") [] false fills]; p_ctx := [(s2n "p", VStr (s2n "V"))]; p_mode := Isolated |}.
Definition ex_pass_f1 : list tpl :=
  [TFill (EStr (s2n "default")) (Some (s2n "x")) None [TText (s2n "PAGE-T:"); TOut (EDot (s2n "x") (s2n "k")); TOut (EVar (s2n "p"))];
   TFill (EStr (s2n "u")) None None [TText (s2n "PAGE-U")]].
Definition ex_pass_f2 : list tpl := [TFill (EStr (s2n "u")) None None [TText (s2n "U2")]].
Example passthrough_refinement_premise_satisfiable :
  wf_prog_pass (ex_pass ex_pass_f1) = true /\ wf_prog (ex_pass ex_pass_f1) = false /\
  mout_of (mrender_prog 30 (ex_pass ex_pass_f1)) = MOk (s2n "([fill(TruePAGE-T:CDV)][implicit:PAGE-U])") /\
  wf_prog_pass (ex_pass ex_pass_f2) = true /\
  mout_of (mrender_prog 30 (ex_pass ex_pass_f2)) = MOk (s2n "([fill(Truet-default[U2])][implicit:U2])") /\
  wf_prog_pass (ex_pass []) = true /\ mout_of (mrender_prog 30 (ex_pass [])) = MErr ETemplateSyntax.
Proof. vm_compute. repeat split; reflexivity. Qed.

(* provide / inject: fill content injects the provider around the SLOT (INNER) before the one around the tag (PAGE); a
   provide written between the component tag and the fill does not reach the fill content (NOPB); after the inner
   provide block the page-level one is back; slot default content sees the inner one ([V]); outside: the default *)
Definition ex_i : cdef :=
  {| c_tpl := [TText (s2n "["); TOut (EVar (s2n "d")); TText (s2n "]")];
     c_data := [(s2n "d", DInject (s2n "pa") (s2n "f") (Some (s2n "DF")))] |}.
Definition ex_j (dflt : option str) : cdef :=
  {| c_tpl := [TOut (EVar (s2n "e"))]; c_data := [(s2n "e", DInject (s2n "pb") (s2n "f") dflt)] |}.
Definition ex_c : cdef :=
  {| c_tpl := [TProvide (s2n "pa") [(s2n "f", EVar (s2n "v"))]
                 [TSlot (s2n "s") false false [] [TComp (s2n "i") [] false []]];
               TComp (s2n "i") [] false []];
     c_data := [(s2n "v", DKw (s2n "a"))] |}.
Definition ex_prov (dflt : option str) : prog :=
  {| p_lib := [(s2n "c", ex_c); (s2n "i", ex_i); (s2n "j", ex_j dflt)];
     p_page := [TProvide (s2n "pa") [(s2n "f", EStr (s2n "PAGE"))]
                  [TComp (s2n "c") [(s2n "a", EStr (s2n "INNER"))] false
                     [TProvide (s2n "pb") [(s2n "f", EStr (s2n "B"))]
                        [TFill (EStr (s2n "s")) None None [TComp (s2n "i") [] false []; TComp (s2n "j") [] false []]]];
                   TComp (s2n "c") [(s2n "a", EVar (s2n "p"))] false []];
                TComp (s2n "i") [] false []];
     p_ctx := [(s2n "p", VStr (s2n "V"))]; p_mode := Isolated |}.
Example provide_refinement_premise_satisfiable :
  wf_prog_prov (ex_prov (Some (s2n "NOPB"))) = true /\
  mout_of (mrender_prog 30 (ex_prov (Some (s2n "NOPB")))) = MOk (s2n "[INNER]NOPB[PAGE][V][PAGE][DF]") /\
  wf_prog_prov (ex_prov None) = true /\ mout_of (mrender_prog 30 (ex_prov None)) = MErr EKey.
Proof. vm_compute. repeat split; reflexivity. Qed.

(* django mode: the inner component reads the outer component's variable e, fill content reads the inner component's d,
   the page-level fill reads outer's e - dynamic scoping, same in M and S *)
Definition ex_inner_dj : cdef :=
  {| c_tpl := [TText (s2n "<"); TOut (EVar (s2n "d")); TOut (EVar (s2n "e"));
               TSlot (s2n "a") false false [(s2n "k", EVar (s2n "d"))]
                 [TText (s2n "A-default["); TSlot (s2n "b") true false [] [TText (s2n "B-default")]; TText (s2n "]")];
               TOut (EFilled (s2n "a")); TText (s2n ">")];
     c_data := [(s2n "d", DKw (s2n "x"))] |}.
Definition ex_outer_dj : cdef :=
  {| c_tpl := [TText (s2n "{");
               TWith (s2n "w") (EStr (s2n "a"))
                 [TComp (s2n "inner") [(s2n "x", EVar (s2n "e"))] false
                    [TWith (s2n "nm") (EVar (s2n "w"))
                       [TFill (EVar (s2n "nm")) (Some (s2n "sd")) None
                          [TText (s2n "fill:"); TOut (EDot (s2n "sd") (s2n "k")); TOut (EVar (s2n "nm")); TOut (EVar (s2n "d"));
                           TComp (s2n "inner") [(s2n "x", EStr (s2n "deep"))] false [TText (s2n "implicit"); TOut (EVar (s2n "d"))]]];
                     TIf (EVar (s2n "e")) [TFill (EStr (s2n "unused")) None None [TText (s2n "never")]] []]];
               TSlot (s2n "req") false true [] []; TText (s2n "}")];
     c_data := [(s2n "e", DKw (s2n "y"))] |}.
Definition ex_prog_dj : prog :=
  {| p_lib := [(s2n "outer", ex_outer_dj); (s2n "inner", ex_inner_dj)];
     p_page := [TText (s2n "P:");
                TComp (s2n "outer") [(s2n "y", EVar (s2n "p"))] false
                  [TFill (EStr (s2n "req")) None None [TOut (EVar (s2n "p")); TOut (EVar (s2n "e"))]]];
     p_ctx := [(s2n "p", VStr (s2n "V"))]; p_mode := Django |}.
Example django_refinement_premise_satisfiable :
  wf_prog_django ex_prog_dj = true /\
  mout_of (mrender_prog 30 ex_prog_dj) = MOk (s2n "P:{<VVfill:VaV<deepVA-default[implicitdeep]False>True>VV}").
Proof. vm_compute. split; reflexivity. Qed.
(* the witness below violates exactly the name condition of wf_prog_django *)
(* M is a model of the CODE: where the implementation deviates from the lexical reference (variable-name collisions),
   M deviates with it.  Django mode: the variables captured between tag and fill are inserted ABOVE the data layer of
   the slot's component, so they shadow it (S: inner data first); recorded class
   c03-django-fill-variables-inserted-above-inner-component-data. *)
Definition ex_collide : prog :=
  {| p_lib := [(s2n "o", {| c_tpl := [TComp (s2n "c") [] false
                                        [TWith (s2n "x") (EStr (s2n "between")) [TFill (EStr (s2n "s")) None None [TOut (EVar (s2n "x"))]]]];
                            c_data := [] |});
               (s2n "c", {| c_tpl := [TSlot (s2n "s") false false [] []]; c_data := [(s2n "x", DStr (s2n "inner"))] |})];
     p_page := [TComp (s2n "o") [] false []]; p_ctx := []; p_mode := Django |}.
Example mechanism_reproduces_layer_order_deviation :
  mout_of (mrender_prog 30 ex_collide) = MOk (s2n "between") /\ render_prog 30 ex_collide = Ok (s2n "inner") /\
  wf_prog_django ex_collide = false.
Proof. vm_compute. repeat split; reflexivity. Qed.
