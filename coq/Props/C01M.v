(* C01M - mechanism-level model of the component renderer (deepens C01/C03/C05). *)
From DJC Require Import Lib.Base Core.Syntax Core.Sem Core.Mech Core.MechProofs.
