(* Property C05 - inject() returns the nearest enclosing {% provide %} of the rendered structure.
   Layer S: statements about the reference renderer Core/Sem.v (what the implementation's output is compared with on
            every run), through the structure-scoped renderer of Provide/Scope.v; proofs in Provide/ScopeProofs.v.
   Layer M: statements about the transliteration of perfutil/provide.py (Provide/Model.v) run on the event trace the
            deferred render order produces for ANY well-formed render tree; proofs in Provide/Proofs.v. *)
From DJC Require Import Lib.Base Core.Syntax Core.Sem Provide.Scope Provide.ScopeProofs Provide.Model Provide.Proofs.

(* ============================== Layer S ============================== *)

(* Sem's renderer (providers kept in the state and in fill closures) and the renderer that hands the stack of
   currently-open provide blocks down the render recursion - the rendered structure - produce the same text or the
   same error, for every mode, library, fuel, template, and every state whose provider environment is that stack
   (possibly followed by entries every lookup skips).  Induction over the fuel and the template. *)
Theorem sem_provider_scope_is_rendered_structure : forall md lib fuel stk st t,
  scope_inv st stk -> res_map flatten (renderT md lib fuel stk st t) = render md lib fuel st t.
Proof. exact render_agree. Qed.
Print Assumptions sem_provider_scope_is_rendered_structure.

Theorem program_output_is_structure_scoped : forall fuel p,
  render_prog fuel p = res_map flatten (renderT_prog fuel p).
Proof. exact render_prog_agree. Qed.
Print Assumptions program_output_is_structure_scoped.

(* In the tree the structure-scoped renderer builds, every component instance - in component templates, isolated or
   not, slot defaults, fill bodies, loop iterations, at any depth - computed its data (inject included) from the
   records of the provide nodes ABOVE IT IN THE TREE, nearest first. *)
Theorem rendered_tree_injects_from_enclosing_providers : forall md lib fuel stk st t tr,
  renderT md lib fuel stk st t = Ok tr -> trees_ok lib stk tr.
Proof. exact renderT_ok. Qed.
Print Assumptions rendered_tree_injects_from_enclosing_providers.

(* Together, for whole programs: a successful reference render is the text of such a tree. *)
Theorem inject_key_is_nearest_provider : forall fuel p s,
  render_prog fuel p = Ok s ->
  exists tr, renderT_prog fuel p = Ok tr /\ flatten tr = s /\ trees_ok (p_lib p) [] tr.
Proof. exact render_prog_tree. Qed.
Print Assumptions inject_key_is_nearest_provider.

(* What a fill body sees: the providers around the SLOT where it is rendered, then - isolated mode / `only` - those
   around the component tag where it was written; django mode: those around the slot (which contain the tag's). *)
Theorem fill_sees_slot_providers_then_tag_providers : forall st al body btw cloc cout dv defv owner cprov,
  prov (fill_state true st al (Clo body btw cloc cout dv defv owner cprov)) = prov st ++ cprov /\
  prov (fill_state false st al (Clo body btw cloc cout dv defv owner cprov)) = prov st.
Proof. exact fill_state_prov_lemma. Qed.
Print Assumptions fill_sees_slot_providers_then_tag_providers.

(* ... and therefore, in every state the renderer can reach (scope_inv), what a fill body can inject is exactly the stack of
   provide blocks around the slot where it is rendered: the tag's providers never win over it nor add to it *)
Theorem fill_providers_are_slot_stack : forall st stk cn fills iso k c aliases key,
  scope_inv st stk -> cur st = Some (Inst cn fills iso) -> slookup k fills = Some c ->
  slookup key (prov (fill_state iso st aliases c)) = slookup key stk.
Proof. exact fill_providers_are_slot_stack_lemma. Qed.
Print Assumptions fill_providers_are_slot_stack.

(* inject(key) returns the record of the FIRST entry with that key (an outer provider of the same key is shadowed);
   a field the provide tag did not pass raises AttributeError *)
Theorem inject_returns_nearest_shadowing_outer : forall a b key record field dflt,
  ~ In key (map fst a) ->
  inject_result (a ++ (key, record) :: b) key field dflt =
  match slookup field record with Some v => Ok v | None => Err EAttribute end.
Proof. exact inject_nearest_lemma. Qed.
Print Assumptions inject_returns_nearest_shadowing_outer.

(* outside every provider of the key: the default, or KeyError *)
Theorem default_or_keyerror_outside : forall pv key field dflt,
  ~ In key (map fst pv) ->
  inject_result pv key field dflt = match dflt with Some d => Ok (VStr d) | None => Err EKey end.
Proof. exact inject_outside_lemma. Qed.
Print Assumptions default_or_keyerror_outside.

(* inject_result is what get_context_data does for an inject entry *)
Theorem eval_data_inject_is_inject_result : forall x key field dflt ds kw pv,
  eval_data ((x, DInject key field dflt) :: ds) kw pv =
  bind (inject_result pv key field dflt) (fun v => bind (eval_data ds kw pv) (fun rest => Ok (rest ++ [(x, v)]))).
Proof. exact eval_data_inject. Qed.
Print Assumptions eval_data_inject_is_inject_result.

(* the injected object carries exactly the provide tag's evaluated keyword arguments: end to end, for every state,
   mode, `only`, whatever is provided further out *)
Theorem inject_payload_exact : forall md lib f st key kw fld e cname x only dflt,
  is_ident key = true ->
  slookup cname lib = Some {| c_tpl := [TOut (EVar x)]; c_data := [(x, DInject key fld dflt)] |} ->
  slookup fld kw = Some e ->
  render md lib (S (S (S f))) st (TProvide key kw [TComp cname [] only []]) = Ok (print_x (XV (to_value (eval e st)))).
Proof. exact inject_payload_exact_lemma. Qed.
Print Assumptions inject_payload_exact.

(* provided values never become template variables: expressions do not read the provider environment ... *)
Theorem provided_not_template_vars : forall pv st e x,
  eval e (with_prov pv st) = eval e st /\ lookup x (with_prov pv st) = lookup x st.
Proof. exact not_template_vars_lemma. Qed.
Print Assumptions provided_not_template_vars.

(* ... and when no component calls inject(), provide blocks are transparent: the output is the one obtained with the
   provide stack replaced by any other one (induction over fuel and template) *)
Theorem provide_transparent_without_inject : forall md lib fuel st stk stk' t,
  no_inject lib -> scope_inv st stk ->
  render md lib fuel st t = res_map flatten (renderT md lib fuel stk' st t).
Proof. exact provide_transparent_lemma. Qed.
Print Assumptions provide_transparent_without_inject.

(* ============================== Layer M ============================== *)

(* For every well-formed render tree - any number of sibling consumers, any nesting, root-level components rendered
   inside the provider body and nested ones only after it has exited - whenever a component dereferences a provide id
   in inject(), provide_cache still holds the entry. *)
Theorem provide_entry_live_at_inject : forall page pre r p post,
  wf_page page = true -> trace_of page = pre ++ CInject r p :: post ->
  exists s, run true empty_state pre = Some s /\ In p (cache s).
Proof. exact live_at_inject_lemma. Qed.
Print Assumptions provide_entry_live_at_inject.

(* the same at registration: every provide id a component's context carries is alive when the component registers *)
Theorem provide_ids_live_at_register : forall page pre r vis post,
  wf_page page = true -> trace_of page = pre ++ CReg r vis :: post ->
  exists s, run true empty_state pre = Some s /\ forall p, In p vis -> In p (cache s).
Proof. exact live_at_register_lemma. Qed.
Print Assumptions provide_ids_live_at_register.

(* no table operation raises, and afterwards provide_cache, provide_references, all_reference_ids (and the stack of
   context-manager frames) are empty *)
Theorem tables_empty_after_render : forall page,
  wf_page page = true -> run true empty_state (trace_of page) = Some empty_state.
Proof. exact tables_empty_lemma. Qed.
Print Assumptions tables_empty_after_render.

(* at every point of the trace an entry is in provide_cache exactly while its reference set has a member *)
Theorem entry_present_iff_referenced : forall page pre post,
  wf_page page = true -> trace_of page = pre ++ post ->
  exists s, run true empty_state pre = Some s /\
    (forall p, In p (cache s) <-> exists h l, alookup p (refs s) = Some l /\ In h l) /\
    (forall p l, alookup p (refs s) = Some l -> l <> []).
Proof. exact entry_iff_referenced_lemma. Qed.
Print Assumptions entry_present_iff_referenced.

(* an entry disappears at the step after which its reference set is gone (it had a member before), and stays as long
   as the set is there *)
Theorem entry_deleted_exactly_when_last_reference_goes : forall page pre e post p,
  wf_page page = true -> trace_of page = pre ++ e :: post ->
  exists s s', run true empty_state pre = Some s /\ step true s e = Some s' /\
    (In p (cache s) -> ~ In p (cache s') ->
       (exists h l, alookup p (refs s) = Some l /\ In h l) /\ alookup p (refs s') = None) /\
    (In p (cache s) -> alookup p (refs s') <> None -> In p (cache s')).
Proof. exact deleted_when_last_reference_goes_lemma. Qed.
Print Assumptions entry_deleted_exactly_when_last_reference_goes.

(* The protocol before /repo 9b964de (the provider holds no reference of its own) violates liveness already for two
   root-level siblings under one provider: the theorem above is not vacuous, and the self reference is what it needs. *)
Theorem liveness_without_self_reference_refuted :
  exists page pre r p post s,
    wf_page page = true /\ trace_of page = pre ++ CInject r p :: post /\
    run false empty_state pre = Some s /\ ~ In p (cache s).
Proof. exact liveness_without_self_reference_refuted_lemma. Qed.
Print Assumptions liveness_without_self_reference_refuted.

(* ============================== Non-vacuity ============================== *)
From Coq Require Import String.
Local Open Scope string_scope.
Local Open Scope list_scope.

Definition consumer : cdef := {| c_tpl := [TText (s2n "<"); TOut (EVar (s2n "v")); TText (s2n ">")];
                                 c_data := [(s2n "v", DInject (s2n "pa") (s2n "f") None)] |}.

(* two sibling consumers under one page-level provider *)
Example two_siblings_one_provider : forall md,
  render_prog 20 {| p_lib := [(s2n "cons", consumer)];
                    p_page := [TProvide (s2n "pa") [(s2n "f", EStr (s2n "A"))]
                                 [TComp (s2n "cons") [] false []; TComp (s2n "cons") [] false []]];
                    p_ctx := []; p_mode := md |} = Ok (s2n "<A><A>").
Proof. intros [|]; vm_compute; reflexivity. Qed.

(* a provider in a component template around a slot whose fill (written at page level, inside ANOTHER provider of
   the same key) contains a consumer: the consumer gets the provider around the slot - nearest in the rendered
   structure -, the sibling after the component gets the page-level one; both modes *)
Definition wrapper : cdef :=
  {| c_tpl := [TText (s2n "W["); TProvide (s2n "pa") [(s2n "f", EStr (s2n "inner"))] [TSlot (s2n "s") true false [] []]; TText (s2n "]")];
     c_data := [] |}.
Example provider_around_slot_reaches_fill : forall md,
  render_prog 20 {| p_lib := [(s2n "cons", consumer); (s2n "wrap", wrapper)];
                    p_page := [TProvide (s2n "pa") [(s2n "f", EStr (s2n "outer"))]
                                 [TComp (s2n "wrap") [] false [TComp (s2n "cons") [] false []];
                                  TComp (s2n "cons") [] false []]];
                    p_ctx := []; p_mode := md |} = Ok (s2n "W[<inner>]<outer>").
Proof. intros [|]; vm_compute; reflexivity. Qed.

(* outside every provider: KeyError; a field the tag did not pass: AttributeError; with a default: the default *)
Example outside_and_missing_field :
  render_prog 20 {| p_lib := [(s2n "cons", consumer)]; p_page := [TComp (s2n "cons") [] false []]; p_ctx := []; p_mode := Isolated |}
    = Err EKey /\
  render_prog 20 {| p_lib := [(s2n "cons", consumer)];
                    p_page := [TProvide (s2n "pa") [(s2n "g", EStr (s2n "A"))] [TComp (s2n "cons") [] false []]];
                    p_ctx := []; p_mode := Django |} = Err EAttribute /\
  render_prog 20 {| p_lib := [(s2n "c", {| c_tpl := [TOut (EVar (s2n "v"))];
                                          c_data := [(s2n "v", DInject (s2n "pa") (s2n "f") (Some (s2n "dflt")))] |})];
                    p_page := [TComp (s2n "c") [] false []]; p_ctx := []; p_mode := Isolated |} = Ok (s2n "dflt").
Proof. vm_compute. repeat split; reflexivity. Qed.

(* the hypotheses of the theorems are satisfiable *)
Example scope_inv_of_a_page : forall ctx, scope_inv {| loc := ctx; out := []; cur := None; prov := [] |} [].
Proof. exact scope_inv_initial. Qed.

Example wf_page_two_root_siblings :
  wf_page two_root_siblings = true /\
  trace_of two_root_siblings = [PEnter 1; CInject 2 1; CReg 2 [1]; CDone 2; CDone 2;
                                CInject 3 1; CReg 3 [1]; CDone 3; CDone 3; PExit 1]%N.
Proof. vm_compute. split; reflexivity. Qed.

(* nested components are rendered only after the provider around their tag has exited (PExit 3 precedes CInject 5 3);
   component 4 injects once more while its template renders (on_render_before); the root 2 finally sweeps its tree *)
Example wf_page_nested_deferred :
  let page := [Prov 1 [Comp true 2 [1] [] [] [Prov 3 [Comp false 4 [3; 1] [3] [1] [Comp false 5 [3] [3] [] []]]; Comp false 6 [1] [1] [] []]]]%N in
  wf_page page = true /\
  trace_of page = [PEnter 1; CReg 2 [1]; PEnter 3; CInject 4 3; CReg 4 [3; 1]; PExit 3; CInject 6 1; CReg 6 [1];
                   CInject 4 1; CInject 5 3; CReg 5 [3]; CDone 5; CDone 4; CDone 6; CDone 2;
                   CDone 2; CDone 4; CDone 6; CDone 5; PExit 1]%N.
Proof. vm_compute. split; reflexivity. Qed.
