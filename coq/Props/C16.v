(* Property C16 - component assets = own class plus the bases selected by Media.extend.
   Only statements here; proofs live in Media/Proofs.v.  Model: Media/Model.v.
   The model is run per media type k (0 = js, k > 0 = a CSS medium); `flatten` / `eager` select the variant:
   current_flatten = true, current_eager = false describe /repo's code as it is. *)
From DJC Require Import Lib.Base Media.Model Media.Proofs.

(* Files: for every table, class, media type and BOTH variants, `Cls.media` holds each file once, and holds
   exactly the files declared by the class itself and, transitively, by the bases selected by Media.extend. *)
Theorem media_files_eq_spec : forall flatten eager t k c,
  NoDup (observe (spec flatten eager t k c)) /\
  forall x, In x (observe (spec flatten eager t k c)) <->
            exists d, In d (contributors t c) /\ In x (declared eager t k d).
Proof. exact files_eq_spec. Qed.
Print Assumptions media_files_eq_spec.

(* Histories: from a fresh process, for EVERY sequence of .media / .template / .js / .css / ..._file accesses on
   any classes, the work-stack + global memo never runs out of fuel, never fails, and every access returns the
   history-free value `ideal` (media = the S-model `spec`, attribute = nearest defining pair in the MRO).
   _partial: for the code as it is this needs `no_relative` (no Media path names a file lying beside the
   component module); without it the full statement is refuted below. *)
Theorem access_order_independent_partial : forall t k h,
  wf t = true -> create_error t = None -> no_relative t = true ->
  (forall a, In a h -> cls_of a < length t) ->
  exists st, run current_flatten current_eager t k init h =
             Some (st, map (ideal current_flatten current_eager t k) h).
Proof. intros t k h Hwf Hok Hrel. exact (history_independent _ _ t k Hwf (or_intror Hrel) Hok h). Qed.
Print Assumptions access_order_independent_partial.

(* ... and the full statement holds, for both merge variants, once the class is resolved before its Media is read
   (candidate repair notes/fixes/C16-resolve-before-media.patch). *)
Theorem access_order_independent_after_repair : forall flatten t k h,
  wf t = true -> create_error t = None ->
  (forall a, In a h -> cls_of a < length t) ->
  exists st, run flatten true t k init h = Some (st, map (ideal flatten true t k) h).
Proof. intros flatten t k h Hwf Hok. exact (history_independent _ _ t k Hwf (or_introl eq_refl) Hok h). Qed.
Print Assumptions access_order_independent_after_repair.

(* Current code: `Cls.media` read before / after `Cls.template` differs when a Media file lies beside the module
   (class 3 = class C(Component): template = "v1"; Media.js = ["f1.js", "f2.js"], f1.js exists beside the module). *)
Theorem access_order_independent_refuted : exists t k h c,
  wf t = true /\ create_error t = None /\ c < length t /\
  result_after current_flatten current_eager t k [] (AMedia c) = Some (RMedia [1; 2]%N) /\
  result_after current_flatten current_eager t k h (AMedia c) = Some (RMedia [101; 2]%N).
Proof.
  exists [Cls [] false None [] (None, None) (None, None) (None, None);
          Cls [0] false None [] (None, None) (None, None) (None, None);
          Cls [1] true None [] (None, None) (None, None) (None, None);
          Cls [2] true (Some (MDecl ExtAll [(0%N, [1; 2]%N)])) [(1%N, 101%N)] (Some 1%N, None) (None, None) (None, None)],
         0%N, [AAttr 3 PTpl false], 3.
  vm_compute. repeat split; auto.
Qed.
Print Assumptions access_order_independent_refuted.

(* Order, current code: REFUTED.  A(Component): js=[1]; B(A): js=[2,3]; C(B): js=[3,1].  The declared lists are all
   subsequences of [2,3,1], but C.media._js = [3,1,2] breaks B's [2,3] (B's level was flattened to [2,1,3], which
   conflicts with [3,1]; Django's merge then falls back to concatenation). *)
Theorem order_consistent_refuted : exists t k c d,
  wf t = true /\ create_error t = None /\ no_relative t = true /\
  consistent (map (declared current_eager t k) (contributors t c)) /\
  In d (contributors t c) /\
  subseqb (declared current_eager t k d) (observe (spec current_flatten current_eager t k c)) = false.
Proof.
  exists [Cls [] false None [] (None, None) (None, None) (None, None);
          Cls [0] false None [] (None, None) (None, None) (None, None);
          Cls [1] true None [] (None, None) (None, None) (None, None);
          Cls [2] true (Some (MDecl ExtAll [(0%N, [1]%N)])) [] (None, None) (None, None) (None, None);
          Cls [3] true (Some (MDecl ExtAll [(0%N, [2; 3]%N)])) [] (None, None) (None, None) (None, None);
          Cls [4] true (Some (MDecl ExtAll [(0%N, [3; 1]%N)])) [] (None, None) (None, None) (None, None)],
         0%N, 5, 4.
  split; [reflexivity|]. split; [vm_compute; reflexivity|]. split; [reflexivity|]. split.
  - exists [2; 3; 1]%N. split.
    + repeat constructor; cbn; intuition discriminate.
    + vm_compute. intros l H. repeat (destruct H as [<- | H]; [reflexivity|]). contradiction.
  - split; [vm_compute; auto | vm_compute; reflexivity].
Qed.
Print Assumptions order_consistent_refuted.

(* Order, current code, _partial: restricted by the trigger class of the defect.  As long as no merge on the way
   (nor the final one) fell back to concatenation - i.e. no MediaOrderConflictWarning was emitted - every
   duplicate-free declared list of every contributing class is a subsequence of the result.
   Missing for the full statement: "mutually consistent lists never reach the fallback" is false for the
   per-level flattening (refuted above); for the candidate repair (flatten = false) it is Kahn completeness on
   acyclic chains, not proved here. *)
Theorem order_consistent_partial : forall eager t k c,
  snd (spec true eager t k c) = false -> snd (merge (fst (spec true eager t k c))) = false ->
  (forall d, In d (contributors t c) -> NoDup (declared eager t k d)) ->
  forall d, In d (contributors t c) ->
  subseqb (declared eager t k d) (observe (spec true eager t k c)) = true.
Proof. exact order_when_no_conflict. Qed.
Print Assumptions order_consistent_partial.

(* Django's merge itself, any lists: duplicate-free result with exactly the given files; when it did not warn,
   every duplicate-free input list is a subsequence of the result (Kahn's algorithm in graphlib's order). *)
Theorem merge_sound : forall ls,
  NoDup (fst (merge ls)) /\ (forall x, In x (fst (merge ls)) <-> In x (concat ls)) /\
  (snd (merge ls) = false -> forall l, In l ls -> NoDup l -> subseqb l (fst (merge ls)) = true).
Proof. exact merge_facts. Qed.
Print Assumptions merge_sound.

(* template / js / css / ..._file: the value every access returns (`attr_spec`, by the history theorems above) is
   taken from the first component class of the MRO that defines either member of the pair ... *)
Theorem attr_from_nearest_defining_pair : forall t p m cl,
  nearest_defining t p m = Some cl ->
  exists m1 b m2, m = m1 ++ b :: m2 /\ nth_error t b = Some cl /\ c_comp cl = true /\
    pair_empty (get_pair p cl) = false /\
    forall x c, In x m1 -> nth_error t x = Some c -> c_comp c = false \/ pair_empty (get_pair p c) = true.
Proof. exact nearest_defining_spec. Qed.
Print Assumptions attr_from_nearest_defining_pair.

(* ... and is None exactly when no class of the MRO defines either member. *)
Theorem attr_none_when_undefined : forall t p m,
  nearest_defining t p m = None ->
  forall x c, In x m -> nth_error t x = Some c -> c_comp c = false \/ pair_empty (get_pair p c) = true.
Proof. exact nearest_defining_none. Qed.
Print Assumptions attr_none_when_undefined.

(* A component class defining both members of a pair is never created. *)
Theorem both_members_rejected : forall t i cl p,
  nth_error t i = Some cl -> c_comp cl = true -> pair_both (get_pair p cl) = true -> create_error t <> None.
Proof. exact both_rejected. Qed.
Print Assumptions both_members_rejected.

(* Non-vacuity: a diamond (A js=[1], B js=[2], C(A, B) js=[3,1]) is well formed, creatable, conflict-free, and the
   premises of the theorems above hold for it; C gets [3,2,1] (graphlib emits whole ready groups). *)
Example premises_satisfiable :
  let t := [Cls [] false None [] (None, None) (None, None) (None, None);
            Cls [0] false None [] (None, None) (None, None) (None, None);
            Cls [1] true None [] (None, None) (None, None) (None, None);
            Cls [2] true (Some (MDecl ExtAll [(0%N, [1]%N)])) [] (None, None) (Some 7%N, None) (None, None);
            Cls [2] true (Some (MDecl ExtAll [(0%N, [2]%N)])) [] (None, None) (None, Some (8%N, 9%N)) (None, None);
            Cls [3; 4] true (Some (MDecl ExtAll [(0%N, [3; 1]%N)])) [] (None, None) (None, None) (None, None)] in
  wf t = true /\ create_error t = None /\ no_relative t = true /\
  snd (spec true false t 0%N 5) = false /\ snd (merge (fst (spec true false t 0%N 5))) = false /\
  observe (spec true false t 0%N 5) = [3; 2; 1]%N /\ contributors t 5 = [5; 3; 2; 1; 0; 4; 2; 1; 0] /\
  attr_spec t 5 PJs false = Some 7%N /\ mro_of t 5 = Some [5; 3; 4; 2; 1; 0].
Proof. vm_compute. repeat split. Qed.

Example both_members_example :
  create_error [Cls [] false None [] (None, None) (None, None) (None, None);
                Cls [0] true None [] (None, None) (Some 1%N, Some (2%N, 3%N)) (None, None)]
  = Some (1, EImproperlyConfigured).
Proof. reflexivity. Qed.
