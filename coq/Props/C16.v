(* Property C16 - component assets = own class plus the bases selected by Media.extend.
   Only statements here; proofs live in Media/Proofs.v.  Model: Media/Model.v.
   The model is run per media type k (0 = js, k > 0 = a CSS medium); `flatten` / `eager` select the variant:
   current_flatten = false, current_eager = true describe /repo's code as it is (after commits a5a18f6, 488c746).
   The two defects of the code before those commits are machine-checked lemmas in Media/History.v. *)
From DJC Require Import Lib.Base Media.Model Media.Proofs Media.Complete Media.History.

(* Files: for every table, class, media type and BOTH variants, `Cls.media` holds each file once, and holds
   exactly the files declared by the class itself and, transitively, by the bases selected by Media.extend. *)
Theorem media_files_eq_spec : forall flatten eager t k c,
  NoDup (observe (spec flatten eager t k c)) /\
  forall x, In x (observe (spec flatten eager t k c)) <->
            exists d, In d (contributors t c) /\ In x (declared eager t k d).
Proof. exact files_eq_spec. Qed.
Print Assumptions media_files_eq_spec.

(* Histories: from a fresh process, for EVERY sequence of .media / .template / .js / .css / ..._file accesses on
   any classes of any well-formed, creatable table, the work-stack + process-global memo never runs out of fuel,
   never fails, and every access returns the history-free value `ideal` (media = the S-model `spec`, attribute =
   nearest defining pair in the MRO): the result does not depend on what was accessed before. *)
Theorem access_order_independent : forall t k h,
  wf t = true -> create_error t = None ->
  (forall a, In a h -> cls_of a < length t) ->
  exists st, run current_flatten current_eager t k init h =
             Some (st, map (ideal current_flatten current_eager t k) h).
Proof. intros t k h Hwf Hok. exact (history_independent _ _ t k Hwf (or_introl eq_refl) Hok h). Qed.
Print Assumptions access_order_independent.

(* Order: whenever the lists declared (for one media type) by the contributing classes are mutually consistent -
   all subsequences of one duplicate-free list - every one of them is a subsequence of the result.
   (Rests on merge_complete: graphlib's Kahn run never reaches the CycleError fallback on such lists.) *)
Theorem order_consistent : forall t k c,
  consistent (map (declared current_eager t k) (contributors t c)) ->
  forall d, In d (contributors t c) ->
  subseqb (declared current_eager t k d) (observe (spec current_flatten current_eager t k c)) = true.
Proof. exact (order_consistent_unflat current_eager). Qed.
Print Assumptions order_consistent.

(* Media.merge never emits MediaOrderConflictWarning (never falls back to concatenation) on mutually consistent lists. *)
Theorem merge_complete : forall ls, consistent ls -> snd (merge ls) = false.
Proof. exact Complete.merge_complete. Qed.
Print Assumptions merge_complete.

(* Django's merge itself, any lists: duplicate-free result with exactly the given files; when it did not warn,
   every duplicate-free input list is a subsequence of the result (Kahn's algorithm in graphlib's order). *)
Theorem merge_sound : forall ls,
  NoDup (fst (merge ls)) /\ (forall x, In x (fst (merge ls)) <-> In x (concat ls)) /\
  (snd (merge ls) = false -> forall l, In l ls -> NoDup l -> subseqb l (fst (merge ls)) = true).
Proof. exact merge_facts. Qed.
Print Assumptions merge_sound.

(* template / js / css / ..._file: the value every access returns (`attr_spec`, by the history theorems above) is
   taken from the first component class of the MRO that defines either member of the pair ... *)
Theorem attr_from_nearest_defining_pair : forall t p m cl,
  nearest_defining t p m = Some cl ->
  exists m1 b m2, m = m1 ++ b :: m2 /\ nth_error t b = Some cl /\ c_comp cl = true /\
    pair_empty (get_pair p cl) = false /\
    forall x c, In x m1 -> nth_error t x = Some c -> c_comp c = false \/ pair_empty (get_pair p c) = true.
Proof. exact nearest_defining_spec. Qed.
Print Assumptions attr_from_nearest_defining_pair.

(* ... and is None exactly when no class of the MRO defines either member. *)
Theorem attr_none_when_undefined : forall t p m,
  nearest_defining t p m = None ->
  forall x c, In x m -> nth_error t x = Some c -> c_comp c = false \/ pair_empty (get_pair p c) = true.
Proof. exact nearest_defining_none. Qed.
Print Assumptions attr_none_when_undefined.

(* A component class defining both members of a pair is never created. *)
Theorem both_members_rejected : forall t i cl p,
  nth_error t i = Some cl -> c_comp cl = true -> pair_both (get_pair p cl) = true -> create_error t <> None.
Proof. exact both_rejected. Qed.
Print Assumptions both_members_rejected.

(* Non-vacuity: a diamond (A js=[1], B js=[2], C(A, B) js=[3,1]) is well formed, creatable, its declared lists are mutually consistent
   (all subsequences of [3,1,2]), and the premises of the theorems above hold for it; C gets [3,2,1] (graphlib emits whole ready groups). *)
Example premises_satisfiable :
  let t := [Cls [] false None [] (None, None) (None, None) (None, None);
            Cls [0] false None [] (None, None) (None, None) (None, None);
            Cls [1] true None [] (None, None) (None, None) (None, None);
            Cls [2] true (Some (MDecl ExtAll [(0%N, [1]%N)])) [] (None, None) (Some 7%N, None) (None, None);
            Cls [2] true (Some (MDecl ExtAll [(0%N, [2]%N)])) [] (None, None) (None, Some (8%N, 9%N)) (None, None);
            Cls [3; 4] true (Some (MDecl ExtAll [(0%N, [3; 1]%N)])) [] (None, None) (None, None) (None, None)] in
  wf t = true /\ create_error t = None /\ no_relative t = true /\
  (forall l, In l (map (declared current_eager t 0%N) (contributors t 5)) -> subseqb l [3; 1; 2]%N = true) /\
  observe (spec current_flatten current_eager t 0%N 5) = [3; 2; 1]%N /\ contributors t 5 = [5; 3; 2; 1; 0; 4; 2; 1; 0] /\
  attr_spec t 5 PJs false = Some 7%N /\ mro_of t 5 = Some [5; 3; 4; 2; 1; 0].
Proof.
  vm_compute. repeat split.
  intros l H. repeat (destruct H as [<- | H]; [reflexivity|]). contradiction.
Qed.

Example both_members_example :
  create_error [Cls [] false None [] (None, None) (None, None) (None, None);
                Cls [0] true None [] (None, None) (Some 1%N, Some (2%N, 3%N)) (None, None)]
  = Some (1, EImproperlyConfigured).
Proof. reflexivity. Qed.
