(* Property C16 - component assets = own class plus the bases selected by Media.extend.
   Only statements here; proofs live in Media/Proofs.v.  Model: Media/Model.v.
   The model is run per media type k (0 = js, k > 0 = a CSS medium); `flatten` / `eager` select the variant:
   current_flatten = false, current_eager = true describe /repo's code as it is (after commits a5a18f6, 488c746).
   The two defects of the code before those commits are machine-checked lemmas in Media/History.v.
   Source anchors (generated constants of component_media.py, `Example ..._anchor ... reflexivity`): Media/Anchors.v. *)
From DJC Require Import Lib.Base Media.Model Media.Proofs Media.Complete Media.History.
From DJC Require Import Media.Names Media.Forms Media.Dups Media.Mixins Media.Both Media.Anchors.

(* Files: for every table, class, media type and BOTH variants, `Cls.media` holds each file once, and holds
   exactly the files declared by the class itself and, transitively, by the bases selected by Media.extend. *)
Theorem media_files_eq_spec : forall flatten eager t k c,
  NoDup (observe (spec flatten eager t k c)) /\
  forall x, In x (observe (spec flatten eager t k c)) <->
            exists d, In d (contributors t c) /\ In x (declared eager t k d).
Proof. exact files_eq_spec. Qed.
Print Assumptions media_files_eq_spec.

(* Histories: from a fresh process, for EVERY sequence of .media / .template / .js / .css / ..._file accesses on
   any classes of any well-formed, creatable table, the work-stack + process-global memo never runs out of fuel,
   never fails, and every access returns the history-free value `ideal` (media = the S-model `spec`, attribute =
   nearest defining pair in the MRO): the result does not depend on what was accessed before. *)
Theorem access_order_independent : forall t k h,
  wf t = true -> create_error t = None ->
  (forall a, In a h -> cls_of a < length t) ->
  exists st, run current_flatten current_eager t k init h =
             Some (st, map (ideal current_flatten current_eager t k) h).
Proof. intros t k h Hwf Hok. exact (history_independent _ _ t k Hwf (or_introl eq_refl) Hok h). Qed.
Print Assumptions access_order_independent.

(* Order: whenever the lists declared (for one media type) by the contributing classes are mutually consistent -
   all subsequences of one duplicate-free list - every one of them is a subsequence of the result.
   (Rests on merge_complete: graphlib's Kahn run never reaches the CycleError fallback on such lists.) *)
Theorem order_consistent : forall t k c,
  consistent (map (declared current_eager t k) (contributors t c)) ->
  forall d, In d (contributors t c) ->
  subseqb (declared current_eager t k d) (observe (spec current_flatten current_eager t k c)) = true.
Proof. exact (order_consistent_unflat current_eager). Qed.
Print Assumptions order_consistent.

(* Media.merge never emits MediaOrderConflictWarning (never falls back to concatenation) on mutually consistent lists. *)
Theorem merge_complete : forall ls, consistent ls -> snd (merge ls) = false.
Proof. exact Complete.merge_complete. Qed.
Print Assumptions merge_complete.

(* Django's merge itself, any lists: duplicate-free result with exactly the given files; when it did not warn,
   every duplicate-free input list is a subsequence of the result (Kahn's algorithm in graphlib's order). *)
Theorem merge_sound : forall ls,
  NoDup (fst (merge ls)) /\ (forall x, In x (fst (merge ls)) <-> In x (concat ls)) /\
  (snd (merge ls) = false -> forall l, In l ls -> NoDup l -> subseqb l (fst (merge ls)) = true).
Proof. exact merge_facts. Qed.
Print Assumptions merge_sound.

(* template / js / css / ..._file: the value every access returns (`attr_spec`, by the history theorems above) is
   taken from the first component class of the MRO that defines either member of the pair ... *)
Theorem attr_from_nearest_defining_pair : forall t p m cl,
  nearest_defining t p m = Some cl ->
  exists m1 b m2, m = m1 ++ b :: m2 /\ nth_error t b = Some cl /\ c_comp cl = true /\
    pair_empty (get_pair p cl) = false /\
    forall x c, In x m1 -> nth_error t x = Some c -> c_comp c = false \/ pair_empty (get_pair p c) = true.
Proof. exact nearest_defining_spec. Qed.
Print Assumptions attr_from_nearest_defining_pair.

(* ... and is None exactly when no class of the MRO defines either member. *)
Theorem attr_none_when_undefined : forall t p m,
  nearest_defining t p m = None ->
  forall x c, In x m -> nth_error t x = Some c -> c_comp c = false \/ pair_empty (get_pair p c) = true.
Proof. exact nearest_defining_none. Qed.
Print Assumptions attr_none_when_undefined.

(* A component class defining both members of a pair is never created: EVERY two non-None values are rejected, whatever
   they are - the empty string (inline code 0) and the empty path included (`is not None`, not truthiness) ... *)
Theorem both_members_rejected : forall t i cl p v f,
  nth_error t i = Some cl -> c_comp cl = true -> get_pair p cl = (Some v, Some f) -> create_error t <> None.
Proof. exact both_rejected_values. Qed.
Print Assumptions both_members_rejected.

(* ... and exactly those: with a linearisable MRO, class creation fails with ImproperlyConfigured iff the class is a component
   class and some pair has two non-None members; otherwise it succeeds (one member, the empty string alone, explicit None). *)
Theorem both_members_exact : forall t i cl m, nth_error t i = Some cl -> mro_of t i = Some m ->
  (class_error t i = Some EImproperlyConfigured <->
   c_comp cl = true /\ exists p v f, get_pair p cl = (Some v, Some f)) /\
  (class_error t i = None \/ class_error t i = Some EImproperlyConfigured).
Proof. exact class_error_exact. Qed.
Print Assumptions both_members_exact.

(* Order with DUPLICATES inside declared lists (generalises order_consistent; a duplicate-free list is its own squash):
   adjacent repeats are harmless - if the declared lists with adjacent repeats squashed are all subsequences of one
   duplicate-free list, each squashed list is a subsequence of the result.  A repeat that is not adjacent makes the
   premise false (wconsistent_needs_no_distant_repeat): Django warns and falls back to first-occurrence order
   (Dups.dup_nonadjacent_warns, Dups.dup_nonadjacent_breaks_other); the file-set theorem still applies. *)
Theorem order_consistent_with_duplicates : forall t k c,
  wconsistent (map (declared current_eager t k) (contributors t c)) ->
  forall d, In d (contributors t c) ->
  subseqb (squash (declared current_eager t k d)) (observe (spec current_flatten current_eager t k c)) = true.
Proof. exact (order_consistent_dups current_eager). Qed.
Print Assumptions order_consistent_with_duplicates.

Theorem wconsistent_needs_no_distant_repeat : forall ls, wconsistent ls -> forall l, In l ls -> NoDup (squash l).
Proof. exact wconsistent_squash_NoDup. Qed.
Print Assumptions wconsistent_needs_no_distant_repeat.

(* Forms of Media.js / Media.css in a component's class body (str / bytes / list / tuple / dict): every EMPTY value of
   the str / list forms (absent or None, empty str / bytes, empty list / tuple) declares no file for any medium ... *)
Theorem empty_forms_declare_nothing : forall c e j r k,
  r = RAbsent \/ r = RStr None \/ r = RList [] ->
  raw_decl k c (RawMedia e j (CFiles r)) = (if N.eqb k 0 then norm_files j else []) /\
  raw_decl 0 c (RawMedia e r (CFiles j)) = [].
Proof. exact empty_forms_nothing. Qed.
Print Assumptions empty_forms_declare_nothing.

(* ... and the four ways of writing one css file for all media declare the same thing. *)
Theorem css_forms_agree : forall c e j f k,
  let d css := raw_decl k c (RawMedia e j css) in
  d (CFiles (RStr (Some f))) = d (CFiles (RList [f])) /\
  d (CFiles (RList [f])) = d (CDict [(css_all, DStr f)]) /\
  d (CDict [(css_all, DStr f)]) = d (CDict [(css_all, DList [f])]).
Proof. exact css_forms_equivalent. Qed.
Print Assumptions css_forms_agree.

(* Plain (non-component) classes in the MRO.  PARTIAL: the literal reading "nearest class of ANY kind that defines
   either member" is proved under the guard that no plain class defines a member of the pair BEFORE the class the code
   picks (`walked` = the classes the MRO walk passes first; the whole MRO when no component class defines the pair).
   Missing: hierarchies where a plain mixin defines template / js / css ahead of every component definer ... *)
Theorem attr_nearest_any_class_partial : forall t c p fm m,
  mro_of t c = Some m -> (forall b, In b (walked t p m) -> plain_definer t p b = false) ->
  attr_spec t c p fm = match nearest_any t p m with Some cl => pair_value fm (get_pair p cl) | None => None end.
Proof. exact attr_nearest_any_guarded. Qed.
Print Assumptions attr_nearest_any_class_partial.

(* ... where it is REFUTED for the code as it is (KNOWN finding): `_get_comp_cls_attr` skips classes without _component_media, so a
   member defined by a plain mixin is ignored (class M: template = 1; class P(Component): template = 2; class C(M, P):
   C.template is P's).  Replayed on the real code by corpus/C16/plain-mixin-pair.json, trigger c16-plain-mixin-pair-ignored. *)
Theorem attr_nearest_any_class_refuted : exists t c p fm m,
  wf t = true /\ create_error t = None /\ c < length t /\ mro_of t c = Some m /\
  attr_spec t c p fm <> match nearest_any t p m with Some cl => pair_value fm (get_pair p cl) | None => None end.
Proof. exact attr_nearest_any_refuted. Qed.
Print Assumptions attr_nearest_any_class_refuted.

(* Non-vacuity: a diamond (A js=[1], B js=[2], C(A, B) js=[3,1]) is well formed, creatable, its declared lists are mutually consistent
   (all subsequences of [3,1,2]), and the premises of the theorems above hold for it; C gets [3,2,1] (graphlib emits whole ready groups). *)
Example premises_satisfiable :
  let t := [Cls [] false None [] (None, None) (None, None) (None, None);
            Cls [0] false None [] (None, None) (None, None) (None, None);
            Cls [1] true None [] (None, None) (None, None) (None, None);
            Cls [2] true (Some (MDecl ExtAll [(0%N, [1]%N)])) [] (None, None) (Some 7%N, None) (None, None);
            Cls [2] true (Some (MDecl ExtAll [(0%N, [2]%N)])) [] (None, None) (None, Some (8%N, 9%N)) (None, None);
            Cls [3; 4] true (Some (MDecl ExtAll [(0%N, [3; 1]%N)])) [] (None, None) (None, None) (None, None)] in
  wf t = true /\ create_error t = None /\ no_relative t = true /\
  (forall l, In l (map (declared current_eager t 0%N) (contributors t 5)) -> subseqb l [3; 1; 2]%N = true) /\
  observe (spec current_flatten current_eager t 0%N 5) = [3; 2; 1]%N /\ contributors t 5 = [5; 3; 2; 1; 0; 4; 2; 1; 0] /\
  attr_spec t 5 PJs false = Some 7%N /\ mro_of t 5 = Some [5; 3; 4; 2; 1; 0].
Proof.
  vm_compute. repeat split.
  intros l H. repeat (destruct H as [<- | H]; [reflexivity|]). contradiction.
Qed.

Example both_members_example :
  create_error [Cls [] false None [] (None, None) (None, None) (None, None);
                Cls [0] true None [] (None, None) (Some 1%N, Some (2%N, 3%N)) (None, None)]
  = Some (1, EImproperlyConfigured).
Proof. reflexivity. Qed.

(* Non-vacuity of order_consistent_with_duplicates: A js=[1,1,2]; B(A) js=[2,2,3]: wconsistent, result [1,2,3]. *)
Example duplicates_premises_satisfiable :
  let t := [Cls [] false None [] (None, None) (None, None) (None, None);
            Cls [0] false None [] (None, None) (None, None) (None, None);
            Cls [1] true None [] (None, None) (None, None) (None, None);
            Cls [2] true (Some (MDecl ExtAll [(0%N, [1; 1; 2]%N)])) [] (None, None) (None, None) (None, None);
            Cls [3] true (Some (MDecl ExtAll [(0%N, [2; 2; 3]%N)])) [] (None, None) (None, None) (None, None)] in
  wconsistent (map (declared current_eager t 0%N) (contributors t 4)) /\
  observe (spec current_flatten current_eager t 0%N 4) = [1; 2; 3]%N.
Proof.
  split; [|reflexivity]. exists [1; 2; 3]%N. split.
  - repeat constructor; cbn; intuition discriminate.
  - vm_compute. intros l H. repeat (destruct H as [<- | H]; [reflexivity|]). contradiction.
Qed.

(* Non-vacuity of attr_nearest_any_class_partial: class P(Component): js = 7; class M: template = 5, js = 6 (plain);
   class C(P, M).  MRO [C; P; Component; Generic; M; object].  For js the code picks P, which precedes the plain
   definer M: the guard holds although a plain class defines the pair, and P's value is the nearest of any kind.
   For template M is the only definer and is walked past: the guard fails there (that is the known finding). *)
Example guard_satisfiable :
  let t := [Cls [] false None [] (None, None) (None, None) (None, None);
            Cls [0] false None [] (None, None) (None, None) (None, None);
            Cls [1] true None [] (None, None) (None, None) (None, None);
            Cls [2] true None [] (None, None) (Some 7%N, None) (None, None);
            Cls [0] false None [] (Some 5%N, None) (Some 6%N, None) (None, None);
            Cls [3; 4] true None [] (None, None) (None, None) (None, None)] in
  mro_of t 5 = Some [5; 3; 2; 1; 4; 0] /\ walked t PJs [5; 3; 2; 1; 4; 0] = [5] /\
  forallb (fun b => negb (plain_definer t PJs b)) (walked t PJs [5; 3; 2; 1; 4; 0]) = true /\
  plain_definer t PJs 4 = true /\ attr_spec t 5 PJs false = Some 7%N /\
  existsb (plain_definer t PTpl) (walked t PTpl [5; 3; 2; 1; 4; 0]) = true /\ attr_spec t 5 PTpl false = None.
Proof. vm_compute. repeat split. Qed.
