(* Property C13 - html_attrs and Python-passed slot content emit exactly the data given, escaped.
   Only statements here; proofs live in Attrs/Proofs.v.  Model: Attrs/Model.v (the code as of the fix commits
   e6d6b5a, 30be467, c3ea7ff).  A dictionary is a list of ((name text, key is a SafeString), value). *)
From DJC Require Import Lib.Base Attrs.Model Attrs.Proofs.

(* ---------- attributes: what is emitted reads back as exactly what was given ---------- *)

(* The reader's character-reference decoding undoes Django's escape on every string. *)
Theorem reader_undoes_escape : forall s, decode (escape s) = s.
Proof. exact decode_escape. Qed.
Print Assumptions reader_undoes_escape.

(* ROUND TRIP, for ALL names and ALL value strings (no premise on the names: the model's own name check, the one
   attributes_to_string performs, decides).  For every dictionary in which nothing that is emitted is marked safe:
   either attributes_to_string raises ValueError, and then some attribute that would be emitted has a name that is
   empty or contains a character of the forbidden class; or the HTML attribute tokenizer reads the emitted text back
   as exactly the given names (ASCII-lower-cased, as HTML reads names) and values, in order, each once - None / False
   attributes absent, True attributes bare, nothing ends the tag early, no quoted value left open ([Parsed], not
   [BrokeOut] / [Unterminated]). *)
Theorem attrs_roundtrip : forall d, plain_emitted d = true ->
  match attributes_to_string d with
  | Some out => parse_attrs out = Parsed (expected d)
  | None => exists n v, In ((n, false), v) d /\ rendered v = true /\ valid_name n = false
  end.
Proof. exact attrs_roundtrip_lemma. Qed.
Print Assumptions attrs_roundtrip.

(* REFUSAL, for every dictionary (safe entries or not): ValueError exactly when some attribute that would be emitted
   (value neither None nor False) has a key that is not a SafeString and whose name is not writable. *)
Theorem attrs_refused_iff : forall d,
  attributes_to_string d = None <->
  exists n v, In ((n, false), v) d /\ rendered v = true /\ valid_name n = false.
Proof. exact attrs_refused_iff_lemma. Qed.
Print Assumptions attrs_refused_iff.

(* The check is needed (this is what the code did before c3ea7ff): the text built WITHOUT the name check does not
   read back for the name "a b". *)
Theorem unchecked_names_refuted : exists d,
  plain_emitted d = true /\ parse_attrs (ats_text d) <> Parsed (expected d).
Proof. exact unchecked_names_do_not_roundtrip. Qed.
Print Assumptions unchecked_names_refuted.

(* No value can change the number or the names of the attributes, or get out of the tag: two dictionaries with the
   same keys and the same kinds of values (omitted / bare / valued) are both refused or both emitted, and when
   emitted both read back completely, with the same names and the same number of attributes - whatever the values. *)
Theorem cannot_break_out : forall d d',
  plain_emitted d = true -> plain_emitted d' = true -> map shape d = map shape d' ->
  match attributes_to_string d, attributes_to_string d' with
  | Some out, Some out' =>
      exists l l', parse_attrs out = Parsed l /\ parse_attrs out' = Parsed l' /\
                   map fst l = map fst l' /\ length l = length l'
  | None, None => True
  | _, _ => False
  end.
Proof. exact cannot_break_out_lemma. Qed.
Print Assumptions cannot_break_out.

(* None / False omitted, True bare - in terms of what the reader finds in the emitted text. *)
Theorem none_false_omitted_true_bare : forall d out,
  plain_emitted d = true -> attributes_to_string d = Some out ->
  exists l, parse_attrs out = Parsed l /\
    length l = length (filter (fun kv => rendered (snd kv)) d) /\
    (forall n, In (n, None) l <-> exists k, In (k, VTrue) d /\ n = map lower_ascii (fst k)) /\
    (forall n t, In (n, Some t) l <->
                 exists k v, In (k, v) d /\ valued v = true /\ n = map lower_ascii (fst k) /\ t = text_of v).
Proof. exact omitted_bare_lemma. Qed.
Print Assumptions none_false_omitted_true_bare.

(* ---------- merge order ---------- *)

(* HtmlAttrsNode.render on two dictionaries and the extra keywords - every overlap pattern of names, every kind of
   value: one entry per name, holding [merged_value] of (the value from `attrs` if it has the name, else the one from
   `defaults`) followed by every extra keyword value of that name: nothing / the single value itself (None, False,
   True keep their meaning) / all of them joined by single spaces.  TypeError exactly when, for some name, two or
   more values would be joined and one of them is not a string. *)
Theorem merge_order : forall attrs defaults kwargs,
  match html_attrs_dict attrs defaults kwargs with
  | Some d => keys_nodup d /\
              forall k, merged_value (olist (base_val attrs defaults k) ++ occ k kwargs) = Some (dget k d)
  | None => exists k, merged_value (olist (base_val attrs defaults k) ++ occ k kwargs) = None
  end.
Proof. exact merge_order_lemma. Qed.
Print Assumptions merge_order.

(* The same for string values, in the words of the statement. *)
Theorem merge_order_strings : forall attrs defaults kwargs,
  all_strv attrs -> all_strv defaults -> all_strv kwargs ->
  exists d, html_attrs_dict attrs defaults kwargs = Some d /\ keys_nodup d /\
            forall k, option_map text_of (dget k d)
                      = joined (map text_of (olist (base_val attrs defaults k)) ++ map text_of (occ k kwargs)).
Proof. exact merge_order_strings_lemma. Qed.
Print Assumptions merge_order_strings.

(* merge_repeated_kwargs on the keywords of the tag, ANY number and ANY pattern of repeats, any [seen] prefix:
   every name once; each name holds its only value, or the str() of all its values in the order written joined by
   single spaces ([kw_val]). *)
Theorem repeated_kwargs_merged : forall kws seen,
  exists out, merge_repeated seen (map kwp kws) = Some (map kwp out) /\
              keys_nodup (map kw_entry out) /\
              (forall k, dget k (map kw_entry out)
                         = if mem_str k seen then None else kw_val (occ k (map kw_entry kws))).
Proof. exact merge_repeated_kw. Qed.
Print Assumptions repeated_kwargs_merged.

(* The whole tag `{% html_attrs attrs defaults k=v ... %}` (both dictionaries positional; any extra keywords that are
   not aggregate keys - repeated in any pattern, identifiers or not, written in the tag or brought by a spread),
   through merge_repeated_kwargs, aggregation, the identifier split, binding and rendering: the outcome is the
   rendering of a dictionary with one entry per name holding [tag_spec], or TypeError exactly when tag_spec fails
   for some name; no other outcome. *)
Theorem tag_merge_order : forall a d kws, forallb extra_kw kws = true ->
  match html_attrs_tag ((None, TD a) :: (None, TD d) :: map kwp kws) with
  | Out s => exists f, keys_nodup f /\ (forall k, tag_spec a d kws k = Some (dget k f)) /\
                       attributes_to_string f = Some s
  | ErrValue => exists f, keys_nodup f /\ (forall k, tag_spec a d kws k = Some (dget k f)) /\
                          attributes_to_string f = None
  | ErrType => exists k, tag_spec a d kws k = None
  | _ => False
  end.
Proof. exact tag_merge_order_lemma. Qed.
Print Assumptions tag_merge_order.

(* The aggregate form `{% html_attrs attrs:k=v ... defaults:k=v ... k=v ... %}`: any list of keywords each of which is
   attrs:<name>, defaults:<name> or an extra keyword, in any order, repeated in any pattern (spread or written):
   the tag behaves as HtmlAttrsNode.render ([merge_order] says what that is) on the dictionary A of the attrs: keys,
   the dictionary D of the defaults: keys and the extra keywords, every name holding [kw_val] of what was written. *)
Theorem tag_aggregate_form : forall kws, forallb tag_kw kws = true ->
  exists A D kw, html_attrs_tag (map kwp kws) = html_attrs A D kw /\
    keys_nodup A /\ keys_nodup D /\ keys_nodup kw /\
    (forall i, dget i A = kw_val (occ (k_attrs ++ 58%N :: i) (map kw_entry kws))) /\
    (forall i, dget i D = kw_val (occ (k_defaults ++ 58%N :: i) (map kw_entry kws))) /\
    (forall k, dget k kw = if extra_name k then kw_val (occ k (map kw_entry kws)) else None).
Proof. exact tag_aggregate_lemma. Qed.
Print Assumptions tag_aggregate_form.

(* ---------- history: the same dictionary OBJECTS reaching the tag again and again ---------- *)

(* One call of HtmlAttrsNode.render on dictionary objects (heap = the caller's dictionaries, arguments = references;
   the model states the TARGET of every write): the result is the pure function of the contents, and every object that
   existed before the call - in particular `attrs` and `defaults` - keeps its contents. *)
Theorem render_leaves_callers_dicts : forall h a d kw,
  ref_ok (length h) a = true -> ref_ok (length h) d = true ->
  fst (render_heap h a d kw) = html_attrs (deref h a) (deref h d) kw /\
  firstn (length h) (snd (render_heap h a d kw)) = h /\
  (length h <= length (snd (render_heap h a d kw)))%nat.
Proof. exact render_heap_frame. Qed.
Print Assumptions render_leaves_callers_dicts.

(* ANY history of calls sharing objects (the same `defaults` / `attrs` dictionaries in a loop or across renders, any
   other arguments in between): every call renders the pure function of the ORIGINAL contents - nothing an earlier
   call received leaks into a later one - and the objects end with their original contents. *)
Theorem history_independent : forall h0 cs,
  forallb (fun c : option nat * option nat * list ((str * bool) * aval) =>
             ref_ok (length h0) (fst (fst c)) && ref_ok (length h0) (snd (fst c))) cs = true ->
  fst (run_heap h0 cs) = map (fun c => html_attrs (deref h0 (fst (fst c))) (deref h0 (snd (fst c))) (snd c)) cs /\
  firstn (length h0) (snd (run_heap h0 cs)) = h0.
Proof. exact history_independent_lemma. Qed.
Print Assumptions history_independent.

(* The aliasing variant (merge performed in the caller's `defaults` object) is right on its first call and wrong on
   the second: why a check that renders every case once cannot see it. *)
Theorem aliased_render_refuted : exists h a1 a2 d,
  fst (render_heap_aliased h a1 d []) = html_attrs (deref h a1) (deref h d) [] /\
  fst (render_heap_aliased (snd (render_heap_aliased h a1 d [])) a2 d []) <> html_attrs (deref h a2) (deref h d) [].
Proof. exact aliased_render_leaks. Qed.
Print Assumptions aliased_render_refuted.

(* ---------- slot content ---------- *)

(* EXACTLY ONCE, through every chain of handing the normalised slot on to further Component.render calls
   with arbitrary escape flags (the dynamic component is the chain [true; false]). *)
Theorem slot_escaped_exactly_once : forall c b v flags, user_value c = Some v ->
  emit (travel (normalize c b) (map Repass flags))
  = if b && negb (declared_escaped c) && is_plain v then escape (stext v) else stext v.
Proof. exact slot_once_lemma. Qed.
Print Assumptions slot_escaped_exactly_once.

(* NEVER TWICE, and safe content never touched, also when user code re-wraps the travelling slot in fresh
   Slot(...) objects (dropping the escaped mark) and asks for escaping again, any number of times. *)
Theorem slot_never_escaped_twice : forall c b v hs, user_value c = Some v ->
  let out := emit (travel (normalize c b) hs) in
  out = stext v \/ (is_plain v = true /\ out = escape (stext v)).
Proof. exact slot_never_twice_lemma. Qed.
Print Assumptions slot_never_escaped_twice.

(* ---------- component JS / CSS ---------- *)

(* What is emitted is one element whose text - delimited the way an HTML reader delimits script / style
   text: up to the first ASCII-case-insensitive "</script" ("</style") - is exactly the code given. *)
Theorem wrap_js_keeps_element : forall s out, wrap_js s = Some out ->
  out = open_js ++ s ++ close_js /\ element_text needle_js open_js out = Some (s, close_js).
Proof. exact wrap_js_element_lemma. Qed.
Print Assumptions wrap_js_keeps_element.

Theorem wrap_css_keeps_element : forall s out, wrap_css s = Some out ->
  out = open_css ++ s ++ close_css /\ element_text needle_css open_css out = Some (s, close_css).
Proof. exact wrap_css_element_lemma. Qed.
Print Assumptions wrap_css_keeps_element.

(* Refusal happens exactly when the code contains its element's end tag in some letter case: the
   implementation's test on Python's Unicode str.lower() coincides with HTML's ASCII case-insensitive match
   (U+0130 and U+212A, whose lower-casing yields ASCII letters, cannot fake or hide a match). *)
Theorem wrap_js_refuses_iff : forall s, wrap_js s = None <-> contains_ci needle_js s = true.
Proof. exact wrap_js_refuses_iff_lemma. Qed.
Print Assumptions wrap_js_refuses_iff.

Theorem wrap_css_refuses_iff : forall s, wrap_css s = None <-> contains_ci needle_css s = true.
Proof. exact wrap_css_refuses_iff_lemma. Qed.
Print Assumptions wrap_css_refuses_iff.

(* ---------- non-vacuity ---------- *)
(* class with the value dquote > < squote & space = ; hidden=True ; x=None ; Data-X=5 : accepted, and read back *)
Example roundtrip_accepts :
  let d := [(([99;108;97;115;115], false), VStr [34;62;60;39;38;32;61]); (([104;105;100;100;101;110], false), VTrue);
            (([120], false), VNone); (([68;97;116;97;45;88], false), VObj [53])]%N in
  plain_emitted d = true /\
  option_map parse_attrs (attributes_to_string d) =
    Some (Parsed [([99;108;97;115;115], Some [34;62;60;39;38;32;61]); ([104;105;100;100;101;110], None);
                  ([100;97;116;97;45;120], Some [53])]%N).
Proof. vm_compute. split; reflexivity. Qed.

(* both outcomes of attrs_roundtrip occur; an invalid name is harmless when its value is None, and when the key
   object is a SafeString *)
Example roundtrip_refuses :
  attributes_to_string [(([97;32;98], false), VStr [118])]%N = None /\
  attributes_to_string [(([97;9;98], false), VTrue)]%N = None /\
  attributes_to_string [(([], false), VStr [118])]%N = None /\
  attributes_to_string [(([97;32;98], false), VNone)]%N = Some [] /\
  attributes_to_string [(([97;32;98], true), VStr [118])]%N = Some [97;32;98;61;34;118;34]%N.
Proof. vm_compute. repeat split; reflexivity. Qed.

Example merge_example :
  html_attrs [(([99], false), VStr [65])]%N [(([99], false), VStr [68]); (([105], false), VStr [49])]%N
             [(([99], false), VStr [107]); (([120], false), VSafe [60])]%N
  = Out [99;61;34;65;32;107;34;32;105;61;34;49;34;32;120;61;34;60;34]%N.   (* c="A k" i="1" x="<" *)
Proof. reflexivity. Qed.

(* {% html_attrs a d c=x data-i=1 c=y data-i=2 c=z %} with a = {c: A}, d = {c: D, h: True} *)
Example tag_example :
  let c := ([99]%N, false) in let di := ([100;97;116;97;45;105]%N, false) in
  let kws := [(c, true, VStr [120]); (di, false, VStr [49]); (c, true, VStr [121]); (di, false, VStr [50]);
              (c, true, VStr [122])]%N in
  forallb extra_kw kws = true /\
  html_attrs_tag ((None, TD [(c, VStr [65])]) :: (None, TD [(c, VStr [68]); (([104], false), VTrue)]) :: map kwp kws)%N
  = Out [99;61;34;65;32;120;32;121;32;122;34; 32;104; 32;100;97;116;97;45;105;61;34;49;32;50;34]%N.
        (* c="A x y z" h data-i="1 2" *)
Proof. vm_compute. split; reflexivity. Qed.

(* {% html_attrs defaults:c=D c=x attrs:c=A attrs:c=B c=y %} : c="A B x y" *)
Example tag_aggregate_example :
  let k s := ((s, false), true) in
  let kws := [(k (k_defaults ++ [58;99]), VStr [68]); (k [99], VStr [120]); (k (k_attrs ++ [58;99]), VStr [65]);
              (k (k_attrs ++ [58;99]), VStr [66]); (k [99], VStr [121])]%N in
  forallb tag_kw kws = true /\
  html_attrs_tag (map kwp kws) = Out [99;61;34;65;32;66;32;120;32;121;34]%N.
Proof. vm_compute. split; reflexivity. Qed.

(* three calls sharing one defaults object {c: d}: attrs {x: True}, then {}, then {c: A} *)
Example history_example :
  let h0 := [[(([99], false), VStr [100])]; [(([120], false), VTrue)]; []; [(([99], false), VStr [65])]]%N in
  fst (run_heap h0 [(Some 1, Some 0, []); (Some 2, Some 0, []); (Some 3, Some 0, [])]%nat)
  = [Out [99;61;34;100;34;32;120]; Out [99;61;34;100;34]; Out [99;61;34;65;34]]%N.
Proof. reflexivity. Qed.

(* a TypeError case of merge_order: appending to True *)
Example merge_type_error :
  html_attrs [] [(([104], false), VTrue)]%N [(([104], false), VStr [120])]%N = ErrType.
Proof. reflexivity. Qed.

Example slot_chain_example :
  emit (travel (normalize (CFun (Plain [60;98;62]%N)) true) [Repass true; Repass false; Rewrap true])
  = [38;108;116;59;98;38;103;116;59]%N.
Proof. reflexivity. Qed.

Example wrap_examples :
  wrap_js [120;60;47;83;67;82;73;80;84;62]%N = None /\            (* x</SCRIPT> *)
  wrap_js [60;47;115;99;114;304;112;116;62]%N <> None /\         (* </scrIpt> with U+0130: not an end tag *)
  wrap_css [60;47;115;99;114;105;112;116;62]%N <> None.          (* </script> inside CSS is harmless *)
Proof. vm_compute. repeat split; discriminate. Qed.
