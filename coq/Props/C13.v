(* Property C13 - html_attrs and Python-passed slot content emit exactly the data given, escaped.
   Only statements here; proofs live in Attrs/Proofs.v.  Model: Attrs/Model.v. *)
From DJC Require Import Lib.Base Attrs.Model Attrs.Proofs.

(* ---------- attributes: what is emitted reads back as exactly what was given ---------- *)

(* The reader's character-reference decoding undoes Django's escape on every string. *)
Theorem reader_undoes_escape : forall s, decode (escape s) = s.
Proof. exact decode_escape. Qed.
Print Assumptions reader_undoes_escape.

(* ROUND TRIP, for ALL value strings: if every attribute that is emitted has a name that can be written as
   an HTML attribute name and a value that is not marked safe, the HTML attribute tokenizer reads the emitted
   text back as exactly the given names (ASCII-lower-cased, as HTML reads names) and values, in order, each
   once; None / False attributes are absent, True attributes are bare.  Nothing ends the tag early and no
   quoted value is left open (the result is [Parsed], not [BrokeOut] / [Unterminated]).
   _partial: the statement says "whatever characters the names contain"; for names outside [valid_name]
   it is false for the current code (next theorem) - reported as a defect, see DESIGN section 11. *)
Theorem attrs_roundtrip_partial : forall d,
  roundtrip_guard d = true -> parse_attrs (attributes_to_string d) = Parsed (expected d).
Proof. exact attrs_roundtrip_lemma. Qed.
Print Assumptions attrs_roundtrip_partial.

Theorem attrs_roundtrip_names_refuted : exists d,
  forallb (fun kv => not_safe (snd kv)) d = true /\ parse_attrs (attributes_to_string d) <> Parsed (expected d).
Proof. exact attrs_roundtrip_names_refuted_lemma. Qed.
Print Assumptions attrs_roundtrip_names_refuted.

(* The same statement at full strength - whatever the names contain - for attributes_to_string WITH the
   proposed repair (refuse names that cannot be attribute names; notes/fixes/C13-refuse-invalid-attr-names.patch):
   either nothing is emitted because an emitted attribute's name is not writable, or the text reads back exactly. *)
Theorem attrs_roundtrip_strict : forall d, forallb (fun kv => not_safe (snd kv)) d = true ->
  match attributes_to_string_strict d with
  | Some out => parse_attrs out = Parsed (expected d)
  | None => exists k v, In (k, v) d /\ rendered v = true /\ valid_name k = false
  end.
Proof. exact attrs_roundtrip_strict_lemma. Qed.
Print Assumptions attrs_roundtrip_strict.

(* No value can change the number or the names of the attributes: two dictionaries with the same names and
   the same kinds of values (omitted / bare / valued) read back with the same names, whatever the values. *)
Theorem cannot_break_out : forall d d',
  roundtrip_guard d = true -> roundtrip_guard d' = true -> map shape d = map shape d' ->
  exists l l', parse_attrs (attributes_to_string d) = Parsed l /\
               parse_attrs (attributes_to_string d') = Parsed l' /\
               map fst l = map fst l' /\ length l = length l'.
Proof. exact cannot_break_out_lemma. Qed.
Print Assumptions cannot_break_out.

(* MERGE ORDER, every overlap pattern of names across defaults / attrs / extra keywords (string values; appending
   to or from a non-string is a TypeError in the model and the statement is silent on it): one entry per name;
   its text is the value from `attrs` if it has the name, else from `defaults`, followed by every extra keyword
   value for that name, joined by single spaces; names occurring nowhere are absent. *)
Theorem merge_order : forall attrs defaults kwargs,
  all_strv attrs -> all_strv defaults -> all_strv kwargs ->
  exists d, append_attributes (dupdate (dupdate [] defaults) attrs ++ kwargs) [] = Some d /\
            html_attrs attrs defaults kwargs = Some (attributes_to_string d) /\
            keys_nodup d /\
            forall k, option_map text_of (dget k d)
                      = joined (match (match dget k (rev attrs) with Some v => Some v | None => dget k (rev defaults) end)
                                with Some v => [text_of v] | None => [] end ++ texts_for k kwargs).
Proof. exact merge_order_lemma. Qed.
Print Assumptions merge_order.

(* ---------- slot content ---------- *)

(* EXACTLY ONCE, through every chain of handing the normalised slot on to further Component.render calls
   with arbitrary escape flags (the dynamic component is the chain [true; false]). *)
Theorem slot_escaped_exactly_once : forall c b v flags, user_value c = Some v ->
  emit (travel (normalize c b) (map Repass flags))
  = if b && negb (declared_escaped c) && is_plain v then escape (stext v) else stext v.
Proof. exact slot_once_lemma. Qed.
Print Assumptions slot_escaped_exactly_once.

(* NEVER TWICE, and safe content never touched, also when user code re-wraps the travelling slot in fresh
   Slot(...) objects (dropping the escaped mark) and asks for escaping again, any number of times. *)
Theorem slot_never_escaped_twice : forall c b v hs, user_value c = Some v ->
  let out := emit (travel (normalize c b) hs) in
  out = stext v \/ (is_plain v = true /\ out = escape (stext v)).
Proof. exact slot_never_twice_lemma. Qed.
Print Assumptions slot_never_escaped_twice.

(* ---------- component JS / CSS ---------- *)

(* What is emitted is one element whose text - delimited the way an HTML reader delimits script / style
   text: up to the first ASCII-case-insensitive "</script" ("</style") - is exactly the code given. *)
Theorem wrap_js_keeps_element : forall s out, wrap_js s = Some out ->
  out = open_js ++ s ++ close_js /\ element_text needle_js open_js out = Some (s, close_js).
Proof. exact wrap_js_element_lemma. Qed.
Print Assumptions wrap_js_keeps_element.

Theorem wrap_css_keeps_element : forall s out, wrap_css s = Some out ->
  out = open_css ++ s ++ close_css /\ element_text needle_css open_css out = Some (s, close_css).
Proof. exact wrap_css_element_lemma. Qed.
Print Assumptions wrap_css_keeps_element.

(* Refusal happens exactly when the code contains its element's end tag in some letter case: the
   implementation's test on Python's Unicode str.lower() coincides with HTML's ASCII case-insensitive match
   (U+0130 and U+212A, whose lower-casing yields ASCII letters, cannot fake or hide a match). *)
Theorem wrap_js_refuses_iff : forall s, wrap_js s = None <-> contains_ci needle_js s = true.
Proof. exact wrap_js_refuses_iff_lemma. Qed.
Print Assumptions wrap_js_refuses_iff.

Theorem wrap_css_refuses_iff : forall s, wrap_css s = None <-> contains_ci needle_css s = true.
Proof. exact wrap_css_refuses_iff_lemma. Qed.
Print Assumptions wrap_css_refuses_iff.

(* ---------- non-vacuity ---------- *)
Example roundtrip_guard_satisfiable :
  let d := [([99;108;97;115;115], VStr [34;62;60;39;38;32;61]); ([104;105;100;100;101;110], VTrue);
            ([120], VNone); ([68;97;116;97;45;88], VObj [53])]%N in
  roundtrip_guard d = true /\
  parse_attrs (attributes_to_string d) =
    Parsed [([99;108;97;115;115], Some [34;62;60;39;38;32;61]); ([104;105;100;100;101;110], None);
            ([100;97;116;97;45;120], Some [53])]%N.
Proof. vm_compute. split; reflexivity. Qed.

Example merge_example :
  html_attrs [([99], VStr [65])]%N [([99], VStr [68]); ([105], VStr [49])]%N [([99], VStr [107]); ([120], VSafe [60])]%N
  = Some [99;61;34;65;32;107;34;32;105;61;34;49;34;32;120;61;34;60;34]%N.   (* c="A k" i="1" x="<" *)
Proof. reflexivity. Qed.

Example slot_chain_example :
  emit (travel (normalize (CFun (Plain [60;98;62]%N)) true) [Repass true; Repass false; Rewrap true])
  = [38;108;116;59;98;38;103;116;59]%N.
Proof. reflexivity. Qed.

Example wrap_examples :
  wrap_js [120;60;47;83;67;82;73;80;84;62]%N = None /\            (* x</SCRIPT> *)
  wrap_js [60;47;115;99;114;304;112;116;62]%N <> None /\         (* </scrIpt> with U+0130: not an end tag *)
  wrap_css [60;47;115;99;114;105;112;116;62]%N <> None.          (* </script> inside CSS is harmless *)
Proof. vm_compute. repeat split; discriminate. Qed.
