(* Property C04 - exactly the JS/CSS of the rendered components is delivered, once, in order.
   Only statements here; proofs live in Deps/Proofs.v.  Model: Deps/Model.v (bytes-level M-model of
   dependencies.py, anchored to the regex pattern strings of Gen/C04.v). *)
From DJC Require Import Lib.Base Deps.Model Deps.Proofs Deps.Assemble.
Import Coq.Strings.String.StringSyntax.
Local Delimit Scope string_scope with string.
Local Arguments s2n s%string.
Local Open Scope N_scope.

(* "Whatever the class is named": the class hash of ANY Python identifier (ASCII letters, digits, "_"
   and arbitrary non-ASCII code points, UTF-8 encoded) with any hex digest consists of bytes the
   marker regexes accept ([^\s,>]+ in bytes mode). *)
Theorem class_names_harvestable : forall name digest,
  forallb ident_cp name = true -> forallb is_hex digest = true ->
  class_hash name digest <> [] /\ forallb is_hashb (class_hash name digest) = true.
Proof. exact class_hash_wf_lemma. Qed.
Print Assumptions class_names_harvestable.

(* emit -> harvest round trip, for every document text, marker, text, ..., text whose text carries no
   "_RENDERED" and whose markers were written by insert_component_dependencies_comment: the regex scan
   returns exactly the emitted records, in order, the text without them, and every record parses back
   into (class hash, id, js hash, css hash). *)
Theorem harvest_emit_roundtrip : forall d tail,
  clean (doc_text d tail) -> Forall wf_part (doc_parts d) ->
  strip_markers (doc_bytes d tail) = (map emit_data (doc_parts d), doc_text d tail) /\
  parse_parts (map emit_data (doc_parts d)) = Ok (doc_parts d).
Proof. exact harvest_emit_lemma. Qed.
Print Assumptions harvest_emit_roundtrip.

(* Hence _process_dep_declarations on such a document is the pipeline run on its instance list. *)
Theorem document_is_processed_by_instances : forall tbl t d tail,
  clean (doc_text d tail) -> Forall wf_part (doc_parts d) ->
  process tbl t (doc_bytes d tail) = rbind (process_parts tbl t (doc_parts d)) (fun x => Ok (doc_text d tail, x)).
Proof. exact process_doc_lemma. Qed.
Print Assumptions document_is_processed_by_instances.

(* The `seen`-set loops of the code (class hashes; tags by URL) compute "first element of every key". *)
Theorem dedupe_loop_refines_first_by : forall (A K : Type) (keq : K -> K -> bool) (key : A -> K),
  (forall a b, keq a b = true <-> a = b) -> forall l, dedupe keq key l = first_by keq key l.
Proof. exact @dedupe_first_by. Qed.
Print Assumptions dedupe_loop_refines_first_by.

Theorem comp_hashes_are_rendered_classes : forall ps,
  let '(_, hashes, _, _) := run_loop ps in hashes = rendered ps.
Proof. intro ps. rewrite run_loop_spec. reflexivity. Qed.
Print Assumptions comp_hashes_are_rendered_classes.

(* `rendered` = every rendered class, once, in order of first appearance. *)
Theorem rendered_each_class_once : forall ps,
  NoDup (rendered ps) /\ forall h, In h (rendered ps) <-> In h (map p_hash ps).
Proof. intro ps. split; [apply first_occ_NoDup|intro h; apply rendered_In]. Qed.
Print Assumptions rendered_each_class_once.

Theorem rendered_in_first_appearance_order : forall ps1 p ps2, ~ In (p_hash p) (map p_hash ps1) ->
  exists after, rendered (ps1 ++ p :: ps2) = rendered ps1 ++ p_hash p :: after /\
    forall h, In h after -> In h (map p_hash ps2) /\ ~ In h (map p_hash ps1) /\ h <> p_hash p.
Proof.
  intros ps1 p ps2 H. unfold rendered. rewrite map_app. cbn [map]. apply first_occ_order. exact H.
Qed.
Print Assumptions rendered_in_first_appearance_order.

(* Document mode: the inline <script>s of the JS block are the JS of the rendered classes that have
   JS - one entry per class, in first-appearance order - preceded only by empty variables stubs (none at
   all when no instance carries an input hash); likewise the <style>s of the CSS block; no style in the
   JS block, no script in the CSS block.  For any class table, any instance list. *)
Theorem inline_once_in_first_appearance_order : forall tbl ps d,
  process_parts tbl Document ps = Ok d ->
  (exists n, inline_of KJs (d_js d) = repeat [] n ++ flat_map (class_inline tbl KJs) (rendered ps)) /\
  (exists n, inline_of KCss (d_css d) = flat_map (class_inline tbl KCss) (rendered ps) ++ repeat [] n) /\
  inline_of KCss (d_js d) = [] /\ inline_of KJs (d_css d) = [] /\
  (no_inputs ps -> inline_of KJs (d_js d) = flat_map (class_inline tbl KJs) (rendered ps) /\
                   inline_of KCss (d_css d) = flat_map (class_inline tbl KCss) (rendered ps)).
Proof. exact doc_inline_lemma. Qed.
Print Assumptions inline_once_in_first_appearance_order.

(* Document mode: the Media tags written into the output carry pairwise different URLs, and a URL is
   there iff it is in the Media of some rendered class (k = KJs: script block, k = KCss: style block). *)
Theorem media_each_once : forall tbl ps d, process_parts tbl Document ps = Ok d ->
  forall k, let urls := tag_urls (media_of k (match k with KJs => d_js d | KCss => d_css d end)) in
  NoDup urls /\
  forall u, In u urls <->
            exists h c, In h (map p_hash ps) /\ tlookup h tbl = Some c /\ In (Some u) (map fst (ci_media k c)).
Proof. exact doc_media_lemma. Qed.
Print Assumptions media_each_once.

(* Classes that were not rendered contribute nothing: the whole result (success or error, both modes)
   is a function of the table entries of the rendered classes only. *)
Theorem unrendered_contribute_nothing : forall tbl1 tbl2 t ps,
  (forall h, In h (map p_hash ps) -> tlookup h tbl1 = tlookup h tbl2) ->
  process_parts tbl1 t ps = process_parts tbl2 t ps.
Proof. exact unrendered_lemma. Qed.
Print Assumptions unrendered_contribute_nothing.

(* Fragment mode: whenever document mode succeeds so does fragment mode; its script block is at most
   the loader declaration (nothing inlined); it marks nothing as loaded; the URLs it asks the loader to
   fetch are pairwise different and are exactly the URLs document mode delivers and marks as loaded. *)
Theorem fragment_declares_same_set : forall tbl ps dd, process_parts tbl Document ps = Ok dd ->
  exists df, process_parts tbl Fragment ps = Ok df /\
    (d_js df = [] \/ exists x, d_js df = [TExec x]) /\
    let xf := declared (d_js df) in let xd := declared (d_js dd) in
    x_loaded_js xf = [] /\ x_loaded_css xf = [] /\
    x_toload_js xd = [] /\ x_toload_css xd = [] /\
    NoDup (tag_urls (x_toload_js xf)) /\ NoDup (tag_urls (x_toload_css xf)) /\
    (forall u, In u (tag_urls (x_toload_js xf)) <-> In u (x_loaded_js xd)) /\
    (forall u, In u (tag_urls (x_toload_css xf)) <-> In u (x_loaded_css xd)).
Proof. exact fragment_lemma. Qed.
Print Assumptions fragment_declares_same_set.

(* ... and what document mode marks as loaded is: the cached script of each rendered class whose code
   it inlined (first-appearance order), the variables scripts, the Media URLs it wrote as tags. *)
Theorem document_marks_delivered_as_loaded : forall tbl ps d, process_parts tbl Document ps = Ok d ->
  forall k, exists inputs,
    (match k with KJs => x_loaded_js | KCss => x_loaded_css end) (declared (d_js d)) =
      flat_map (fun h => map (fun _ => UCache h k None) (class_inline tbl k h)) (rendered ps)
      ++ inputs ++ tag_urls (media_of k (match k with KJs => d_js d | KCss => d_css d end)).
Proof. exact doc_loaded_lemma. Qed.
Print Assumptions document_marks_delivered_as_loaded.

(* No render marker survives: the content handed back is the document's own text; scanning it again
   finds no marker. *)
Theorem no_marker_survives : forall tbl t d tail c x,
  clean (doc_text d tail) -> Forall wf_part (doc_parts d) ->
  process tbl t (doc_bytes d tail) = Ok (c, x) ->
  c = doc_text d tail /\ strip_markers c = ([], c) /\ contains marker_word c = false.
Proof. exact no_marker_survives_lemma. Qed.
Print Assumptions no_marker_survives.

(* EVERY placeholder of a document is replaced by the block of its kind - any number of placeholders of
   both kinds (the normal page: CSS placeholder in <head>, JS placeholder in <body>), each with any number of
   data-djc-id attributes (the repaired defect 59fa6d8) and data-djc-css attributes in ANY order (the repaired defect
   be574c3; \w{6} values) and an optional "/" - for text pieces free of "_PLACEHOLDER"; the two flags say which kinds
   were found. *)
Theorem placeholders_all_replaced : forall d tail js_b css_b,
  ph_pieces_ok d tail ->
  subst_placeholders (phdoc_bytes d tail) js_b css_b = (phdoc_subst d tail js_b css_b, has_kind KJs d, has_kind KCss d).
Proof. exact placeholders_all_replaced_lemma. Qed.
Print Assumptions placeholders_all_replaced.

(* THE ASSEMBLED OUTPUT, document mode (render_dependencies after _process_dep_declarations: substitution at
   the placeholders, then _insert_js_css_to_default_locations with the masked end-tag search and its offset
   arithmetic).  For every byte string x that has no "<" after its first byte and does not occur in the
   document's own text, and blocks that are empty or start with "<" and let no occurrence of x run out of them:
   the number of occurrences of x in the FINAL BYTES is  copies(JS) * (occurrences in the JS block) +
   copies(CSS) * (occurrences in the CSS block), where copies(k) = the number of placeholders of kind k, or, with
   none, 1 if the document has a </body> (JS) / </head> (CSS) end tag and 0 otherwise.  Nothing is written
   twice, nothing is lost. *)
Theorem assembled_occurrences : forall x d tail js_b css_b,
  x <> [] -> lt_free x -> iso x js_b -> iso x css_b -> ph_pieces_ok d tail ->
  contains x (phdoc_text d tail) = false ->
  occ x (assemble Document (phdoc_bytes d tail) js_b css_b) =
  (copies KJs d (phdoc_mask d tail js_b css_b) * occ x js_b + copies KCss d (phdoc_mask d tail js_b css_b) * occ x css_b)%nat.
Proof. exact assembled_occurrences_lemma. Qed.
Print Assumptions assembled_occurrences.

(* what "has an end tag" means in `copies`: some position of the searched text matches </head\s*> / </body\s*> *)
Theorem copies_counts_end_tags : forall k s,
  found_endtag k s = true <-> has_tag (match k with KCss => EHead | KJs => EBody end) s.
Proof. exact found_endtag_spec. Qed.
Print Assumptions copies_counts_end_tags.

(* fragment mode: the output is the document's text followed by the script block; x occurs as often as in it *)
Theorem fragment_occurrences : forall x d tail js_b css_b,
  x <> [] -> lt_free x -> iso x js_b -> ph_pieces_ok d tail ->
  contains x (phdoc_text d tail) = false ->
  assemble Fragment (phdoc_bytes d tail) js_b css_b = phdoc_text d tail ++ js_b /\
  occ x (assemble Fragment (phdoc_bytes d tail) js_b css_b) = occ x js_b.
Proof. exact fragment_occurrences_full_lemma. Qed.
Print Assumptions fragment_occurrences.

(* END TO END, document mode: render_dependencies (harvest + _process_dep_declarations + assembly), for any
   serialisation `ser` of the structured tags in which every tag starts with "<" and lets no occurrence of x run
   out of it.  A document text, marker, ..., text (hypotheses of harvest_emit_roundtrip) whose marker-free text is
   text, placeholder, ..., text: the call succeeds whenever the pipeline does, and the number of occurrences of x in
   the final bytes is  copies(JS) * (sum over the tags of the JS list of the occurrences in that tag) + the same for
   CSS.  Together with the theorems about the tag lists above (inline_once..., media_each_once) this is
   "exactly once in the final HTML": a string carried by exactly one tag of the list occurs copies(k) times. *)
Theorem final_html_counts : forall ser tbl d tail pd ptail dd x,
  clean (doc_text d tail) -> Forall wf_part (doc_parts d) ->
  doc_text d tail = phdoc_bytes pd ptail -> ph_pieces_ok pd ptail ->
  process_parts tbl Document (doc_parts d) = Ok dd ->
  x <> [] -> lt_free x -> ser_ok x ser (d_js dd) -> ser_ok x ser (d_css dd) ->
  contains x (phdoc_text pd ptail) = false ->
  exists out, render_deps ser tbl Document (doc_bytes d tail) = Ok out /\
    let m := phdoc_mask pd ptail (ser_all ser (d_js dd)) (ser_all ser (d_css dd)) in
    occ x out = (copies KJs pd m * list_sum (map (fun t => occ x (ser t)) (d_js dd)) +
                 copies KCss pd m * list_sum (map (fun t => occ x (ser t)) (d_css dd)))%nat.
Proof. exact final_counts_lemma. Qed.
Print Assumptions final_html_counts.

Theorem final_fragment_counts : forall ser tbl d tail pd ptail dd x,
  clean (doc_text d tail) -> Forall wf_part (doc_parts d) ->
  doc_text d tail = phdoc_bytes pd ptail -> ph_pieces_ok pd ptail ->
  process_parts tbl Fragment (doc_parts d) = Ok dd ->
  x <> [] -> lt_free x -> ser_ok x ser (d_js dd) ->
  contains x (phdoc_text pd ptail) = false ->
  exists out, render_deps ser tbl Fragment (doc_bytes d tail) = Ok out /\
    out = phdoc_text pd ptail ++ ser_all ser (d_js dd) /\
    occ x out = list_sum (map (fun t => occ x (ser t)) (d_js dd)).
Proof. exact final_counts_fragment_lemma. Qed.
Print Assumptions final_fragment_counts.

Theorem one_tag_carries_it_once : forall x (ser : tok -> str) l1 t0 l2,
  occ x (ser t0) = 1%nat -> (forall t, In t (l1 ++ l2) -> occ x (ser t) = O) ->
  list_sum (map (fun t => occ x (ser t)) (l1 ++ t0 :: l2)) = 1%nat.
Proof. exact sum_single. Qed.
Print Assumptions one_tag_carries_it_once.

(* NEITHER bookkeeping word survives into the FINAL BYTES (both modes): with blocks that are runs of tags
   ("<...>") free of the word, and a document text free of it, the assembled output does not contain "_RENDERED" /
   "_PLACEHOLDER" anywhere - not inside a piece, not across an insertion point - and a second substitution pass
   finds no placeholder. *)
Theorem no_marker_word_in_final_bytes : forall t d tail js_b css_b,
  ph_pieces_ok d tail -> tagged js_b -> tagged css_b ->
  clean (phdoc_text d tail) -> clean js_b -> clean css_b ->
  clean (assemble t (phdoc_bytes d tail) js_b css_b).
Proof. exact no_marker_word_lemma. Qed.
Print Assumptions no_marker_word_in_final_bytes.

Theorem no_placeholder_in_final_bytes : forall t d tail js_b css_b,
  ph_pieces_ok d tail -> tagged js_b -> tagged css_b ->
  ph_clean (phdoc_text d tail) -> ph_clean js_b -> ph_clean css_b ->
  let out := assemble t (phdoc_bytes d tail) js_b css_b in
  ph_clean out /\ forall j c, subst_placeholders out j c = (out, false, false).
Proof. exact no_placeholder_lemma. Qed.
Print Assumptions no_placeholder_in_final_bytes.

(* THE EMIT SIDE, as an explicit assumption checked on every generated page.  The theorems above start from a
   document  text, marker, ..., text  (doc_bytes).  That the content a page render hands to render_dependencies
   HAS this shape - one marker per rendered component instance, written by exactly one call of
   insert_component_dependencies_comment with that instance's class hash, render id and input hashes, in front
   of that instance's HTML, the rest free of "_RENDERED" - is NOT proved (rendering is outside this model).  The
   correspondence run records every call of insert_component_dependencies_comment, cuts the rendered content at the
   recorded markers and evaluates check_doc / check_phdoc inside Coq: when they return true, the hypotheses of
   harvest_emit_roundtrip / final_html_counts hold for that very page. *)
Theorem page_hypotheses_checked : forall content d tail,
  check_doc (content, d, tail) = true ->
  content = doc_bytes d tail /\ clean (doc_text d tail) /\ Forall wf_part (doc_parts d).
Proof. exact check_doc_sound. Qed.
Print Assumptions page_hypotheses_checked.

Theorem placeholder_hypotheses_checked : forall content d tail,
  check_phdoc (content, d, tail) = true ->
  content = phdoc_bytes d tail /\ ph_clean (phdoc_text d tail) /\ ph_pieces_ok d tail.
Proof. exact check_phdoc_sound. Qed.
Print Assumptions placeholder_hypotheses_checked.

(* the form the correspondence run evaluates on every rendered page (all comparisons of a page in one case) *)
Theorem rendered_page_hypotheses_checked : forall t tbl d tail ph toks fin,
  check_page (t, tbl, (d, tail), ph, toks, fin) = true ->
  clean (doc_text d tail) /\ Forall wf_part (doc_parts d) /\
  exists pd pt, doc_text d tail = phdoc_bytes pd pt /\ ph_clean (phdoc_text pd pt) /\ ph_pieces_ok pd pt.
Proof. exact check_page_sound. Qed.
Print Assumptions rendered_page_hypotheses_checked.

Theorem serialisation_hypothesis_checked : forall x ser toks, ser_okb x ser toks = true -> ser_ok x ser toks.
Proof. exact ser_okb_spec. Qed.
Print Assumptions serialisation_hypothesis_checked.

(* ---------- non-vacuity ---------- *)
Definition ex_hash1 : str := class_hash [1050; 1085; 1086; 1087; 1082; 1072] [49; 99; 51; 53; 100; 51].  (* Кнопка_1c35d3 *)
Definition ex_hash2 : str := class_hash [65] [48; 48; 97; 98; 99; 100].
Definition ex_tbl : list (str * cinfo) :=
  [ (ex_hash1, {| ci_js := Some [106]; ci_css := None; ci_mjs := [(Some (UMedia [120]), [])]; ci_mcss := [] |});
    (ex_hash2, {| ci_js := Some [107]; ci_css := Some [99]; ci_mjs := [(Some (UMedia [120]), []); (Some (UMedia [121]), [])]; ci_mcss := [] |});
    ([90], {| ci_js := Some [122]; ci_css := Some [122]; ci_mjs := [(Some (UMedia [122]), [])]; ci_mcss := [] |}) ].
Definition ex_doc : list (str * (str * str * str * str)) :=
  [ ([60; 112; 62], (ex_hash2, [97; 49], [], [])); ([], (ex_hash1, [97; 50], [], [])); ([120], (ex_hash2, [97; 51], [], [])) ].

Example hypotheses_satisfiable :
  forallb ident_cp [1050; 1085; 1086; 1087; 1082; 1072] = true /\
  clean (doc_text ex_doc [60; 47; 112; 62]) /\ Forall wf_part (doc_parts ex_doc) /\
  rendered (doc_parts ex_doc) = [ex_hash2; ex_hash1] /\
  (exists c d, process ex_tbl Document (doc_bytes ex_doc [60; 47; 112; 62]) = Ok (c, d) /\
     inline_of KJs (d_js d) = [[107]; [106]] /\ inline_of KCss (d_css d) = [[99]] /\
     tag_urls (media_of KJs (d_js d)) = [UMedia [120]; UMedia [121]]) /\
  (exists c d, process ex_tbl Fragment (doc_bytes ex_doc [60; 47; 112; 62]) = Ok (c, d) /\
     tag_urls (x_toload_js (declared (d_js d))) = [UMedia [120]; UMedia [121]; UCache ex_hash2 KJs None; UCache ex_hash1 KJs None]).
Proof.
  split; [reflexivity|]. split; [reflexivity|]. split.
  { repeat constructor; try discriminate. }
  split; [reflexivity|]. split; eexists; eexists; (split; [vm_compute; reflexivity|]); repeat split; reflexivity.
Qed.

(* instances whose own html is EMPTY or white space still count: the marker is all that stands for them (the emit-side
   assumption says every rendered instance writes one, whatever it renders - seed C04f broke exactly that) *)
Example empty_output_instances_are_delivered :
  let d := [ ([], (ex_hash2, [97; 49], [], [])); ([32; 10; 9], (ex_hash1, [97; 50], [], [])) ] in
  check_doc (doc_bytes d [32], d, [32]) = true /\
  rendered (doc_parts d) = [ex_hash2; ex_hash1] /\
  exists c dd, process ex_tbl Document (doc_bytes d [32]) = Ok (c, dd) /\ c = [32; 10; 9; 32] /\
    inline_of KJs (d_js dd) = [[107]; [106]] /\ tag_urls (media_of KJs (d_js dd)) = [UMedia [120]; UMedia [121]].
Proof. cbv zeta. split; [vm_compute; reflexivity|]. split; [reflexivity|]. eexists. eexists. split; [vm_compute; reflexivity|]. repeat split. Qed.

(* the placeholder that is the root of three nested components (witness of 59fa6d8) *)
Example placeholder_three_ids :
  subst_placeholders (emit_placeholder KCss [(false, [97;48;48;48;48;49]); (false, [97;48;48;48;48;50]); (false, [97;48;48;48;48;51])] false) [74] [67]
  = ([67], false, true).
Proof. vm_compute. reflexivity. Qed.

(* the normal page: CSS placeholder in <head>, JS placeholder (css attribute + two id attributes) in <body>, and a
   second CSS placeholder written "/>" *)
Definition ex_phdoc : list (str * phspec) :=
  [ (s2n "<head>", {| ph_kind := KCss; ph_attrl := []; ph_slash := false |});
    (s2n "</head><body>x", {| ph_kind := KJs; ph_attrl := [(true, [48;97;49;98;50;99]); (false, [97;48;48;48;48;49]); (false, [97;48;48;48;48;50])]; ph_slash := false |});
    (s2n "y", {| ph_kind := KCss; ph_attrl := [(false, [97;48;48;48;48;51])]; ph_slash := true |}) ].
Example placeholder_hypotheses_satisfiable :
  check_phdoc (phdoc_bytes ex_phdoc (s2n "</body>"), ex_phdoc, s2n "</body>") = true /\
  subst_placeholders (phdoc_bytes ex_phdoc (s2n "</body>")) [74] [67] = (s2n "<head>C</head><body>xJyC</body>", true, true) /\
  assemble Document (phdoc_bytes ex_phdoc (s2n "</body>")) [74] [67] = s2n "<head>C</head><body>xJyC</body>" /\
  assemble Fragment (phdoc_bytes ex_phdoc (s2n "</body>")) [74] [67] = s2n "<head></head><body>xy</body>J".
Proof. repeat split; vm_compute; reflexivity. Qed.

(* the placeholder of corpus/C04/placeholder-css-attr-order.json (witness of be574c3): ids first, css attribute last *)
Example placeholder_css_attr_last :
  let p := {| ph_kind := KCss; ph_attrl := [(false, [97;48;48;48;48;49]); (true, [48;97;49;98;50;99])]; ph_slash := true |} in
  ph_wfb p = true /\ subst_placeholders (ph_bytes p) [74] [67] = ([67], false, true).
Proof. split; vm_compute; reflexivity. Qed.

(* end to end with a concrete serialisation: class A (js "k", css "c") twice around class K (js "j") in a page with
   <head>/<body> and no placeholders; x = "<script>k" (the inline script of A): every hypothesis of final_html_counts
   holds (boolean forms) and x occurs exactly once in the final bytes; so does the <style> of A and the Media tag
   of the file both classes share *)
Definition ser_ex (t : tok) : str :=
  match t with
  | TCore => s2n "<script src=""core.js""></script>"
  | TExec _ => s2n "<script type=""application/json"" data-djc>{}</script>"
  | TMedia KJs (Some (UMedia u), _) => s2n "<script src=""" ++ u ++ s2n """></script>"
  | TMedia KCss (Some (UMedia u), r) => s2n "<link href=""" ++ u ++ s2n """ media=""" ++ r ++ s2n """ rel=""stylesheet"">"
  | TMedia _ _ => s2n "<other>"
  | TInline KJs c => s2n "<script>" ++ c ++ s2n "</script>"
  | TInline KCss c => s2n "<style>" ++ c ++ s2n "</style>"
  end.
Definition ex_page : list (str * (str * str * str * str)) :=
  [ (s2n "<head></head><body>", (ex_hash2, [97; 49], [], [])); ([], (ex_hash1, [97; 50], [], [])); ([120], (ex_hash2, [97; 51], [], [])) ].
Example final_counts_satisfiable :
  let tail := s2n "</body>" in
  let xs := [s2n "<script>k"; s2n "<style>c"; s2n "<script src=""x"">"] in
  check_doc (doc_bytes ex_page tail, ex_page, tail) = true /\
  check_phdoc (doc_text ex_page tail, [], doc_text ex_page tail) = true /\
  exists dd out, process_parts ex_tbl Document (doc_parts ex_page) = Ok dd /\
    forallb (fun x => ser_okb x ser_ex (d_js dd) && ser_okb x ser_ex (d_css dd)
                      && negb (contains x (doc_text ex_page tail)) && negb (existsb (N.eqb 60) (tl x))) xs = true /\
    render_deps ser_ex ex_tbl Document (doc_bytes ex_page tail) = Ok out /\
    map (fun x => occ x out) xs = [1; 1; 1]%nat /\
    copies KJs [] (doc_text ex_page tail) = 1%nat /\ copies KCss [] (doc_text ex_page tail) = 1%nat.
Proof.
  cbv zeta. split; [vm_compute; reflexivity|]. split; [vm_compute; reflexivity|].
  eexists. eexists. split; [vm_compute; reflexivity|]. repeat split; vm_compute; reflexivity.
Qed.
