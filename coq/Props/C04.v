(* Property C04 - exactly the JS/CSS of the rendered components is delivered, once, in order.
   Only statements here; proofs live in Deps/Proofs.v.  Model: Deps/Model.v (bytes-level M-model of
   dependencies.py, anchored to the regex pattern strings of Gen/C04.v). *)
From DJC Require Import Lib.Base Deps.Model Deps.Proofs.
Local Open Scope N_scope.

(* "Whatever the class is named": the class hash of ANY Python identifier (ASCII letters, digits, "_"
   and arbitrary non-ASCII code points, UTF-8 encoded) with any hex digest consists of bytes the
   marker regexes accept ([^\s,>]+ in bytes mode). *)
Theorem class_names_harvestable : forall name digest,
  forallb ident_cp name = true -> forallb is_hex digest = true ->
  class_hash name digest <> [] /\ forallb is_hashb (class_hash name digest) = true.
Proof. exact class_hash_wf_lemma. Qed.
Print Assumptions class_names_harvestable.

(* emit -> harvest round trip, for every document text, marker, text, ..., text whose text carries no
   "_RENDERED" and whose markers were written by insert_component_dependencies_comment: the regex scan
   returns exactly the emitted records, in order, the text without them, and every record parses back
   into (class hash, id, js hash, css hash). *)
Theorem harvest_emit_roundtrip : forall d tail,
  clean (doc_text d tail) -> Forall wf_part (doc_parts d) ->
  strip_markers (doc_bytes d tail) = (map emit_data (doc_parts d), doc_text d tail) /\
  parse_parts (map emit_data (doc_parts d)) = Ok (doc_parts d).
Proof. exact harvest_emit_lemma. Qed.
Print Assumptions harvest_emit_roundtrip.

(* Hence _process_dep_declarations on such a document is the pipeline run on its instance list. *)
Theorem document_is_processed_by_instances : forall tbl t d tail,
  clean (doc_text d tail) -> Forall wf_part (doc_parts d) ->
  process tbl t (doc_bytes d tail) = rbind (process_parts tbl t (doc_parts d)) (fun x => Ok (doc_text d tail, x)).
Proof. exact process_doc_lemma. Qed.
Print Assumptions document_is_processed_by_instances.

(* The `seen`-set loops of the code (class hashes; tags by URL) compute "first element of every key". *)
Theorem dedupe_loop_refines_first_by : forall (A K : Type) (keq : K -> K -> bool) (key : A -> K),
  (forall a b, keq a b = true <-> a = b) -> forall l, dedupe keq key l = first_by keq key l.
Proof. exact @dedupe_first_by. Qed.
Print Assumptions dedupe_loop_refines_first_by.

Theorem comp_hashes_are_rendered_classes : forall ps,
  let '(_, hashes, _, _) := run_loop ps in hashes = rendered ps.
Proof. intro ps. rewrite run_loop_spec. reflexivity. Qed.
Print Assumptions comp_hashes_are_rendered_classes.

(* `rendered` = every rendered class, once, in order of first appearance. *)
Theorem rendered_each_class_once : forall ps,
  NoDup (rendered ps) /\ forall h, In h (rendered ps) <-> In h (map p_hash ps).
Proof. intro ps. split; [apply first_occ_NoDup|intro h; apply rendered_In]. Qed.
Print Assumptions rendered_each_class_once.

Theorem rendered_in_first_appearance_order : forall ps1 p ps2, ~ In (p_hash p) (map p_hash ps1) ->
  exists after, rendered (ps1 ++ p :: ps2) = rendered ps1 ++ p_hash p :: after /\
    forall h, In h after -> In h (map p_hash ps2) /\ ~ In h (map p_hash ps1) /\ h <> p_hash p.
Proof.
  intros ps1 p ps2 H. unfold rendered. rewrite map_app. cbn [map]. apply first_occ_order. exact H.
Qed.
Print Assumptions rendered_in_first_appearance_order.

(* Document mode: the inline <script>s of the JS block are the JS of the rendered classes that have
   JS - one entry per class, in first-appearance order - preceded only by empty variables stubs (none at
   all when no instance carries an input hash); likewise the <style>s of the CSS block; no style in the
   JS block, no script in the CSS block.  For any class table, any instance list. *)
Theorem inline_once_in_first_appearance_order : forall tbl ps d,
  process_parts tbl Document ps = Ok d ->
  (exists n, inline_of KJs (d_js d) = repeat [] n ++ flat_map (class_inline tbl KJs) (rendered ps)) /\
  (exists n, inline_of KCss (d_css d) = flat_map (class_inline tbl KCss) (rendered ps) ++ repeat [] n) /\
  inline_of KCss (d_js d) = [] /\ inline_of KJs (d_css d) = [] /\
  (no_inputs ps -> inline_of KJs (d_js d) = flat_map (class_inline tbl KJs) (rendered ps) /\
                   inline_of KCss (d_css d) = flat_map (class_inline tbl KCss) (rendered ps)).
Proof. exact doc_inline_lemma. Qed.
Print Assumptions inline_once_in_first_appearance_order.

(* Document mode: the Media tags written into the output carry pairwise different URLs, and a URL is
   there iff it is in the Media of some rendered class (k = KJs: script block, k = KCss: style block). *)
Theorem media_each_once : forall tbl ps d, process_parts tbl Document ps = Ok d ->
  forall k, let urls := tag_urls (media_of k (match k with KJs => d_js d | KCss => d_css d end)) in
  NoDup urls /\
  forall u, In u urls <->
            exists h c, In h (map p_hash ps) /\ tlookup h tbl = Some c /\ In (Some u) (map fst (ci_media k c)).
Proof. exact doc_media_lemma. Qed.
Print Assumptions media_each_once.

(* Classes that were not rendered contribute nothing: the whole result (success or error, both modes)
   is a function of the table entries of the rendered classes only. *)
Theorem unrendered_contribute_nothing : forall tbl1 tbl2 t ps,
  (forall h, In h (map p_hash ps) -> tlookup h tbl1 = tlookup h tbl2) ->
  process_parts tbl1 t ps = process_parts tbl2 t ps.
Proof. exact unrendered_lemma. Qed.
Print Assumptions unrendered_contribute_nothing.

(* Fragment mode: whenever document mode succeeds so does fragment mode; its script block is at most
   the loader declaration (nothing inlined); it marks nothing as loaded; the URLs it asks the loader to
   fetch are pairwise different and are exactly the URLs document mode delivers and marks as loaded. *)
Theorem fragment_declares_same_set : forall tbl ps dd, process_parts tbl Document ps = Ok dd ->
  exists df, process_parts tbl Fragment ps = Ok df /\
    (d_js df = [] \/ exists x, d_js df = [TExec x]) /\
    let xf := declared (d_js df) in let xd := declared (d_js dd) in
    x_loaded_js xf = [] /\ x_loaded_css xf = [] /\
    x_toload_js xd = [] /\ x_toload_css xd = [] /\
    NoDup (tag_urls (x_toload_js xf)) /\ NoDup (tag_urls (x_toload_css xf)) /\
    (forall u, In u (tag_urls (x_toload_js xf)) <-> In u (x_loaded_js xd)) /\
    (forall u, In u (tag_urls (x_toload_css xf)) <-> In u (x_loaded_css xd)).
Proof. exact fragment_lemma. Qed.
Print Assumptions fragment_declares_same_set.

(* ... and what document mode marks as loaded is: the cached script of each rendered class whose code
   it inlined (first-appearance order), the variables scripts, the Media URLs it wrote as tags. *)
Theorem document_marks_delivered_as_loaded : forall tbl ps d, process_parts tbl Document ps = Ok d ->
  forall k, exists inputs,
    (match k with KJs => x_loaded_js | KCss => x_loaded_css end) (declared (d_js d)) =
      flat_map (fun h => map (fun _ => UCache h k None) (class_inline tbl k h)) (rendered ps)
      ++ inputs ++ tag_urls (media_of k (match k with KJs => d_js d | KCss => d_css d end)).
Proof. exact doc_loaded_lemma. Qed.
Print Assumptions document_marks_delivered_as_loaded.

(* No render marker survives: the content handed back is the document's own text; scanning it again
   finds no marker. *)
Theorem no_marker_survives : forall tbl t d tail c x,
  clean (doc_text d tail) -> Forall wf_part (doc_parts d) ->
  process tbl t (doc_bytes d tail) = Ok (c, x) ->
  c = doc_text d tail /\ strip_markers c = ([], c) /\ contains marker_word c = false.
Proof. exact no_marker_survives_lemma. Qed.
Print Assumptions no_marker_survives.

(* No placeholder survives the substitution, however many data-djc-id attributes the HTML
   post-processing added to it (the repaired defect 59fa6d8), for every surrounding text free of "_PLACEHOLDER". *)
Theorem placeholders_all_replaced : forall k css ids slash pre post js_b css_b,
  forallb is_word6 (match css with Some c => c :: ids | None => ids end) = true ->
  ph_clean pre -> ph_clean post ->
  subst_placeholders (pre ++ emit_placeholder k css ids slash ++ post) js_b css_b =
  (pre ++ (match k with KJs => js_b | KCss => css_b end) ++ post,
   match k with KJs => true | KCss => false end, match k with KJs => false | KCss => true end).
Proof. exact placeholder_replaced_lemma. Qed.
Print Assumptions placeholders_all_replaced.

(* ---------- non-vacuity ---------- *)
Definition ex_hash1 : str := class_hash [1050; 1085; 1086; 1087; 1082; 1072] [49; 99; 51; 53; 100; 51].  (* Кнопка_1c35d3 *)
Definition ex_hash2 : str := class_hash [65] [48; 48; 97; 98; 99; 100].
Definition ex_tbl : list (str * cinfo) :=
  [ (ex_hash1, {| ci_js := Some [106]; ci_css := None; ci_mjs := [(Some (UMedia [120]), [])]; ci_mcss := [] |});
    (ex_hash2, {| ci_js := Some [107]; ci_css := Some [99]; ci_mjs := [(Some (UMedia [120]), []); (Some (UMedia [121]), [])]; ci_mcss := [] |});
    ([90], {| ci_js := Some [122]; ci_css := Some [122]; ci_mjs := [(Some (UMedia [122]), [])]; ci_mcss := [] |}) ].
Definition ex_doc : list (str * (str * str * str * str)) :=
  [ ([60; 112; 62], (ex_hash2, [97; 49], [], [])); ([], (ex_hash1, [97; 50], [], [])); ([120], (ex_hash2, [97; 51], [], [])) ].

Example hypotheses_satisfiable :
  forallb ident_cp [1050; 1085; 1086; 1087; 1082; 1072] = true /\
  clean (doc_text ex_doc [60; 47; 112; 62]) /\ Forall wf_part (doc_parts ex_doc) /\
  rendered (doc_parts ex_doc) = [ex_hash2; ex_hash1] /\
  (exists c d, process ex_tbl Document (doc_bytes ex_doc [60; 47; 112; 62]) = Ok (c, d) /\
     inline_of KJs (d_js d) = [[107]; [106]] /\ inline_of KCss (d_css d) = [[99]] /\
     tag_urls (media_of KJs (d_js d)) = [UMedia [120]; UMedia [121]]) /\
  (exists c d, process ex_tbl Fragment (doc_bytes ex_doc [60; 47; 112; 62]) = Ok (c, d) /\
     tag_urls (x_toload_js (declared (d_js d))) = [UMedia [120]; UMedia [121]; UCache ex_hash2 KJs None; UCache ex_hash1 KJs None]).
Proof.
  split; [reflexivity|]. split; [reflexivity|]. split.
  { repeat constructor; try discriminate. }
  split; [reflexivity|]. split; eexists; eexists; (split; [vm_compute; reflexivity|]); repeat split; reflexivity.
Qed.

(* the placeholder that is the root of three nested components (witness of 59fa6d8) *)
Example placeholder_three_ids :
  subst_placeholders (emit_placeholder KCss None [[97;48;48;48;48;49]; [97;48;48;48;48;50]; [97;48;48;48;48;51]] false) [74] [67]
  = ([67], false, true).
Proof. vm_compute. reflexivity. Qed.

Example placeholder_hypotheses_satisfiable :
  forallb is_word6 [[48;97;49;98;50;99]; [97;48;48;48;48;49]; [97;48;48;48;48;50]] = true /\
  ph_clean [60;104;101;97;100;62] /\ ph_clean [60;47;104;101;97;100;62] /\
  subst_placeholders ([60;104;101;97;100;62] ++ emit_placeholder KJs (Some [48;97;49;98;50;99]) [[97;48;48;48;48;49]; [97;48;48;48;48;50]] false
                      ++ [60;47;104;101;97;100;62]) [74] [67]
  = ([60;104;101;97;100;62] ++ [74] ++ [60;47;104;101;97;100;62], true, false).
Proof. repeat split; vm_compute; reflexivity. Qed.
