(* Property C07 - concurrent renders in different threads do not interfere.
   Only statements here; proofs live in Conc/Proofs.v.  Model: Conc/Model.v (atomicity assumption: one source line
   touching library-global state = one atomic action; schedules are arbitrary lists of thread indices).

   The full property ("under EVERY interleaving each render returns what it returns alone, nothing is corrupted, no
   residue") is REFUTED for the current code: see the six `_refuted` theorems (witness schedules, each replayed on the
   implementation by harness/c07.py).  What is proved for ALL schedules is the part the code's design relies on -
   id-keyed entries are private to one render - under the stated exclusions (`_partial`). *)
From DJC Require Import Lib.Base Conc.Model Conc.Proofs.
Local Open Scope N_scope.

(* ---- Isolation of the id-keyed tables (Lipton-style), for every schedule, any number of threads -------------------
   PARTIAL: holds for configurations in which (a) no thread uses {% provide %} (the provide tables stay empty), (b) the
   template cache is disabled (maxsize <= 0) so that cached_template touches no shared entry, (c) no lazily resolved class
   data is accessed for the first time; ids of different threads are distinct.  (`safe_config`: the state is `quiet` and
   every thread's continuation consists of instructions on the id-keyed tables with its own ids.)
   Then after ANY schedule s, thread t is exactly where its own steps alone bring it (same continuation, same observations,
   same exception, same label trace), and component_context_cache / component_renderer_cache / child_component_attrs hold
   at t's keys what they hold in that solo run. *)
Theorem id_keyed_tables_isolated_partial :
  forall (own : nat -> N -> bool) (c0 : config), disjoint own -> safe_config own c0 ->
  forall (s : list nat) (t : nat),
    let cf := run s c0 in
    let ct := run (filter (Nat.eqb t) s) c0 in
    nth_error (ths cf) t = nth_error (ths ct) t /\
    forall k, own t k = true ->
      alookup k (cctx (ts (gl cf))) = alookup k (cctx (ts (gl ct))) /\
      alookup k (rend (ts (gl cf))) = alookup k (rend (ts (gl ct))) /\
      alookup k (attrs (ts (gl cf))) = alookup k (attrs (ts (gl ct))).
Proof. exact isolation_lemma. Qed.
Print Assumptions id_keyed_tables_isolated_partial.

(* ... and nothing else is written: keys that belong to no thread keep their entries, the provide tables, the template
   cache and the class data are unchanged.  (With the previous theorem: the tables after join are the union of what the
   solo runs leave; whether a solo run leaves something behind is property C06.) *)
Theorem unowned_keys_untouched_partial :
  forall own c0, disjoint own -> safe_config own c0 -> forall s k, (forall t, own t k = false) ->
    alookup k (cctx (ts (gl (run s c0)))) = alookup k (cctx (ts (gl c0))) /\
    alookup k (rend (ts (gl (run s c0)))) = alookup k (rend (ts (gl c0))) /\
    alookup k (attrs (ts (gl (run s c0)))) = alookup k (attrs (ts (gl c0))).
Proof. exact unowned_untouched_lemma. Qed.
Print Assumptions unowned_keys_untouched_partial.

Theorem other_shared_state_untouched_partial :
  forall own c0, disjoint own -> safe_config own c0 -> forall s,
    ps (gl (run s c0)) = ps (gl c0) /\ cs (gl (run s c0)) = cs (gl c0) /\ ms (gl (run s c0)) = ms (gl c0).
Proof. exact frame_lemma. Qed.
Print Assumptions other_shared_state_untouched_partial.

(* Steps of two different threads commute (both orders give the same thread states and the same tables as maps). *)
Theorem disjoint_keys_commute_partial :
  forall own c t u, disjoint own -> safe_config own c -> t <> u ->
    ths (step t (step u c)) = ths (step u (step t c)) /\
    same_tables (ts (gl (step t (step u c)))) (ts (gl (step u (step t c)))).
Proof. exact commute_lemma. Qed.
Print Assumptions disjoint_keys_commute_partial.

(* The hypothesis is met by render programs: pages without any {% provide %} (nested components, inject without a
   provider, failing get_context_data, inline templates all allowed), compiled by the model of Component._render_impl /
   component_post_render, over an empty state with the template cache disabled. *)
Theorem provider_free_pages_in_scope :
  forall (own : nat -> N -> bool) (pages : list (list item)) (cap : Z) rnk depths,
    (cap <= 0)%Z ->
    (forall t page, nth_error pages t = Some page -> provfree_list (own t) page = true) ->
    safe_config own (init_config (empty_G (Some cap) rnk depths true) (map TRender pages)).
Proof. exact provfree_config_safe_lemma. Qed.
Print Assumptions provider_free_pages_in_scope.

(* ---- Lazy class data: first access of Comp.media by any number of threads, any classes, every schedule --------------
   PARTIAL: for file layouts in which resolving an already resolved path changes nothing (depth <= 1: the component's
   directory does not contain the same relative path again).  Every thread that finishes returns the fully resolved
   path (= what it returns alone, take s = its own steps), no thread raises, and the media cache only ever holds that
   value.  For the other layouts see lazy_media_double_resolve_refuted. *)
Theorem lazy_media_isolated_partial :
  forall cap rnk depths nsp (ks : list N),
    (forall k, aget 0 k depths <= 1) ->
    let c0 := init_config (empty_G cap rnk depths nsp) (map TMedia ks) in
    forall (s : list nat) (t : nat) (th : thread) (k : N),
      nth_error (ths (run s c0)) t = Some th -> nth_error ks t = Some k ->
      failed th = None /\
      (finished th = true -> out th = [OMedia (aget 0 k depths)]) /\
      (forall v, alookup k (mcache (ms (gl (run s c0)))) = Some v -> v = aget 0 k depths).
Proof. exact lazy_media_isolated_lemma. Qed.
Print Assumptions lazy_media_isolated_partial.

(* ---- The genuine races of the current code (each: a schedule on which the property fails) ------------------------- *)

(* F1  managed_provide_cache's except branch un-registers every id added to the GLOBAL all_reference_ids since its copy:
       thread 1 fails inside a provide body and un-registers thread 0's consumer; thread 0's second consumer then cannot
       inject (KeyError) although alone it renders fine. *)
Theorem provide_errorpath_refuted :
  all_finished (run F1_sched F1_c0) = true /\ solo_finished F1_c0 0 = true /\ solo_finished F1_c0 1 = true /\
  solo_result F1_c0 0 = Some (None, [OInj 1; OTpl 11; OInj 1; OTpl 12]) /\
  thread_result (run F1_sched F1_c0) 0 = Some (Some KeyError, [OInj 1; OTpl 11]) /\
  thread_result (run F1_sched F1_c0) 1 = solo_result F1_c0 1.
Proof. exact provide_errorpath_refuted_lemma. Qed.
Print Assumptions provide_errorpath_refuted.

(* F2  unregister_provide_reference iterates list(provide_references.keys()) and then indexes the live dict: two
       successful provide + inject renders; one gets KeyError and leaves its provided data behind. *)
Theorem unregister_snapshot_refuted :
  all_finished (run F2_sched F2_c0) = true /\ solo_finished F2_c0 0 = true /\ solo_finished F2_c0 1 = true /\
  solo_result F2_c0 1 = Some (None, [OInj 1; OTpl 11]) /\
  thread_result (run F2_sched F2_c0) 1 = Some (Some KeyError, [OInj 1; OTpl 11]) /\
  thread_result (run F2_sched F2_c0) 0 = solo_result F2_c0 0 /\
  residue (gl (run F2_sched F2_c0)) = [[1001]; [1001]; []; []; []; []] /\
  tables_empty (gl (solo SOLO_FUEL 0 F2_c0)) = true /\ tables_empty (gl (solo SOLO_FUEL 1 F2_c0)) = true.
Proof. exact unregister_snapshot_refuted_lemma. Qed.
Print Assumptions unregister_snapshot_refuted.

(* F3  `if not provide_cache: return` in register_provide_reference sees other threads' providers: a render of one plain
       component, no provider anywhere in its page, enters the provide bookkeeping because of ANOTHER thread's provider and
       then fails in unregister_provide_reference (where F2 strikes): KeyError although alone it renders fine. *)
Theorem provide_register_race_refuted :
  all_finished (run F3_sched F3_c0) = true /\ solo_finished F3_c0 0 = true /\ solo_finished F3_c0 1 = true /\
  solo_result F3_c0 0 = Some (None, [OTpl 11]) /\
  thread_result (run F3_sched F3_c0) 0 = Some (Some KeyError, [OTpl 11]) /\
  thread_result (run F3_sched F3_c0) 1 = solo_result F3_c0 1.
Proof. exact register_empty_check_refuted_lemma. Qed.
Print Assumptions provide_register_race_refuted.

(* F4a unsynchronised LRUCache: a cached template is evicted (first compile of another template through a full cache of
       size 1) between `key in self.cache` and `self.cache[key]`: KeyError instead of the render. *)
Theorem lru_concurrent_get_refuted :
  all_finished (run F4a_sched F4a_c0) = true /\ solo_finished F4a_c0 0 = true /\ solo_finished F4a_c0 1 = true /\
  solo_result F4a_c0 0 = Some (None, [OTpl 10]) /\
  thread_result (run F4a_sched F4a_c0) 0 = Some (Some KeyError, []) /\
  thread_result (run F4a_sched F4a_c0) 1 = solo_result F4a_c0 1.
Proof. exact lru_concurrent_get_refuted_lemma. Qed.
Print Assumptions lru_concurrent_get_refuted.

(* F4b two concurrent cache HITS: both renders are right, the linked list and the dict no longer agree. *)
Theorem lru_concurrent_set_refuted :
  all_finished (run F4b_sched F4b_c0) = true /\
  thread_result (run F4b_sched F4b_c0) 0 = solo_result F4b_c0 0 /\
  thread_result (run F4b_sched F4b_c0) 1 = solo_result F4b_c0 1 /\
  lru_consistent (cs (gl F4b_c0)) = true /\
  lru_consistent (cs (gl (solo SOLO_FUEL 0 F4b_c0))) = true /\ lru_consistent (cs (gl (solo SOLO_FUEL 1 F4b_c0))) = true /\
  lru_consistent (cs (gl (run F4b_sched F4b_c0))) = false /\
  walk_fwd (cs (gl (run F4b_sched F4b_c0))) = [11] /\ sortN (map fst (ldict (cs (gl (run F4b_sched F4b_c0))))) = [10; 11].
Proof. exact lru_concurrent_corrupt_refuted_lemma. Qed.
Print Assumptions lru_concurrent_set_refuted.

(* F5  lazy media resolution run twice on a layout where the relative path resolves again: a thread (and every later
       reader of the class) gets dir/dir/file instead of dir/file. *)
Theorem lazy_media_double_resolve_refuted :
  all_finished (run F5_sched F5_c0) = true /\
  solo_result F5_c0 0 = Some (None, [OMedia 1]) /\ solo_result F5_c0 1 = Some (None, [OMedia 1]) /\
  thread_result (run F5_sched F5_c0) 0 = Some (None, [OMedia 1]) /\
  thread_result (run F5_sched F5_c0) 1 = Some (None, [OMedia 2]) /\
  alookup 1 (mcache (ms (gl (run F5_sched F5_c0)))) = Some 2.
Proof. exact lazy_media_double_resolve_refuted_lemma. Qed.
Print Assumptions lazy_media_double_resolve_refuted.

(* ---- Non-vacuity ---------------------------------------------------------------------------------------------- *)
(* The premises of the isolation theorems are satisfiable by real render programs under a real interleaving: a nested
   three-component page and a page that fails below its root; ids of thread t are t*1000 + n. *)
Example isolation_premises_satisfiable :
  disjoint NV_own /\ safe_config NV_own NV_c0 /\
  all_finished (run NV_sched NV_c0) = true /\
  thread_result (run NV_sched NV_c0) 0 = Some (None, [OTpl 10; OTpl 11; OTpl 12]) /\
  thread_result (run NV_sched NV_c0) 1 = Some (Some KeyError, [OTpl 10; OTpl 11]) /\
  tables_empty (gl (run NV_sched NV_c0)) = true.
Proof. exact isolation_premises_satisfiable_example. Qed.

(* The media theorem's premise (depth <= 1) is satisfiable and its conclusion is not vacuous: two threads interleaved
   inside the first access of the same class both finish with the resolved path. *)
Example lazy_media_premises_satisfiable :
  let depths := [(1, 1)] in
  (forall k, aget 0 k depths <= 1) /\
  let c := run [0; 0; 0; 1; 1; 1; 1; 0; 1; 0; 0; 1; 1; 0; 0; 1; 1; 0]%nat
               (init_config (empty_G (Some 128%Z) [] depths true) [TMedia 1; TMedia 1]) in
  all_finished c = true /\ map result (ths c) = [(None, [OMedia 1]); (None, [OMedia 1])].
Proof.
  split.
  - intro k. unfold aget. simpl. destruct (N.eqb k 1); simpl; lia.
  - vm_compute. split; reflexivity.
Qed.
