(* Property C03 - variable scoping follows the configured context behaviour.
   Statements about the scoping rules of the reference semantics Core/Sem.v (what the implementation is compared
   with on every run, under name collisions), plus the push/pop discipline of the fill-rendering mechanism. *)
From DJC Require Import Lib.Base Core.Syntax Core.Sem Core.ScopeProofs.

(* isolated mode / `only`: the component template sees exactly what get_context_data returned *)
Theorem isolated_template_sees_only_data : forall (md : mode) st c fills data x,
  lookup x (comp_state st c fills data true) = slookup x data.
Proof. exact isolated_sees_only_data_lemma. Qed.
Print Assumptions isolated_template_sees_only_data.

(* django mode: additionally the surrounding variables, data first *)
Theorem django_template_sees_data_over_outer : forall st c fills data x,
  lookup x (comp_state st c fills data false) =
  match slookup x data with Some v => Some v | None => lookup x st end.
Proof. exact django_sees_data_over_outer_lemma. Qed.
Print Assumptions django_template_sees_data_over_outer.

(* 2-run non-interference: whatever else differs between two caller states, an isolated component renders the
   same as long as the passed keyword values, the fills of its body and the providers agree *)
Theorem isolated_noninterference : forall md lib f st st' c kw only body,
  is_isolated md only = true ->
  eval_kwargs kw st = eval_kwargs kw st' ->
  resolve_fills st body = resolve_fills st' body ->
  prov st = prov st' ->
  render md lib (S f) st (TComp c kw only body) = render md lib (S f) st' (TComp c kw only body).
Proof. exact isolated_noninterference_lemma. Qed.
Print Assumptions isolated_noninterference.

(* isolated: fill content is lexically scoped - aliases, then the with/for bindings between tag and fill, then the
   scope at the component tag; the inner component's variables (loc st, out st) do not occur on the right *)
Theorem fill_scope_isolated : forall st al body btw cloc cout dv defv owner cprov x,
  lookup x (fill_state true st al (Clo body btw cloc cout dv defv owner cprov)) =
  first_some [slookup x al; slookup x btw; slookup x cloc; slookup x cout].
Proof. exact fill_scope_isolated_lemma. Qed.
Print Assumptions fill_scope_isolated.

(* django: aliases, inner-component data, bindings between tag and fill, outer variables - in that order *)
Theorem fill_scope_django : forall st al body btw cloc cout dv defv owner cprov x,
  lookup x (fill_state false st al (Clo body btw cloc cout dv defv owner cprov)) =
  first_some [slookup x al; slookup x (loc st); slookup x btw; slookup x (out st)].
Proof. exact fill_scope_django_lemma. Qed.
Print Assumptions fill_scope_django.

(* the `only` flag selects the isolated rules in either mode *)
Theorem only_flag_is_isolated : forall md, is_isolated md true = true.
Proof. intros md. reflexivity. Qed.
Print Assumptions only_flag_is_isolated.

(* mechanism: the insert(i)/pop(i) pair around a fill body restores the caller's layer list, for every list and
   every valid non-negative index ... *)
Theorem insert_pop_balanced : forall (A : Type) i (x : A) l, i <= length l -> py_pop i (py_insert i x l) = l.
Proof. exact @insert_pop_balanced_lemma. Qed.
Print Assumptions insert_pop_balanced.

(* ... and for index -1 (no component layer): insert(-1)/pop(-1) are not inverse, but together with the pop of the
   enclosing `with ctx.update(...)` the list is restored *)
Theorem insert_minus1_pop_balanced : forall (A : Type) (x top : A) l,
  pop_m1 (pop_m1 (insert_m1 x (l ++ [top]))) = l.
Proof. exact @insert_m1_pop_balanced_lemma. Qed.
Print Assumptions insert_minus1_pop_balanced.
