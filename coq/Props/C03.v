(* Property C03 - variable scoping follows the configured context behaviour.
   (1) scope equations of the reference semantics Core/Sem.v (what the implementation is compared with on every run,
       under name collisions);
   (2) two-run non-interference of that semantics for WHOLE programs, in both directions, by induction over the
       instantiation depth (Core/ScopeNI.v);
   (3) the push/pop discipline of the Context layer stack as a mechanism model (Core/CtxStack.v): every frame of
       ComponentNode.render / _render_impl / SlotNode.render / render_func restores the layer list it found, for all
       layer lists and all nestings, and where the fill's captured variables sit meanwhile. *)
From DJC Require Import Lib.Base Core.Syntax Core.Sem Core.ScopeProofs Core.ScopeNI Core.CtxStack.
From Coq Require Import String.
Local Open Scope string_scope.
Local Open Scope list_scope.

(* ===================== (1) scope equations ===================== *)

(* isolated mode / `only`: the component template sees exactly what get_context_data returned *)
Theorem isolated_template_sees_only_data : forall (md : mode) st c fills data x,
  lookup x (comp_state st c fills data true) = slookup x data.
Proof. exact isolated_sees_only_data_lemma. Qed.
Print Assumptions isolated_template_sees_only_data.

(* django mode: additionally the surrounding variables, data first *)
Theorem django_template_sees_data_over_outer : forall st c fills data x,
  lookup x (comp_state st c fills data false) =
  match slookup x data with Some v => Some v | None => lookup x st end.
Proof. exact django_sees_data_over_outer_lemma. Qed.
Print Assumptions django_template_sees_data_over_outer.

(* one tag: whatever else differs between two caller states, an isolated component renders the same as long as the
   passed keyword values, the fills of its body and the providers agree *)
Theorem isolated_noninterference : forall md lib f st st' c kw only body,
  is_isolated md only = true ->
  eval_kwargs kw st = eval_kwargs kw st' ->
  resolve_fills st body = resolve_fills st' body ->
  prov st = prov st' ->
  render md lib (S f) st (TComp c kw only body) = render md lib (S f) st' (TComp c kw only body).
Proof. exact isolated_noninterference_lemma. Qed.
Print Assumptions isolated_noninterference.

(* isolated: fill content is lexically scoped - aliases, then the with/for bindings between tag and fill, then the
   scope at the component tag; the inner component's variables (loc st, out st) do not occur on the right *)
Theorem fill_scope_isolated : forall st al body btw cloc cout dv defv owner cprov x,
  lookup x (fill_state true st al (Clo body btw cloc cout dv defv owner cprov)) =
  first_some [slookup x al; slookup x btw; slookup x cloc; slookup x cout].
Proof. exact fill_scope_isolated_lemma. Qed.
Print Assumptions fill_scope_isolated.

(* django: aliases, inner-component data, bindings between tag and fill, outer variables - in that order *)
Theorem fill_scope_django : forall st al body btw cloc cout dv defv owner cprov x,
  lookup x (fill_state false st al (Clo body btw cloc cout dv defv owner cprov)) =
  first_some [slookup x al; slookup x (loc st); slookup x btw; slookup x (out st)].
Proof. exact fill_scope_django_lemma. Qed.
Print Assumptions fill_scope_django.

(* the `only` flag selects the isolated rules in either mode *)
Theorem only_flag_is_isolated : forall md, is_isolated md true = true.
Proof. intros md. reflexivity. Qed.
Print Assumptions only_flag_is_isolated.

(* ===================== (2) two-run non-interference, whole programs ===================== *)

(* General form. Two runs of the same page: context behaviours md / md', libraries lib / lib', page contexts ctx / ctx'.
   If every component tag (of the page and of every component template) is rendered isolated in both runs, the
   libraries have the same templates and their get_context_data results agree on the names each component's OWN
   template mentions, and the page contexts agree on the names the PAGE template mentions, then both runs give the
   same result, for every fuel (= instantiation depth explored). *)
Theorem program_noninterference : forall md md' lib lib' page ctx ctx' fuel,
  rlib (both_isolated md md') lib lib' ->
  iso_tpls (both_isolated md md') page = true ->
  (forall x, In x (tpls_names page) -> slookup x ctx = slookup x ctx') ->
  render_prog fuel (mkprog lib page ctx md) = render_prog fuel (mkprog lib' page ctx' md').
Proof. exact program_noninterference_lemma. Qed.
Print Assumptions program_noninterference.

(* Isolated mode, both directions at once, no side conditions on the program:
   outer -> inner: the page contexts may differ in every variable the page template does not mention (variables that
                   only component templates read were never passed to them);
   inner -> outer: every component may have a further data variable (zn c) with different values in the two runs that
                   its own template does not mention - the caller's fill content may mention it, and still cannot
                   see it (inner data reaches fill content only through slot data). *)
Theorem isolated_noninterference_both_directions : forall lib page ctx ctx' zn sv sv' fuel,
  (forall c cd, slookup c lib = Some cd -> ~ In (zn c) (tpls_names (c_tpl cd))) ->
  (forall x, In x (tpls_names page) -> slookup x ctx = slookup x ctx') ->
  render_prog fuel (mkprog (lib_with_secrets zn sv lib) page ctx Isolated) =
  render_prog fuel (mkprog (lib_with_secrets zn sv' lib) page ctx' Isolated).
Proof. exact isolated_noninterference_both_lemma. Qed.
Print Assumptions isolated_noninterference_both_directions.

Theorem isolated_noninterference_outer : forall lib page ctx ctx' fuel,
  (forall x, In x (tpls_names page) -> slookup x ctx = slookup x ctx') ->
  render_prog fuel (mkprog lib page ctx Isolated) = render_prog fuel (mkprog lib page ctx' Isolated).
Proof. exact isolated_noninterference_outer_lemma. Qed.
Print Assumptions isolated_noninterference_outer.

(* `only` on every tag: the configured context behaviour is irrelevant ... *)
Theorem only_everywhere_mode_irrelevant : forall lib page ctx fuel,
  all_only page = true ->
  (forall c cd, slookup c lib = Some cd -> all_only (c_tpl cd) = true) ->
  render_prog fuel (mkprog lib page ctx Django) = render_prog fuel (mkprog lib page ctx Isolated).
Proof. exact only_everywhere_mode_irrelevant_lemma. Qed.
Print Assumptions only_everywhere_mode_irrelevant.

(* ... and non-interference holds in both directions under either behaviour *)
Theorem only_everywhere_noninterference : forall md lib page ctx ctx' zn sv sv' fuel,
  all_only page = true ->
  (forall c cd, slookup c lib = Some cd -> all_only (c_tpl cd) = true /\ ~ In (zn c) (tpls_names (c_tpl cd))) ->
  (forall x, In x (tpls_names page) -> slookup x ctx = slookup x ctx') ->
  render_prog fuel (mkprog (lib_with_secrets zn sv lib) page ctx md) =
  render_prog fuel (mkprog (lib_with_secrets zn sv' lib) page ctx' md).
Proof. exact only_everywhere_noninterference_lemma. Qed.
Print Assumptions only_everywhere_noninterference.

(* non-vacuity: a program in which a component template reads an unpassed page variable ("u") and the caller's fill
   reads the component's extra data variable ("z"); the two runs differ in both, the premises hold, and the common
   result is an actual rendering in which both reads are empty *)
Definition ex_lib : list (str * cdef) :=
  [(s2n "c", {| c_tpl := [TText (s2n "["); TOut (EVar (s2n "u")); TSlot (s2n "s") false false [] []; TText (s2n "]")];
                c_data := [(s2n "d", DKw (s2n "a"))] |})].
Definition ex_page : list tpl :=
  [TComp (s2n "c") [(s2n "a", EVar (s2n "p"))] false
     [TFill (EStr (s2n "s")) None None [TOut (EVar (s2n "z")); TOut (EVar (s2n "p"))]]].
Definition ex_ctx (u : str) : env := [(s2n "p", VStr (s2n "P")); (s2n "u", VStr u)].

Example noninterference_premises_satisfiable :
  (forall c cd, slookup c ex_lib = Some cd -> ~ In ((fun _ => s2n "z") c) (tpls_names (c_tpl cd))) /\
  (forall x, In x (tpls_names ex_page) -> slookup x (ex_ctx (s2n "U1")) = slookup x (ex_ctx (s2n "U2"))) /\
  ex_ctx (s2n "U1") <> ex_ctx (s2n "U2") /\
  lib_with_secrets (fun _ => s2n "z") (fun _ => s2n "S1") ex_lib <> lib_with_secrets (fun _ => s2n "z") (fun _ => s2n "S2") ex_lib /\
  render_prog 5 (mkprog (lib_with_secrets (fun _ => s2n "z") (fun _ => s2n "S1") ex_lib) ex_page (ex_ctx (s2n "U1")) Isolated)
    = Ok (s2n "[P]").
Proof.
  split; [|split; [|split; [|split]]].
  - intros c cd H. unfold ex_lib in H. cbn [slookup] in H. destruct (str_eqb c (s2n "c")); [|discriminate].
    inversion H; subst. vm_compute. intuition discriminate.
  - intros x Hx. vm_compute in Hx. intuition (subst; reflexivity).
  - discriminate.
  - discriminate.
  - vm_compute. reflexivity.
Qed.

Definition ex_page_only : list tpl :=
  [TComp (s2n "c") [(s2n "a", EVar (s2n "p"))] true
     [TFill (EStr (s2n "s")) None None [TOut (EVar (s2n "z")); TOut (EVar (s2n "p"))]]].
Example only_everywhere_premises_satisfiable :
  all_only ex_page_only = true /\ (forall c cd, slookup c ex_lib = Some cd -> all_only (c_tpl cd) = true) /\
  render_prog 5 (mkprog ex_lib ex_page_only (ex_ctx (s2n "U1")) Django) = Ok (s2n "[P]").
Proof.
  split; [reflexivity|]. split; [|vm_compute; reflexivity].
  intros c cd H. unfold ex_lib in H. cbn [slookup] in H. destruct (str_eqb c (s2n "c")); [|discriminate].
  inversion H; subst. reflexivity.
Qed.

(* ===================== (3) the layer stack (mechanism) ===================== *)

(* caller_context_unchanged, mechanism level: whatever is rendered - scopes, component tags, filled slots, nested in
   any way - and whatever the layer list of the Context it is rendered on, the list is afterwards the list before
   (and no list.pop raises). The error path belongs to C06; the tie to the code is the Context fingerprint oracle of
   the correspondence check. *)
Theorem caller_context_unchanged_mechanism : forall t c, exec t c = Some c.
Proof. exact exec_balanced_lemma. Qed.
Print Assumptions caller_context_unchanged_mechanism.

Theorem caller_context_unchanged_mechanism_list : forall ts c, exec_list ts c = Some c.
Proof. exact exec_list_balanced_lemma. Qed.
Print Assumptions caller_context_unchanged_mechanism_list.

(* the heart of it: render_func's insert(i)/pop(i) with i = (index of the last component layer, else 0) - 1, followed by
   the pop of SlotNode.render's with-block, restores every layer list - also for i = -1, where list.pop(-1) removes the
   alias layer instead of the inserted one and the with-block then removes the inserted one *)
Theorem fill_frame_restores_any_stack : forall (c : list (list (N * N))) extra al fe,
  match py_popZ (fill_index (set_top al (push extra c))) (py_insertZ (fill_index (set_top al (push extra c))) fe (set_top al (push extra c))) with
  | Some c3 => pop c3 = c
  | None => False
  end.
Proof. exact fill_frame_restores. Qed.
Print Assumptions fill_frame_restores_any_stack.

(* Python list semantics used above, for every list *)
Theorem insert_pop_balanced : forall (A : Type) i (x : A) (l : list A), i <= List.length l -> py_pop i (py_insert i x l) = l.
Proof. exact @insert_pop_balanced_lemma. Qed.
Print Assumptions insert_pop_balanced.

Theorem insert_minus1_pop_balanced : forall (A : Type) (x top : A) l,
  pop_m1 (pop_m1 (insert_m1 x (l ++ [top]))) = l.
Proof. exact @insert_m1_pop_balanced_lemma. Qed.
Print Assumptions insert_minus1_pop_balanced.

(* where the variables captured for a fill (with/for between tag and fill) sit while the fill body runs:
   no component layer in the used Context: directly below the alias layer (lexical) *)
Theorem fill_layers_no_component_layer : forall (c : list (list (N * N))) extra al fe,
  get_last_index (has_key COMPONENT_KEY) (c ++ [al ++ extra]) = None ->
  fill_stack c extra al fe = c ++ [fe; al ++ extra].
Proof. exact fill_layers_no_component_layer_lemma. Qed.
Print Assumptions fill_layers_no_component_layer.

(* last component layer at index k+1: directly below the layer at index k (that component's get_context_data layer) *)
Theorem fill_layers_below_data_layer : forall (c : list (list (N * N))) extra al fe k,
  get_last_index (has_key COMPONENT_KEY) (c ++ [al ++ extra]) = Some (S k) ->
  fill_stack c extra al fe = firstn k (c ++ [al ++ extra]) ++ fe :: skipn k (c ++ [al ++ extra]).
Proof. exact fill_layers_below_data_layer_lemma. Qed.
Print Assumptions fill_layers_below_data_layer.

(* the layer pushed for the fill carries the component key itself (django mode, tag not at the top of the page): the
   variables land below the former top layer only - above the inner component's data layer. This is the mechanism
   behind the recorded finding c03-django-fill-variables-inserted-above-inner-component-data. *)
Theorem fill_layers_key_in_pushed_layer : forall (c : list (list (N * N))) top extra al fe,
  has_key COMPONENT_KEY (al ++ extra) = true ->
  fill_stack (c ++ [top]) extra al fe = c ++ [fe; top; al ++ extra].
Proof. exact fill_layers_key_in_pushed_layer_lemma. Qed.
Print Assumptions fill_layers_key_in_pushed_layer.

Example fill_layers_premises_satisfiable :
  get_last_index (has_key COMPONENT_KEY) ([[(9, 0)]] ++ [[] ++ [(7, 1)]])%N = None /\
  get_last_index (has_key COMPONENT_KEY) ([[(9, 0)]; [(5, 50)]; [(COMPONENT_KEY, 2)]] ++ [[] ++ [(7, 1)]])%N = Some 2 /\
  has_key COMPONENT_KEY ([] ++ [(COMPONENT_KEY, 1%N)]) = true.
Proof. vm_compute. repeat split. Qed.

(* witness of the refuted order (django mode, nested tag): the captured variable 5 := 77 shadows the inner data 5 := 50 *)
Example fill_variables_above_inner_data_refuted :
  fill_stack w_inner [(COMPONENT_KEY, 1%N)] [] [(5%N, 77%N)] =
  w_outer ++ [[(5%N, 50%N)]; [(5%N, 77%N)]; [(COMPONENT_KEY, 2%N)]; [(COMPONENT_KEY, 1%N)]].
Proof. exact fill_variables_above_inner_data_witness. Qed.
