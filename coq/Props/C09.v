(* Property C09 - the template lexer partitions the source exactly, with right positions and lines.
   Only statements here; proofs live in Lexer/Proofs.v.  Model: Lexer/Model.v
   (django_lex = stock DebugLexer, detailed = _detailed_tag_parser, parse_template; every function takes
   the flag [d] = tag_re compiled with re.DOTALL, i.e. COMPONENTS.multiline_tags).
   Auxiliary predicates (Lexer/Proofs.v): [chain a l b] = the spans of l are contiguous from a to b;
   [opener]/[closer] = the two delimiter characters of a token type; [slice s a b] = s[a:b]. *)
From Coq Require Import String.
From DJC Require Import Lib.Base Lexer.Model Lexer.Proofs Lexer.Restart.

(* Token spans are non-empty, contiguous, start at 0, end at len(source), and concatenate to the source. *)
Theorem spans_partition : forall d s toks, parse_template d s = POk toks ->
  chain 0 toks (length s) /\
  Forall (fun t => tstart t < tend t <= length s) toks /\
  concat (map (fun t => slice s (tstart t) (tend t)) toks) = s.
Proof.
  intros d s toks H. destruct (parse_template_wf d s toks H) as [F C]. split; [exact C|]. split.
  - eapply Forall_impl; [|exact F]. intros t [A [B _]]. split; assumption.
  - rewrite (chain_concat s toks 0 (length s) F C). apply slice_all.
Qed.
Print Assumptions spans_partition.

(* TEXT: contents = span.  VAR / BLOCK / COMMENT: the span starts and ends with the type's delimiters and the
   contents are the span without the two delimiters, stripped (Python str.strip). *)
Theorem contents_eq_span : forall d s toks t, parse_template d s = POk toks -> In t toks ->
  match ttype t with
  | TText => tcontents t = slice s (tstart t) (tend t)
  | ty => tstart t + 4 <= tend t /\
          slice s (tstart t) (tstart t + 2) = opener ty /\
          slice s (tend t - 2) (tend t) = closer ty /\
          tcontents t = strip (slice s (tstart t + 2) (tend t - 2))
  end.
Proof.
  intros d s toks t H I. destruct (parse_template_wf d s toks H) as [F _].
  rewrite Forall_forall in F. destruct (F t I) as [_ [_ [_ W]]]. exact W.
Qed.
Print Assumptions contents_eq_span.

(* lineno = 1 + number of newlines before the token's start (after the fix 2466753 this holds for every token,
   also after several quoted tags and after multi-line quoted tags). *)
Theorem lineno_correct : forall d s toks t, parse_template d s = POk toks -> In t toks ->
  tline t = 1 + count_nl (firstn (tstart t) s).
Proof.
  intros d s toks t H I. destruct (parse_template_wf d s toks H) as [F _].
  rewrite Forall_forall in F. destruct (F t I) as [_ [_ [W _]]]. exact W.
Qed.
Print Assumptions lineno_correct.

(* The stock lexer has the same three properties, for every preset verbatim state (what the restart relies on). *)
Theorem stock_lexer_partition : forall d v s,
  chain 0 (django_lex_v d v s) (length s) /\
  forall t, In t (django_lex_v d v s) ->
    tstart t < tend t <= length s /\ tline t = 1 + count_nl (firstn (tstart t) s) /\
    (ttype t = TText -> tcontents t = slice s (tstart t) (tend t)).
Proof.
  intros d v s. destruct (django_lex_v_wf d v s) as [F C]. split; [exact C|].
  intros t I. rewrite Forall_forall in F. destruct (F t I) as [A [B [L W]]].
  split; [split; assumption|]. split; [exact L|]. intros Ty. rewrite Ty in W. exact W.
Qed.
Print Assumptions stock_lexer_partition.

(* REUSED BY C10a.  No block tag of the stock token stream contains a quote character => identical streams. *)
Theorem eq_stock_when_no_quote : forall d s,
  (forall t, In t (django_lex d s) -> ttype t = TBlock -> existsb is_quote (tcontents t) = false) ->
  parse_template d s = POk (django_lex d s).
Proof.
  intros d s H. apply eq_stock_no_broken. apply Forall_forall. intros t I. unfold is_broken.
  destruct (ttype t) eqn:Ty; try reflexivity. apply H; assumption.
Qed.
Print Assumptions eq_stock_when_no_quote.

(* REUSED BY C10a (the balanced-quote variant).  [closes_as_stockb s t] (decidable, Lexer/Restart.v): the quote-aware
   scan of _detailed_tag_parser started at t's opener ends exactly at t's end - i.e. the quotes of the tag are
   balanced, no percent-brace lies inside them and no lone percent sign derails the scan.  If that holds for every
   quoted block tag of the stock stream, the patched lexer returns the stock stream, token for token (types,
   contents, positions, line numbers, verbatim handling included).  The proof goes through the restart lemma
   [Restart.restart_rest]: re-lexing the remainder after a token, with the verbatim state parse_template carries
   over, yields exactly the rest of the stock stream. *)
Theorem eq_stock_when_quotes_closed : forall d s,
  (forall t, In t (django_lex d s) -> is_broken t = true -> closes_as_stockb s t = true) ->
  parse_template d s = POk (django_lex d s).
Proof.
  intros d s H. apply eq_stock_closed. intros t I B. apply closes_as_stockb_iff. apply H; assumption.
Qed.
Print Assumptions eq_stock_when_quotes_closed.

(* "differs only by keeping a quoted close", first half: the patched stream can differ from stock only if some
   quoted block tag b of the stock stream is closed elsewhere by the detailed scan (or the scan fails); all stock
   tokens before the first such b satisfy the closing condition.  PARTIAL: the statement does not describe the
   patched stream at and after b (it is `pre ++ fixed :: ...` with fixed starting where b starts - shown by the
   loop invariant of Lexer/Restart.pt_go_stock, not stated as a theorem); where the scan closes instead is given
   by closes_at_first_unquoted_end_partial. *)
Theorem differs_only_at_reclosed_quoted_tag_partial : forall d s,
  parse_template d s = POk (django_lex d s) \/
  exists pre b post, django_lex d s = pre ++ b :: post /\ is_broken b = true /\ closes_as_stockb s b = false /\
    Forall (fun t => is_broken t = true -> closes_as_stockb s t = true) pre.
Proof.
  intros d s. destruct (first_difference d s) as [A|[pre [b [post [E [B [N F]]]]]]]; [left; exact A|].
  right. exists pre, b, post. split; [exact E|]. split; [exact B|]. split.
  - destruct (closes_as_stockb s b) eqn:X; [|reflexivity]. apply closes_as_stockb_iff in X. contradiction.
  - eapply Forall_impl; [|exact F]. intros t Ht Bt. apply closes_as_stockb_iff. apply Ht. exact Bt.
Qed.
Print Assumptions differs_only_at_reclosed_quoted_tag_partial.

(* The while loop terminates: S(len) iterations of fuel are never used up, and more fuel changes nothing. *)
Theorem terminates : forall d s,
  parse_template d s <> POutOfFuel /\
  forall k, pt_go (S (length s) + k) d s 0 0 None [] = parse_template d s.
Proof.
  intros d s. unfold parse_template. apply pt_go_fuel; [lia|reflexivity|lia].
Qed.
Print Assumptions terminates.

(* A re-parsed (quoted) tag ends at the first percent-brace OUTSIDE its quoted strings ([spec_run], the
   S-model [parse_template_spec]).  FULL STATEMENT `forall d s, parse_template d s = parse_template_spec d s`
   IS REFUTED by the current code: a percent sign outside strings that is not followed by a closing brace
   makes `take_until_any(QUOTE_CHARS)` swallow everything up to the next quote, including the real end. *)
Theorem closes_at_first_unquoted_end_refuted : exists d s,
  parse_template d s <> parse_template_spec d s /\
  parse_template_spec d s = POk (django_lex d s).
Proof.
  exists true, lone_pct_witness. destruct lone_pct_refutes as [A [B _]]. rewrite A, B. split; [discriminate|reflexivity].
Qed.
Print Assumptions closes_at_first_unquoted_end_refuted.

(* What is proved: outside that input class ([lone_pct_free]: no scan of a re-parsed tag meets, outside strings,
   a percent sign followed by something other than a closing brace or a quote - decidable on the source)
   implementation and specification coincide.  Missing for the full statement: the lone-percent class (open
   finding c09-lone-percent). *)
Theorem closes_at_first_unquoted_end_partial : forall d s,
  lone_pct_free d s = true -> parse_template d s = parse_template_spec d s.
Proof. intros d s P. unfold parse_template, parse_template_spec. apply pt_go_eq_spec. exact P. Qed.
Print Assumptions closes_at_first_unquoted_end_partial.

(* ---------- non-vacuity ---------- *)
(* two quoted tags, one of them multi-line and keeping a quoted percent-brace: parse_template succeeds,
   differs from stock, and the guard lone_pct_free holds *)
Example premises_satisfiable :
  let s := s2n "a
{% x 'q%}' %}
{% y
 ""r"" %}{{ v }}"%string in
  lone_pct_free true s = true /\
  (exists toks, parse_template true s = POk toks /\ length toks = 5 /\ POk toks <> POk (django_lex true s)) /\
  map tline (match parse_template true s with POk l => l | _ => [] end) = [1; 2; 2; 3; 4].
Proof. vm_compute. split; [reflexivity|]. split; [|reflexivity]. eexists. split; [reflexivity|]. split; [reflexivity|discriminate]. Qed.

(* a source without quotes in tags *)
Example no_quote_premise_satisfiable :
  let s := s2n "{% if x %}{{ y }}{# c #}{% endif %}"%string in
  forall t, In t (django_lex true s) -> ttype t = TBlock -> existsb is_quote (tcontents t) = false.
Proof. vm_compute. intros t [E|[E|[E|[E|[]]]]]; subst; intros; try reflexivity; discriminate. Qed.

(* quoted tags that all close as stock closes them (incl. a quoted verbatim block): premise of
   eq_stock_when_quotes_closed holds and there are broken tokens *)
Example quotes_closed_premise_satisfiable :
  let s := s2n "{% verbatim 'x' %}{% if %}{% endverbatim 'x' %}{% a ""b"" k='c' %}"%string in
  forallb (fun t => negb (is_broken t) || closes_as_stockb s t) (django_lex true s) = true /\
  length (filter is_broken (django_lex true s)) = 3.
Proof. vm_compute. split; reflexivity. Qed.
