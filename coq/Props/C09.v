(* Property C09 - the template lexer partitions the source exactly, with right positions and lines.
   Only statements here; every proof is `exact` of the lemma of the same name in Lexer/Proofs.v.
   Model: Lexer/Model.v (django_lex = stock DebugLexer, detailed = _detailed_tag_parser, parse_template; every
   function takes the flag [d] = tag_re compiled with re.DOTALL, i.e. COMPONENTS.multiline_tags;
   spec_lex = one-pass reference lexer, qrun / qstate_at = "inside a quoted string").
   Auxiliary predicates: [chain a l b] = the spans of l are contiguous from a to b; [opener]/[closer] = the two
   delimiter characters of a token type; [slice s a b] = s[a:b] (Lexer/Wf.v); [close_at body j] = body[j:j+2] is
   percent-brace; [first_unquoted_close body j] = j is the first index with a percent-brace read outside quoted
   strings (Lexer/Scan.v); [tok_body s t] = s[tstart t + 2:], [close_index t] = tend t - tstart t - 4
   (Lexer/OnePass.v); [closes_as_stock(b)] = the quote-aware scan ends the tag where stock ends it
   (Lexer/Restart.v).  All theorems hold for every source (no length bound) and both values of d. *)
From Coq Require Import String.
From DJC Require Import Lib.Base Lexer.Model Lexer.Proofs Lexer.PatchModel Lexer.PatchProofs.

(* 1. Token spans are non-empty, contiguous, start at 0, end at len(source), and concatenate to the source. *)
Theorem spans_partition : forall d s toks, parse_template d s = POk toks ->
  chain 0 toks (length s) /\
  Forall (fun t => tstart t < tend t <= length s) toks /\
  concat (map (fun t => slice s (tstart t) (tend t)) toks) = s.
Proof. exact Proofs.spans_partition. Qed.
Print Assumptions spans_partition.

(* 2. TEXT: contents = span.  VAR / BLOCK / COMMENT: the span starts and ends with the type's delimiters and the
   contents are the span without the two delimiters, stripped (Python str.strip). *)
Theorem contents_eq_span : forall d s toks t, parse_template d s = POk toks -> In t toks ->
  match ttype t with
  | TText => tcontents t = slice s (tstart t) (tend t)
  | ty => tstart t + 4 <= tend t /\
          slice s (tstart t) (tstart t + 2) = opener ty /\
          slice s (tend t - 2) (tend t) = closer ty /\
          tcontents t = strip (slice s (tstart t + 2) (tend t - 2))
  end.
Proof. exact Proofs.contents_eq_span. Qed.
Print Assumptions contents_eq_span.

(* 3. lineno = 1 + number of newlines before the token's start - for every token, also after several quoted tags
   and after multi-line quoted tags. *)
Theorem lineno_correct : forall d s toks t, parse_template d s = POk toks -> In t toks ->
  tline t = 1 + count_nl (firstn (tstart t) s).
Proof. exact Proofs.lineno_correct. Qed.
Print Assumptions lineno_correct.

(* The stock lexer has the same three properties, for every preset verbatim state (what the restart relies on). *)
Theorem stock_lexer_partition : forall d v s,
  chain 0 (django_lex_v d v s) (length s) /\
  forall t, In t (django_lex_v d v s) ->
    tstart t < tend t <= length s /\ tline t = 1 + count_nl (firstn (tstart t) s) /\
    match ttype t with
    | TText => tcontents t = slice s (tstart t) (tend t)
    | ty => slice s (tstart t) (tstart t + 2) = opener ty /\ slice s (tend t - 2) (tend t) = closer ty /\
            tcontents t = strip (slice s (tstart t + 2) (tend t - 2))
    end.
Proof. exact Proofs.stock_lexer_partition. Qed.
Print Assumptions stock_lexer_partition.

(* 4a. _detailed_tag_parser(text, ln, st0), text starting with the opener: it returns a token iff the text after
   the opener has a percent-brace outside quoted strings; the token ends at the FIRST such (contents = the text up
   to it, stripped); otherwise it raises, "unterminated q string" if the text ends inside a q-quoted string (or
   right after a backslash in it), "unterminated tag" if it ends outside.  [qrun] does not look at percent signs:
   since fbbed58 a percent sign that is not followed by a closing brace is ordinary content. *)
Theorem detailed_closes_at_first_unquoted_end : forall text ln st0,
  (forall fixed, detailed text ln st0 = inr fixed <->
     exists j, first_unquoted_close (skipn 2 text) j /\
       fixed = mkTok TBlock (strip (firstn j (skipn 2 text))) st0 (st0 + (j + 4)) ln) /\
  (forall e, detailed text ln st0 = inl e <->
     (forall j, ~ (close_at (skipn 2 text) j /\ qstate_at (skipn 2 text) j = QOut)) /\
     e = err_of_qstate (qrun QOut (skipn 2 text))).
Proof. exact Proofs.detailed_closes_at_first_unquoted_end. Qed.
Print Assumptions detailed_closes_at_first_unquoted_end.

(* 4b. Every BLOCK token of the patched stream (quoted or not) ends at the first percent-brace, counted from its
   opener, that lies outside quoted strings. *)
Theorem closes_at_first_unquoted_end : forall d s toks t, parse_template d s = POk toks -> In t toks ->
  ttype t = TBlock ->
  (close_at (tok_body s t) (close_index t) /\ qstate_at (tok_body s t) (close_index t) = QOut) /\
  forall i, i < close_index t -> ~ (close_at (tok_body s t) i /\ qstate_at (tok_body s t) i = QOut).
Proof. exact Proofs.closes_at_first_unquoted_end. Qed.
Print Assumptions closes_at_first_unquoted_end.

(* 5a. REUSED BY C10a.  No block tag of the stock token stream contains a quote character => identical streams
   (types, contents, positions, line numbers). *)
Theorem eq_stock_when_no_quote : forall d s,
  (forall t, In t (django_lex d s) -> ttype t = TBlock -> existsb is_quote (tcontents t) = false) ->
  parse_template d s = POk (django_lex d s).
Proof. exact Proofs.eq_stock_when_no_quote. Qed.
Print Assumptions eq_stock_when_no_quote.

(* 5b. In particular a source without any quote character. *)
Theorem eq_stock_when_no_quote_char : forall d s,
  existsb is_quote s = false -> parse_template d s = POk (django_lex d s).
Proof. exact Proofs.eq_stock_when_no_quote_char. Qed.
Print Assumptions eq_stock_when_no_quote_char.

(* 5c. REUSED BY C10a.  Every quoted block tag of the stock stream is closed by the quote-aware scan where stock
   closes it (decidable [closes_as_stockb]) => identical streams, verbatim handling included.  Proof through the
   restart lemma [Restart.restart_rest]: re-lexing the remainder after a token, with the verbatim state
   parse_template carries over, yields exactly the rest of the stock stream. *)
Theorem eq_stock_when_quotes_closed : forall d s,
  (forall t, In t (django_lex d s) -> is_broken t = true -> closes_as_stockb s t = true) ->
  parse_template d s = POk (django_lex d s).
Proof. exact Proofs.eq_stock_when_quotes_closed. Qed.
Print Assumptions eq_stock_when_quotes_closed.

(* 5d. REUSED BY C10a.  The same in declarative form: in every quoted block tag of the stock stream, the
   percent-brace that ends the tag for stock Django is read outside the tag's quoted strings. *)
Theorem eq_stock_when_stock_close_unquoted : forall d s,
  (forall t, In t (django_lex d s) -> is_broken t = true -> qstate_at (tok_body s t) (close_index t) = QOut) ->
  parse_template d s = POk (django_lex d s).
Proof. exact Proofs.eq_stock_when_stock_close_unquoted. Qed.
Print Assumptions eq_stock_when_stock_close_unquoted.

(* 6a. "Differs only by keeping a quoted percent-brace": for EVERY source (result or TemplateSyntaxError) the
   restart-based implementation computes the one-pass reference lexer [spec_lex] - stock Django's loop (text runs,
   variables, comments, the verbatim state machine, positions, line numbers all stock) in which a tag that stock
   emits as a BLOCK token with a quote character ends at the first percent-brace outside its quoted strings. *)
Theorem differs_only_by_quoted_close : forall d s, parse_template d s = spec_lex d s.
Proof. exact Proofs.differs_only_by_quoted_close. Qed.
Print Assumptions differs_only_by_quoted_close.

(* 6b. The first difference with the stock stream, if any, is at a quoted block tag b whose stock-closing
   percent-brace is read INSIDE a quoted string of the tag; the tokens before b are stock's; the patched stream
   continues with a BLOCK token that starts where b starts, on the same line, extends beyond b and ends at the
   first percent-brace outside quoted strings (or parse_template raises for b or a later tag). *)
Theorem first_difference_is_quoted_close : forall d s,
  parse_template d s = POk (django_lex d s) \/
  exists pre b post, django_lex d s = pre ++ b :: post /\ is_broken b = true /\
    Forall (fun t => is_broken t = true -> closes_as_stock s t) pre /\
    qstate_at (tok_body s b) (close_index b) <> QOut /\
    match parse_template d s with
    | POk toks => exists fixed post', toks = pre ++ fixed :: post' /\
        ttype fixed = TBlock /\ tstart fixed = tstart b /\ tline fixed = tline b /\ tend b < tend fixed /\
        first_unquoted_close (tok_body s b) (close_index fixed)
    | PErr _ => True
    | POutOfFuel => False
    end.
Proof. exact Proofs.first_difference_is_quoted_close. Qed.
Print Assumptions first_difference_is_quoted_close.

(* 7a. The while loop terminates: S(len) iterations of fuel are never used up, and more fuel changes nothing. *)
Theorem terminates : forall d s,
  parse_template d s <> POutOfFuel /\
  forall k, pt_go (S (length s) + k) d s 0 0 None [] = parse_template d s.
Proof. exact Proofs.terminates. Qed.
Print Assumptions terminates.

(* 7b. ... because index_start strictly increases in every iteration that hands a tag to the detailed parser. *)
Theorem index_start_increases : forall d v s i off good b rest fixed,
  i <= length s -> off = count_nl (firstn i s) ->
  map (shift_tok i off) (django_lex_v d v (skipn i s)) = good ++ b :: rest -> is_broken b = true ->
  detailed (skipn (tstart b) s) (tline b) (tstart b) = inr fixed ->
  i < tend fixed <= length s.
Proof. exact Proofs.index_start_increases. Qed.
Print Assumptions index_start_increases.

(* 8. "The PATCHED Django Template": monkeypatch_template_cls on a hierarchy of Template classes (Lexer/PatchModel.v:
   class = own compile_nodelist / own _djc_patched flag / parent; attribute lookup and is_template_cls_patched walk
   the parents; events = class creation with or without an own compile_nodelist, monkeypatch_template_cls(c);
   apps.ready() = EPatch 0).
   8a. Once a class has been handed to monkeypatch_template_cls - whatever its ancestors, whether it has its own
   compile_nodelist, whether an ancestor was already patched, whatever happens afterwards - it compiles from
   parse_template's stream (= spec_lex, theorem 6a) and is_template_cls_patched holds. *)
Theorem patched_class_compiles_from_parse_template : forall h w c, c < length w -> In (EPatch c) h ->
  compile_route (run h w) c = RPatched /\ is_patched (run h w) c = true /\
  forall d s, compile_stream (run h w) c d s = spec_lex d s.
Proof. exact PatchProofs.patched_class_compiles_from_parse_template. Qed.
Print Assumptions patched_class_compiles_from_parse_template.

(* 8b. Patching is local: a class never handed to monkeypatch_template_cls keeps its own attributes. *)
Theorem never_patched_keeps_own : forall h w c k, nth_error w c = Some k -> ~ In (EPatch c) h ->
  nth_error (run h w) c = Some k.
Proof. exact PatchProofs.never_patched_keeps_own. Qed.
Print Assumptions never_patched_keeps_own.

(* 8c. A class without its own compile_nodelist compiles like its parent (so every subclass of a patched class that
   does not override compile_nodelist is patched too). *)
Theorem inherits_parent_route : forall h c k p, hist_ok h world0 = true ->
  nth_error (run h world0) c = Some k -> ccompile k = None -> cparent k = Some p ->
  compile_route (run h world0) c = compile_route (run h world0) p.
Proof. exact PatchProofs.inherits_parent_route. Qed.
Print Assumptions inherits_parent_route.

(* ---------- non-vacuity ---------- *)
(* two quoted tags, one of them multi-line and keeping a quoted percent-brace: parse_template succeeds, differs
   from stock, line numbers as expected *)
Example premises_satisfiable :
  let s := s2n "a
{% x 'q%}' %}
{% y
 ""r"" %}{{ v }}"%string in
  (exists toks, parse_template true s = POk toks /\ length toks = 5 /\ POk toks <> POk (django_lex true s)) /\
  map tline (match parse_template true s with POk l => l | _ => [] end) = [1; 2; 2; 3; 4].
Proof. vm_compute. split; [|reflexivity]. eexists. split; [reflexivity|]. split; [reflexivity|discriminate]. Qed.

(* the witnesses of the defect fixed by fbbed58 (a lone percent sign outside strings in a quoted tag): now stock *)
Example lone_percent_fixed :
  parse_template true (s2n "{% a ""c"" %b %}"%string) = POk (django_lex true (s2n "{% a ""c"" %b %}"%string)) /\
  parse_template true (s2n "{% a ""c"" %b %}x{% d ""e"" %}y"%string)
    = POk (django_lex true (s2n "{% a ""c"" %b %}x{% d ""e"" %}y"%string)) /\
  length (django_lex true (s2n "{% a ""c"" %b %}x{% d ""e"" %}y"%string)) = 4 /\
  parse_template true (s2n "{% a ""c"" %%}"%string) = POk (django_lex true (s2n "{% a ""c"" %%}"%string)).
Proof. vm_compute. repeat split. Qed.

(* a source without quotes in tags *)
Example no_quote_premise_satisfiable :
  let s := s2n "{% if x %}{{ y }}{# c #}{% endif %}"%string in
  forall t, In t (django_lex true s) -> ttype t = TBlock -> existsb is_quote (tcontents t) = false.
Proof. vm_compute. intros t [E|[E|[E|[E|[]]]]]; subst; intros; try reflexivity; discriminate. Qed.

(* quoted tags that all close as stock closes them (incl. a quoted verbatim block): the premises of 5c and 5d
   hold and there are quoted tokens *)
Example quotes_closed_premise_satisfiable :
  let s := s2n "{% verbatim 'x' %}{% if %}{% endverbatim 'x' %}{% a ""b"" k='c' %}"%string in
  forallb (fun t => negb (is_broken t) || closes_as_stockb s t) (django_lex true s) = true /\
  forallb (fun t => negb (is_broken t) || is_qout (qstate_at (tok_body s t) (close_index t))) (django_lex true s) = true /\
  length (filter is_broken (django_lex true s)) = 3.
Proof. vm_compute. repeat split. Qed.

(* both outcomes of _detailed_tag_parser occur; a token that skipped a quoted percent-brace *)
Example detailed_outcomes :
  detailed (s2n "{% a 'x%}' %}z"%string) 3 10 = inr (mkTok TBlock (s2n "a 'x%}'"%string) 10 23 3) /\
  detailed (s2n "{% a 'x%}"%string) 1 0 = inl (EUntermString 39%N) /\
  detailed (s2n "{% a 'x' %"%string) 1 0 = inl EUntermTag.
Proof. vm_compute. repeat split. Qed.

(* the second disjunct of 6b is inhabited *)
Example difference_exists :
  let s := s2n "{% a 'x%}' %}"%string in
  parse_template true s <> POk (django_lex true s) /\
  map (fun t => qstate_at (tok_body s t) (close_index t)) (django_lex true s) = [QIn 39%N; QOut].
Proof. vm_compute. split; [discriminate|reflexivity]. Qed.

(* django.setup(); class A(Template) with its own compile_nodelist; class B(A) without; monkeypatch_template_cls(A):
   A and B compile from parse_template, all three classes report is_template_cls_patched; without the last call A
   and B compile from the stock lexer although is_template_cls_patched(A) is already true (inherited flag) *)
Example patch_history_example :
  let h := [EPatch 0; ENew 0 true; ENew 1 false] in
  hist_ok (h ++ [EPatch 1]) world0 = true /\
  map (compile_route (run (h ++ [EPatch 1]) world0)) [0; 1; 2] = [RPatched; RPatched; RPatched] /\
  map (compile_route (run h world0)) [0; 1; 2] = [RPatched; RStock; RStock] /\
  map (is_patched (run h world0)) [0; 1; 2] = [true; true; true].
Proof. vm_compute. repeat split. Qed.
