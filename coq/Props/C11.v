(* Property C11 - a tag accepts its arguments exactly when the equivalent Python call would.
   Only statements here; proofs live in Bind/Proofs.v.  Model: Bind/Model.v.

   py_bind   = the equivalent Python call render(self, context, <arguments in order>)   (S-model; compared with
               REAL Python calls on every case of the correspondence run)
   impl_bind = wrapper_render: split off non-identifier keys, validate (fast path over __code__ when
               use_code = true, else the inspect.Signature fallback), then really call
               render(self, context, *args, **kwargs)                                    (M-model)
   res_equiv = both bind the same values to the same parameters, defaults included ( **kwargs compared as a
               dictionary), or both refuse with TypeError / SyntaxError.
   All theorems hold for every signature accepted by `def` whose first two positional parameters are self and
   context (wfb), every argument sequence including spreads, every classification `special` of keys into
   identifiers / non-identifiers that makes the parameter names identifiers, and both validation paths.

   The model is the code after the fix commits 3c868d2, 8478320, 81cf028, 87d326f; the inputs on which the code
   departed from Python before them are kept as Examples below (and in corpus/C11).  No theorem is _partial. *)
From DJC Require Import Lib.Base Bind.Model Bind.Proofs Bind.Flags Bind.FlagsProofs.
Import Coq.Strings.String.StringSyntax.
Local Open Scope string_scope.

(* The tag and the equivalent Python call: same bindings (defaults included), or both refuse. *)
Theorem tag_binds_like_python : forall special use_code sv cv F call,
  wfb special F = true ->
  res_equiv (impl_bind special use_code sv cv F call) (py_bind sv cv F call).
Proof. exact bind_equiv_lemma. Qed.
Print Assumptions tag_binds_like_python.

(* "accepts exactly when": acceptance of the tag and of the Python call coincide. *)
Theorem tag_accepts_iff_python_accepts : forall special use_code sv cv F call,
  wfb special F = true ->
  ((exists b, impl_bind special use_code sv cv F call = Ok b) <-> (exists b, py_bind sv cv F call = Ok b)).
Proof. exact accepts_iff_lemma. Qed.
Print Assumptions tag_accepts_iff_python_accepts.

(* Fast path (fn.__code__ index arithmetic) and fallback (inspect.Signature) lead to the same call or the same
   refusal. *)
Theorem fast_path_agrees_with_fallback : forall special sv cv F call,
  wfb special F = true ->
  res_equiv (impl_bind special true sv cv F call) (impl_bind special false sv cv F call).
Proof. exact fast_fallback_lemma. Qed.
Print Assumptions fast_path_agrees_with_fallback.

(* Whatever is refused is refused with TypeError or SyntaxError (never IndexError from defaults[...] or
   param_names[...], never AttributeError from a key that is not a str), and SyntaxError only for a positional
   argument after a keyword one. *)
Theorem only_type_or_syntax_error : forall special use_code sv cv F call e,
  wfb special F = true ->
  impl_bind special use_code sv cv F call = Err e ->
  (e = TypeError \/ e = SyntaxError) /\ (e = SyntaxError -> pos_after_kw (resolve call) false = true).
Proof. exact error_class_lemma. Qed.
Print Assumptions only_type_or_syntax_error.

(* A key that is not a Python identifier is accepted only through **kwargs: if the tag accepts a call that
   contains it, render() has **kwargs, no parameter has that name, and kwargs maps the key to its value. *)
Theorem non_identifier_only_via_varkw : forall special use_code sv cv F call k v b,
  wfb special F = true ->
  In (Some k, v) (resolve call) -> special k = true ->
  impl_bind special use_code sv cv F call = Ok b ->
  s_vk F <> None /\ ~ In k (all_names F) /\ exists d, b_kw b = Some d /\ klookup k d = Some v.
Proof. exact special_only_varkw_lemma. Qed.
Print Assumptions non_identifier_only_via_varkw.

(* Whenever wrapper_render gets as far as the statement  orig_render(self, context, *args, **kwargs)  - i.e.
   resolve_params, its own split and the validator all returned - that call binds exactly what the equivalent Python
   call binds, or Python's binding of it raises TypeError and the equivalent call is refused too: render() never runs
   with other bindings. *)
Theorem never_called_with_other_bindings : forall special use_code sv cv F call es reg inv args kwargs,
  wfb special F = true ->
  resolve_params call = Ok es ->
  wsplit special es false [] = Ok (reg, inv) ->
  validate_params use_code F reg inv = Ok (args, kwargs) ->
  res_equiv (py_call F (sv :: cv :: args) kwargs) (py_bind sv cv F call).
Proof. exact never_other_bindings_lemma. Qed.
Print Assumptions never_called_with_other_bindings.

(* ---- parse-time step in front of the binding: flags (Bind/Flags.v, _extract_flags) ----
   Which attributes a tag with declared flags removes decides which arguments are bound.  For every list of declared
   flags that are identifiers and every attribute list: the loop of _extract_flags (text comparison of the serialized
   attribute) = the specification "a flag is a key-less, un-spread attribute written as a bare word that the tag declares";
   in particular the branch "reserved flag cannot be spread" is unreachable. *)
Theorem flags_are_exactly_the_declared_bare_words : forall allowed,
  forallb is_identifier allowed = true ->
  forall attrs found, forallb wf_attr attrs = true ->
  extract_flags allowed attrs found = flags_spec allowed attrs found.
Proof. exact extract_flags_spec. Qed.
Print Assumptions flags_are_exactly_the_declared_bare_words.

(* A variable that is merely NAMED like a flag but carries a filter chain, is spread, is quoted or is the value of a
   keyword stays an argument, in place. *)
Theorem flag_named_argument_is_kept : forall allowed a,
  forallb is_identifier allowed = true -> wf_attr a = true ->
  (a_spread a = true \/ (exists w f, a_form a = VFiltered w f) \/ (exists s, a_form a = VQuoted s) \/ a_key a <> None) ->
  forall r found, extract_flags allowed (a :: r) found =
    match extract_flags allowed r found with Ok (rem, fl) => Ok (a :: rem, fl) | Err e => Err e end.
Proof. exact flag_named_argument_kept. Qed.
Print Assumptions flag_named_argument_is_kept.

(* The whole tag with flags: the arguments bound are those of the attributes that are not flags, in order, bound like
   the Python call of exactly those arguments; the flags reported are exactly the declared bare words written; the only
   other outcome is the refusal of a repeated flag (TemplateSyntaxError, shown as OtherError). *)
Theorem flagged_tag_binds_like_python : forall special use_code sv cv F allowed attrs,
  wfb special F = true -> forallb is_identifier allowed = true -> forallb wf_attr attrs = true ->
  match extract_flags allowed attrs [] with
  | Ok (rem, fl) =>
      rem = filter (fun a => negb (is_flag allowed a)) attrs /\
      (forall w, In w fl <-> exists a, In a attrs /\ flag_word allowed a = Some w) /\
      impl_tag special use_code sv cv F allowed attrs = impl_bind special use_code sv cv F (map a_arg rem) /\
      py_tag sv cv F allowed attrs = py_bind sv cv F (map a_arg rem) /\
      res_equiv (impl_tag special use_code sv cv F allowed attrs) (py_tag sv cv F allowed attrs)
  | Err e =>
      e = OtherError /\ impl_tag special use_code sv cv F allowed attrs = Err OtherError /\
      py_tag sv cv F allowed attrs = Err OtherError
  end.
Proof. exact flagged_tag_lemma. Qed.
Print Assumptions flagged_tag_binds_like_python.

(* Sanity of the S-model: an accepted Python call binds every parameter exactly once, in signature order, and
   **kwargs holds only supplied keywords that name no keyword-capable parameter. *)
Theorem python_binds_each_parameter_once : forall F args kws b,
  py_call F args kws = Ok b ->
  map fst (b_vals b) = map pname (pos_params F ++ s_ko F) /\
  (forall k, In k (map fst (match b_kw b with Some d => d | None => [] end)) ->
             In k (map fst kws) /\ ~ In k (map pname (s_pk F ++ s_ko F))).
Proof. exact py_call_total_binding. Qed.
Print Assumptions python_binds_each_parameter_once.

(* ---------- non-vacuity ---------- *)
(* def render(self, context, a, b=902, /, c=903, *ar, d, e=905, **kw)
   {% tag 11 c=12 data-x=13 ...{"d": 14, "u": 15} %} : wfb holds, defaults are applied, the call is accepted, on both paths *)
Example premises_satisfiable :
  let F := mkSig [mkP (s2n "self") None; mkP (s2n "context") None; mkP (s2n "a") None; mkP (s2n "b") (Some 902%N)]
                 [mkP (s2n "c") (Some 903%N)] (Some (s2n "ar"))
                 [mkP (s2n "d") None; mkP (s2n "e") (Some 905%N)] (Some (s2n "kw")) in
  let call := [TPos 11%N; TKw (s2n "c") 12%N; TKw (s2n "data-x") 13%N; TSpreadD [(DStr (s2n "d"), 14%N); (DStr (s2n "u"), 15%N)]] in
  wfb py_special F = true /\
  impl_bind py_special true SV CV F call =
    Ok (mkB [(s2n "self", SV); (s2n "context", CV); (s2n "a", 11%N); (s2n "b", 902%N); (s2n "c", 12%N);
             (s2n "d", 14%N); (s2n "e", 905%N)] (Some []) (Some [(s2n "u", 15%N); (s2n "data-x", 13%N)])) /\
  impl_bind py_special false SV CV F call = impl_bind py_special true SV CV F call.
Proof. vm_compute. repeat split. Qed.

(* premises of never_called_with_other_bindings are satisfiable with a call that Python's binding then refuses:
   def render(self, context, a, /)   {% tag a=1 %} : the validator lets the key through (it is a parameter name),
   orig_render(self, context, a=1) raises TypeError, and so does the equivalent call *)
Example validator_passes_call_refuses :
  let F := mkSig [mkP (s2n "self") None; mkP (s2n "context") None; mkP (s2n "a") None] [] None [] None in
  let call := [TKw (s2n "a") 1%N] in
  resolve_params call = Ok [(Some (s2n "a"), 1%N)] /\
  wsplit py_special [(Some (s2n "a"), 1%N)] false [] = Ok ([(Some (s2n "a"), 1%N)], []) /\
  validate_params true F [(Some (s2n "a"), 1%N)] [] = Ok ([], [(s2n "a", 1%N)]) /\
  py_call F [SV; CV] [(s2n "a", 1%N)] = Err TypeError /\ py_bind SV CV F call = Err TypeError.
Proof. vm_compute. repeat split. Qed.

(* witnesses of the three defects that were fixed: the model of the current code agrees with Python on them *)
(* 3c868d2: def render(self, context, a=1, /, **kw), {% tag %} *)
Example posonly_default_fixed :
  let F := mkSig [mkP (s2n "self") None; mkP (s2n "context") None; mkP (s2n "a") (Some 1%N)] [] None [] (Some (s2n "kw")) in
  impl_bind py_special true SV CV F [] = py_bind SV CV F [] /\
  impl_bind py_special false SV CV F [] = py_bind SV CV F [] /\
  py_bind SV CV F [] = Ok (mkB [(s2n "self", SV); (s2n "context", CV); (s2n "a", 1%N)] None (Some [])).
Proof. vm_compute. repeat split. Qed.

(* 81cf028: def render(self, context, a, /, **kw)   {% tag 11 a=12 %}  binds a=11, kw={'a': 12} *)
Example posonly_name_as_kwarg_fixed :
  let F := mkSig [mkP (s2n "self") None; mkP (s2n "context") None; mkP (s2n "a") None] [] None [] (Some (s2n "kw")) in
  let call := [TPos 11%N; TKw (s2n "a") 12%N] in
  impl_bind py_special true SV CV F call = py_bind SV CV F call /\
  impl_bind py_special false SV CV F call = py_bind SV CV F call /\
  py_bind SV CV F call = Ok (mkB [(s2n "self", SV); (s2n "context", CV); (s2n "a", 11%N)] None (Some [(s2n "a", 12%N)])).
Proof. vm_compute. repeat split. Qed.

(* 8478320: def render(self, context, **kw)   {% tag data-x=11 data-x=12 %}  is refused like f( **{..}, **{..}) *)
Example duplicate_special_key_fixed :
  let F := mkSig [] [mkP (s2n "self") None; mkP (s2n "context") None] None [] (Some (s2n "kw")) in
  let call := [TKw (s2n "data-x") 11%N; TKw (s2n "data-x") 12%N] in
  impl_bind py_special true SV CV F call = Err TypeError /\ impl_bind py_special false SV CV F call = Err TypeError /\
  py_bind SV CV F call = Err TypeError.
Proof. vm_compute. repeat split. Qed.

(* a refusal with SyntaxError exists (positional after a non-identifier keyword) *)
Example syntax_error_reachable :
  impl_bind py_special true SV CV
            (mkSig [] [mkP (s2n "self") None; mkP (s2n "context") None] (Some (s2n "ar")) [] (Some (s2n "kw")))
            [TKw (s2n "data-x") 1%N; TPos 2%N] = Err SyntaxError.
Proof. vm_compute. reflexivity. Qed.

(* 87d326f: def render(self, context, a=1, **kw)   {% tag ...d %} with d = {None: 2}  was bound as a=2 (a None key means
   "positional" in TagParam); now refused like render(self, context, **d), and so is any other key that is not a str *)
Example nonstring_spread_key_fixed :
  let F := mkSig [] [mkP (s2n "self") None; mkP (s2n "context") None; mkP (s2n "a") (Some 1%N)] None [] (Some (s2n "kw")) in
  impl_bind py_special true SV CV F [TSpreadD [(DNone, 2%N)]] = Err TypeError /\
  py_bind SV CV F [TSpreadD [(DNone, 2%N)]] = Err TypeError /\
  impl_bind py_special false SV CV F [TSpreadD [(DStr (s2n "u"), 1%N); (DOther, 2%N)]] = Err TypeError /\
  py_bind SV CV F [TSpreadD [(DStr (s2n "u"), 1%N); (DOther, 2%N)]] = Err TypeError /\
  (* a positional argument after the mapping: SyntaxError for Python (compile time), TypeError for the tag - same class *)
  py_bind SV CV F [TSpreadD [(DNone, 2%N)]; TPos 3%N] = Err SyntaxError /\
  impl_bind py_special true SV CV F [TSpreadD [(DNone, 2%N)]; TPos 3%N] = Err TypeError.
Proof. vm_compute. repeat split. Qed.

(* flags: def render(self, context, a, b=902), flags required / default declared.
   {% t required|add:0 12 required %} : the filtered variable stays the first argument, the bare word is the flag *)
Example flag_named_filtered_variable_is_an_argument :
  let F := mkSig [] [mkP (s2n "self") None; mkP (s2n "context") None; mkP (s2n "a") None; mkP (s2n "b") (Some 902%N)] None [] None in
  let allowed := [s2n "required"; s2n "default"] in
  let attrs := [mkA (VFiltered (s2n "required") (s2n "add:0")) (TPos 11%N); mkA (VOther (s2n "12")) (TPos 12%N);
                mkA (VBare (s2n "required")) (TPos 0%N)] in
  forallb is_identifier allowed = true /\ forallb wf_attr attrs = true /\
  tag_flags allowed attrs = Some [s2n "required"] /\
  impl_tag py_special true SV CV F allowed attrs
    = Ok (mkB [(s2n "self", SV); (s2n "context", CV); (s2n "a", 11%N); (s2n "b", 12%N)] None None) /\
  py_tag SV CV F allowed attrs = impl_tag py_special true SV CV F allowed attrs /\
  (* a repeated flag is refused *)
  impl_tag py_special true SV CV F allowed (attrs ++ [mkA (VBare (s2n "required")) (TPos 0%N)]) = Err OtherError.
Proof. vm_compute. repeat split. Qed.
