(* Property C11 - a tag accepts its arguments exactly when the equivalent Python call would.
   Only statements here; proofs live in Bind/Proofs.v.  Model: Bind/Model.v.

   py_bind   = the equivalent Python call render(self, context, <arguments in order>)   (S-model)
   impl_bind = wrapper_render: split off special keys, validate (fast path when use_code = true, else
               the inspect.Signature fallback), then really call render(self, context, *args, **kwargs) (M-model)
   res_equiv = both bind the same values to the same parameters (kwargs compared as a dictionary),
               or both refuse with TypeError / SyntaxError.
   All theorems hold for every signature accepted by `def` (wfb), every argument sequence including
   spreads, every classification `special` of keys into identifiers / non-identifiers, and both paths.

   The CURRENT code departs from Python on two input classes (reported, see notes/fixes/C11-*.patch):
     clash_posonly : a keyword names a positional-only parameter that already received a positional argument
                     and **kwargs exists            - Python: goes into kwargs; the tag: TypeError
     clash_special : the same non-identifier / reserved-word key twice
                                                    - Python: TypeError; the tag: silently keeps the last
   `guard c` excludes exactly the classes whose repair is not switched on in c, so the general theorem gives
   the full statement for the repaired code and the _partial one for the current code. *)
From DJC Require Import Lib.Base Bind.Model Bind.Proofs.
Import Coq.Strings.String.StringSyntax.
Local Open Scope string_scope.

(* Full statement, current code: refuted by two concrete witnesses (replayed on /repo by harness/c11.py). *)
Theorem tag_binds_like_python_refuted_posonly_kwarg :
  exists F call, wfb py_special F = true /\
    ~ res_equiv (impl_bind current_cfg py_special true SV CV F call) (py_bind SV CV F call).
Proof.
  (* def render(self, context, a, /, **kw)   {% tag 11 a=12 %} *)
  exists (mkSig [mkP (s2n "self") None; mkP (s2n "context") None; mkP (s2n "a") None] [] None [] (Some (s2n "kw"))),
         [TPos 11%N; TKw (s2n "a") 12%N].
  split; [vm_compute; reflexivity | vm_compute; intro H; exact H].
Qed.
Print Assumptions tag_binds_like_python_refuted_posonly_kwarg.

Theorem tag_binds_like_python_refuted_duplicate_special :
  exists F call, wfb py_special F = true /\
    ~ res_equiv (impl_bind current_cfg py_special true SV CV F call) (py_bind SV CV F call).
Proof.
  (* def render(self, context, **kw)   {% tag data-x=11 data-x=12 %} *)
  exists (mkSig [] [mkP (s2n "self") None; mkP (s2n "context") None] None [] (Some (s2n "kw"))),
         [TKw (s2n "data-x") 11%N; TKw (s2n "data-x") 12%N].
  split; [vm_compute; reflexivity | vm_compute; intro H; exact H].
Qed.
Print Assumptions tag_binds_like_python_refuted_duplicate_special.

(* Current code, outside those two classes: the tag accepts exactly when Python does and then calls render()
   with the same bindings, defaults included; otherwise both refuse.  Missing for the full statement: the
   two classes above (where the theorem is false today). *)
Theorem tag_binds_like_python_partial : forall special use_code sv cv F call,
  wfb special F = true -> guard current_cfg special F (resolve call) = true ->
  res_equiv (impl_bind current_cfg special use_code sv cv F call) (py_bind sv cv F call).
Proof. intros special use_code sv cv F call. exact (bind_equiv_lemma current_cfg special use_code sv cv F call). Qed.
Print Assumptions tag_binds_like_python_partial.

(* The same model with the two proposed repairs switched on satisfies the full statement, no guard. *)
Theorem tag_binds_like_python_after_repair : forall special use_code sv cv F call,
  wfb special F = true ->
  res_equiv (impl_bind fixed_cfg special use_code sv cv F call) (py_bind sv cv F call).
Proof.
  intros special use_code sv cv F call WF.
  exact (bind_equiv_lemma fixed_cfg special use_code sv cv F call WF (guard_fixed special F (resolve call))).
Qed.
Print Assumptions tag_binds_like_python_after_repair.

(* Fast path (fn.__code__ index arithmetic) and fallback (inspect.Signature) lead to the same call or the same
   refusal.  Partial for the current code only because it is derived through Python's rule under the guard. *)
Theorem fast_path_agrees_with_fallback_partial : forall c special sv cv F call,
  wfb special F = true -> guard c special F (resolve call) = true ->
  res_equiv (impl_bind c special true sv cv F call) (impl_bind c special false sv cv F call).
Proof. exact fast_fallback_lemma. Qed.
Print Assumptions fast_path_agrees_with_fallback_partial.

(* Whatever is refused is refused with TypeError or SyntaxError (never IndexError from defaults[...] or
   param_names[...]), and SyntaxError only for a positional argument after a keyword one. *)
Theorem only_type_or_syntax_error_partial : forall c special use_code sv cv F call e,
  wfb special F = true -> guard c special F (resolve call) = true ->
  impl_bind c special use_code sv cv F call = Err e ->
  (e = TypeError \/ e = SyntaxError) /\ (e = SyntaxError -> pos_after_kw (resolve call) false = true).
Proof. exact error_class_lemma. Qed.
Print Assumptions only_type_or_syntax_error_partial.

(* A key that is not a Python identifier is accepted only through **kwargs: if the tag accepts a call that
   contains it, render() has **kwargs, no parameter has that name, and kwargs maps the key to its value. *)
Theorem non_identifier_only_via_varkw_partial : forall c special use_code sv cv F call k v b,
  wfb special F = true -> guard c special F (resolve call) = true ->
  In (Some k, v) (resolve call) -> special k = true ->
  impl_bind c special use_code sv cv F call = Ok b ->
  s_vk F <> None /\ ~ In k (all_names F) /\ exists d, b_kw b = Some d /\ klookup k d = Some v.
Proof. exact special_only_varkw_lemma. Qed.
Print Assumptions non_identifier_only_via_varkw_partial.

(* Sanity of the S-model: an accepted Python call binds every parameter exactly once, in signature order, and
   **kwargs holds only supplied keywords that name no keyword-capable parameter. *)
Theorem python_binds_each_parameter_once : forall F args kws b,
  py_call F args kws = Ok b ->
  map fst (b_vals b) = map pname (pos_params F ++ s_ko F) /\
  (forall k, In k (map fst (match b_kw b with Some d => d | None => [] end)) ->
             In k (map fst kws) /\ ~ In k (map pname (s_pk F ++ s_ko F))).
Proof. exact py_call_total_binding. Qed.
Print Assumptions python_binds_each_parameter_once.

(* ---------- non-vacuity ---------- *)
(* def render(self, context, a, b=902, /, c=903, *ar, d, e=905, **kw)
   {% tag 11 c=12 data-x=13 ...{"d": 14, "u": 15} %} : guard and wfb hold, defaults are applied, the call is accepted *)
Example premises_satisfiable :
  let F := mkSig [mkP (s2n "self") None; mkP (s2n "context") None; mkP (s2n "a") None; mkP (s2n "b") (Some 902%N)]
                 [mkP (s2n "c") (Some 903%N)] (Some (s2n "ar"))
                 [mkP (s2n "d") None; mkP (s2n "e") (Some 905%N)] (Some (s2n "kw")) in
  let call := [TPos 11%N; TKw (s2n "c") 12%N; TKw (s2n "data-x") 13%N; TSpreadD [(s2n "d", 14%N); (s2n "u", 15%N)]] in
  wfb py_special F = true /\ guard current_cfg py_special F (resolve call) = true /\
  impl_bind current_cfg py_special true SV CV F call =
    Ok (mkB [(s2n "self", SV); (s2n "context", CV); (s2n "a", 11%N); (s2n "b", 902%N); (s2n "c", 12%N);
             (s2n "d", 14%N); (s2n "e", 905%N)] (Some []) (Some [(s2n "u", 15%N); (s2n "data-x", 13%N)])) /\
  impl_bind current_cfg py_special false SV CV F call = impl_bind current_cfg py_special true SV CV F call.
Proof. vm_compute. repeat split. Qed.

(* the witness of the defect fixed in 3c868d2 is handled like Python now: def render(self, context, a=1, /, **kw), {% tag %} *)
Example posonly_default_fixed :
  let F := mkSig [mkP (s2n "self") None; mkP (s2n "context") None; mkP (s2n "a") (Some 1%N)] [] None [] (Some (s2n "kw")) in
  impl_bind current_cfg py_special true SV CV F [] = py_bind SV CV F [] /\
  py_bind SV CV F [] = Ok (mkB [(s2n "self", SV); (s2n "context", CV); (s2n "a", 1%N)] None (Some [])).
Proof. vm_compute. split; reflexivity. Qed.

(* a refusal with SyntaxError exists (positional after a special keyword) *)
Example syntax_error_reachable :
  impl_bind current_cfg py_special true SV CV
            (mkSig [] [mkP (s2n "self") None; mkP (s2n "context") None] (Some (s2n "ar")) [] (Some (s2n "kw")))
            [TKw (s2n "data-x") 1%N; TPos 2%N] = Err SyntaxError.
Proof. vm_compute. reflexivity. Qed.
