(* Property C18 - template caching is transparent and behaves as a bounded LRU.
   Only statements here; proofs live in LRU/Proofs.v (list-level model LRU/Model.v) and
   LRU/HeapProofs.v (pointer-level model LRU/Heap.v: heap of nodes with prev/next, sentinels, dict). *)
From DJC Require Import Lib.Base LRU.Model LRU.Proofs LRU.Heap LRU.HeapProofs LRU.Render LRU.RenderProofs.

(* The cache never holds more than the configured number of entries (any history, any maxsize). *)
Theorem size_le_cap : forall (V : Type) (c : Z) (ops : list (op V)),
  (Z.of_nat (length (items (final (init (Some c)) ops))) <= Z.max 0 c)%Z.
Proof. exact @size_le_cap_lemma. Qed.
Print Assumptions size_le_cap.

(* maxsize <= 0: nothing is ever stored. *)
Theorem cap0_never_stores : forall (V : Type) (c : Z) (ops : list (op V)),
  (c <= 0)%Z -> items (final (init (Some c)) ops) = [].
Proof. exact @cap0_never_stores_lemma. Qed.
Print Assumptions cap0_never_stores.

(* One entry per key. *)
Theorem keys_distinct : forall (V : Type) (c : option Z) (ops : list (op V)),
  NoDup (map fst (items (final (init c) ops))).
Proof. exact @keys_distinct_lemma. Qed.
Print Assumptions keys_distinct.

(* The RuntimeError / KeyError branch of `set` is unreachable. *)
Theorem runtime_error_unreachable : forall (V : Type) (c : option Z) (ops : list (op V)),
  ~ In RErr (snd (run (init c) ops)).
Proof. exact @no_error_lemma. Qed.
Print Assumptions runtime_error_unreachable.

(* Transparency of the cache proper: after any history a lookup answers either nothing or exactly
   what a plain dictionary driven by the same set/clear calls holds ... *)
Theorem get_returns_last_set_while_cached : forall (V : Type) (c : option Z) (ops : list (op V)) k v,
  alookup k (items (final (init c) ops)) = Some v ->
  alookup k (fold_left dict_step ops []) = Some v.
Proof. exact @cache_sub_dict_lemma. Qed.
Print Assumptions get_returns_last_set_while_cached.

(* ... and the unbounded cache IS that dictionary. *)
Theorem unbounded_is_dictionary : forall (V : Type) (ops : list (op V)) k,
  alookup k (items (final (init None) ops)) = alookup k (fold_left dict_step ops []).
Proof. exact @unbounded_eq_dict_lemma. Qed.
Print Assumptions unbounded_is_dictionary.

(* The time-stamped run is the plain run with stamps erased ... *)
Theorem stamps_erase : forall (V : Type) (ops : list (op V)) c,
  erase (run_t 0%N (init c) ops) = final (init c) ops.
Proof. intros V ops c. exact (erase_run ops 0%N (init c)). Qed.
Print Assumptions stamps_erase.

(* ... and when a full cache takes a new key it drops exactly one entry: the one whose last use
   (successful get or set) is the oldest of all cached entries; all others are kept in order. *)
Theorem evicts_lru_first : forall (V : Type) c (ops : list (op V)) k v tnow,
  let s := run_t 0%N (init c) ops in
  amem k (items s) = false -> full s = true -> disabled s = false ->
  forall d, exists rest,
    items s = rest ++ [last (items s) d] /\
    set k (v, tnow) s = Some {| cap := cap s; items := (k, (v, tnow)) :: rest |} /\
    (forall k' v' t', In (k', (v', t')) (items s) -> (snd (snd (last (items s) d)) <= t')%N).
Proof. exact @evicts_lru_lemma. Qed.
Print Assumptions evicts_lru_first.

(* cached_template: for every history and every cache size, each call returns a template compiled
   from exactly the requested (class, source, engine) key - so rendering it equals compiling afresh -
   and the call never fails. *)
Theorem cached_template_transparent : forall c ops,
  exists s xs, trun (init c) 0%N ops = Some (s, xs) /\ results_match ops xs.
Proof. exact cached_template_transparent_lemma. Qed.
Print Assumptions cached_template_transparent.

(* The identical object is returned for a repeated key for as long as it is cached. *)
Theorem identity_stable_while_cached : forall k i (s : lru (N * N)) t0,
  alookup k (items s) = Some t0 ->
  exists s', cached_template k i s = Some (t0, s') /\ alookup k (items s') = Some t0.
Proof. exact identity_stable_lemma. Qed.
Print Assumptions identity_stable_while_cached.

(* Non-vacuity: a full cache with a miss exists (cap 2, two entries, third key). *)
Example evict_premises_satisfiable :
  let s := run_t 0%N (init (Some 2%Z)) [OSet 1%N 10%N; OSet 2%N 20%N; OGet 1%N] in
  amem 3%N (items s) = false /\ full s = true /\ disabled s = false /\
  map fst (items (step_t 3%N s (OSet 3%N 30%N))) = [3%N; 1%N].
Proof. vm_compute. repeat split. Qed.

(* ================= pointer-level model (LRU/Heap.v) =================
   hinv s g : the representation invariant of the hand-rolled structure, g = ghost list of
   (node id, (key, value)) from head.next to tail.prev - distinct objects, `next` from head walks exactly
   these nodes and reaches tail, `prev` is the inverse of `next`, each key once, the dict has one binding
   per key / as many bindings as nodes, dict[k] = the node that carries k.   hwf s := exists g, hinv s g. *)

(* The constructor establishes the invariant and its abstraction is the empty list-level cache. *)
Theorem heap_init_wf : forall (V : Type) (c : option Z),
  hwf (@hinit V c) /\ habs (@hinit V c) = init c.
Proof. exact @hwf_init_lemma. Qed.
Print Assumptions heap_init_wf.

(* REFINEMENT: from a well-formed pointer structure every API call (get / has / set / clear, transliterated
   line by line incl. _remove and _add_to_front) raises nothing (no RuntimeError, no KeyError, no access
   through a missing object), re-establishes the invariant, and commutes with the abstraction
   `habs` (walk `next` from head): same output and same abstract state as `step` of LRU/Model.v. *)
Theorem lru_refines : forall (V : Type) (s : hstate V) (o : op V),
  hwf s ->
  exists s' x, hstep s o = HOk (s', x) /\ hwf s' /\ step (habs s) o = (habs s', x).
Proof. exact @lru_refines_lemma. Qed.
Print Assumptions lru_refines.

(* ... hence for every history from the constructor's state: the pointer-level run never fails, returns
   exactly the outputs of the list-level run, and ends in a well-formed structure whose abstraction is the
   list-level final state.  Every theorem above therefore also speaks about the pointer-level model. *)
Theorem heap_run_refines : forall (V : Type) (c : option Z) (ops : list (op V)),
  exists s, hrun (hinit c) ops = HOk (s, snd (run (init c) ops)) /\ hwf s /\ habs s = final (init c) ops.
Proof. exact @hrun_init_lemma. Qed.
Print Assumptions heap_run_refines.

(* The `tail.prev is None` RuntimeError branch, the KeyError of `del self.cache[lru_node.key]` and any
   access through a missing node are unreachable. *)
Theorem heap_runtime_error_unreachable : forall (V : Type) (c : option Z) (ops : list (op V)) e,
  hrun (hinit c) ops <> HErr e.
Proof. exact @heap_no_error_lemma. Qed.
Print Assumptions heap_runtime_error_unreachable.

(* "dict + doubly linked list stay in sync after every prefix": after any history the backward walk is the
   reverse of the forward walk, the listed objects and their keys are distinct, len(dict) = number of
   listed nodes, and dict[k] = i exactly when i is on the list and carries key k. *)
Theorem heap_dict_and_list_in_sync : forall (V : Type) (c : option Z) (ops : list (op V)) s outs,
  hrun (hinit c) ops = HOk (s, outs) ->
  walk_bwd s = rev (walk_fwd s) /\
  NoDup (walk_fwd s) /\ NoDup (map fst (habs_items s)) /\
  length (hdict s) = length (walk_fwd s) /\
  (forall k i, alookup k (hdict s) = Some i <-> In i (walk_fwd s) /\ exists v, kv (hheap s) i = Some (k, v)).
Proof. exact @heap_in_sync_lemma. Qed.
Print Assumptions heap_dict_and_list_in_sync.

(* Neither the dict nor the linked list ever holds more than maxsize entries ... *)
Theorem heap_size_le_cap : forall (V : Type) (c : Z) (ops : list (op V)) s outs,
  hrun (hinit (Some c)) ops = HOk (s, outs) ->
  (Z.of_nat (length (hdict s)) <= Z.max 0 c)%Z /\ (Z.of_nat (length (walk_fwd s)) <= Z.max 0 c)%Z.
Proof. exact @heap_size_le_cap_lemma. Qed.
Print Assumptions heap_size_le_cap.

(* ... and with maxsize <= 0 nothing is ever linked or indexed. *)
Theorem heap_cap0_never_stores : forall (V : Type) (c : Z) (ops : list (op V)) s outs,
  (c <= 0)%Z -> hrun (hinit (Some c)) ops = HOk (s, outs) -> hdict s = [] /\ walk_fwd s = [].
Proof. exact @heap_cap0_lemma. Qed.
Print Assumptions heap_cap0_never_stores.

(* A `get` on the pointer structure succeeds and a hit returns what a plain dictionary holds. *)
Theorem heap_get_returns_last_set_while_cached : forall (V : Type) (c : option Z) (ops : list (op V)) s outs k,
  hrun (hinit c) ops = HOk (s, outs) ->
  exists r s', hget k s = HOk (r, s') /\
               forall v, r = Some v -> alookup k (fold_left dict_step ops []) = Some v.
Proof. exact @heap_get_dict_lemma. Qed.
Print Assumptions heap_get_returns_last_set_while_cached.

(* LRU order on the pointer structure: the walk from head is the time-stamped list-level state with the
   stamps erased; when a full cache takes a new key, `set` unlinks exactly the last node of that walk, whose
   entry has the oldest last use, and links the new node first. *)
Theorem heap_evicts_lru_first : forall (V : Type) (c : option Z) (ops : list (op V)) k v s outs,
  hrun (hinit c) ops = HOk (s, outs) ->
  let st := run_t 0%N (init c) ops in
  amem k (items st) = false -> full st = true -> disabled st = false ->
  forall d, exists rest s'',
    items st = rest ++ [last (items st) d] /\
    (forall k' v' t', In (k', (v', t')) (items st) -> (snd (snd (last (items st) d)) <= t')%N) /\
    habs_items s = erase_items (items st) /\
    hset k v s = HOk s'' /\ habs_items s'' = (k, v) :: erase_items rest.
Proof. exact @heap_evicts_lru_lemma. Qed.
Print Assumptions heap_evicts_lru_first.

(* Non-vacuity for the pointer level: a reachable full structure with a miss; the eviction unlinks node 3
   (key 2, the least recently used) and links the new node 4 first; the old node stays in the heap as garbage. *)
Example heap_evict_premises_satisfiable :
  exists s outs s'',
    hrun (hinit (Some 2%Z)) [OSet 1%N 10%N; OSet 2%N 20%N; OGet 1%N] = HOk (s, outs) /\
    walk_fwd s = [2%N; 3%N] /\ habs_items s = [(1%N, 10%N); (2%N, 20%N)] /\
    hset 3%N 30%N s = HOk s'' /\ walk_fwd s'' = [4%N; 2%N] /\ walk_bwd s'' = [2%N; 4%N] /\
    habs_items s'' = [(3%N, 30%N); (1%N, 10%N)] /\ length (hheap s'') = 5%nat.
Proof. vm_compute. do 3 eexists. repeat split. Qed.

(* ================= rendering through the cache (LRU/Render.v) =================
   The cache hands the same Template OBJECT to every caller while it is cached, so whatever state the
   object's nodes carry survives from one render to the next.  If rendering a freshly compiled template leaves
   its nodes as compiled ("Templates AND their nodelists are IMMUTABLE", component.py), then for every
   history of renders / clears and every cache size the outputs through the cache equal compiling afresh. *)
Theorem render_transparent_when_nodes_immutable :
  forall (S I O : Type) (s0 : N -> S) (rend : N -> S -> I -> O * S),
  (forall k i, snd (rend k (s0 k) i) = s0 k) ->
  forall cp ops, rrun s0 rend (init cp) [] 0%N ops = Some (fresh_run s0 rend ops).
Proof. exact @render_transparent_init. Qed.
Print Assumptions render_transparent_when_nodes_immutable.

(* The hypothesis is necessary: a node that memoises a mutable argument (state = the list it handed out, the
   component appends to it in place) renders [1;7], [1;7;7] through a cache of size 1 where compiling afresh
   renders [1;7] twice; with size 0 nothing is shared and the outputs agree - the output depends on the size. *)
Example memoised_mutable_argument_breaks_transparency :
  let s0 := fun k : N => [k] in
  let rend := fun (k : N) (s : list N) (i : N) => (s ++ [i], s ++ [i]) in
  let ops := [RRender 1%N 7%N; RRender 1%N 7%N] in
  rrun s0 rend (init (Some 1%Z)) [] 0%N ops = Some [Some [1%N; 7%N]; Some [1%N; 7%N; 7%N]] /\
  rrun s0 rend (init (Some 0%Z)) [] 0%N ops = Some (fresh_run s0 rend ops) /\
  fresh_run s0 rend ops = [Some [1%N; 7%N]; Some [1%N; 7%N]].
Proof. vm_compute. repeat split. Qed.
