(* Property C18 - template caching is transparent and behaves as a bounded LRU.
   Only statements here; proofs live in LRU/Proofs.v.  Model: LRU/Model.v. *)
From DJC Require Import Lib.Base LRU.Model LRU.Proofs.

(* The cache never holds more than the configured number of entries (any history, any maxsize). *)
Theorem size_le_cap : forall (V : Type) (c : Z) (ops : list (op V)),
  (Z.of_nat (length (items (final (init (Some c)) ops))) <= Z.max 0 c)%Z.
Proof. exact @size_le_cap_lemma. Qed.
Print Assumptions size_le_cap.

(* maxsize <= 0: nothing is ever stored. *)
Theorem cap0_never_stores : forall (V : Type) (c : Z) (ops : list (op V)),
  (c <= 0)%Z -> items (final (init (Some c)) ops) = [].
Proof. exact @cap0_never_stores_lemma. Qed.
Print Assumptions cap0_never_stores.

(* One entry per key. *)
Theorem keys_distinct : forall (V : Type) (c : option Z) (ops : list (op V)),
  NoDup (map fst (items (final (init c) ops))).
Proof. exact @keys_distinct_lemma. Qed.
Print Assumptions keys_distinct.

(* The RuntimeError / KeyError branch of `set` is unreachable. *)
Theorem runtime_error_unreachable : forall (V : Type) (c : option Z) (ops : list (op V)),
  ~ In RErr (snd (run (init c) ops)).
Proof. exact @no_error_lemma. Qed.
Print Assumptions runtime_error_unreachable.

(* Transparency of the cache proper: after any history a lookup answers either nothing or exactly
   what a plain dictionary driven by the same set/clear calls holds ... *)
Theorem get_returns_last_set_while_cached : forall (V : Type) (c : option Z) (ops : list (op V)) k v,
  alookup k (items (final (init c) ops)) = Some v ->
  alookup k (fold_left dict_step ops []) = Some v.
Proof. exact @cache_sub_dict_lemma. Qed.
Print Assumptions get_returns_last_set_while_cached.

(* ... and the unbounded cache IS that dictionary. *)
Theorem unbounded_is_dictionary : forall (V : Type) (ops : list (op V)) k,
  alookup k (items (final (init None) ops)) = alookup k (fold_left dict_step ops []).
Proof. exact @unbounded_eq_dict_lemma. Qed.
Print Assumptions unbounded_is_dictionary.

(* The time-stamped run is the plain run with stamps erased ... *)
Theorem stamps_erase : forall (V : Type) (ops : list (op V)) c,
  erase (run_t 0%N (init c) ops) = final (init c) ops.
Proof. intros V ops c. exact (erase_run ops 0%N (init c)). Qed.
Print Assumptions stamps_erase.

(* ... and when a full cache takes a new key it drops exactly one entry: the one whose last use
   (successful get or set) is the oldest of all cached entries; all others are kept in order. *)
Theorem evicts_lru_first : forall (V : Type) c (ops : list (op V)) k v tnow,
  let s := run_t 0%N (init c) ops in
  amem k (items s) = false -> full s = true -> disabled s = false ->
  forall d, exists rest,
    items s = rest ++ [last (items s) d] /\
    set k (v, tnow) s = Some {| cap := cap s; items := (k, (v, tnow)) :: rest |} /\
    (forall k' v' t', In (k', (v', t')) (items s) -> (snd (snd (last (items s) d)) <= t')%N).
Proof. exact @evicts_lru_lemma. Qed.
Print Assumptions evicts_lru_first.

(* cached_template: for every history and every cache size, each call returns a template compiled
   from exactly the requested (class, source, engine) key - so rendering it equals compiling afresh -
   and the call never fails. *)
Theorem cached_template_transparent : forall c ops,
  exists s xs, trun (init c) 0%N ops = Some (s, xs) /\ results_match ops xs.
Proof. exact cached_template_transparent_lemma. Qed.
Print Assumptions cached_template_transparent.

(* The identical object is returned for a repeated key for as long as it is cached. *)
Theorem identity_stable_while_cached : forall k i (s : lru (N * N)) t0,
  alookup k (items s) = Some t0 ->
  exists s', cached_template k i s = Some (t0, s') /\ alookup k (items s') = Some t0.
Proof. exact identity_stable_lemma. Qed.
Print Assumptions identity_stable_while_cached.

(* Non-vacuity: a full cache with a miss exists (cap 2, two entries, third key). *)
Example evict_premises_satisfiable :
  let s := run_t 0%N (init (Some 2%Z)) [OSet 1%N 10%N; OSet 2%N 20%N; OGet 1%N] in
  amem 3%N (items s) = false /\ full s = true /\ disabled s = false /\
  map fst (items (step_t 3%N s (OSet 3%N 30%N))) = [3%N; 1%N].
Proof. vm_compute. repeat split. Qed.
