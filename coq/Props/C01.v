(* Property C01 - each slot renders the fill addressed to it, else its own default content.
   Statements about the reference semantics Core/Sem.v (what the implementation is compared with on
   every run); proofs in Core/Proofs.v. *)
From DJC Require Import Lib.Base Core.Syntax Core.Sem Core.Proofs.

(* A slot with no fill addressed to it renders its OWN default content, in the SAME instance and scope
   (so slots nested in that default content are again resolved against this instance);
   if it is flagged `required` it raises TemplateSyntaxError instead. Any fuel, any state, both modes. *)
Theorem slot_unfilled_renders_own_default :
  forall md lib f st cn fills iso name isd isr data body,
    cur st = Some (Inst cn fills iso) ->
    double_filled name isd fills = false ->
    slookup (fill_name_of name isd fills) fills = None ->
    render md lib (S f) st (TSlot name isd isr data body) =
      if isr then Err ETemplateSyntax else render_list md lib f st body.
Proof. exact slot_unfilled_lemma. Qed.
Print Assumptions slot_unfilled_renders_own_default.

(* A slot renders exactly the fill stored under its fill name in the fills of the CURRENT instance
   (`default` for the flagged slot when such a fill exists, else its own name) - the body of that fill,
   run in the instance that owns the fill, with the slot data bound to the data alias. *)
Theorem slot_renders_addressed_fill :
  forall md lib f st cn fills iso name isd isr data body c,
    cur st = Some (Inst cn fills iso) ->
    double_filled name isd fills = false ->
    slookup (fill_name_of name isd fills) fills = Some c ->
    clo_defvar c = None ->
    render md lib (S f) st (TSlot name isd isr data body) =
      render_list md lib f
        (fill_state iso st (match clo_dvar c with Some x => [(x, VRec (eval_kwargs data st))] | None => [] end) c)
        (clo_body c).
Proof. exact slot_filled_lemma. Qed.
Print Assumptions slot_renders_addressed_fill.

(* Same with a `default=` alias: the alias is bound to the slot's own default content rendered in the slot's
   own instance (never the fill owner's). *)
Theorem slot_default_alias_is_own_default :
  forall md lib f st cn fills iso name isd isr data body c dn,
    cur st = Some (Inst cn fills iso) ->
    double_filled name isd fills = false ->
    slookup (fill_name_of name isd fills) fills = Some c ->
    clo_defvar c = Some dn ->
    render md lib (S f) st (TSlot name isd isr data body) =
      bind (render_list md lib f st body) (fun d =>
      render_list md lib f
        (fill_state iso st ((dn, VStr d) :: match clo_dvar c with Some x => [(x, VRec (eval_kwargs data st))] | None => [] end) c)
        (clo_body c)).
Proof. exact slot_filled_default_alias_lemma. Qed.
Print Assumptions slot_default_alias_is_own_default.

(* Fill content runs in the instance recorded as its owner at the component tag - in both modes. *)
Theorem fills_resolved_in_owner_instance :
  forall iso st al body btw cloc cout dv defv owner cprov,
    cur (fill_state iso st al (Clo body btw cloc cout dv defv owner cprov)) = owner.
Proof. exact fill_state_owner. Qed.
Print Assumptions fills_resolved_in_owner_instance.

(* A slot tag outside every component raises. *)
Theorem slot_outside_component_raises :
  forall md lib f st name isd isr data body,
    cur st = None -> render md lib (S f) st (TSlot name isd isr data body) = Err ETemplateSyntax.
Proof. exact slot_outside_component_lemma. Qed.
Print Assumptions slot_outside_component_raises.

(* `required`: raises exactly when no fill is addressed to the slot. *)
Theorem required_unfilled_raises :
  forall md lib f st cn fills iso name isd data body,
    cur st = Some (Inst cn fills iso) ->
    double_filled name isd fills = false ->
    (render md lib (S f) st (TSlot name isd true data body) = Err ETemplateSyntax /\
     slookup (fill_name_of name isd fills) fills = None)
    \/ (exists c, slookup (fill_name_of name isd fills) fills = Some c).
Proof. exact required_raises_iff_unfilled_lemma. Qed.
Print Assumptions required_unfilled_raises.

(* component_vars.is_filled.<s> is true exactly for the provided fills (names escaped as identifiers). *)
Theorem is_filled_iff_provided :
  forall st cn fills iso s,
    cur st = Some (Inst cn fills iso) ->
    eval (EFilled s) st = XBool true <-> exists n c, In (n, c) fills /\ escape_name n = s.
Proof. exact is_filled_iff_lemma. Qed.
Print Assumptions is_filled_iff_provided.

(* A tag body without fill tags (and not blank) is exactly one fill named `default`, owned by the
   instance around the tag. *)
Theorem implicit_body_is_default_fill :
  forall st body content,
    body <> [] -> extract_list (prov st) st [] body = Ok (content, []) -> body_is_empty body = false ->
    exists c, resolve_fills st body = Ok [(default_key, c)] /\ clo_body c = body /\
              cur (fill_state true st [] c) = cur st /\ cur (fill_state false st [] c) = cur st.
Proof. exact implicit_body_is_default_fill_lemma. Qed.
Print Assumptions implicit_body_is_default_fill.

(* The page is the in-order composition of its pieces: at any depth, and loop iterations likewise. *)
Theorem page_is_in_order_composition :
  forall md lib fuel st a b,
    render_list md lib fuel st (a ++ b) =
    bind (render_list md lib fuel st a) (fun x => bind (render_list md lib fuel st b) (fun y => Ok (x ++ y))).
Proof. exact render_list_app_lemma. Qed.
Print Assumptions page_is_in_order_composition.

Theorem loop_is_in_order_composition :
  forall rec x st body vs1 vs2 i,
    rloop rec x st body (vs1 ++ vs2) i =
    bind (rloop rec x st body vs1 i) (fun a =>
    bind (rloop rec x st body vs2 (i + N.of_nat (length vs1))%N) (fun b => Ok (a ++ b))).
Proof. exact rloop_app. Qed.
Print Assumptions loop_is_in_order_composition.

(* No nesting-depth bound: a result obtained with some fuel is the result for every larger fuel. *)
Theorem render_fuel_monotone :
  forall md lib fuel k st t,
    render md lib fuel st t <> OutOfFuel -> render md lib (fuel + k) st t = render md lib fuel st t.
Proof. exact render_fuel_mono_lemma. Qed.
Print Assumptions render_fuel_monotone.

From Coq Require Import String.
Local Open Scope string_scope.
Local Open Scope list_scope.
(* Non-vacuity / regression witnesses, evaluated by the kernel:
   (1) a slot nested in the DEFAULT content of another slot is resolved against its own instance even when the
       surrounding component was given a same-named fill by ITS caller (the defect repaired by /repo 70baf36);
   (2) fill, default, required and is_filled in one program. *)
Example nested_default_slot_own_instance :
  let inner := {| c_tpl := [TSlot (s2n "a") false false [] [TText (s2n "A-default["); TSlot (s2n "b") false false [] [TText (s2n "B-default")]; TText (s2n "]")]];
                  c_data := [] |} in
  let outer := {| c_tpl := [TComp (s2n "inner") [] false []; TSlot (s2n "b") false false [] []];
                  c_data := [] |} in
  render_prog 50 {| p_lib := [(s2n "outer", outer); (s2n "inner", inner)];
                    p_page := [TComp (s2n "outer") [] false [TFill (EStr (s2n "b")) None None [TText (s2n "FILL-B-FOR-OUTER")]]];
                    p_ctx := []; p_mode := Django |}
  = Ok (s2n "A-default[B-default]FILL-B-FOR-OUTER").
Proof. vm_compute. reflexivity. Qed.

Example required_and_is_filled :
  let c := {| c_tpl := [TOut (EFilled (s2n "x")); TSlot (s2n "x") false true [] []]; c_data := [] |} in
  render_prog 50 {| p_lib := [(s2n "c", c)];
                    p_page := [TComp (s2n "c") [] false [TFill (EStr (s2n "x")) None None [TText (s2n "!")]]];
                    p_ctx := []; p_mode := Isolated |} = Ok (s2n "True!")
  /\ render_prog 50 {| p_lib := [(s2n "c", c)]; p_page := [TComp (s2n "c") [] false []];
                       p_ctx := []; p_mode := Isolated |} = Err ETemplateSyntax.
Proof. vm_compute. split; reflexivity. Qed.
