(* Property C08 - render_dependencies only strips markers and inserts tags where documented.
   Only statements here; proofs live in DepsRender/Proofs.v.  M-model: DepsRender/Model.v (the code's passes as they
   are after fixes fa2cce9 and b234f8a: masked end-tag search, slice/offset arithmetic, fragment append, type round
   trip, middleware guard), S-model: DepsRender/Spec.v (one left-to-right pass over the document's own symbols and
   placeholders).  `deps` (which JS/CSS is generated - property C04) is arbitrary in every theorem. *)
From DJC Require Import Lib.Base DepsRender.Model DepsRender.Spec DepsRender.Proofs.
Import Coq.Strings.String.StringSyntax.
Local Delimit Scope string_scope with string.
Local Arguments s2n s%string.

(* 1. MAIN THEOREM.  For EVERY document, type (document / fragment) and configuration (known classes, generated
      JS / CSS of any content, also JS / CSS that contain end-tag text): the code's result IS the specification's -
      same error outcome, or: markers deleted; document mode: every placeholder replaced by the tags of its kind,
      a kind without placeholder emitted once, in front of the symbol where the first </head> (CSS) / the last
      </body> (JS) of the document starts, nothing anywhere else; fragment mode: placeholders deleted, JS appended. *)
Theorem render_eq_spec : forall c ty d, render c ty d = spec_render c ty d.
Proof. exact render_eq_spec_lemma. Qed.
Print Assumptions render_eq_spec.

(* 2. "Every other byte is preserved in order": a successful result is the input with markers and placeholders
      erased plus inserted copies of the generated JS / CSS blocks - no other symbol is added, dropped or moved. *)
Theorem other_bytes_preserved : forall c ty d out,
  render c ty d = ROk out ->
  let '(js, css) := deps c ty (harvest d) in
  inserted [js; css] (erase_ph (erase_markers d)) out.
Proof. exact other_bytes_preserved_lemma. Qed.
Print Assumptions other_bytes_preserved.

(* 3. The slice arithmetic.  For EVERY text t, every search text of the same length and every combination of wanted
      kinds: the finditer loop (with its skipping) followed by the two slice insertions with the index_offset
      arithmetic of the code equals ONE simultaneous left-to-right pass that emits the CSS / JS at the positions found
      by trying every position - whatever the order of </head> and </body>, also when both positions coincide or
      nothing is found. *)
Theorem default_offsets_correct : forall search t css js (want_css want_js : bool),
  length search = length t ->
  match insert_default search t (if want_js then Some js else None) (if want_css then Some css else None) with
  | Some x => x
  | None => t
  end = let '(fh, lb) := find_ns want_css want_js search 0 None None in weave (ins2 fh lb css js) 0 t.
Proof. exact insert_default_weave. Qed.
Print Assumptions default_offsets_correct.

(* 3'. The arithmetic before fa2cce9 does not have this property (witness "AA</body>BB</head>CC"); the current
       arithmetic gives the one-pass result on the same witness. *)
Theorem old_offsets_refuted :
  exists t css js fh lb,
    find_ns true true t 0 None None = (fh, lb) /\
    place_m_old t (Some css) (Some js) fh lb <> Some (weave (ins2 fh lb css js) 0 t) /\
    place_m t (Some css) (Some js) fh lb = Some (weave (ins2 fh lb css js) 0 t).
Proof. exact old_offsets_refuted_lemma. Qed.
Print Assumptions old_offsets_refuted.

(* 4. Document mode in position form: the code's result = one pass over the substituted text that emits CSS / JS at
      the offsets the specification's search (over the document's own symbols) returns.  Theorems 5 and 6 say which
      offsets these are. *)
Theorem render_doc_eq_positions : forall js css t, render_doc js css t = spec_doc js css t.
Proof. exact render_doc_eq_spec_pos. Qed.
Print Assumptions render_doc_eq_positions.

(* 4'. Searching the end tags in the substituted text itself (the code before b234f8a) does NOT meet the
       specification: JS placeholder present, no CSS placeholder, JS containing the text "</head>" - the CSS lands
       inside the inserted <script>; the current model puts it in front of the document's </head>. *)
Theorem unmasked_search_refuted :
  exists js css t,
    render_doc_unmasked js css t <> spec_doc1 js css t
    /\ render_doc_unmasked js css t = s2n "<head><script>var h='<style>.a{}</style></head>';</script></head><body></body>"
    /\ render_doc js css t = s2n "<head><script>var h='</head>';</script><style>.a{}</style></head><body></body>".
Proof. exact unmasked_search_refuted_lemma. Qed.
Print Assumptions unmasked_search_refuted.

(* 5. What the specification's search returns for CSS: the offset (in the substituted text) of the FIRST token at
      which a </head> of the document starts; None iff the document has none. *)
Theorem spec_css_before_first_head : forall (r : kind -> str) wj l pos lb,
  match fst (s_find r true wj l pos None lb) with
  | Some p => exists i, tag_here r (skipn i l) = Some Head /\ p = pos + offset r l i /\
                        forall i', i' < i -> tag_here r (skipn i' l) <> Some Head
  | None => forall i, tag_here r (skipn i l) <> Some Head
  end.
Proof. exact s_find_first_head. Qed.
Print Assumptions spec_css_before_first_head.

(* 6. ... and for JS: the offset of the LAST token at which a </body> of the document starts. *)
Theorem spec_js_before_last_body : forall (r : kind -> str) wc l pos fh lb,
  let lb' := snd (s_find r wc true l pos fh lb) in
  (lb' = lb /\ forall i, tag_here r (skipn i l) <> Some Body) \/
  (exists i q, lb' = Some q /\ tag_here r (skipn i l) = Some Body /\ q = pos + offset r l i /\
               forall i', i < i' -> tag_here r (skipn i' l) <> Some Body).
Proof. exact s_find_last_body. Qed.
Print Assumptions spec_js_before_last_body.

(* 7. Single clauses of the statement, as corollaries of theorem 1. *)
(* 7a. both kinds have a placeholder: tags at the placeholders only, whatever end tags the document has *)
Theorem placeholders_only : forall js css t,
  has KCss (ph_tokens t) = true -> has KJs (ph_tokens t) = true ->
  render_doc js css t = subst (repl js css) (ph_tokens t).
Proof. exact placeholders_only_lemma. Qed.
Print Assumptions placeholders_only.

(* 7b. "otherwise nowhere": no end tag of the document => only the placeholders are replaced *)
Theorem nothing_without_end_tags : forall js css t,
  (forall i, tag_here (repl js css) (skipn i (ph_tokens t)) = None) ->
  render_doc js css t = subst (repl js css) (ph_tokens t).
Proof. exact nothing_without_end_tags_lemma. Qed.
Print Assumptions nothing_without_end_tags.

(* 7c. fragment mode: markers and placeholders deleted, the JS appended at the end, nothing else *)
Theorem fragment_appends : forall c d out,
  render c Fragment d = ROk out ->
  out = erase_ph (erase_markers d) ++ fst (deps c Fragment (harvest d)).
Proof. exact fragment_appends_lemma. Qed.
Print Assumptions fragment_appends.

(* 8. The str / SafeString / bytes type of the input comes back (the model carries the isinstance tests and the
      mark_safe of the code). *)
Theorem type_preserved : forall c ty k d k' o, render_any c ty k d = ROk (k', o) -> k' = k.
Proof. exact type_preserved_lemma. Qed.
Print Assumptions type_preserved.

(* 9. The middleware leaves streaming responses and responses whose Content-Type is absent or does not start with
      "text/html" untouched ... *)
Theorem middleware_passthrough : forall c r,
  streaming r = true \/ ctype r = None \/ (exists t, ctype r = Some t /\ starts_with (s2n "text/html") t = false) ->
  process_response c r = ROk r.
Proof. exact middleware_passthrough_lemma. Qed.
Print Assumptions middleware_passthrough.

(* 9'. ... and for the others the body becomes the document-mode specification result, headers untouched. *)
Theorem middleware_html_is_spec : forall c r,
  is_html r = true ->
  process_response c r =
  match spec_render c Document (body r) with
  | ROk o => ROk {| streaming := streaming r; ctype := ctype r; body := o |}
  | RErr e => RErr e
  end.
Proof. exact middleware_html_lemma. Qed.
Print Assumptions middleware_html_is_spec.

(* 10. WHAT is removed.  For every text: it is cut, left to right, into kept symbols and spans of the documented marker
       grammar (<!--, ASCII white space, _RENDERED, white space, data without white space and '>', white space, -->);
       erase_markers keeps exactly the kept symbols, harvest returns exactly the data of the spans, and a symbol is kept
       only where no marker starts (leftmost-first, non-overlapping - one pass, as re.sub). *)
Theorem removed_are_markers : forall d,
  exists l, parts_of is_marker d l /\ erase_markers d = lits l /\ harvest d = toks l.
Proof. exact removed_are_markers_lemma. Qed.
Print Assumptions removed_are_markers.

(* 11. ... and the same for placeholders: the spans removed / replaced are exactly the
       <link name="CSS_PLACEHOLDER"( data-djc-(id|css)-XXXXXX="")*[/]>  and
       <script name="JS_PLACEHOLDER"( data-djc-(id|css)-XXXXXX="")*></script>  spans (id and css attributes in any order
       and number, the grammar of the source since fix be574c3), leftmost-first. *)
Theorem removed_are_placeholders : forall t,
  exists l, parts_of is_placeholder t l /\ erase_ph t = lits l /\ ph_tokens t = l.
Proof. exact removed_are_placeholders_lemma. Qed.
Print Assumptions removed_are_placeholders.

(* ---------- non-vacuity ---------- *)
(* the grammar predicates are inhabited by what the library emits *)
Example marker_grammar_inhabited :
  is_marker (s2n "<!-- _RENDERED table_10bac3,a1b2c3,a92ef2,bd002c -->") (s2n "table_10bac3,a1b2c3,a92ef2,bd002c").
Proof.
  exists [32%N], [32%N], [32%N]. unfold blank.
  repeat split; try discriminate; repeat constructor.
Qed.

Example placeholder_grammar_inhabited :
  is_placeholder (s2n "<link name=""CSS_PLACEHOLDER"" data-djc-id-a1b2c3="""" data-djc-css-99914b="""" data-djc-id-x_Y9z0=""""/>") KCss /\
  is_placeholder (s2n "<script name=""JS_PLACEHOLDER""></script>") KJs.
Proof.
  split.
  - exists (s2n " data-djc-id-a1b2c3=""""" ++ s2n " data-djc-css-99914b=""""" ++ s2n " data-djc-id-x_Y9z0=""""" ++ []). split.
    + constructor; [left|constructor; [right|constructor; [left|constructor]]].
      * exists (s2n "a1b2c3"). repeat split. repeat constructor.
      * exists (s2n "99914b"). repeat split. repeat constructor.
      * exists (s2n "x_Y9z0"). repeat split. repeat constructor.
    + exists [47%N]. split; [now right|reflexivity].
  - exists []. split; [constructor|reflexivity].
Qed.

(* ... and the matcher finds such a placeholder (css attribute between two id attributes) in a text *)
Example placeholder_mixed_attributes :
  ph_tokens (s2n "a<script name=""JS_PLACEHOLDER"" data-djc-id-a1b2c3="""" data-djc-css-99914b="""" data-djc-id-x_Y9z0=""""></script>b")
  = [inl 97%N; inr KJs; inl 98%N].
Proof. vm_compute. reflexivity. Qed.

(* a realistic page: CSS at its placeholder, JS before </body > (whitespace variant), marker removed *)
Example realistic_page :
  let js := s2n "<script src=""x.js""></script><script>console.log('A');</script>" in
  let css := s2n "<style>.a{color:red}</style>" in
  let d := s2n "<head><link name=""CSS_PLACEHOLDER""></head><body><!-- _RENDERED A_1,a1b2c3,, -->x</body >" in
  let c := const_cfg [s2n "A_1"] js css in
  has KCss (ph_tokens (erase_markers d)) = true /\
  render c Document d = ROk (s2n "<head><style>.a{color:red}</style></head><body>x<script src=""x.js""></script><script>console.log('A');</script></body >").
Proof. vm_compute. repeat split. Qed.

(* theorem 3: a search text of the same length that differs from the text (the masked copy) *)
Example masked_search_premise :
  let t := s2n "<script></head></script></head>" in
  let search := repeat 0%N 24 ++ s2n "</head>" in
  length search = length t /\
  insert_default search t None (Some (s2n "<C>")) = Some (s2n "<script></head></script><C></head>").
Proof. vm_compute. split; reflexivity. Qed.

(* the witness classes of the two fixed defects *)
Example body_before_head :
  render (const_cfg [] (s2n "<JS>") (s2n "<CSS>")) Document (s2n "AA</body>BB</head>CC")
  = ROk (s2n "AA<JS></body>BB<CSS></head>CC").
Proof. vm_compute. reflexivity. Qed.

Example endtag_in_inserted_js :
  render (const_cfg [] (s2n "<script>var h='</head>';</script>") (s2n "<style>.a{}</style>")) Document
         (s2n "<head><script name=""JS_PLACEHOLDER""></script></head><body></body>")
  = ROk (s2n "<head><script>var h='</head>';</script><style>.a{}</style></head><body></body>").
Proof. vm_compute. reflexivity. Qed.

(* theorems 7a / 7b / 9 / 9': premises are satisfiable *)
Example placeholders_only_premise :
  let t := s2n "<link name=""CSS_PLACEHOLDER""/></head><script name=""JS_PLACEHOLDER""></script>" in
  has KCss (ph_tokens t) = true /\ has KJs (ph_tokens t) = true.
Proof. vm_compute. split; reflexivity. Qed.

Example no_end_tag_premise :
  forall i, tag_here (repl (s2n "<J>") (s2n "<C>")) (skipn i (ph_tokens (s2n "</HEAD></ body>"))) = None.
Proof. intro i. do 16 (destruct i as [|i]; [vm_compute; reflexivity|]). destruct i; reflexivity. Qed.

Example middleware_premises :
  is_html {| streaming := false; ctype := Some (s2n "text/html; charset=utf-8"); body := [] |} = true /\
  is_html {| streaming := true; ctype := Some (s2n "text/html"); body := [] |} = false /\
  starts_with (s2n "text/html") (s2n "text/htm") = false /\
  starts_with (s2n "text/html") (s2n "application/json") = false.
Proof. vm_compute. repeat split. Qed.

(* error outcomes are explicit *)
Example errors_explicit :
  render (const_cfg [s2n "A_1"] [] []) Fragment (s2n "<!-- _RENDERED B_2,ab,, -->") = RErr EKeyError /\
  render (const_cfg [s2n "A_1"] [] []) Fragment (s2n "<!-- _RENDERED A_1;ab -->") = RErr EMalformed.
Proof. vm_compute. split; reflexivity. Qed.
