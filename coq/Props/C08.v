(* Property C08 - render_dependencies only strips markers and inserts tags where documented.
   Only statements here; proofs live in DepsRender/Proofs.v.  M-model: DepsRender/Model.v (the code's passes and
   its slice/offset arithmetic), S-model: DepsRender/Spec.v (one-pass placement, end tags recognised in the
   document's own symbols).  `deps` (which JS/CSS is generated - property C04) is arbitrary in every theorem. *)
From DJC Require Import Lib.Base DepsRender.Model DepsRender.Spec DepsRender.Proofs DepsRender.Fixed.
Import Coq.Strings.String.StringSyntax.
Local Delimit Scope string_scope with string.
Local Arguments s2n s%string.

(* 1. For EVERY document, type and configuration: a successful result is the input with markers and placeholders
      erased plus inserted copies of the generated JS / CSS blocks - no other symbol is added, dropped or moved.
      (Unconditional: holds even inside the defect class of theorem 4.) *)
Theorem other_bytes_preserved : forall c ty d out,
  render c ty d = ROk out ->
  let '(js, css) := deps c ty (harvest d) in
  inserted [js; css] (erase_ph (erase_markers d)) out.
Proof. exact other_bytes_preserved_lemma. Qed.
Print Assumptions other_bytes_preserved.

(* 2. For EVERY text and every combination of wanted kinds: the finditer loop (with its skipping) followed by the
      two slice insertions with the index_offset arithmetic of the code (after fix fa2cce9) equals ONE simultaneous
      left-to-right pass that emits the CSS / JS at the positions found by trying every position - whatever the
      order of </head> and </body>, also when both positions coincide or nothing is found. *)
Theorem default_offsets_correct : forall t css js (want_css want_js : bool),
  match insert_default t (if want_js then Some js else None) (if want_css then Some css else None) with
  | Some x => x
  | None => t
  end = let '(fh, lb) := find_ns want_css want_js t 0 None None in weave (ins2 fh lb css js) 0 t.
Proof. exact insert_default_weave. Qed.
Print Assumptions default_offsets_correct.

(* 2'. The arithmetic before fa2cce9 does not have this property (witness "AA</body>BB</head>CC"); the current
       arithmetic gives the one-pass result on the same witness. *)
Theorem old_offsets_refuted :
  exists t css js fh lb,
    find_ns true true t 0 None None = (fh, lb) /\
    place_m_old t (Some css) (Some js) fh lb <> Some (weave (ins2 fh lb css js) 0 t) /\
    place_m t (Some css) (Some js) fh lb = Some (weave (ins2 fh lb css js) 0 t).
Proof. exact old_offsets_refuted_lemma. Qed.
Print Assumptions old_offsets_refuted.

(* 3. Placement, full statement restricted by the trigger class of theorem 4: for every document, type and
      configuration such that each kind of block that is substituted at a placeholder is empty or a well-formed
      tag run without end-tag text inside (tag_okb), the code's result IS the specification's: every placeholder
      replaced, a kind without placeholder inserted before the first </head> / last </body> OF THE DOCUMENT
      (theorems 5, 6), nothing elsewhere; fragment: placeholders erased, JS appended; same error outcomes.
      Documents without placeholders need no guard at all.
      MISSING for the full statement: the guard - see theorem 4. *)
Theorem render_eq_spec_partial : forall c ty d,
  (forall k, has k (ph_tokens (erase_markers d)) = true ->
             tag_okb (repl (fst (deps c ty (harvest d))) (snd (deps c ty (harvest d))) k) = true) ->
  render c ty d = spec_render c ty d.
Proof. exact render_eq_spec_lemma. Qed.
Print Assumptions render_eq_spec_partial.

(* 4. Without the guard the statement is false for the code as it is: JS placeholder present, no CSS placeholder,
      a component's JS contains the text "</head>": the CSS is put inside the inserted <script> instead of before
      the document's </head> (trigger class c08-endtag-in-inserted-tags; replayed on the implementation). *)
Theorem render_eq_spec_refuted :
  exists c d, render c Document d <> spec_render c Document d
              /\ render c Document d = ROk (s2n "<head><script>var h='<style>.a{}</style></head>';</script></head><body></body>")
              /\ spec_render c Document d = ROk (s2n "<head><script>var h='</head>';</script><style>.a{}</style></head><body></body>").
Proof. exact render_eq_spec_refuted_lemma. Qed.
Print Assumptions render_eq_spec_refuted.

(* 5. What the specification's search returns for CSS: the offset (in the substituted text) of the FIRST token at
      which a </head> of the document starts; None iff the document has none. *)
Theorem spec_css_before_first_head : forall (r : kind -> str) wj l pos lb,
  match fst (s_find r true wj l pos None lb) with
  | Some p => exists i, tag_here r (skipn i l) = Some Head /\ p = pos + offset r l i /\
                        forall i', i' < i -> tag_here r (skipn i' l) <> Some Head
  | None => forall i, tag_here r (skipn i l) <> Some Head
  end.
Proof. exact s_find_first_head. Qed.
Print Assumptions spec_css_before_first_head.

(* 6. ... and for JS: the offset of the LAST token at which a </body> of the document starts. *)
Theorem spec_js_before_last_body : forall (r : kind -> str) wc l pos fh lb,
  let lb' := snd (s_find r wc true l pos fh lb) in
  (lb' = lb /\ forall i, tag_here r (skipn i l) <> Some Body) \/
  (exists i q, lb' = Some q /\ tag_here r (skipn i l) = Some Body /\ q = pos + offset r l i /\
               forall i', i < i' -> tag_here r (skipn i' l) <> Some Body).
Proof. exact s_find_last_body. Qed.
Print Assumptions spec_js_before_last_body.

(* 7. The middleware leaves streaming responses and responses whose Content-Type does not start with "text/html"
      (or is absent) untouched; the str / SafeString / bytes type of the input comes back.  (Both are immediate
      from the model; what ties them to the code is the correspondence run.) *)
Theorem middleware_passthrough_and_type : forall c,
  (forall r, is_html r = false -> process_response c r = ROk r) /\
  (forall ty k d k' o, render_any c ty k d = ROk (k', o) -> k' = k).
Proof. exact middleware_and_type_lemma. Qed.
Print Assumptions middleware_passthrough_and_type.

(* 8. The candidate repair (notes/fixes/C08-endtag-in-inserted-tags.patch: search the end tags in a copy whose
      inserted blocks are blanked out) meets the specification for ALL texts and ALL generated JS/CSS - the guard of
      theorem 3 disappears.  This is a theorem about the model of the PATCHED code (DepsRender/Fixed.v), not about
      /repo as it is. *)
Theorem candidate_fix_meets_spec : forall js css t, render_doc_fixed js css t = spec_doc js css t.
Proof. exact render_doc_fixed_eq_spec. Qed.
Print Assumptions candidate_fix_meets_spec.

(* ---------- non-vacuity ---------- *)
(* the guard of theorem 3 holds for realistic tags, with a placeholder of that kind present *)
Example guard_satisfiable :
  let js := s2n "<script src=""x.js""></script><script>console.log('A');</script>" in
  let css := s2n "<style>.a{color:red}</style>" in
  let d := s2n "<head><link name=""CSS_PLACEHOLDER""></head><body><!-- _RENDERED A_1,a1b2c3,, -->x</body >" in
  let c := const_cfg [s2n "A_1"] js css in
  has KCss (ph_tokens (erase_markers d)) = true /\ tag_okb css = true /\ tag_okb js = true /\
  render c Document d = ROk (s2n "<head><style>.a{color:red}</style></head><body>x<script src=""x.js""></script><script>console.log('A');</script></body >").
Proof. vm_compute. repeat split. Qed.

(* the witness class of the fixed defect: last </body> before first </head>, both default insertions *)
Example body_before_head :
  render (const_cfg [] (s2n "<JS>") (s2n "<CSS>")) Document (s2n "AA</body>BB</head>CC")
  = ROk (s2n "AA<JS></body>BB<CSS></head>CC").
Proof. vm_compute. reflexivity. Qed.

(* error outcomes are explicit *)
Example errors_explicit :
  render (const_cfg [s2n "A_1"] [] []) Fragment (s2n "<!-- _RENDERED B_2,ab,, -->") = RErr EKeyError /\
  render (const_cfg [s2n "A_1"] [] []) Fragment (s2n "<!-- _RENDERED A_1;ab -->") = RErr EMalformed.
Proof. vm_compute. split; reflexivity. Qed.
