(* Property C17 - the static-files finder exposes exactly the allowed, non-forbidden files.
   Only statements here; proofs live in Finder/Proofs.v.  Model: Finder/Model.v (current code, i.e. after
   the fix commits 6dbce54 "suffixes are literal" and 75615f5 "find validates the relative path").

   Vocabulary (Finder/Proofs.v):
     ends_lit s name      name = pre ++ s for some pre
     pat_holds p name     Suffix s : ends_lit s name \/ ends_lit (s ++ "\n") name      (`$` matches before one final newline)
                          Compiled m : m name = true                                     (opaque predicate)
     exposable c name     some effective allowed pattern holds and no effective forbidden pattern holds
     clean_seg g          g is a path segment: non-empty, not ".", not "..", contains no '/'
     below segs           "/s1/s2/.../sn"
     relname segs         "s1/s2/.../sn"  ("." for no segments)
     resolved_dir root    absolute, normalised, not "/"  (what get_component_dirs returns)
     wf_rel f             f is a '/'-joined non-empty list of clean segments (what the OS listing returns)
   Several component directories (Finder/Multi.v):
     location             {loc_root; loc_present (= os.path.isdir); loc_tree}, `locs` = finder.locations in its order
     found_of c p l       [q] if find_location of l returns q for lookup p, else []
     refuses c p l        safe_join of l raises SuspiciousFileOperation for p (or the root is relative: unmodelled)
     returned c locs p q  q is the result of find(p) or a member of find(p, all=True)
     good_root r          absolute, not "/" after normalisation;   resolved_dir r = good_root and already normalised
     pat_holds_lit        the LITERAL reading of a suffix (name = pre ++ s), without the `$`-before-newline corner *)
From Coq Require Import String.
From DJC Require Import Lib.Base Finder.Model Finder.Proofs Finder.Multi.

(* The filter: for every configuration (unset / empty / suffix strings / compiled patterns / deprecated setting) and
   every string, the verdict is exactly "some allowed pattern holds and no forbidden one". *)
Theorem exposed_iff_allowed_and_not_forbidden : forall (c : config) (name : str),
  is_path_valid c name = true <->
  (exists p, In p (eff_allowed c) /\ pat_holds p name) /\
  (forall p, In p (eff_forbidden c) -> ~ pat_holds p name).
Proof. exact is_path_valid_spec. Qed.
Print Assumptions exposed_iff_allowed_and_not_forbidden.

(* Suffix strings are literals: no character of a suffix is live regex syntax (the defect fixed by 6dbce54);
   the only thing beyond "ends with" is the trailing-newline corner of `$`. *)
Theorem suffix_is_literal : forall (s name : str),
  (forall pre, name <> pre ++ [NL]) -> (suffix_match s name = true <-> ends_lit s name).
Proof. exact suffix_literal. Qed.
Print Assumptions suffix_is_literal.

(* list() (and hence collectstatic) yields exactly the exposable files of the tree. *)
Theorem list_exposes_exactly : forall (c : config) (t : tree) (f : str),
  In f (finder_list c t) <-> In f (files t) /\ exposable c f.
Proof. exact list_spec. Qed.
Print Assumptions list_exposes_exactly.

(* find(): for every lookup path, a path is returned iff safe_join accepts it, it exists, and the name it has
   relative to the component directory is exposable ... *)
Theorem find_exposes_exactly : forall (c : config) (root : str) (t : tree) (p q : str),
  starts_with [SLASH] root = true ->
  (find_location c root t p = FFound q <->
   safe_join root p = Some q /\ In q (world root t) /\ exposable c (relpath q root)).
Proof. exact find_spec. Qed.
Print Assumptions find_exposes_exactly.

(* ... and that relative name is precisely the part of the returned path below the directory
   (so find and list judge the same string - the defect fixed by 75615f5). *)
Theorem find_validates_name_below_root : forall (root p q : str),
  starts_with [SLASH] root = true -> all_slashes (normpath root) = false ->
  safe_join root p = Some q ->
  exists segs, Forall clean_seg segs /\ q = normpath root ++ below segs /\ relpath q root = relname segs.
Proof. exact safe_join_relpath. Qed.
Print Assumptions find_validates_name_below_root.

(* No request path resolves outside the component directory: whatever the lookup string ("..", absolute, "//",
   prefix tricks such as <root>x/..), an accepted path is the normalised directory followed by a descending
   sequence of clean segments (no "..", no ".", no empty segment); everything else is SuspiciousFileOperation. *)
Theorem no_escape_from_root : forall (root p q : str),
  starts_with [SLASH] root = true -> all_slashes (normpath root) = false ->
  safe_join root p = Some q ->
  exists segs, Forall clean_seg segs /\ q = normpath root ++ below segs.
Proof. exact no_escape_lemma. Qed.
Print Assumptions no_escape_from_root.

Theorem find_refuses_iff_safe_join_refuses : forall (c : config) (root : str) (t : tree) (p : str),
  starts_with [SLASH] root = true ->
  (find_location c root t p = FSuspicious <-> safe_join root p = None).
Proof. exact find_suspicious. Qed.
Print Assumptions find_refuses_iff_safe_join_refuses.

(* find and list agree, for every configuration incl. arbitrary compiled patterns: a file of the tree is listed iff
   it is found under its own name, and NO lookup path whatsoever makes find return a file that list hides. *)
Theorem find_agrees_with_list : forall (c : config) (root : str) (t : tree) (f : str),
  resolved_dir root -> wf_rel f -> In f (files t) ->
  (In f (finder_list c t) <-> find_location c root t f = FFound (root ++ SLASH :: f)) /\
  (forall p, find_location c root t p = FFound (root ++ SLASH :: f) -> In f (finder_list c t)).
Proof. exact find_agrees_with_list_lemma. Qed.
Print Assumptions find_agrees_with_list.

(* With default settings (defaults GENERATED from the current source, Gen/C17.v) no name ending in
   .py .pyc .html .django .dj .tpl (also when followed by a final newline) passes the filter, is returned by find for
   any lookup path in any tree, or is yielded by list. *)
Theorem default_settings_never_expose_backend_code :
  (forall name s, In s backend_suffixes -> pat_holds (Suffix s) name -> is_path_valid default_config name = false) /\
  (forall root t p q s, starts_with [SLASH] root = true -> all_slashes (normpath root) = false ->
     find_location default_config root t p = FFound q -> In s backend_suffixes -> ~ pat_holds (Suffix s) q) /\
  (forall t f s, In f (finder_list default_config t) -> In s backend_suffixes -> ~ pat_holds (Suffix s) f).
Proof. exact (conj default_never_backend (conj default_find_never_backend default_list_never_backend)). Qed.
Print Assumptions default_settings_never_expose_backend_code.

(* ================= the literal reading and the `$`-before-newline corner (made explicit) ================= *)
(* For every name that does NOT end in a newline the filter is exactly the literal statement of the property:
   "ends with an allowed suffix or matches an allowed pattern, and matches no forbidden one". *)
Theorem literal_reading_outside_newline_names : forall (c : config) (name : str),
  (forall pre, name <> pre ++ [NL]) -> (is_path_valid c name = true <-> exposable_lit c name).
Proof. exact literal_reading. Qed.
Print Assumptions literal_reading_outside_newline_names.

(* For a name base ++ "\n" every suffix string (allowed AND forbidden) is tried against the name and against base;
   nothing else differs from the literal reading ... *)
Theorem newline_names_are_judged_with_and_without_the_newline : forall (c : config) (base : str),
  is_path_valid c (base ++ [NL]) = true <->
  (exists p, In p (eff_allowed c) /\ pat_holds_nl p base) /\
  (forall p, In p (eff_forbidden c) -> ~ pat_holds_nl p base).
Proof. exact newline_reading. Qed.
Print Assumptions newline_names_are_judged_with_and_without_the_newline.

(* ... and for EVERY name a literally matching forbidden suffix/pattern hides it: the corner can only hide more on the
   forbidden side ("evil.py\n" is hidden when ".py" is forbidden), and expose "a.js\n" on the allowed side. *)
Theorem forbidden_literal_always_respected : forall (c : config) (name : str),
  is_path_valid c name = true -> forall p, In p (eff_forbidden c) -> ~ pat_holds_lit p name.
Proof. exact forbidden_literal_respected. Qed.
Print Assumptions forbidden_literal_always_respected.

(* ================= several component directories ================= *)
(* list(): exactly the exposable files of every EXISTING location, tagged with their location. *)
Theorem list_all_exposes_exactly : forall (c : config) (locs : list location) (r f : str),
  In (r, f) (finder_list_all c locs) <->
  exists l, In l locs /\ loc_root l = r /\ loc_present l = true /\ In f (files (loc_tree l)) /\ exposable c f.
Proof. exact list_all_spec. Qed.
Print Assumptions list_all_exposes_exactly.

(* find(p, all=True): the matches of all locations in order - unless some location refuses the path, which aborts the call. *)
Theorem find_all_collects_every_location : forall (c : config) (p : str) (locs : list location) (qs : list str),
  find_all c locs p = FAll qs <->
  (forall l, In l locs -> ~ refuses c p l) /\ qs = flat_map (found_of c p) locs.
Proof. exact find_all_spec. Qed.
Print Assumptions find_all_collects_every_location.

(* find(p): the first location with a match wins (the same relative name in two directories) ... *)
Theorem find_first_match_wins : forall (c : config) (p q : str) (locs : list location),
  find_first c locs p = FFound q <->
  exists l1 l l2, locs = l1 ++ l :: l2 /\ (forall l', In l' l1 -> find_loc c l' p = FNotFound) /\ find_loc c l p = FFound q.
Proof. exact find_first_found. Qed.
Print Assumptions find_first_match_wins.

(* ... and it is the head of what all=True returns. *)
Theorem find_first_is_head_of_find_all : forall (c : config) (p : str) (locs : list location) (qs : list str),
  find_all c locs p = FAll qs ->
  find_first c locs p = match qs with [] => FNotFound | q :: _ => FFound q end.
Proof. exact find_first_head_of_all. Qed.
Print Assumptions find_first_is_head_of_find_all.

(* No request path resolves outside the component directories: every path returned by find(p) / find(p, all=True), for
   every lookup string, is the normalised root of ONE OF the locations followed by descending clean segments, exists
   below that (existing) location, and its name relative to that location is exposable. *)
Theorem no_escape_from_roots : forall (c : config) (locs : list location) (p q : str),
  (forall l, In l locs -> good_root (loc_root l)) -> returned c locs p q ->
  exists l segs, In l locs /\ loc_present l = true /\ Forall clean_seg segs /\
                 q = normpath (loc_root l) ++ below segs /\ In q (loc_world l) /\ exposable c (relname segs).
Proof. exact no_escape_multi. Qed.
Print Assumptions no_escape_from_roots.

(* find and list agree over several directories: a clean relative name is never refused; a file of a location is listed
   iff find(all=True) under its own name returns it ... *)
Theorem find_agrees_with_list_all : forall (c : config) (locs : list location) (l : location) (f : str),
  (forall l', In l' locs -> resolved_dir (loc_root l')) ->
  In l locs -> loc_present l = true -> wf_rel f -> In f (files (loc_tree l)) ->
  find_all c locs f = FAll (flat_map (found_of c f) locs) /\
  (In (loc_root l, f) (finder_list_all c locs) <-> In (loc_root l ++ SLASH :: f) (flat_map (found_of c f) locs)).
Proof. exact find_agrees_with_list_all_lemma. Qed.
Print Assumptions find_agrees_with_list_all.

(* ... and NO lookup path makes find return a file that list() hides: a returned path is a location itself, a directory
   below one, or a listed file - always with an exposable relative name. *)
Theorem find_returns_only_listed_files : forall (c : config) (locs : list location) (p q : str),
  (forall l, In l locs -> resolved_dir (loc_root l)) -> returned c locs p q ->
  exists l, In l locs /\ loc_present l = true /\
    ((q = loc_root l /\ exposable c DOT) \/
     exists r, q = loc_root l ++ SLASH :: r /\ exposable c r /\
               (In r (dirs (loc_tree l)) \/ In (loc_root l, r) (finder_list_all c locs))).
Proof. exact returned_is_listed. Qed.
Print Assumptions find_returns_only_listed_files.

(* collectstatic copies, for every relative name, the FIRST (location, name) pair that list() yields; the set of names
   copied is the set of names listed. *)
Theorem collectstatic_copies_first_listing : forall (c : config) (locs : list location) (r f : str),
  In (r, f) (collected c locs) <->
  exists l1 l2, finder_list_all c locs = l1 ++ (r, f) :: l2 /\ ~ In f (map snd l1).
Proof. exact collected_spec. Qed.
Print Assumptions collectstatic_copies_first_listing.

Theorem collectstatic_names_are_listed_names : forall (c : config) (locs : list location) (f : str),
  In f (map snd (collected c locs)) <-> In f (map snd (finder_list_all c locs)).
Proof. exact collected_names. Qed.
Print Assumptions collectstatic_names_are_listed_names.

(* The dev server (staticfiles.views.serve = normpath + lstrip("/") + find): whatever the request path, a 200 answer
   streams a path that find returns, hence (previous theorem) a listed file; a clean relative name is looked up as is. *)
Theorem dev_server_serves_only_exposed : forall (c : config) (locs : list location) (p q : str),
  (forall l, In l locs -> resolved_dir (loc_root l)) -> serve c locs p = SFile q ->
  exists l, In l locs /\ loc_present l = true /\
    ((q = loc_root l /\ exposable c DOT) \/
     exists r, q = loc_root l ++ SLASH :: r /\ exposable c r /\
               (In r (dirs (loc_tree l)) \/ In (loc_root l, r) (finder_list_all c locs))).
Proof. exact serve_only_exposed. Qed.
Print Assumptions dev_server_serves_only_exposed.

Theorem dev_server_looks_up_clean_names_unchanged : forall (f : str), wf_rel f -> serve_lookup f = f.
Proof. exact serve_lookup_clean. Qed.
Print Assumptions dev_server_looks_up_clean_names_unchanged.

(* Conversely: every file collectstatic copies is served by the dev server under its own relative name, from the same
   location - provided no location holds a DIRECTORY of that name (find would return the directory of an earlier location:
   the dev server then answers 404; same behaviour as Django's FileSystemFinder; counted in the evidence). *)
Theorem dev_server_serves_collected_unless_shadowed : forall (c : config) (locs : list location) (r f : str),
  (forall l, In l locs -> resolved_dir (loc_root l)) -> wf_rel f ->
  (forall l, In l locs -> loc_present l = true -> ~ In f (dirs (loc_tree l))) ->
  In (r, f) (collected c locs) ->
  serve c locs f = SFile (r ++ SLASH :: f).
Proof. exact serve_collected. Qed.
Print Assumptions dev_server_serves_collected_unless_shadowed.

(* Defaults, several directories: nothing returned by find / find(all=True) / the dev server, listed, or collected ends in
   a backend suffix (also when followed by a final newline). *)
Theorem default_settings_never_expose_backend_code_all :
  (forall locs p q s, (forall l, In l locs -> good_root (loc_root l)) ->
     returned default_config locs p q \/ (exists p', serve default_config locs p' = SFile q) ->
     In s backend_suffixes -> ~ pat_holds (Suffix s) q) /\
  (forall locs r f s,
     In (r, f) (finder_list_all default_config locs) \/ In (r, f) (collected default_config locs) ->
     In s backend_suffixes -> ~ pat_holds (Suffix s) f).
Proof. exact (conj default_returned_never_backend default_list_all_never_backend). Qed.
Print Assumptions default_settings_never_expose_backend_code_all.

(* ---------- non-vacuity and witnesses ---------- *)
Definition ex_root : str := s2n "/tmp/c17/r".
Definition ex_tree : tree :=
  {| dirs := [s2n "secret"]; files := map s2n ["a.js"; "a.minXjs"; "abdxjs.js"; "m.py"; "secret/b.js"]%string |}.
Definition cfg (a f : list pat) : config :=
  {| static_files_allowed := Some a; static_files_forbidden := Some f; forbidden_static_files := None |}.

Example resolved_dir_satisfiable : resolved_dir ex_root.
Proof. repeat split. Qed.

Example wf_rel_satisfiable : wf_rel (s2n "secret/b.js").
Proof.
  exists [s2n "secret"; s2n "b.js"]. split; [discriminate|]. split; [|reflexivity].
  repeat constructor; try discriminate; vm_compute; intuition discriminate.
Qed.

(* the witnesses of the two fixed defects behave as the property demands in the model of the current code *)
Example witness_suffix_metachar :
  finder_list (cfg [Suffix (s2n ".min.js")] []) ex_tree = [] /\
  finder_list (cfg [Suffix (s2n ".js")] [Suffix (s2n ".d.js")]) ex_tree = map s2n ["a.js"; "abdxjs.js"; "secret/b.js"]%string.
Proof. vm_compute. split; reflexivity. Qed.

Example witness_find_relative :
  let c := cfg [Suffix (s2n ".js")] [Compiled (re_search (ReStarts (s2n "secret/")))] in
  finder_list c ex_tree = map s2n ["a.js"; "abdxjs.js"]%string /\
  find_location c ex_root ex_tree (s2n "secret/b.js") = FNotFound /\
  find_location c ex_root ex_tree (s2n "secret/../a.js") = FFound (s2n "/tmp/c17/r/a.js") /\
  find_location c ex_root ex_tree (s2n "../r/a.js") = FFound (s2n "/tmp/c17/r/a.js") /\
  find_location c ex_root ex_tree (s2n "../rx/a.js") = FSuspicious /\
  find_location c ex_root ex_tree (s2n "/tmp/c17/rx/../r/a.js") = FFound (s2n "/tmp/c17/r/a.js") /\
  find_location c ex_root ex_tree (s2n "//tmp/c17/r/a.js") = FSuspicious /\
  find_location c ex_root ex_tree (s2n "/etc/passwd") = FSuspicious.
Proof. vm_compute. repeat split; reflexivity. Qed.

(* the accepted corner: `$` matches before one trailing newline *)
Example trailing_newline_corner :
  is_path_valid (cfg [Suffix (s2n ".js")] []) (s2n "a.js" ++ [NL]) = true /\
  ends_with (s2n ".js") (s2n "a.js" ++ [NL]) = false /\
  is_path_valid default_config (s2n "m.py" ++ [NL]) = false.
Proof. vm_compute. repeat split; reflexivity. Qed.

Example default_exposes_something :
  finder_list default_config ex_tree = map s2n ["a.js"; "abdxjs.js"; "secret/b.js"]%string.
Proof. vm_compute. reflexivity. Qed.

(* several directories: the same relative name in two of them, a prefix-named sibling, a missing directory *)
Definition ex_locs : list location :=
  [ {| loc_root := s2n "/tmp/c17/c"; loc_present := true;
       loc_tree := {| dirs := [s2n "sub"]; files := map s2n ["a.js"; "m.py"; "sub/b.js"]%string |} |};
    {| loc_root := s2n "/tmp/c17/c_private"; loc_present := true;
       loc_tree := {| dirs := []; files := map s2n ["a.js"; "secret.js"]%string |} |};
    {| loc_root := s2n "/tmp/c17/missing"; loc_present := false; loc_tree := {| dirs := []; files := [] |} |} ].

Example locs_satisfiable : forall l, In l ex_locs -> resolved_dir (loc_root l).
Proof. intros l [<-|[<-|[<-|[]]]]; repeat split. Qed.

Example witness_several_dirs :
  find_all default_config ex_locs (s2n "a.js") = FAll (map s2n ["/tmp/c17/c/a.js"; "/tmp/c17/c_private/a.js"]%string) /\
  find_first default_config ex_locs (s2n "a.js") = FFound (s2n "/tmp/c17/c/a.js") /\
  find_first default_config ex_locs (s2n "secret.js") = FFound (s2n "/tmp/c17/c_private/secret.js") /\
  find_first default_config ex_locs (s2n "../c_private/secret.js") = FSuspicious /\
  find_all default_config ex_locs (s2n "/tmp/c17/c_private/secret.js") = FASuspicious /\
  find_first default_config ex_locs (s2n "m.py") = FNotFound /\
  finder_list_all default_config ex_locs =
    [(s2n "/tmp/c17/c", s2n "a.js"); (s2n "/tmp/c17/c", s2n "sub/b.js");
     (s2n "/tmp/c17/c_private", s2n "a.js"); (s2n "/tmp/c17/c_private", s2n "secret.js")] /\
  collected default_config ex_locs =
    [(s2n "/tmp/c17/c", s2n "a.js"); (s2n "/tmp/c17/c", s2n "sub/b.js"); (s2n "/tmp/c17/c_private", s2n "secret.js")] /\
  serve default_config ex_locs (s2n "/x/../sub//b.js") = SFile (s2n "/tmp/c17/c/sub/b.js") /\
  serve default_config ex_locs (s2n "sub") = S404 /\
  serve default_config ex_locs (s2n "../c_private/secret.js") = SSuspicious.
Proof. vm_compute. repeat split; reflexivity. Qed.

(* the newline corner, both directions: allowed side exposes "a.js\n", forbidden side hides "evil.py\n" although "" is allowed *)
Example newline_corner_both_sides :
  is_path_valid (cfg [Suffix (s2n ".js")] []) (s2n "a.js" ++ [NL]) = true /\
  ~ exposable_lit (cfg [Suffix (s2n ".js")] []) (s2n "a.js" ++ [NL]) /\
  is_path_valid (cfg [Suffix []] [Suffix (s2n ".py")]) (s2n "evil.py" ++ [NL]) = false /\
  exposable_lit (cfg [Suffix []] [Suffix (s2n ".py")]) (s2n "evil.py" ++ [NL]) /\
  is_path_valid (cfg [Suffix []] [Suffix (s2n ".py")]) (s2n "m.PY") = true.
Proof.
  split; [vm_compute; reflexivity|]. split.
  - intros [[p [[<-|[]] [pre H]]] _]. apply (f_equal (@rev N)) in H. rewrite (rev_app_distr pre) in H. vm_compute in H. discriminate.
  - split; [vm_compute; reflexivity|]. split; [|vm_compute; reflexivity]. split.
    + exists (Suffix []). split; [left; reflexivity|]. exists (s2n "evil.py" ++ [NL]). rewrite app_nil_r. reflexivity.
    + intros p [<-|[]] [pre H]. apply (f_equal (@rev N)) in H. rewrite (rev_app_distr pre) in H. vm_compute in H. discriminate.
Qed.
