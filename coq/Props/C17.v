(* Property C17 - the static-files finder exposes exactly the allowed, non-forbidden files.
   Only statements here; proofs live in Finder/Proofs.v.  Model: Finder/Model.v (current code, i.e. after
   the fix commits 6dbce54 "suffixes are literal" and 75615f5 "find validates the relative path").

   Vocabulary (Finder/Proofs.v):
     ends_lit s name      name = pre ++ s for some pre
     pat_holds p name     Suffix s : ends_lit s name \/ ends_lit (s ++ "\n") name      (`$` matches before one final newline)
                          Compiled m : m name = true                                     (opaque predicate)
     exposable c name     some effective allowed pattern holds and no effective forbidden pattern holds
     clean_seg g          g is a path segment: non-empty, not ".", not "..", contains no '/'
     below segs           "/s1/s2/.../sn"
     relname segs         "s1/s2/.../sn"  ("." for no segments)
     resolved_dir root    absolute, normalised, not "/"  (what get_component_dirs returns)
     wf_rel f             f is a '/'-joined non-empty list of clean segments (what the OS listing returns) *)
From Coq Require Import String.
From DJC Require Import Lib.Base Finder.Model Finder.Proofs.

(* The filter: for every configuration (unset / empty / suffix strings / compiled patterns / deprecated setting) and
   every string, the verdict is exactly "some allowed pattern holds and no forbidden one". *)
Theorem exposed_iff_allowed_and_not_forbidden : forall (c : config) (name : str),
  is_path_valid c name = true <->
  (exists p, In p (eff_allowed c) /\ pat_holds p name) /\
  (forall p, In p (eff_forbidden c) -> ~ pat_holds p name).
Proof. exact is_path_valid_spec. Qed.
Print Assumptions exposed_iff_allowed_and_not_forbidden.

(* Suffix strings are literals: no character of a suffix is live regex syntax (the defect fixed by 6dbce54);
   the only thing beyond "ends with" is the trailing-newline corner of `$`. *)
Theorem suffix_is_literal : forall (s name : str),
  (forall pre, name <> pre ++ [NL]) -> (suffix_match s name = true <-> ends_lit s name).
Proof. exact suffix_literal. Qed.
Print Assumptions suffix_is_literal.

(* list() (and hence collectstatic) yields exactly the exposable files of the tree. *)
Theorem list_exposes_exactly : forall (c : config) (t : tree) (f : str),
  In f (finder_list c t) <-> In f (files t) /\ exposable c f.
Proof. exact list_spec. Qed.
Print Assumptions list_exposes_exactly.

(* find(): for every lookup path, a path is returned iff safe_join accepts it, it exists, and the name it has
   relative to the component directory is exposable ... *)
Theorem find_exposes_exactly : forall (c : config) (root : str) (t : tree) (p q : str),
  starts_with [SLASH] root = true ->
  (find_location c root t p = FFound q <->
   safe_join root p = Some q /\ In q (world root t) /\ exposable c (relpath q root)).
Proof. exact find_spec. Qed.
Print Assumptions find_exposes_exactly.

(* ... and that relative name is precisely the part of the returned path below the directory
   (so find and list judge the same string - the defect fixed by 75615f5). *)
Theorem find_validates_name_below_root : forall (root p q : str),
  starts_with [SLASH] root = true -> all_slashes (normpath root) = false ->
  safe_join root p = Some q ->
  exists segs, Forall clean_seg segs /\ q = normpath root ++ below segs /\ relpath q root = relname segs.
Proof. exact safe_join_relpath. Qed.
Print Assumptions find_validates_name_below_root.

(* No request path resolves outside the component directory: whatever the lookup string ("..", absolute, "//",
   prefix tricks such as <root>x/..), an accepted path is the normalised directory followed by a descending
   sequence of clean segments (no "..", no ".", no empty segment); everything else is SuspiciousFileOperation. *)
Theorem no_escape_from_root : forall (root p q : str),
  starts_with [SLASH] root = true -> all_slashes (normpath root) = false ->
  safe_join root p = Some q ->
  exists segs, Forall clean_seg segs /\ q = normpath root ++ below segs.
Proof. exact no_escape_lemma. Qed.
Print Assumptions no_escape_from_root.

Theorem find_refuses_iff_safe_join_refuses : forall (c : config) (root : str) (t : tree) (p : str),
  starts_with [SLASH] root = true ->
  (find_location c root t p = FSuspicious <-> safe_join root p = None).
Proof. exact find_suspicious. Qed.
Print Assumptions find_refuses_iff_safe_join_refuses.

(* find and list agree, for every configuration incl. arbitrary compiled patterns: a file of the tree is listed iff
   it is found under its own name, and NO lookup path whatsoever makes find return a file that list hides. *)
Theorem find_agrees_with_list : forall (c : config) (root : str) (t : tree) (f : str),
  resolved_dir root -> wf_rel f -> In f (files t) ->
  (In f (finder_list c t) <-> find_location c root t f = FFound (root ++ SLASH :: f)) /\
  (forall p, find_location c root t p = FFound (root ++ SLASH :: f) -> In f (finder_list c t)).
Proof. exact find_agrees_with_list_lemma. Qed.
Print Assumptions find_agrees_with_list.

(* With default settings (defaults GENERATED from the current source, Gen/C17.v) no name ending in
   .py .pyc .html .django .dj .tpl (also when followed by a final newline) passes the filter, is returned by find for
   any lookup path in any tree, or is yielded by list. *)
Theorem default_settings_never_expose_backend_code :
  (forall name s, In s backend_suffixes -> pat_holds (Suffix s) name -> is_path_valid default_config name = false) /\
  (forall root t p q s, starts_with [SLASH] root = true -> all_slashes (normpath root) = false ->
     find_location default_config root t p = FFound q -> In s backend_suffixes -> ~ pat_holds (Suffix s) q) /\
  (forall t f s, In f (finder_list default_config t) -> In s backend_suffixes -> ~ pat_holds (Suffix s) f).
Proof. exact (conj default_never_backend (conj default_find_never_backend default_list_never_backend)). Qed.
Print Assumptions default_settings_never_expose_backend_code.

(* ---------- non-vacuity and witnesses ---------- *)
Definition ex_root : str := s2n "/tmp/c17/r".
Definition ex_tree : tree :=
  {| dirs := [s2n "secret"]; files := map s2n ["a.js"; "a.minXjs"; "abdxjs.js"; "m.py"; "secret/b.js"]%string |}.
Definition cfg (a f : list pat) : config :=
  {| static_files_allowed := Some a; static_files_forbidden := Some f; forbidden_static_files := None |}.

Example resolved_dir_satisfiable : resolved_dir ex_root.
Proof. repeat split. Qed.

Example wf_rel_satisfiable : wf_rel (s2n "secret/b.js").
Proof.
  exists [s2n "secret"; s2n "b.js"]. split; [discriminate|]. split; [|reflexivity].
  repeat constructor; try discriminate; vm_compute; intuition discriminate.
Qed.

(* the witnesses of the two fixed defects behave as the property demands in the model of the current code *)
Example witness_suffix_metachar :
  finder_list (cfg [Suffix (s2n ".min.js")] []) ex_tree = [] /\
  finder_list (cfg [Suffix (s2n ".js")] [Suffix (s2n ".d.js")]) ex_tree = map s2n ["a.js"; "abdxjs.js"; "secret/b.js"]%string.
Proof. vm_compute. split; reflexivity. Qed.

Example witness_find_relative :
  let c := cfg [Suffix (s2n ".js")] [Compiled (re_search (ReStarts (s2n "secret/")))] in
  finder_list c ex_tree = map s2n ["a.js"; "abdxjs.js"]%string /\
  find_location c ex_root ex_tree (s2n "secret/b.js") = FNotFound /\
  find_location c ex_root ex_tree (s2n "secret/../a.js") = FFound (s2n "/tmp/c17/r/a.js") /\
  find_location c ex_root ex_tree (s2n "../r/a.js") = FFound (s2n "/tmp/c17/r/a.js") /\
  find_location c ex_root ex_tree (s2n "../rx/a.js") = FSuspicious /\
  find_location c ex_root ex_tree (s2n "/tmp/c17/rx/../r/a.js") = FFound (s2n "/tmp/c17/r/a.js") /\
  find_location c ex_root ex_tree (s2n "//tmp/c17/r/a.js") = FSuspicious /\
  find_location c ex_root ex_tree (s2n "/etc/passwd") = FSuspicious.
Proof. vm_compute. repeat split; reflexivity. Qed.

(* the accepted corner: `$` matches before one trailing newline *)
Example trailing_newline_corner :
  is_path_valid (cfg [Suffix (s2n ".js")] []) (s2n "a.js" ++ [NL]) = true /\
  ends_with (s2n ".js") (s2n "a.js" ++ [NL]) = false /\
  is_path_valid default_config (s2n "m.py" ++ [NL]) = false.
Proof. vm_compute. repeat split; reflexivity. Qed.

Example default_exposes_something :
  finder_list default_config ex_tree = map s2n ["a.js"; "abdxjs.js"; "secret/b.js"]%string.
Proof. vm_compute. reflexivity. Qed.
