(* Property C06 - a finished or failed render leaves nothing behind.
   Only statements here; proofs live in Fault/Proofs.v.  Model: Fault/Model.v.
   STAGE 1 of the build: the witnesses against the code before the repair.  The theorems about the
   repaired code (tables_empty_after_any_outcome, stacks_restored, exception_class_preserved,
   later_render_unaffected) are added in stage 2. *)
From DJC Require Import Lib.Base Fault.Model Fault.Proofs.

(* Before the repair (cfg_old): a failed render leaves entries in the module-level tables ... *)
Theorem tables_empty_after_any_outcome_old_refuted :
  exists t f, f < npoints t /\ tables_empty (snd (run cfg_old [MUser 0] t (Some f) init)) = false.
Proof. exact old_tables_refuted_lemma. Qed.
Print Assumptions tables_empty_after_any_outcome_old_refuted.

(* ... and the metadata stack / the caller's render_context unbalanced ... *)
Theorem stacks_restored_old_refuted :
  exists t f, f < npoints t /\ stacks_empty (snd (run cfg_old [MUser 0] t (Some f) init)) = false.
Proof. exact old_stacks_refuted_lemma. Qed.
Print Assumptions stacks_restored_old_refuted.

(* ... a render that FINISHES leaves entries behind when a child's placeholder is dropped from the output ... *)
Theorem finished_render_clean_old_refuted :
  exists t, fst (run cfg_old [MUser 0] t None init) = OOk /\
            tables_empty (snd (run cfg_old [MUser 0] t None init)) = false.
Proof. exact old_finished_render_refuted_lemma. Qed.
Print Assumptions finished_render_clean_old_refuted.

(* ... and the first line of a multi-line message of the user's exception is lost. *)
Theorem message_preserved_old_refuted :
  exists t f, fst (run cfg_old [MUser 0; MUser 1] t (Some f) init)
              = OUser [LName 0] [MPrefix [LName 0]; MUser 1].
Proof. exact old_message_refuted_lemma. Qed.
Print Assumptions message_preserved_old_refuted.
