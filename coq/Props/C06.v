(* Property C06 - a finished or failed render leaves nothing behind.
   Only statements here; proofs live in Fault/Proofs.v (induction over render trees: Fault/Main.v).
   Model: Fault/Model.v.  `run cfg_fixed um t f s` is the bookkeeping of one top-level render of the tree t in
   which callback invocation f raises an exception whose message has the lines um (f = None: nobody raises);
   cfg_fixed is the code as it is now, cfg_old the code before the repair commits 51f6eaa / 478318a. *)
From DJC Require Import Lib.Base Fault.Model Fault.SpecProofs Fault.Proofs.

(* Every tree, every fault index (also none, also out of range): all six module-level tables are empty
   afterwards - whether the render returned or raised. *)
Theorem tables_empty_after_any_outcome : forall um t f,
  tables_empty (snd (run cfg_fixed um t f init)) = true.
Proof. exact tables_empty_lemma. Qed.
Print Assumptions tables_empty_after_any_outcome.

(* Component._metadata_stack of every instance, the render_context stack of the caller (and of every snapshot) and
   the Context.dicts layers the library pushes for fill discovery are as before: exactly, not only in depth. *)
Theorem stacks_restored : forall um t f s0, clean s0 ->
  meta (snd (run cfg_fixed um t f s0)) = meta s0 /\ rctx (snd (run cfg_fixed um t f s0)) = rctx s0 /\
  cdicts (snd (run cfg_fixed um t f s0)) = cdicts s0.
Proof. exact stacks_restored_lemma. Qed.
Print Assumptions stacks_restored.

Theorem stacks_empty_after_any_outcome : forall um t f,
  stacks_empty (snd (run cfg_fixed um t f init)) = true.
Proof. exact stacks_empty_lemma. Qed.
Print Assumptions stacks_empty_after_any_outcome.

(* The bookkeeping never interferes with the outcome: no dictionary access of the library fails (OInternal
   is one of the constructors of `outcome`), and what reaches the caller is what the S-model says - the user's
   exception carried up through the slot markers and component_error_message wrappers around the faulting
   invocation - for every tree, every fault index and every state with empty tables. *)
Theorem outcome_is_specified : forall um t f s0, clean s0 ->
  fst (run cfg_fixed um t f s0) = spec_outcome um t f.
Proof. exact outcome_is_spec_lemma. Qed.
Print Assumptions outcome_is_specified.

(* The user's exception propagates, exactly when the fault index is one of the callback invocations of the
   render; it is never replaced by an error of the bookkeeping; its message is the original text (um), or the
   line naming the component path c0 followed by the complete original text (c0 = err._components as of the
   outermost component; slot markers added after the last component wrapper are the `sl` part).
   Premise: the user's text does not start with a line of the reserved prefix kind (MUser lines never do). *)
Theorem exception_class_preserved : forall um t f,
  strip_prefix um = um ->
  match fst (run cfg_fixed um t f init) with
  | OOk => f = None \/ exists k, f = Some k /\ npoints t <= k
  | OUser c m => (exists k, f = Some k /\ k < npoints t) /\
                 ((m = um /\ slots_only c) \/
                  (exists sl c0, c = sl ++ c0 /\ slots_only sl /\ m = MPrefix c0 :: um))
  | OInternal _ => False
  end.
Proof. exact exception_class_preserved_lemma. Qed.
Print Assumptions exception_class_preserved.

(* Whatever was rendered before and however it ended: the next render has the outcome it has from the empty
   state, and again leaves nothing. *)
Theorem later_render_unaffected : forall um0 t0 f0 um t f,
  let s1 := snd (run cfg_fixed um0 t0 f0 init) in
  fst (run cfg_fixed um t f s1) = fst (run cfg_fixed um t f init) /\
  tables_empty (snd (run cfg_fixed um t f s1)) = true.
Proof. exact later_render_unaffected_lemma. Qed.
Print Assumptions later_render_unaffected.

(* Histories: any sequence mixing finished and failed renders - every outcome is the solo outcome, and the
   tables and stacks are empty at the end (hence after every prefix). *)
Theorem history_leaves_nothing : forall um h,
  fst (run_seq cfg_fixed um h init) = map (fun tf => fst (run cfg_fixed um (fst tf) (snd tf) init)) h /\
  tables_empty (snd (run_seq cfg_fixed um h init)) = true /\
  stacks_empty (snd (run_seq cfg_fixed um h init)) = true.
Proof. exact history_lemma. Qed.
Print Assumptions history_leaves_nothing.

(* ---------- the same statements fail for the code before the repair (witnesses in corpus/C06) ---------- *)
Theorem tables_empty_after_any_outcome_old_refuted :
  exists t f, f < npoints t /\ tables_empty (snd (run cfg_old [MUser 0] t (Some f) init)) = false.
Proof. exact old_tables_refuted_lemma. Qed.
Print Assumptions tables_empty_after_any_outcome_old_refuted.

Theorem stacks_restored_old_refuted :
  exists t f, f < npoints t /\ stacks_empty (snd (run cfg_old [MUser 0] t (Some f) init)) = false.
Proof. exact old_stacks_refuted_lemma. Qed.
Print Assumptions stacks_restored_old_refuted.

(* a render that FINISHES left entries behind when a child's placeholder was dropped from the output *)
Theorem finished_render_clean_old_refuted :
  exists t, fst (run cfg_old [MUser 0] t None init) = OOk /\
            tables_empty (snd (run cfg_old [MUser 0] t None init)) = false.
Proof. exact old_finished_render_refuted_lemma. Qed.
Print Assumptions finished_render_clean_old_refuted.

(* the first line of a multi-line message was lost *)
Theorem message_preserved_old_refuted :
  exists t f, fst (run cfg_old [MUser 0; MUser 1] t (Some f) init)
              = OUser [LName 0] [MPrefix [LName 0]; MUser 1].
Proof. exact old_message_refuted_lemma. Qed.
Print Assumptions message_preserved_old_refuted.

(* ---------- non-vacuity ---------- *)
(* the premise of exception_class_preserved holds for user text; `clean` states exist; a fault below the root
   of a tree with a provide body and three children comes out with the path root > child and the complete
   two-line message, and leaves nothing. *)
Example user_text_premise : strip_prefix [MUser 0; MUser 1] = [MUser 0; MUser 1].
Proof. reflexivity. Qed.
Example clean_states_exist : clean init.
Proof. exact clean_init. Qed.
Example fault_below_root :
  let r := run cfg_fixed [MUser 0; MUser 1] w2 (Some 5) init in
  fst r = OUser [LName 0; LName 1] [MPrefix [LName 0; LName 1]; MUser 0; MUser 1] /\
  tables_empty (snd r) = true /\ stacks_empty (snd r) = true /\ npoints w2 = 16.
Proof. vm_compute. repeat split. Qed.
