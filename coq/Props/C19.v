(* Property C19 - every script URL a render emits is served with that component's code.
   Only statements here; proofs live in Serve/Proofs.v.  Model: Serve/Model.v (M-model of the media cache,
   of the caching / announcing halves of a render, of the two URL routes and of cached_script_view).

   Vocabulary (Serve/Proofs.v): [wf_table] - class hashes are distinct, non-empty and free of '.', '/', ':'
   (class names are identifiers, hash = name_md5prefix); [wf_inst] - the instance's class is in the table and
   its input hashes are non-empty and free of the separators (md5 hex); [wf_op] - the instances of a render op are
   wf; [produced i k ih] - instance i has non-empty code of kind k and ih is None (the component's own script) or
   the input hash of this instance; [expected c k ih] - strip(code) for the component script, "" for an input
   script; [no_evict key ops] - no clear() and no delete(key) among ops. *)
From DJC Require Import Lib.Base Serve.Model Serve.Proofs.

(* MAIN.  Whatever history (renders in both modes, split renders, evictions, clears, requests) preceded an atomic
   render (Component.render(type=document|fragment)), every endpoint URL it announces belongs to a component
   instance rendered in it, and a GET of that URL answers 200 with exactly that component's stripped JS / CSS
   (the empty script for an input-hash URL) and the matching content type - after any further history in which
   that one cache entry is not evicted (other entries may be). *)
Theorem emitted_url_served :
  forall tbl pre m insts js css,
    wf_table tbl -> Forall (wf_op tbl) pre -> Forall (wf_inst tbl) insts ->
    snd (step tbl (final tbl [] pre) (ORender m insts)) = OutUrls js css ->
    forall u, In u (js ++ css) ->
    exists i k ih,
      In i insts /\ produced i k ih /\ u = url (chash (icls i)) k ih /\
      forall mid, no_evict (gen_cache_key (chash (icls i)) (kstr k) ih) mid ->
        serve tbl (final tbl [] (pre ++ ORender m insts :: mid)) GET u
          = R200 (expected (icls i) k ih) (ctype k).
Proof. exact emitted_url_served_lemma. Qed.
Print Assumptions emitted_url_served.

(* Split flow, document mode (template render, later render_dependencies / the middleware): document mode reads
   the cache while announcing, so every URL marked as loaded is served until its entry is evicted - whatever
   happened between the component render and render_dependencies. *)
Theorem document_announced_url_served :
  forall tbl pre insts js css,
    wf_table tbl -> Forall (wf_op tbl) pre -> Forall (wf_inst tbl) insts ->
    snd (step tbl (final tbl [] pre) (ODeps Document insts)) = OutUrls js css ->
    forall u, In u (js ++ css) ->
    exists i k ih,
      In i insts /\ produced i k ih /\ u = url (chash (icls i)) k ih /\
      forall mid, no_evict (gen_cache_key (chash (icls i)) (kstr k) ih) mid ->
        serve tbl (final tbl [] (pre ++ ODeps Document insts :: mid)) GET u
          = R200 (expected (icls i) k ih) (ctype k).
Proof. exact document_deps_served_lemma. Qed.
Print Assumptions document_announced_url_served.

(* The mechanism behind both: rendering an instance (in any cache state satisfying the invariant) caches every
   script the instance entitles a page to announce, and the entry answers until it is itself evicted. *)
Theorem rendered_instance_is_served :
  forall tbl ch insts i k ih mid,
    wf_table tbl -> cache_ok tbl ch -> Forall (wf_inst tbl) insts ->
    In i insts -> produced i k ih ->
    no_evict (gen_cache_key (chash (icls i)) (kstr k) ih) mid ->
    serve tbl (final tbl (body insts ch) mid) GET (url (chash (icls i)) k ih)
      = R200 (expected (icls i) k ih) (ctype k).
Proof. exact rendered_then_served. Qed.
Print Assumptions rendered_instance_is_served.

(* An atomic render never fails for want of a cache entry ("Could not find JS for component"), whatever was
   evicted before it: it re-caches first.  (clean = no </script / </style in the code, which is refused - C13.) *)
Theorem atomic_render_never_fails :
  forall tbl pre m insts,
    wf_table tbl -> clean tbl -> Forall (wf_op tbl) pre -> Forall (wf_inst tbl) insts ->
    exists js css, snd (step tbl (final tbl [] pre) (ORender m insts)) = OutUrls js css.
Proof. exact atomic_render_never_fails_lemma. Qed.
Print Assumptions atomic_render_never_fails.

(* URL format and routes are inverse on everything the library can produce: the announced URL of
   (hash, kind, input hash) is routed back to exactly that triple (the 3-segment route does not capture
   2-segment URLs and vice versa). *)
Theorem route_format_roundtrip :
  forall h k ih, seg_ok h -> opt_ok ih -> route (url h k ih) = Some (h, kstr k, ih).
Proof. exact route_url. Qed.
Print Assumptions route_format_roundtrip.

(* Cache keys are injective: two (hash, kind, input hash) triples with colon-free hash and kind share a key only
   if they are the same triple (input hashes None and "" are the same key by construction). *)
Theorem cache_keys_injective :
  forall h1 h2 k1 k2 ih1 ih2,
    ~ In colon h1 -> ~ In colon h2 -> ~ In colon k1 -> ~ In colon k2 ->
    gen_cache_key h1 k1 ih1 = gen_cache_key h2 k2 ih2 ->
    h1 = h2 /\ k1 = k2 /\ norm_ih ih1 = norm_ih ih2.
Proof. exact key_inj. Qed.
Print Assumptions cache_keys_injective.

(* Never another component's code: for every history, method and path, a 200 answer is a GET whose path names a
   class of the table and one of its kinds, and the body is that class's own code of that kind. *)
Theorem never_other_components_code :
  forall tbl hist meth path body ct,
    wf_table tbl -> Forall (wf_op tbl) hist ->
    serve tbl (final tbl [] hist) meth path = R200 body ct ->
    meth = GET /\
    exists c k ih, In c tbl /\ route path = Some (chash c, kstr k, ih) /\
                   nonempty_code (code c k) = true /\ body = expected c k ih /\ ct = ctype k.
Proof. exact served_code_is_own_lemma. Qed.
Print Assumptions never_other_components_code.

(* Every answer of the endpoint, for every history, method and path, is 404, or 405 (exactly for non-GET on a
   routed path), or 200 with the named component's own code - never a server error. *)
Theorem response_classification :
  forall tbl hist meth path,
    wf_table tbl -> Forall (wf_op tbl) hist ->
    let r := serve tbl (final tbl [] hist) meth path in
    r = R404 \/ (r = R405 /\ meth <> GET /\ route path <> None) \/
    (meth = GET /\ exists c k ih, In c tbl /\ route path = Some (chash c, kstr k, ih) /\
                    nonempty_code (code c k) = true /\ r = R200 (expected c k ih) (ctype k)).
Proof. exact response_classification_lemma. Qed.
Print Assumptions response_classification.

Theorem never_server_error : forall tbl ch meth path, serve tbl ch meth path <> R500.
Proof. exact never_500_lemma. Qed.
Print Assumptions never_server_error.

(* The refusals of the statement, each for every cache state. *)
Theorem non_get_is_405 :
  forall tbl ch meth path r, route path = Some r -> meth <> GET -> serve tbl ch meth path = R405.
Proof. exact non_get_405_lemma. Qed.
Print Assumptions non_get_is_405.

Theorem unknown_is_404 :
  forall tbl ch path,
    (route path = None -> forall meth, serve tbl ch meth path = R404) /\
    (forall h k ih, route path = Some (h, k, ih) ->
       (find_cls tbl h = None -> serve tbl ch GET path = R404) /\
       (content_type k = None -> serve tbl ch GET path = R404) /\
       (forall c, find_cls tbl h = Some c -> cget (gen_cache_key (chash c) k ih) ch = None ->
                  serve tbl ch GET path = R404)).
Proof.
  intros tbl ch path. split.
  - intros H meth. apply unrouted_404_lemma. exact H.
  - intros h k ih H. split; [|split].
    + apply unknown_hash_404_lemma with (k := k) (ih := ih). exact H.
    + apply unknown_kind_404_lemma with (h := h) (ih := ih). exact H.
    + intros c. apply absent_404_lemma with (h := h). exact H.
Qed.
Print Assumptions unknown_is_404.

(* ---------------- non-vacuity ---------------- *)
Import Coq.Strings.String.StringSyntax.
Local Open Scope string_scope.
Definition ex_a : cdef := {| chash := s2n "Alpha_0a1b2c"; cjs := Some (s2n " a() "); ccss := Some (s2n ".a{}") |}.
Definition ex_b : cdef := {| chash := s2n "Beta_ffffff"; cjs := Some (s2n "b()"); ccss := None |}.
Definition ex_tbl := [ex_a; ex_b].
Definition ex_pre : list op :=
  [ORender Document [(ex_a, None, None)]; OClear; OBody [(ex_b, None, None)];
   OEvict (gen_cache_key (chash ex_b) (kstr KJs) None)].
Definition ex_insts : list (cdef * option str * option str) :=
  [(ex_b, None, None); (ex_a, Some (s2n "2526bc"), None)].

Example hypotheses_satisfiable :
  wf_table ex_tbl /\ clean ex_tbl /\ Forall (wf_op ex_tbl) ex_pre /\ Forall (wf_inst ex_tbl) ex_insts.
Proof.
  assert (Hseg : forall s, s = s2n "Alpha_0a1b2c" \/ s = s2n "Beta_ffffff" \/ s = s2n "2526bc" -> seg_ok s).
  { intros s [H|[H|H]]; subst s; (split; [discriminate|]); cbv; intuition discriminate. }
  assert (Hi1 : wf_inst ex_tbl (ex_a, None, None)) by (cbv; tauto).
  assert (Hi2 : wf_inst ex_tbl (ex_b, None, None)) by (cbv; tauto).
  assert (Hi3 : wf_inst ex_tbl (ex_a, Some (s2n "2526bc"), None)).
  { split; [cbv; tauto|]. split; [apply Hseg; tauto | exact I]. }
  split; [|split; [|split]].
  - split.
    + repeat constructor; cbv; intuition discriminate.
    + repeat constructor; apply Hseg; tauto.
  - intros c k [<-|[<-|[]]]; destruct k; reflexivity.
  - unfold ex_pre.
    apply Forall_cons; [simpl; repeat (constructor; try assumption)|].
    apply Forall_cons; [exact I|].
    apply Forall_cons; [simpl; repeat (constructor; try assumption)|].
    apply Forall_cons; [exact I|]. apply Forall_nil.
  - unfold ex_insts. repeat (constructor; try assumption).
Qed.

(* the render after that history announces four URLs, all served; after evicting Beta's entry Alpha's are still
   served and Beta's answers 404 *)
Example announces_and_serves :
  let st := final ex_tbl [] ex_pre in
  snd (step ex_tbl st (ORender Fragment ex_insts))
    = OutUrls [url (chash ex_b) KJs None; url (chash ex_a) KJs None; url (chash ex_a) KJs (Some (s2n "2526bc"))]
              [url (chash ex_a) KCss None] /\
  let mid := [OEvict (gen_cache_key (chash ex_b) (kstr KJs) None); OGet GET (s2n "/x")] in
  no_evict (gen_cache_key (chash ex_a) (kstr KJs) None) mid /\
  serve ex_tbl (final ex_tbl [] (ex_pre ++ ORender Fragment ex_insts :: mid)) GET (url (chash ex_a) KJs None)
    = R200 (s2n "a()") (ctype KJs) /\
  serve ex_tbl (final ex_tbl [] (ex_pre ++ ORender Fragment ex_insts :: mid)) GET (url (chash ex_b) KJs None) = R404.
Proof. vm_compute. repeat split. Qed.

(* The assumption "class hashes are distinct" (wf_table; = component classes have distinct import paths) is necessary:
   with only "hashes are URL segments" the main theorem is false - two classes with the same module and name share
   one cache entry, and the URL announced for the second is answered 200 with the code of the first
   (Serve/Proofs.v `same_hash_served_first_code`).  Stated in evidence.assumptions; the generator uses distinct paths. *)
Example emitted_url_served_without_distinct_hashes_refuted :
  ~ (forall tbl pre m insts js css,
       Forall (fun c => seg_ok (chash c)) tbl -> Forall (wf_op tbl) pre -> Forall (wf_inst tbl) insts ->
       snd (step tbl (final tbl [] pre) (ORender m insts)) = OutUrls js css ->
       forall u, In u (js ++ css) ->
       exists i k ih,
         In i insts /\ produced i k ih /\ u = url (chash (icls i)) k ih /\
         forall mid, no_evict (gen_cache_key (chash (icls i)) (kstr k) ih) mid ->
           serve tbl (final tbl [] (pre ++ ORender m insts :: mid)) GET u
             = R200 (expected (icls i) k ih) (ctype k)).
Proof. exact emitted_url_served_without_distinct_hashes_refuted_lemma. Qed.

(* Boundary of the statement (documentation, not a claim about the property): markers rendered BEFORE an eviction
   and processed in fragment mode AFTER it (render_dependencies=False ... later render_dependencies(type="fragment"))
   are announced without looking at the cache, so such a URL answers 404 until the component is rendered again.
   The eviction here follows the component's own render; the atomic render of [emitted_url_served] re-caches. *)
Example stale_markers_in_fragment_mode_are_announced_unserved :
  let hist := [OBody [(ex_b, None, None)]; OClear] in
  snd (step ex_tbl (final ex_tbl [] hist) (ODeps Fragment [(ex_b, None, None)]))
    = OutUrls [url (chash ex_b) KJs None] [] /\
  serve ex_tbl (final ex_tbl [] hist) GET (url (chash ex_b) KJs None) = R404 /\
  snd (step ex_tbl (final ex_tbl [] hist) (ODeps Document [(ex_b, None, None)])) = OutErr EMissing.
Proof. vm_compute. repeat split. Qed.
