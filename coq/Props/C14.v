(* Property C14 - root elements of a component instance, and only they, carry its render id.
   Only statements here; proofs live in PostRender/Proofs.v.  Model: PostRender/Model.v.

   Vocabulary: `item` = instance tree (IComp id fragment, child instances standing where their placeholders
   are); `page_render` / `post_render` = the deferred-render queue of component_post_render with its two
   process-global tables; `inline` / `inlT` = recursive inlining (tokens / tree); `outputs c A its` = the
   output(s) of the instance(s) with id c; `carrying c doc` = number of elements of doc with attribute
   data-djc-id-c; `top_elems out` = number of top-level elements of out. *)
From DJC Require Import Lib.Base PostRender.Model PostRender.Proofs PostRender.Placeholder.
From DJC Require Gen.C14.
Import Coq.Strings.String.StringSyntax.
Local Delimit Scope string_scope with string.

(* The queue computes the inlining: for EVERY instance forest with pairwise distinct ids - any shape, any
   nesting depth, any number of root elements, components as roots - rendering the page from clean tables
   never fails (no RuntimeError "Parent ID is None", no KeyError on the renderer cache), terminates within
   the 2-steps-per-instance fuel that page_render hands to each root run, returns exactly the inlined
   document (children in place, in order - the composition C01 relies on), and leaves both global tables empty. *)
Theorem post_render_is_inlining : forall its,
  NoDup (ids its) -> page_render ([], []) its = Done (inline [] its, ([], [])).
Proof. exact post_render_is_inlining_lemma. Qed.
Print Assumptions post_render_is_inlining.

(* One root run, started with ARBITRARY contents of the process-global tables (left-overs of other renders):
   exactly 2 loop iterations per instance suffice (linear, no recursion: `run` is a loop over a worklist),
   the result is the inlining, and the tables come back with precisely this render's ids deleted and every
   other entry untouched.  Only requirement on the tables: no stale attribute entry for the root id itself. *)
Theorem root_run_linear_and_clean : forall tb c body,
  NoDup (c :: ids body) -> alookup c (snd tb) = None ->
  exists tb', post_render (2 * ninst [IComp c body]) tb c body = Done (inline [] [IComp c body], tb') /\
              same_out (c :: ids body) (fst tb) (fst tb') /\ same_out (c :: ids body) (snd tb) (snd tb').
Proof. exact root_run_lemma. Qed.
Print Assumptions root_run_linear_and_clean.

(* The token stream is the serialisation of the tree the next theorems talk about. *)
Theorem inline_is_tree : forall A its, toks (inlT A its) = inline A its.
Proof. exact inline_is_tree_lemma. Qed.
Print Assumptions inline_is_tree.

(* Roots and only roots: for every instance c of a page with distinct ids, c has exactly one output `out`;
   every top-level element of `out` carries c (and all ids B inherited from the instances whose root c is);
   and the number of elements of the WHOLE page that carry c equals the number of top-level elements of
   `out` - so no nested element of c's output and no element outside it carries c. *)
Theorem roots_and_only_roots_marked : forall its c,
  NoDup (ids its) -> In c (ids its) ->
  exists B out, outputs c [] its = [out] /\ Forall (root_ok (B ++ [c])) out /\
                carrying c (inlT [] its) = top_elems out.
Proof. exact roots_and_only_roots_lemma. Qed.
Print Assumptions roots_and_only_roots_marked.

(* No element carries an id that is not the id of an instance of the page. *)
Theorem foreign_id_absent : forall its c, ~ In c (ids its) -> carrying c (inlT [] its) = O.
Proof. exact foreign_id_absent_lemma. Qed.
Print Assumptions foreign_id_absent.

(* Component-as-root chains of any length: an element written in the innermost template is emitted with
   exactly the inherited ids followed by the ids of the whole chain, outermost first. *)
Theorem shared_roots_carry_all_ids : forall A c cs body t kids,
  In (IElem t kids) body ->
  In (HElem t (A ++ c :: cs) (inlT [] kids)) (inlT_item A (chain_item c cs body)).
Proof. exact shared_roots_lemma. Qed.
Print Assumptions shared_roots_carry_all_ids.

(* Ids are pairwise distinct across all instances of a page - for every program (loops, slots, fills, dynamic
   components, any library), given the counter supply.  (The real supply is 6 random characters out of 62;
   its injectivity is an assumption of the check, not a theorem.) *)
Theorem ids_distinct : forall fuel p its n, expand_page fuel p = XOk its n -> NoDup (ids its).
Proof. exact ids_distinct_lemma. Qed.
Print Assumptions ids_distinct.

(* End to end, for every program that expands: what the queue returns is the document in which every
   instance's id sits on the top-level elements of its output and nowhere else. *)
Theorem every_program_marks_roots_only : forall fuel p its n,
  expand_page fuel p = XOk its n ->
  page_render ([], []) its = Done (toks (inlT [] its), ([], [])) /\
  forall c, In c (ids its) ->
    exists B out, outputs c [] its = [out] /\ Forall (root_ok (B ++ [c])) out /\
                  carrying c (inlT [] its) = top_elems out.
Proof. exact program_lemma. Qed.
Print Assumptions every_program_marks_roots_only.

(* String level (constants regenerated from /repo): for EVERY id the supply can produce (alphabet and length of
   gen_id) and every list of marker attributes the parent may have put on it, the placeholder text a nested
   component returns is recognised by nested_comp_pattern and render_id_pattern reads back exactly that id -
   so no placeholder is skipped or attributed to another instance, whatever follows it. *)
Theorem placeholder_found_with_its_id : forall id attrs tail,
  length id = Gen.C14.id_size ->
  Forall (fun c => In c Gen.C14.id_alphabet) id ->
  Forall (Forall (fun c => In c Gen.C14.id_alphabet)) attrs ->
  match_placeholder_at (tagged_placeholder id attrs ++ tail) = Some (id, tail).
Proof. exact placeholder_roundtrip_lemma. Qed.
Print Assumptions placeholder_found_with_its_id.

(* ---------- non-vacuity ---------- *)
Example ex_placeholder :
  tagged_placeholder (s2n "a1B2c3"%string) [s2n "Zz0Zz0"%string]
  = s2n "<template djc-render-id=""a1B2c3"" data-djc-id-Zz0Zz0=""""></template>"%string
  /\ match_placeholder_at (tagged_placeholder (s2n "a1B2c3"%string) [s2n "Zz0Zz0"%string] ++ s2n "<p>"%string)
     = Some (s2n "a1B2c3"%string, s2n "<p>"%string).
Proof. vm_compute. split; reflexivity. Qed.
(* the length hypothesis matters: a 5-character id is not found (its placeholder would survive in the output) *)
Example ex_short_id_not_found : match_placeholder_at (tagged_placeholder (s2n "a0001"%string) []) = None.
Proof. vm_compute. reflexivity. Qed.

(* library: 1 = <div>{slot}</div> text {comp 2}   2 = <span/><p>{dynamic comp 3}</p>   3 = text-only
   page: <section>{% for 2 times %}{comp 1}{comp 2 /}{/comp}{% endfor %}</section> *)
Definition ex_prog : prog :=
  {| lib := [(1%N, [TElem 1%N [TSlot [TText]]; TText; TComp 2%N false []]);
             (2%N, [TElem 2%N []; TElem 4%N [TComp 3%N true []]]);
             (3%N, [TText])];
     page := [TElem 3%N [TRep 2 [TComp 1%N false [TComp 2%N false []]]]] |}.

Example ex_expands : exists its, expand_page 20 ex_prog = XOk its 14%N /\ ninst its = 14%nat.
Proof. eexists. vm_compute. split; reflexivity. Qed.

(* instance 4 (component 2 as the last root of instance 0 = component 1): its two root elements carry 0 and 4,
   the <p> below carries neither; two elements of the page carry id 4 *)
Example ex_shared_root :
  match expand_page 20 ex_prog with
  | XOk its _ =>
      outputs 4%N [] its = [[HElem 2%N [0%N; 4%N] []; HElem 4%N [0%N; 4%N] [HText]]]
      /\ carrying 4%N (inlT [] its) = 2%nat /\ carrying 0%N (inlT [] its) = 3%nat
  | _ => False
  end.
Proof. vm_compute. repeat split. Qed.

(* the hypotheses of root_run_linear_and_clean are satisfiable with dirty tables, and the stale entries survive *)
Example ex_dirty_tables :
  post_render 4 ([(7%N, [IText])], [(8%N, [9%N])]) 1%N [IElem 1%N [IComp 2%N [IElem 2%N []]]]
  = Done ([Open 1%N [1%N]; Open 2%N [2%N]; Close 2%N; Close 1%N], ([(7%N, [IText])], [(8%N, [9%N])])).
Proof. vm_compute. reflexivity. Qed.

(* a chain of three: the element carries all three ids *)
Example ex_chain :
  inlT_item [] (chain_item 1%N [2%N; 3%N] [IElem 5%N []; IText]) = [HElem 5%N [1%N; 2%N; 3%N] []; HText].
Proof. vm_compute. reflexivity. Qed.

(* fuel is tight: one iteration fewer does not finish *)
Example ex_fuel_tight :
  post_render 3 ([], []) 1%N [IElem 1%N [IComp 2%N [IElem 2%N []]]] = OutOfFuel.
Proof. vm_compute. reflexivity. Qed.
