(* Property C14 - root elements of a component instance, and only they, carry its render id.
   Only statements here; proofs live in PostRender/Proofs.v.  Model: PostRender/Model.v.

   Vocabulary: `item` = instance tree (IComp id fragment, child instances standing where their placeholders
   are); `page_render` / `post_render` = the deferred-render queue of component_post_render with its two
   process-global tables (`IRoot` = an instance rendered by a re-entrant root run on the same tables; `fresh I tb` =
   the tables mention no id of I; `teq t t'` = every key looks up the same in t and t'); `inline` / `inlT` = recursive inlining (tokens / tree); `outputs c A its` = the
   output(s) of the instance(s) with id c; `carrying c doc` = number of elements of doc with attribute
   data-djc-id-c; `top_elems out` = number of top-level elements of out. *)
From DJC Require Import Lib.Base PostRender.Model PostRender.Proofs PostRender.Placeholder PostRender.Ident.
From DJC Require Gen.C14.
Import Coq.Strings.String.StringSyntax.
Local Delimit Scope string_scope with string.

(* The queue computes the inlining: for EVERY instance forest with pairwise distinct ids - any shape, any
   nesting depth, any number of root elements, components as roots, re-entrant root runs (IRoot) anywhere inside
   deferred instances and inside each other - rendering the page from clean tables
   never fails (no RuntimeError "Parent ID is None", no KeyError on the renderer cache), terminates within
   the 2-steps-per-instance fuel that page_render hands to each root run, returns exactly the inlined
   document (children in place, in order - the composition C01 relies on), and leaves both global tables empty. *)
Theorem post_render_is_inlining : forall its,
  NoDup (ids its) -> page_render ([], []) its = Done (inline [] its, ([], [])).
Proof. exact post_render_is_inlining_lemma. Qed.
Print Assumptions post_render_is_inlining.

(* One root run - the outermost one or one that starts RE-ENTRANTLY while another run's queue is being processed
   (a component rendered with a context that carries no parent component) - started with ARBITRARY contents of the
   two process-global tables, provided they mention none of this run's own (fresh) ids: renderers registered by
   the interrupted run, attribute entries waiting for the interrupted run's later placeholders, left-overs of other
   renders.  Any fuel >= 2 iterations per instance suffices (linear, no recursion: `run` is a loop over a worklist;
   re-entrant runs inside it draw on the same budget), the result is the inlining, and BOTH TABLES COME BACK AS THEY
   WERE FOUND: every key - in particular every entry of the interrupted run - looks up exactly what it did before. *)
Theorem root_run_linear_and_clean : forall F tb c body,
  NoDup (c :: ids body) -> fresh (c :: ids body) tb -> (2 * ninst [IRoot c body] <= F)%nat ->
  exists tb', post_render F tb c body = Done (inline [] [IRoot c body], tb') /\
              teq (fst tb) (fst tb') /\ teq (snd tb) (snd tb').
Proof. exact root_run_lemma. Qed.
Print Assumptions root_run_linear_and_clean.

(* The token stream is the serialisation of the tree the next theorems talk about. *)
Theorem inline_is_tree : forall A its, toks (inlT A its) = inline A its.
Proof. exact inline_is_tree_lemma. Qed.
Print Assumptions inline_is_tree.

(* Roots and only roots: for every instance c of a page with distinct ids, c has exactly one output `out`;
   every top-level element of `out` carries c (and all ids B inherited from the instances whose root c is);
   and the number of elements of the WHOLE page that carry c equals the number of top-level elements of
   `out` - so no nested element of c's output and no element outside it carries c. *)
Theorem roots_and_only_roots_marked : forall its c,
  NoDup (ids its) -> In c (ids its) ->
  exists B out, outputs c [] its = [out] /\ Forall (root_ok (B ++ [c])) out /\
                carrying c (inlT [] its) = top_elems out.
Proof. exact roots_and_only_roots_lemma. Qed.
Print Assumptions roots_and_only_roots_marked.

(* No element carries an id that is not the id of an instance of the page. *)
Theorem foreign_id_absent : forall its c, ~ In c (ids its) -> carrying c (inlT [] its) = O.
Proof. exact foreign_id_absent_lemma. Qed.
Print Assumptions foreign_id_absent.

(* Component-as-root chains of any length: an element written in the innermost template is emitted with
   exactly the inherited ids followed by the ids of the whole chain, outermost first. *)
Theorem shared_roots_carry_all_ids : forall A c cs body t kids,
  In (IElem t kids) body ->
  In (HElem t (A ++ c :: cs) (inlT [] kids)) (inlT_item A (chain_item c cs body)).
Proof. exact shared_roots_lemma. Qed.
Print Assumptions shared_roots_carry_all_ids.

(* Ids are pairwise distinct across all instances of a page - for every program (loops, slots, fills, dynamic
   components, any library), given the counter supply.  (The real supply is 6 random characters out of 62;
   its injectivity is an assumption of the check, not a theorem.) *)
Theorem ids_distinct : forall fuel p its n, expand_page fuel p = XOk its n -> NoDup (ids its).
Proof. exact ids_distinct_lemma. Qed.
Print Assumptions ids_distinct.

(* End to end, for every program that expands: what the queue returns is the document in which every
   instance's id sits on the top-level elements of its output and nowhere else. *)
Theorem every_program_marks_roots_only : forall fuel p its n,
  expand_page fuel p = XOk its n ->
  page_render ([], []) its = Done (toks (inlT [] its), ([], [])) /\
  forall c, In c (ids its) ->
    exists B out, outputs c [] its = [out] /\ Forall (root_ok (B ++ [c])) out /\
                  carrying c (inlT [] its) = top_elems out.
Proof. exact program_lemma. Qed.
Print Assumptions every_program_marks_roots_only.

(* String level (constants regenerated from /repo): for EVERY id the supply can produce (alphabet and length of
   gen_id) and every list of marker attributes the parent may have put on it, the placeholder text a nested
   component returns is recognised by nested_comp_pattern and render_id_pattern reads back exactly that id -
   so no placeholder is skipped or attributed to another instance, whatever follows it. *)
Theorem placeholder_found_with_its_id : forall id attrs tail,
  length id = Gen.C14.id_size ->
  Forall (fun c => In c Gen.C14.id_alphabet) id ->
  Forall (Forall (fun c => In c Gen.C14.id_alphabet)) attrs ->
  match_placeholder_at (tagged_placeholder id attrs ++ tail) = Some (id, tail).
Proof. exact placeholder_roundtrip_lemma. Qed.
Print Assumptions placeholder_found_with_its_id.

(* ---------- the id that Component.id reports (PostRender/Ident.v) ----------
   `page_events early obj its` = the order in which the implementation allocates render ids (gen_id in _render_impl),
   pushes / pops the metadata stack of the Component object `obj c` that renders instance c, and lets user code read
   self.id (end of get_context_data, on_render_before, end of the template, on_render_after) - the order of the
   deferred-render queue; `early c`: c is rendered from inside get_context_data of the enclosing instance; objects may
   be shared (self.render()).  `exec rho T S` runs the stacks (deque append / pop / [-1]) and returns what every read of
   Component.id returned.  `rid sup T c` = the supply's value at the position of c's allocation = the render_id the
   marker attribute of c is built from.  `rename rho its` = the instance tree carrying those ids. *)

(* (a) For EVERY instance tree, every assignment of instances to Component objects (fresh objects, the same object
   re-entered from its own hooks to any depth, even objects shared arbitrarily) and every set of renders made from
   inside get_context_data: no read fails, all stacks are empty afterwards, EVERY read of Component.id - in whatever
   hook, before or after nested renders on the same object returned - yields the id allocated for that render, every
   instance reads it at least once, and the rendered page is the document in which exactly that id marks the
   top-level elements of the instance's output and no other element. *)
Theorem component_id_is_marker_id : forall early obj sup its,
  (forall i j, sup i = sup j -> i = j) -> NoDup (ids its) ->
  let T := page_events early obj its in
  let rho := rid sup T in
  exists S R,
    exec rho T [] = Some (S, R) /\ (forall o, aget [] o S = []) /\
    (forall h c v, In (h, c, v) R -> v = rho c) /\
    (forall c, In c (ids its) -> In (HGcd, c, rho c) R) /\
    page_render ([], []) (rename rho its) = Done (inline [] (rename rho its), ([], [])) /\
    (forall c, In c (ids its) ->
       exists B out, outputs (rho c) [] (rename rho its) = [out] /\ Forall (root_ok (B ++ [rho c])) out /\
                     carrying (rho c) (inlT [] (rename rho its)) = top_elems out).
Proof. exact component_id_lemma. Qed.
Print Assumptions component_id_is_marker_id.

(* (b) Distinct instances get distinct render ids - for every tree and every order of allocation - PROVIDED the id
   supply never repeats (hypothesis `sup` injective: the distinct-ids assumption about gen_id, shared with C07; its
   checked premise is Example id_supply_anchor). *)
Theorem allocated_ids_distinct : forall early obj sup its,
  (forall i j, sup i = sup j -> i = j) -> NoDup (ids its) ->
  let rho := rid sup (page_events early obj its) in
  (forall c c', In c (ids its) -> In c' (ids its) -> rho c = rho c' -> c = c') /\ NoDup (ids (rename rho its)).
Proof. exact rid_distinct_lemma. Qed.
Print Assumptions allocated_ids_distinct.

(* (c) shared roots over the id-carrying instances: a chain of components-as-roots puts the allocated ids of the
   whole chain (after the inherited ones) on the elements of the innermost template. *)
Theorem shared_roots_carry_allocated_ids : forall f A c cs body t kids,
  In (IElem t kids) body ->
  In (HElem t (A ++ map f (c :: cs)) (inlT [] (rename f kids))) (inlT_item A (rename_item f (chain_item c cs body))).
Proof. exact shared_roots_ids_lemma. Qed.
Print Assumptions shared_roots_carry_allocated_ids.

(* ---------- non-vacuity ---------- *)
Example ex_placeholder :
  tagged_placeholder (s2n "a1B2c3"%string) [s2n "Zz0Zz0"%string]
  = s2n "<template djc-render-id=""a1B2c3"" data-djc-id-Zz0Zz0=""""></template>"%string
  /\ match_placeholder_at (tagged_placeholder (s2n "a1B2c3"%string) [s2n "Zz0Zz0"%string] ++ s2n "<p>"%string)
     = Some (s2n "a1B2c3"%string, s2n "<p>"%string).
Proof. vm_compute. split; reflexivity. Qed.
(* the length hypothesis matters: a 5-character id is not found (its placeholder would survive in the output) *)
Example ex_short_id_not_found : match_placeholder_at (tagged_placeholder (s2n "a0001"%string) []) = None.
Proof. vm_compute. reflexivity. Qed.

(* library: 1 = <div>{slot 0}</div> text {comp 2}   2 = <span/><p>{dynamic comp 3}</p>   3 = text-only
   page: <section>{% for 2 times %}{comp 1}{fill 0}{comp 2 /}{endfill}{/comp}{% endfor %}</section> *)
Definition ex_prog (isolated : bool) : prog :=
  {| lib := [(1%N, [TElem 1%N [TSlot 0%N [TText]]; TText; TComp 2%N false []]);
             (2%N, [TElem 2%N []; TElem 4%N [TComp 3%N true []]]);
             (3%N, [TText])];
     page := [TElem 3%N [TRep 2 [TComp 1%N false [(0%N, [TComp 2%N false []])]]]];
     iso := isolated |}.

Example ex_expands : exists its, expand_page 20 (ex_prog false) = XOk its 14%N /\ ninst its = 14%nat /\ nreent its = 0%nat.
Proof. eexists. vm_compute. repeat split; reflexivity. Qed.
(* the same page in "isolated" mode: the component in the page-level fill is rendered without a parent - a
   re-entrant root run inside the render of instance 0 / 7 *)
Example ex_expands_isolated : exists its, expand_page 20 (ex_prog true) = XOk its 14%N /\ ninst its = 14%nat /\ nreent its = 2%nat.
Proof. eexists. vm_compute. repeat split; reflexivity. Qed.

(* instance 4 (component 2 as the last root of instance 0 = component 1): its two root elements carry 0 and 4,
   the <p> below carries neither; two elements of the page carry id 4 *)
Example ex_shared_root :
  match expand_page 20 (ex_prog false) with
  | XOk its _ =>
      outputs 4%N [] its = [[HElem 2%N [0%N; 4%N] []; HElem 4%N [0%N; 4%N] [HText]]]
      /\ carrying 4%N (inlT [] its) = 2%nat /\ carrying 0%N (inlT [] its) = 3%nat
  | _ => False
  end.
Proof. vm_compute. repeat split. Qed.

(* the hypotheses of root_run_linear_and_clean are satisfiable with dirty tables, and the foreign entries survive *)
Example ex_dirty_tables :
  fresh [1%N; 2%N] ([(7%N, [IText])], [(8%N, [9%N])]) /\
  post_render 4 ([(7%N, [IText])], [(8%N, [9%N])]) 1%N [IElem 1%N [IComp 2%N [IElem 2%N []]]]
  = Done ([Open 1%N [1%N]; Open 2%N [2%N]; Close 2%N; Close 1%N], ([(7%N, [IText])], [(8%N, [9%N])])).
Proof. split; [intros k [<-|[<-|[]]]; split; reflexivity | vm_compute; reflexivity]. Qed.

(* the layout pattern: instance 1 = [ panel 2 = <section>{leaf 3 rendered by a RE-ENTRANT root run}</section> ; footer 4 ].
   While run 3 starts and ends, the attribute entry (4 -> [1]) of the interrupted run is waiting in child_component_attrs;
   it is still there afterwards: the footer's element carries both ids *)
Example ex_reentrant_pending :
  page_render ([], []) [IComp 1%N [IComp 2%N [IElem 3%N [IRoot 3%N [IElem 2%N []]]]; IComp 4%N [IElem 5%N []]]]
  = Done ([Open 3%N [1%N; 2%N]; Open 2%N [3%N]; Close 2%N; Close 3%N; Open 5%N [1%N; 4%N]; Close 5%N], ([], [])).
Proof. vm_compute. reflexivity. Qed.
(* ... and a root run nested at the top level of a deferred instance hands the enclosing ids to its elements *)
Example ex_reentrant_root_level :
  page_render ([], []) [IComp 1%N [IComp 2%N [IRoot 3%N [IElem 2%N []]]; IComp 4%N [IElem 5%N []]]]
  = Done ([Open 2%N [1%N; 2%N; 3%N]; Close 2%N; Open 5%N [1%N; 4%N]; Close 5%N], ([], [])).
Proof. vm_compute. reflexivity. Qed.

(* a chain of three: the element carries all three ids *)
Example ex_chain :
  inlT_item [] (chain_item 1%N [2%N; 3%N] [IElem 5%N []; IText]) = [HElem 5%N [1%N; 2%N; 3%N] []; HText].
Proof. vm_compute. reflexivity. Qed.

(* fuel is tight: one iteration fewer does not finish *)
Example ex_fuel_tight :
  post_render 3 ([], []) 1%N [IElem 1%N [IComp 2%N [IElem 2%N []]]] = OutOfFuel.
Proof. vm_compute. reflexivity. Qed.

(* a tree component: instance 1 renders instance 2 by self.render() inside its own get_context_data (same object 1, early),
   then the deferred child 3; supply = 10, 11, 12, ...  Allocation order 1, 2, 3; while 2 renders, object 1's stack
   holds [10; 11]; every read returns the own id, also the read of instance 1 AFTER the nested render returned *)
Example ex_component_id :
  let early := fun c => N.eqb c 2%N in
  let obj := fun c => if N.eqb c 2%N then 1%N else c in
  let its := [IComp 1%N [IElem 1%N [IRoot 2%N [IElem 2%N []]]; IComp 3%N [IElem 3%N []]]] in
  let T := page_events early obj its in
  let rho := rid (fun k => N.of_nat (10 + k)) T in
  allocs T = [1%N; 2%N; 3%N]
  /\ exec rho T [] = Some ([(1%N, []); (3%N, [])],
       [(HGcd, 2%N, 11%N); (HBefore, 2%N, 11%N); (HTemplate, 2%N, 11%N); (HAfter, 2%N, 11%N); (HGcd, 1%N, 10%N);
        (HBefore, 1%N, 10%N); (HGcd, 3%N, 12%N); (HTemplate, 1%N, 10%N); (HBefore, 3%N, 12%N); (HTemplate, 3%N, 12%N);
        (HAfter, 3%N, 12%N); (HAfter, 1%N, 10%N)])
  /\ inline [] (rename rho its) = [Open 1%N [10%N]; Open 2%N [11%N]; Close 2%N; Close 1%N; Open 3%N [10%N; 12%N]; Close 3%N].
Proof. vm_compute. repeat split. Qed.
(* the stack discipline matters: leaving with popleft() instead of pop() (seeded change C14b) is a different `exec` -
   with two entries on one stack the outer render would read the inner render's id afterwards *)
Example ex_stack_is_lifo : last (removelast ([10%N; 11%N])) 0%N = 10%N /\ last (tl [10%N; 11%N]) 0%N = 11%N.
Proof. split; reflexivity. Qed.
