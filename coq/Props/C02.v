(* Property C02 - tag arguments reach Python with exactly the values they denote.  Statements only. *)
From DJC Require Import Lib.Base TagParse.Model TagParse.Resolve.
Theorem placeholder_true : True. Proof. exact I. Qed.
Print Assumptions placeholder_true.
