(* Property C02 - tag arguments reach Python with exactly the values they denote.  Statements only.

   M-model (transliteration of the code): TagParse/Model.v (parse_tag) + TagParse/Resolve.v (TagValue.compile leaf
   text, TagValueStruct.resolve, parse_template_tag / _extract_flags / self-closing slash, resolve_params,
   process_aggregate_kwargs, special kwargs + binding of node.wrapper_render).
   S-model (specification): TagParse/Spec.v - the documented grammar `arglist`, the printer `print lay tag a` in
   which the layout `lay` chooses every insignificant white-space run / line break / trailing comma, and the
   denotation `denote`.  Leaf evaluation (Django FilterExpression / DynamicFilterExpression) is the abstract
   Section variable `eval_leaf` below; every theorem holds for every evaluator.
   Proofs: TagParse/ScanLemmas.v, ParseProofs.v, ResolveProofs.v, BindProofs.v. *)
From DJC Require Import Lib.Base TagParse.Model TagParse.Proofs TagParse.Resolve TagParse.Spec TagParse.ScanLemmas
     TagParse.ParseProofs TagParse.ResolveProofs TagParse.BindProofs TagParse.InvalidProofs Gen.C12.
Import Coq.Strings.String.StringSyntax.
Delimit Scope string_scope with string.

(* ---- anchors: the scanner constants the model was written for are those of the source ---- *)
Example c02_tag_whitespace_anchor : Gen.C12.tag_whitespace = WS. Proof. reflexivity. Qed.
Example c02_tag_filter_anchor : Gen.C12.tag_filter = FILTER. Proof. reflexivity. Qed.
Example c02_tag_spread_anchor : Gen.C12.tag_spread = SPREAD. Proof. reflexivity. Qed.
Example c02_max_nesting_depth_anchor : Gen.C12.max_nesting_depth = N.of_nat MAX_NESTING_DEPTH. Proof. reflexivity. Qed.

Section C02.
  Variable ctxT : Type.                                   (* render contexts *)
  Variable eval_leaf : str -> ctxT -> rres value.         (* canonical leaf text -> context -> value (Django) *)
  Variable keywords : list str.                           (* keyword.kwlist *)

  (* parse_print_denote - correctness and layout-invariance in one statement, FULL grammar (lists and dicts nested
     to the depth the parser accepts, spreads at every level, filters with arguments, translations, quoted strings
     with any content, special-character and aggregate keys, flags, self-closing slash): whatever the layout, the
     whole path  parse_tag -> flags / slash -> resolve -> aggregate -> bind  hands the receiver the denotation. *)
  Theorem parse_print_denote : forall (lay : layout) (tag : str) (allowed : list str) (a : arglist) (ctx : ctxT),
    arglist_ok tag allowed a = true ->
    run_tag keywords tag allowed (fun t => eval_leaf t ctx) (print lay tag a)
    = denote keywords (fun t => eval_leaf t ctx) a.
  Proof. intros lay tag allowed a ctx. exact (run_tag_print_denote keywords tag allowed (fun t => eval_leaf t ctx) lay a). Qed.

  (* two renderings of one argument list - any white space, line breaks, trailing commas - give the same result *)
  Theorem layout_invariant : forall (lay lay' : layout) (tag : str) (allowed : list str) (a : arglist) (ctx : ctxT),
    arglist_ok tag allowed a = true ->
    run_tag keywords tag allowed (fun t => eval_leaf t ctx) (print lay tag a)
    = run_tag keywords tag allowed (fun t => eval_leaf t ctx) (print lay' tag a).
  Proof. intros lay lay' tag allowed a ctx. exact (layout_invariance keywords tag allowed (fun t => eval_leaf t ctx) lay lay' a). Qed.

  (* the self-closing slash only sets the self-closing bit: args, kwargs and flags are those of the tag without it *)
  Theorem self_closing_slash_invariant : forall (lay lay' : layout) (tag : str) (allowed : list str) (items : list item) (ctx : ctxT),
    arglist_ok tag allowed (mkarglist items true) = true ->
    drop_closed (run_tag keywords tag allowed (fun t => eval_leaf t ctx) (print lay tag (mkarglist items true)))
    = drop_closed (run_tag keywords tag allowed (fun t => eval_leaf t ctx) (print lay' tag (mkarglist items false))).
  Proof. intros lay lay' tag allowed items ctx. exact (slash_invariance keywords tag allowed (fun t => eval_leaf t ctx) lay lay' items). Qed.

  (* quote style: given that the evaluator does not distinguish 'abc' from "abc" (body without quote / backslash; a fact
     about Django's FilterExpression, tested on every run by the harness, hypothesis here), the argument list written with
     the other quote style - in any layout - gives the same result *)
  Theorem quote_style_invariant : forall (lay lay' : layout) (tag : str) (allowed : list str) (a : arglist) (ctx : ctxT),
    (forall l, eval_leaf (canon_leaf (swap_leaf l)) ctx = eval_leaf (canon_leaf l) ctx) ->
    arglist_ok tag allowed a = true -> arglist_ok tag allowed (swap_quotes a) = true ->
    run_tag keywords tag allowed (fun t => eval_leaf t ctx) (print lay tag (swap_quotes a))
    = run_tag keywords tag allowed (fun t => eval_leaf t ctx) (print lay' tag a).
  Proof. intros lay lay' tag allowed a ctx. exact (quote_style_invariance keywords tag allowed (fun t => eval_leaf t ctx) lay lay' a). Qed.

  (* special_char_keys_passthrough (binding stage): positional values, then keyword parameters with pairwise distinct
     non-aggregate names of ANY characters: args = the positional values, kwargs = every name with exactly its
     value (identifier names first, then the others such as data-id / @click.stop / #x / class) *)
  Theorem special_char_keys_passthrough : forall (pos : list value) (kws : list (str * value)),
    forallb (fun kv : str * value => negb (is_aggregate_key (fst kv))) kws = true -> nodup_str (map fst kws) = true ->
    bind_params keywords (map posparam pos ++ map kwparam kws)
    = ROk (pos, map kwpair (filter (regular keywords) kws) ++ map kwpair (filter (special keywords) kws)).
  Proof. exact (keys_passthrough keywords). Qed.
End C02.
Print Assumptions parse_print_denote.
Print Assumptions layout_invariant.
Print Assumptions self_closing_slash_invariant.
Print Assumptions quote_style_invariant.
Print Assumptions special_char_keys_passthrough.

(* the AST level: parse_tag on the printed text returns the text itself as `normalized` and exactly the attributes of
   the argument list (tag name, arguments with their keys and the AST of their values, the slash) *)
Theorem parse_builds_the_ast : forall (allowed : list str) (lay : layout) (tag : str) (a : arglist),
  arglist_ok tag allowed a = true ->
  exists attrs, parse_tag (print lay tag a) = Ok (print lay tag a, attrs)
                /\ map kv attrs = (None, tok_node tag) :: map item_kv (items_with_slash a).
Proof. exact parse_tag_print. Qed.
Print Assumptions parse_builds_the_ast.

(* special_char_keys_passthrough (parser stage) is part of parse_builds_the_ast: the key of `k=v` is the string k
   itself for every k accepted by key_ok - e.g. the documented  # @ . - _  characters and the aggregate colon *)
Example special_keys_are_keys :
  forallb key_ok (map s2n ["data-id"; "@click.stop"; "#id"; "x.y"; "_p"; "v-on:click"; "attrs:class"; "hx-get"; "class"]%string) = true.
Proof. reflexivity. Qed.

(* leaf_text_canonical: the text handed to the evaluator for a leaf is the leaf written without any insignificant
   white space (none around | and :, none inside _( )), for every layout of the source - so "means what it means
   inside {{ }}" is Django's evaluator applied to the expression itself *)
Theorem leaf_text_canonical : forall (allowed : list str) (lay : layout) (tag : str) (l : leaf),
  arglist_ok tag allowed (mkarglist [IPos (SLeaf l)] false) = true ->
  exists n ta a parts,
    parse_tag (print lay tag (mkarglist [IPos (SLeaf l)] false)) = Ok (n, [ta; a])
    /\ a_value a = NStruct TSimple None [NVal parts] None
    /\ leaf_text parts = print_leaf canonical_layout l.
Proof. exact leaf_text_canonical_lemma. Qed.
Print Assumptions leaf_text_canonical.

(* resolving the AST of a value gives its denotation (Python list / dict / spread semantics), any nesting *)
Theorem resolve_is_denotation : forall (ev : str -> rres value) (sp : option spread) (v : sval),
  val_ok v = true -> sp_ok sp v -> resolve_node ev (top_ast sp v) = den_val ev v.
Proof. intros ev sp v. exact (resolve_top ev sp v). Qed.
Print Assumptions resolve_is_denotation.

(* aggregate_semantics *)
Theorem aggregate_semantics : forall ps : list (option str * value),
  process_aggregate_kwargs ps
  = if existsb (fun od => str_in (fst od) (plain_keys ps)) (agg_dicts ps) then RErr ETemplateSyntax
    else ROk (filter is_plain ps ++ map (fun od => (Some (fst od), VDict (snd od))) (agg_dicts ps)).
Proof. exact aggregate_result. Qed.
Print Assumptions aggregate_semantics.

Theorem aggregate_last_value_wins : forall (ps : list (option str * value)) (o i : str) (v : value),
  o <> [] -> existsb (N.eqb cCOLON) o = false ->
  agg_get o i (agg_dicts (ps ++ [(Some (o ++ cCOLON :: i), v)])) = Some v
  /\ forall o2 i2, str_eqb o2 o && str_eqb i2 i = false ->
       agg_get o2 i2 (agg_dicts (ps ++ [(Some (o ++ cCOLON :: i), v)])) = agg_get o2 i2 (agg_dicts ps).
Proof. exact aggregate_last_wins. Qed.
Print Assumptions aggregate_last_value_wins.

(* the pre-check _check_kwargs_for_agg_conflict can never raise (it compares whole keys of two disjoint kinds);
   the conflict "attrs=... together with attrs:x=..." is caught by the outer-key test of aggregate_semantics *)
Theorem agg_precheck_never_fires : forall ps : list (option str * value), agg_conflict ps [] [] = false.
Proof. exact agg_conflict_never. Qed.
Print Assumptions agg_precheck_never_fires.

(* invalid_spreads_rejected.  After ANY valid arguments in ANY layout, an argument (with or without `key=`) that opens
   lists and possibly a dict - each followed by any white space - and then carries a spread operator that is wrong
   for the innermost container is refused, WHATEVER FOLLOWS (b is only constrained by bad_spread, which looks at its
   first three characters):   `...` anywhere but at the top level, `...` after `key=`, `**` outside a dict, `*`
   outside a list.  Documented instances:  attr=[...val]  attr={...val}  attr=[**val]  attr={*val}  key=...attrs
   attr={...attrs: "value"} *)
Theorem invalid_spreads_rejected :
  forall (allowed : list str) (lay : layout) (tag : str) (items : list item) (w1 : str) (kopt : option str)
         (os : list str) (last : option str) (b : str),
  tok_ok tag = true -> forallb tok_ok allowed = true -> forallb (item_ok allowed) items = true ->
  forallb is_ws w1 = true -> w1 <> [] ->
  match kopt with Some k => key_ok k = true | None => True end ->
  length os + (if last then 1 else 0) <= 99 ->
  bad_spread (inner_ty os last) kopt b = true ->
  parse_tag (tag ++ print_items lay items ++ w1
             ++ match kopt with Some k => k ++ [61%N] | None => [] end ++ (opens_text os ++ last_text last) ++ b)
  = Err TemplateSyntaxError.
Proof. exact invalid_spread_rejected. Qed.
Print Assumptions invalid_spreads_rejected.

(* ... in the VALUE position of a dict:  attr={"key": ...val}  attr=[{k: *x *)
Theorem invalid_spread_in_dict_value_rejected :
  forall (allowed : list str) (lay : layout) (tag : str) (items : list item) (w1 : str) (kopt : option str)
         (os : list str) (klay : layout) (w w7 w8 : str) (kl : leaf) (b : str),
  tok_ok tag = true -> forallb tok_ok allowed = true -> forallb (item_ok allowed) items = true ->
  forallb is_ws w1 = true -> w1 <> [] ->
  match kopt with Some k => key_ok k = true | None => True end ->
  length os <= 98 -> leaf_ok kl = true -> no_args kl = true ->
  bad_spread TDict kopt b = true ->
  parse_tag (tag ++ print_items lay items ++ w1
             ++ match kopt with Some k => k ++ [61%N] | None => [] end ++ (opens_text os ++ dkey_text klay w w7 w8 kl) ++ b)
  = Err TemplateSyntaxError.
Proof. exact invalid_spread_in_dict_value. Qed.
Print Assumptions invalid_spread_in_dict_value_rejected.

(* ... inside a filter:  attr=val|...filter   val | *x *)
Theorem invalid_spread_in_filter_rejected :
  forall (allowed : list str) (lay : layout) (tag : str) (items : list item) (w1 : str) (kopt : option str)
         (t wa wb b : str),
  tok_ok tag = true -> forallb tok_ok allowed = true -> forallb (item_ok allowed) items = true ->
  forallb is_ws w1 = true -> w1 <> [] ->
  match kopt with Some k => key_ok k = true | None => True end ->
  tok_ok t = true -> forallb is_ws wa = true -> forallb is_ws wb = true -> spread_start b = true ->
  parse_tag (tag ++ print_items lay items ++ w1
             ++ match kopt with Some k => k ++ [61%N] | None => [] end ++ t ++ wa ++ 124%N :: wb ++ b)
  = Err TemplateSyntaxError.
Proof. exact invalid_spread_in_filter. Qed.
Print Assumptions invalid_spread_in_filter_rejected.

(* the step-level fact behind them: in ANY state of the container stack (any frames, any entries so far) a spread
   operator that is wrong for the innermost frame makes the next step fail *)
Theorem wrong_spread_step_fails : forall (key : option str) (c0 : cur) (T : frame) (below : list frame) (tot : option frame),
  bad_spread (f_ty T) key (rest (skip_ws c0)) = true -> stack_step key c0 T below tot = SErr TemplateSyntaxError.
Proof. exact stack_step_bad. Qed.
Print Assumptions wrong_spread_step_fails.

(* the documented examples are instances (premises satisfiable), and so are the remaining documented forms *)
Example invalid_documented_examples :
  forallb (fun s => match parse_tag (s2n s) with Err TemplateSyntaxError => true | _ => false end)
    ["c attr=[...val]"; "c attr={...val}"; "c attr=[**val]"; "c attr={*val}"; "c key=...attrs"; "c attr={...attrs: ""value""}";
     "c attr={""key"": ...val}"; "c attr=val|...filter"; "c x=1 attr=[ [ { *val } ] ] y=2"; "c attr={**attrs: 1}";
     "c attr={""key"": **val}"]%string = true.
Proof. vm_compute. reflexivity. Qed.
Example invalid_premises_satisfiable :
  bad_spread (inner_ty [[32%N]] None) (Some (s2n "attr"%string)) (s2n "...val] rest"%string) = true
  /\ bad_spread (inner_ty [] (Some [])) None (s2n "*val}"%string) = true
  /\ bad_spread (inner_ty [] None) (Some (s2n "key"%string)) (s2n "...attrs"%string) = true
  /\ spread_start (s2n "...filter"%string) = true.
Proof. repeat split; reflexivity. Qed.

(* ---- non-vacuity: a well-formed argument list with everything in it, one of its renderings, its meaning ---- *)
Definition ex_tok (s : String.string) : leaf := mkleaf (AVar (s2n s)) [].
Definition ex_items : list item :=
  [ IPos (SLeaf (mkleaf (AVar (s2n "x"%string)) [(s2n "upper"%string, None)]));
    IKw (s2n "data-id"%string)
        (SList [(false, SLeaf (ex_tok "1"%string));
                (true, SLeaf (ex_tok "l"%string));
                (false, SDict [(Some (mkleaf (AStr 39 (s2n "k"%string)) []),
                                SLeaf (mkleaf (AVar (s2n "i"%string)) [(s2n "add"%string, Some (AVar (s2n "1"%string)))]));
                               (None, SLeaf (ex_tok "d"%string))])]);
    IKw (s2n "attrs:class"%string) (SLeaf (mkleaf (AStr 34 (s2n "it's {{ y }}"%string)) []));
    IKw (s2n "attrs:@click.stop"%string) (SLeaf (mkleaf (ATrans 34 (s2n "go"%string)) []));
    ISpread (SLeaf (ex_tok "d"%string));
    IFlag (s2n "only"%string) ].
Definition ex_arglist : arglist := mkarglist ex_items true.
Definition ex_allowed : list str := [s2n "only"%string; s2n "required"%string].
Example ex_arglist_ok : arglist_ok (s2n "c02probe"%string) ex_allowed ex_arglist = true.
Proof. reflexivity. Qed.
(* a layout that puts a newline and a space at every optional position and writes every optional comma *)
Definition ex_layout : layout := fun _ => [10; 32; 120]%N.
Example ex_printed_canonical :
  print canonical_layout (s2n "c02probe"%string) ex_arglist
  = s2n "c02probe x|upper data-id=[1,*l,{'k':i|add:1,**d}] attrs:class=""it's {{ y }}"" attrs:@click.stop=_(""go"") ...d only /"%string.
Proof. reflexivity. Qed.
Example ex_printed_other_layout_differs :
  str_eqb (print ex_layout (s2n "c02probe"%string) ex_arglist) (print canonical_layout (s2n "c02probe"%string) ex_arglist) = false.
Proof. reflexivity. Qed.

Example ex_swapped_ok : arglist_ok (s2n "c02probe"%string) ex_allowed (swap_quotes ex_arglist) = true.
Proof. reflexivity. Qed.
Example ex_swapped_differs :
  print canonical_layout (s2n "c02probe"%string) (swap_quotes ex_arglist)
  = s2n "c02probe x|upper data-id=[1,*l,{""k"":i|add:1,**d}] attrs:class=""it's {{ y }}"" attrs:@click.stop=_('go') ...d only /"%string.
Proof. reflexivity. Qed.
