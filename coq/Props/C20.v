(* Property C20 - autodiscovery selects exactly the public modules, with right import paths.
   Only statements here; proofs live in Discover/Proofs.v.  Model: Discover/Model.v.

   Reading aid.  A sandbox is a tree [fs]; [reaches f p c]: path p leads from f to node c;
   [selected suf f] = what _search_dirs returns below one directory (paths relative to it);
   [glob_ok suf p] = p non-empty, no hidden component, last component ends with suf;
   [public_rel p]  = no directory component starts with "_", and the name does not either unless it is
   "__init__.py";  [module_path pkg rel] = _filepath_to_python_module;  [py_find es parts] = the file
   Python's import system loads for the dotted name [parts] when searching directory [es]. *)
From DJC Require Import Lib.Base Discover.Model Discover.Proofs.
From DJC Require Gen.C20.

(* ---------------- source anchors (Gen/C20.v is regenerated from /repo on every run) ----------------
   The literals of _search_dirs, _filepath_to_python_module and get_component_files the model was written for. *)
Example search_dirs_anchor : Gen.C20.search_dirs_strs = [[USC]; INIT_PY; [USC]] /\ Gen.C20.search_dirs_ints = [].
Proof. split; reflexivity. Qed.
Example to_module_anchor :
  Gen.C20.to_module_strs = [[110; 116]%N; []; [DOT]; [DOT]; DOT_INIT] /\ Gen.C20.to_module_ints = [9%Z] /\
  length DOT_INIT = 9.
Proof. repeat split; reflexivity. Qed.
Example get_files_anchor :
  Gen.C20.get_files_strs = [[42; 42; 47; 42]%N; [42; 42; 47; 42]%N; [66; 65; 83; 69; 95; 68; 73; 82]%N; DOTDOT] /\
  Gen.C20.get_files_ints = [].
Proof. split; reflexivity. Qed.

(* ---------------- selection ---------------- *)

(* The recursive glob walk (pruning hidden directories while descending) returns exactly the existing
   non-hidden paths whose name has the suffix - for every tree, every suffix. *)
Theorem glob_walk_spec : forall suf f p,
  In p (glob_fs suf f) <-> (exists c, reaches f p c) /\ glob_ok suf p.
Proof. exact glob_spec_lemma. Qed.
Print Assumptions glob_walk_spec.

(* `rel_dir_parts.pop()` cannot raise: _search_dirs is total and equals the pure filter. *)
Theorem search_never_raises : forall suf f, search_dir suf f = Ok (selected suf f).
Proof. exact search_dir_ok_lemma. Qed.
Print Assumptions search_never_raises.

(* Returned <-> exists, has the suffix, no hidden part, no "_" part except a final __init__.py.
   _partial: the statement says "the FILES"; the code (and so the model) also returns DIRECTORIES that
   satisfy the same conditions - see selected_iff_public_refuted and the guarded full statement below. *)
Theorem selected_iff_public_partial : forall suf f p,
  In p (selected suf f) <-> (exists c, reaches f p c) /\ glob_ok suf p /\ public_rel p.
Proof. exact selected_iff_lemma. Qed.
Print Assumptions selected_iff_public_partial.

(* Completeness holds in full: every public file with the suffix is returned. *)
Theorem public_files_all_selected : forall suf f p,
  reaches f p File -> glob_ok suf p -> public_rel p -> In p (selected suf f).
Proof. exact public_files_selected_lemma. Qed.
Print Assumptions public_files_all_selected.

(* The full statement ("exactly the files ...") is false for the current code: a directory named x.py. *)
Theorem selected_iff_public_refuted : exists suf f p, In p (selected suf f) /\ ~ reaches f p File.
Proof. exact selected_dir_refuted_lemma. Qed.
Print Assumptions selected_iff_public_refuted.

(* ... and true on every tree in which no directory name ends with the suffix. *)
Theorem selected_iff_public_files : forall suf f p,
  no_dir_matches suf f ->
  (In p (selected suf f) <-> reaches f p File /\ glob_ok suf p /\ public_rel p).
Proof. exact selected_iff_files_lemma. Qed.
Print Assumptions selected_iff_public_files.

(* The ".." filter of the COMPONENTS.dirs loop never removes a file whose names are clean (directory names
   without dots, file name = stem.ext with no other dot): it is returned with its module path. *)
Theorem dotdot_filter_keeps_clean_names : forall base d m e fp,
  strip_prefix base fp = Some (d ++ [m ++ DOT :: e]) -> clean_rel d m e ->
  dir_entry_of base fp = Ok (Some (module_path None (d ++ [m ++ DOT :: e]), fp)).
Proof. exact dotdot_filter_noop_lemma. Qed.
Print Assumptions dotdot_filter_keeps_clean_names.

(* Outside that guard the filter does drop public, non-hidden files (ab..cd.py). *)
Theorem dotdot_filter_drops_public_file_refuted :
  exists w l d p, get_component_files w (Some PY) = Ok l /\ get_component_dirs w false = Ok [d] /\
    reaches (tree_at (w_root w) d) p File /\ glob_ok PY p /\ public_rel p /\ ~ In (d ++ p) (map snd l).
Proof. exact dotdot_drops_public_file_refuted_lemma. Qed.
Print Assumptions dotdot_filter_drops_public_file_refuted.

(* ---------------- each once ---------------- *)

(* Below one directory every path is returned once (names are unique inside a directory). *)
Theorem each_once_in_dir : forall suf f, wf f -> NoDup (selected suf f).
Proof. exact each_once_in_dir_lemma. Qed.
Print Assumptions each_once_in_dir.

(* get_component_dirs returns each directory once, however often and in whatever form it is configured. *)
Theorem component_dirs_distinct : forall w include_apps ds,
  get_component_dirs w include_apps = Ok ds -> NoDup ds.
Proof. exact component_dirs_distinct_lemma. Qed.
Print Assumptions component_dirs_distinct.

(* The whole of get_component_files (COMPONENTS.dirs / STATICFILES_DIRS / default, then every app x app_dir):
   no file path twice, provided no source directory equals or contains another one. *)
Theorem each_once : forall w suffix l dirs,
  get_component_files w suffix = Ok l ->
  get_component_dirs w false = Ok dirs ->
  wf (w_root w) ->
  independent (dirs ++ map src_dir (app_sources w)) ->
  NoDup (map snd l).
Proof. exact each_once_lemma. Qed.
Print Assumptions each_once.

(* The independence premise is needed: nested component directories return a file twice. *)
Theorem each_once_without_independence_refuted :
  exists w l, get_component_files w (Some PY) = Ok l /\ wf (w_root w) /\ ~ NoDup (map snd l).
Proof. exact each_once_nested_refuted_lemma. Qed.
Print Assumptions each_once_without_independence_refuted.

(* ---------------- the dot path ---------------- *)

(* split "." (dot_path f) = the path components of f without the extension (a trailing __init__ dropped),
   when no component contains "." besides the extension.  (For app files the same holds with the app's name
   in front, see app_module_path.) *)
Theorem dot_path_roundtrip : forall d m e,
  clean_rel d m e ->
  split_dot (module_path None (d ++ [m ++ DOT :: e])) = import_parts (d ++ [m ++ DOT :: e]).
Proof. exact dot_path_roundtrip_lemma. Qed.
Print Assumptions dot_path_roundtrip.

Theorem init_maps_to_package : forall d,
  d <> [] -> Forall clean_part d -> module_path None (d ++ [INIT_PY]) = join_dot d.
Proof. exact init_maps_to_package_lemma. Qed.
Print Assumptions init_maps_to_package.

(* App loop: module path relative to the app, prefixed with the app's name = module path relative to the
   directory that contains the app package (np = the components of AppConfig.name). *)
Theorem app_module_path : forall np rel,
  np <> [] -> hd [] np <> [] -> rel <> [] ->
  module_path (Some (join_dot np)) rel = module_path None (np ++ rel).
Proof. exact app_module_path_lemma. Qed.
Print Assumptions app_module_path.

(* The returned dot path is the name under which Python imports exactly that file: for every directory [es]
   used as import root and every .py file d/m.py below it with clean names that is importable at all
   (its directories are packages, nothing of the same name shadows it). *)
Theorem dot_path_imports_the_file : forall es d m,
  clean_rel d m PYEXT -> importable es d m ->
  py_find es (split_dot (module_path None (d ++ [m ++ PY]))) = Some (d ++ [m ++ PY]).
Proof. exact import_path_right_lemma. Qed.
Print Assumptions dot_path_imports_the_file.

(* Without the clean-name guard the statement fails for the current code: my.comp.py is returned with the
   dot path "my.comp", which does not import it. *)
Theorem dot_path_imports_the_file_refuted :
  exists es rel, In rel (selected PY (Dir es)) /\ reaches (Dir es) rel File /\
                 py_find es (split_dot (module_path None rel)) <> Some rel.
Proof. exact dotted_name_refuted_lemma. Qed.
Print Assumptions dot_path_imports_the_file_refuted.

(* ---------------- non-vacuity ---------------- *)
Import Coq.Strings.String.StringSyntax.
Local Open Scope string_scope.

(* proj/{comps/{__init__.py, a.py, _p.py, .h.py, sub/{m.py}, _priv/{x.py}}}, COMPONENTS.dirs = [proj/comps] *)
Definition ex_tree : fs :=
  Dir [(s2n "proj", Dir [(s2n "comps", Dir [
        (s2n "__init__.py", File); (s2n "a.py", File); (s2n "_p.py", File); (s2n ".h.py", File);
        (s2n "sub", Dir [(s2n "m.py", File)]); (s2n "_priv", Dir [(s2n "x.py", File)])])])].
Definition ex_world : world :=
  {| w_root := ex_tree; w_base := [s2n "proj"]; w_dirs := Some [RTuple (PAbs [s2n "proj"; s2n "comps"])];
     w_static := []; w_app_dirs := []; w_apps := [] |}.

Example ex_files :
  get_component_files ex_world (Some PY) =
  Ok [(s2n "comps", [s2n "proj"; s2n "comps"; s2n "__init__.py"]);
      (s2n "comps.a", [s2n "proj"; s2n "comps"; s2n "a.py"]);
      (s2n "comps.sub.m", [s2n "proj"; s2n "comps"; s2n "sub"; s2n "m.py"])].
Proof. vm_compute. reflexivity. Qed.

(* the premises of each_once / selected_iff_public_files / dot_path_imports_the_file hold on it *)
Example ex_premises :
  wf ex_tree /\ independent ([[s2n "proj"; s2n "comps"]] ++ map src_dir (app_sources ex_world)) /\
  clean_rel [s2n "comps"; s2n "sub"] (s2n "m") PYEXT /\
  importable [(s2n "comps", Dir [(s2n "__init__.py", File); (s2n "sub", Dir [(s2n "m.py", File)])])]
             [s2n "comps"; s2n "sub"] (s2n "m") /\
  clean_rel [s2n "comps"] INIT PYEXT /\
  importable [(s2n "comps", Dir [(s2n "__init__.py", File)])] [s2n "comps"] INIT.
Proof.
  split; [|split; [|split; [|split; [|split]]]].
  - vm_compute. repeat split; repeat constructor; simpl; intuition discriminate.
  - vm_compute. tauto.
  - repeat split; try discriminate; try (repeat constructor; try discriminate);
      unfold dotfree; vm_compute; intuition discriminate.
  - vm_compute. eexists. split; [reflexivity|]. split; [discriminate|].
    eexists. split; [reflexivity|]. split; [reflexivity|]. split; [reflexivity | discriminate].
  - repeat split; try discriminate; try (repeat constructor; try discriminate);
      unfold dotfree; vm_compute; intuition discriminate.
  - vm_compute. eexists. split; reflexivity.
Qed.

Example ex_no_dir_matches : no_dir_matches PY (Dir [(s2n "a.py", File); (s2n "sub", Dir [(s2n "m.py", File)])]).
Proof.
  intros p sub Hne Hr. inversion Hr as [|es n c q f0 Hin Hq]; subst; [congruence|].
  destruct Hin as [Heq|[Heq|[]]]; inversion Heq; subst.
  - inversion Hq.
  - inversion Hq as [|es' n' c' q' f' Hin' Hq']; subst; [reflexivity|].
    destruct Hin' as [Heq'|[]]. inversion Heq'; subst. inversion Hq'.
Qed.
