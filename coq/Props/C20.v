(* Property C20 - autodiscovery selects exactly the public modules, with right import paths.
   Only statements here; proofs live in Discover/Proofs.v.  Model: Discover/Model.v (loader.py as of the
   fix commits dfdce86 - the configured directory is glob-escaped - and faed18b - only files are returned).

   Reading aid.  A sandbox is a tree [fs]; [node_at f p = Some c]: looking path p up from f finds node c (stat);
   [reaches f p c]: some chain of directory entries spells p (the same thing on a well-formed tree);
   [selected suf f] = what _search_dirs returns below one directory (paths relative to it);
   [glob_ok suf p] = p non-empty, no hidden component, last component ends with suf;
   [public_rel p]  = no directory component starts with "_", and the name does not either unless it is
   "__init__.py";  [public_file suf f p] = the three together;  [module_path pkg rel] = _filepath_to_python_module;
   [clean_part s] = s non-empty and without '.';  [stem_of n s] = s is the file name n without its final suffix and
   neither contains another '.';  [drop_init parts] = parts without a trailing "__init__" (if something precedes it);
   [py_find es parts] = the file Python's import system loads for the dotted name [parts] searching directory [es].

   The recorded finding c20-dotted-name (known_findings.json) is the input class [dotted_trigger rel = true]:
   some component of the file's relative path contains a '.' besides the final suffix.  The theorems about the dot
   path carry exactly the negation of that class as their guard ([guard_is_negated_trigger]); what the code does
   inside the class is stated by the [_refuted] theorems. *)
From DJC Require Import Lib.Base Discover.Model Discover.Proofs.
From DJC Require Gen.C20.

(* ---------------- source anchors (Gen/C20.v is regenerated from /repo on every run) ----------------
   The literals of _search_dirs, _filepath_to_python_module and get_component_files the model was written for. *)
Example search_dirs_anchor : Gen.C20.search_dirs_strs = [[USC]; INIT_PY; [USC]] /\ Gen.C20.search_dirs_ints = [].
Proof. split; reflexivity. Qed.
Example to_module_anchor :
  Gen.C20.to_module_strs = [[110; 116]%N; []; [DOT]; [DOT]; DOT_INIT] /\ Gen.C20.to_module_ints = [9%Z] /\
  length DOT_INIT = 9.
Proof. repeat split; reflexivity. Qed.
Example get_files_anchor :
  Gen.C20.get_files_strs = [[42; 42; 47; 42]%N; [42; 42; 47; 42]%N; [66; 65; 83; 69; 95; 68; 73; 82]%N; DOTDOT] /\
  Gen.C20.get_files_ints = [].
Proof. split; reflexivity. Qed.

(* ---------------- selection ---------------- *)

(* The recursive glob walk (pruning hidden directories while descending) returns exactly the existing
   non-hidden paths whose name has the suffix - for every tree, every suffix. *)
Theorem glob_walk_spec : forall suf f p,
  In p (glob_fs suf f) <-> (exists c, reaches f p c) /\ glob_ok suf p.
Proof. exact glob_spec_lemma. Qed.
Print Assumptions glob_walk_spec.

(* `rel_dir_parts.pop()` cannot raise: _search_dirs is total and equals the pure filter. *)
Theorem search_never_raises : forall suf f, search_dir suf f = Ok (selected suf f).
Proof. exact search_dir_ok_lemma. Qed.
Print Assumptions search_never_raises.

(* FULL, every tree, every suffix: returned <-> it is a FILE, has the suffix, has no hidden part, and no part
   starts with "_" except a final __init__.py. *)
Theorem selected_iff_public : forall suf f p,
  In p (selected suf f) <-> node_at f p = Some File /\ glob_ok suf p /\ public_rel p.
Proof. exact selected_iff_lemma. Qed.
Print Assumptions selected_iff_public.

(* the same read with [reaches], on trees whose directories have unique names (every file system) *)
Theorem selected_iff_public_reaches : forall suf f p,
  wf f -> (In p (selected suf f) <-> reaches f p File /\ glob_ok suf p /\ public_rel p).
Proof. exact selected_iff_reaches_lemma. Qed.
Print Assumptions selected_iff_public_reaches.

(* a directory is never returned, whatever its name (x.py/) and whatever the suffix (none) *)
Theorem selected_never_a_directory : forall suf f p es, In p (selected suf f) -> node_at f p <> Some (Dir es).
Proof. exact selected_never_dir_lemma. Qed.
Print Assumptions selected_never_a_directory.

(* get_component_files as a whole: the returned file paths are the public files below every configured directory
   that pass the ".." filter of the COMPONENTS.dirs loop, plus the public files below every [app]/[app_dir]. *)
Theorem files_returned_iff : forall w suffix l dirs,
  get_component_files w suffix = Ok l -> get_component_dirs w false = Ok dirs ->
  forall fp, In fp (map snd l) <->
    (exists d p, In d dirs /\ fp = d ++ p /\ public_file (suffix_of suffix) (tree_at (w_root w) d) p /\
                 kept_by_dotdot (w_base w) fp = true)
    \/ (exists s p, In s (app_sources w) /\ fp = src_dir s ++ p /\
                    public_file (suffix_of suffix) (tree_at (w_root w) (src_dir s)) p).
Proof. exact files_returned_iff_lemma. Qed.
Print Assumptions files_returned_iff.

(* ... and when no public file of a configured directory is in the dotted-name class, the ".." filter removes
   nothing: get_component_files returns EXACTLY the public files of all its source directories. *)
Theorem files_exactly_public : forall w suffix l dirs,
  get_component_files w suffix = Ok l -> get_component_dirs w false = Ok dirs ->
  (forall d p, In d dirs -> public_file (suffix_of suffix) (tree_at (w_root w) d) p ->
     exists rel, strip_prefix (w_base w) (d ++ p) = Some rel /\ no_interior_dot rel) ->
  forall fp, In fp (map snd l) <->
    exists src p, In src (dirs ++ map src_dir (app_sources w)) /\ fp = src ++ p /\
                  public_file (suffix_of suffix) (tree_at (w_root w) src) p.
Proof. exact files_exactly_public_lemma. Qed.
Print Assumptions files_exactly_public.

(* Inside the class the filter does drop public, non-hidden files (ab..cd.py): part of the recorded finding. *)
Theorem files_exactly_public_refuted :
  exists w l d p, get_component_files w (Some PY) = Ok l /\ get_component_dirs w false = Ok [d] /\
    public_file PY (tree_at (w_root w) d) p /\ dotted_trigger (d ++ p) = true /\ ~ In (d ++ p) (map snd l).
Proof. exact dotdot_drops_public_file_refuted_lemma. Qed.
Print Assumptions files_exactly_public_refuted.

(* The dot path that comes with a returned file: relative to BASE_DIR for configured directories, relative to the
   app's directory and prefixed with the app's name for app directories. *)
Theorem entries_dot_path : forall w suffix l dp fp,
  get_component_files w suffix = Ok l -> In (dp, fp) l ->
  (exists rel, strip_prefix (w_base w) fp = Some rel /\ dp = module_path None rel) \/
  (exists s p, In s (app_sources w) /\ fp = src_dir s ++ p /\ dp = module_path (Some (fst (fst s))) (snd s ++ p)).
Proof. exact entries_dot_path_lemma. Qed.
Print Assumptions entries_dot_path.

(* Both components of an entry at once (file path and dot path), as an equivalence. *)
Theorem entries_iff : forall w suffix l dirs,
  get_component_files w suffix = Ok l -> get_component_dirs w false = Ok dirs ->
  forall dp fp, In (dp, fp) l <->
    (exists d p rel, In d dirs /\ fp = d ++ p /\ public_file (suffix_of suffix) (tree_at (w_root w) d) p /\
        strip_prefix (w_base w) fp = Some rel /\ contains DOTDOT (module_path None rel) = false /\
        dp = module_path None rel)
    \/ (exists s p, In s (app_sources w) /\ fp = src_dir s ++ p /\
        public_file (suffix_of suffix) (tree_at (w_root w) (src_dir s)) p /\
        dp = module_path (Some (fst (fst s))) (snd s ++ p)).
Proof. exact entries_iff_lemma. Qed.
Print Assumptions entries_iff.

(* autodiscover() (autodiscovery.py) imports one module per entry of get_component_files(".py"), nothing is
   filtered after that ... *)
Theorem autodiscover_imports_every_entry : forall w names l,
  autodiscover w = Ok names -> get_component_files w (Some PY) = Ok l -> names = map fst l.
Proof. exact autodiscover_length_lemma. Qed.
Print Assumptions autodiscover_imports_every_entry.

(* ... so the imported names are exactly the dot paths of the public .py files: [public_file] speaks about the path
   p BELOW the component directory only - the directories above it (d, e.g. proj/_shared/components) and the app's
   name (e.g. _legacy.shop) are not subject to the underscore rule. *)
Theorem autodiscover_imports_iff : forall w names dirs,
  autodiscover w = Ok names -> get_component_dirs w false = Ok dirs ->
  forall dp, In dp names <->
    (exists d p rel, In d dirs /\ public_file PY (tree_at (w_root w) d) p /\
        strip_prefix (w_base w) (d ++ p) = Some rel /\ contains DOTDOT (module_path None rel) = false /\
        dp = module_path None rel)
    \/ (exists s p, In s (app_sources w) /\ public_file PY (tree_at (w_root w) (src_dir s)) p /\
        dp = module_path (Some (fst (fst s))) (snd s ++ p)).
Proof. exact autodiscover_iff_lemma. Qed.
Print Assumptions autodiscover_imports_iff.

(* ---------------- each once ---------------- *)

(* Below one directory every path is returned once (names are unique inside a directory). *)
Theorem each_once_in_dir : forall suf f, wf f -> NoDup (selected suf f).
Proof. exact each_once_in_dir_lemma. Qed.
Print Assumptions each_once_in_dir.

(* get_component_dirs returns each directory once, however often and in whatever form it is configured. *)
Theorem component_dirs_distinct : forall w include_apps ds,
  get_component_dirs w include_apps = Ok ds -> NoDup ds.
Proof. exact component_dirs_distinct_lemma. Qed.
Print Assumptions component_dirs_distinct.

(* The whole of get_component_files (COMPONENTS.dirs / STATICFILES_DIRS / default, then every app x app_dir):
   no file path twice, provided no source directory equals or contains another one. *)
Theorem each_once : forall w suffix l dirs,
  get_component_files w suffix = Ok l ->
  get_component_dirs w false = Ok dirs ->
  wf (w_root w) ->
  independent (dirs ++ map src_dir (app_sources w)) ->
  NoDup (map snd l).
Proof. exact each_once_lemma. Qed.
Print Assumptions each_once.

(* The independence premise is needed: nested component directories return a file twice. *)
Theorem each_once_without_independence_refuted :
  exists w l, get_component_files w (Some PY) = Ok l /\ wf (w_root w) /\ ~ NoDup (map snd l).
Proof. exact each_once_nested_refuted_lemma. Qed.
Print Assumptions each_once_without_independence_refuted.

(* ---------------- the spelling of a configured directory ---------------- *)

(* resolve() (modelled as segment folding, no symlinks): "." segments and "name/.." pairs vanish wherever they
   stand, a spelling without them is kept, and the result never contains them. *)
Theorem resolve_folds_segments : forall a x b,
  resolve_path (a ++ [DOT] :: b) = resolve_path (a ++ b) /\
  (plain_seg x -> resolve_path (a ++ x :: DOTDOT :: b) = resolve_path (a ++ b)).
Proof. intros a x b. split; [apply resolve_dot_segment_lemma | apply resolve_updown_lemma]. Qed.
Print Assumptions resolve_folds_segments.

Theorem resolve_is_canonical : forall p,
  Forall plain_seg (resolve_path p) /\ (Forall plain_seg p -> resolve_path p = p) /\
  resolve_path (resolve_path p) = resolve_path p.
Proof.
  intros p. split; [apply resolve_plain_lemma|]. split; [apply resolve_canonical_lemma | apply resolve_idem_lemma].
Qed.
Print Assumptions resolve_is_canonical.

(* get_component_files / get_component_dirs do not depend on how the directories of COMPONENTS.dirs /
   STATICFILES_DIRS are spelled (proj/config/../components, proj/./components, tuple or plain form):
   two configurations whose entries resolve to the same directories give the same result. *)
Theorem spelling_invariance : forall w1 w2,
  same_but_spelling w1 w2 ->
  (forall suffix, get_component_files w1 suffix = get_component_files w2 suffix) /\
  (forall ia, get_component_dirs w1 ia = get_component_dirs w2 ia).
Proof. exact spelling_invariance_lemma. Qed.
Print Assumptions spelling_invariance.

(* ---------------- the dot path ---------------- *)

(* The guard of the theorems below is the negation of the recorded finding's input class, as the harness decides
   it on the generated tree (dotted_trigger = harness/c20.py:has_interior_dot, compared on every generated file). *)
Theorem guard_is_negated_trigger : forall rel,
  rel <> [] -> Forall (fun n : str => n <> []) rel ->
  (dotted_trigger rel = false <-> no_interior_dot rel).
Proof. exact guard_is_negated_trigger_lemma. Qed.
Print Assumptions guard_is_negated_trigger.

(* split "." (dot_path f) = the path components of f, the last one without its suffix, a trailing __init__
   dropped - when no component contains "." besides the suffix.  d = directory names, n = file name, s = its stem. *)
Theorem dot_path_roundtrip : forall d n s,
  Forall clean_part d -> clean_part s -> stem_of n s ->
  split_dot (module_path None (d ++ [n])) = drop_init (d ++ [s]).
Proof. exact dot_path_roundtrip_lemma. Qed.
Print Assumptions dot_path_roundtrip.

(* App loop: the same with the components np of AppConfig.name in front (package_prefix ++ parts). *)
Theorem dot_path_roundtrip_app : forall np d n s,
  np <> [] -> Forall clean_part np -> Forall clean_part d -> clean_part s -> stem_of n s ->
  split_dot (module_path (Some (join_dot np)) (d ++ [n])) = drop_init (np ++ d ++ [s]).
Proof. exact dot_path_roundtrip_app_lemma. Qed.
Print Assumptions dot_path_roundtrip_app.

(* Outside the guard the round trip fails for the current code: comps/my.comp.py -> comps.my.comp. *)
Theorem dot_path_roundtrip_refuted :
  exists d n, Forall clean_part d /\ n <> [] /\ dotted_trigger (d ++ [n]) = true /\
              split_dot (module_path None (d ++ [n])) <> drop_init (d ++ [strip_suffix n]).
Proof. exact dot_path_roundtrip_refuted_lemma. Qed.
Print Assumptions dot_path_roundtrip_refuted.

(* d/__init__.py gets the dotted name of the package d - no guard needed, whatever the directory names are. *)
Theorem init_maps_to_package : forall d, d <> [] -> module_path None (d ++ [INIT_PY]) = join_dot d.
Proof. exact init_maps_to_package_lemma. Qed.
Print Assumptions init_maps_to_package.

(* App loop: module path relative to the app, prefixed with the app's name = module path relative to the
   directory that contains the app package (np = the components of AppConfig.name). *)
Theorem app_module_path : forall np rel,
  np <> [] -> hd [] np <> [] -> rel <> [] ->
  module_path (Some (join_dot np)) rel = module_path None (np ++ rel).
Proof. exact app_module_path_lemma. Qed.
Print Assumptions app_module_path.

(* The ".." filter of the COMPONENTS.dirs loop never removes a file outside the dotted-name class. *)
Theorem dotdot_filter_keeps_clean_names : forall base d n s fp,
  strip_prefix base fp = Some (d ++ [n]) -> Forall clean_part d -> clean_part s -> stem_of n s ->
  dir_entry_of base fp = Ok (Some (module_path None (d ++ [n]), fp)).
Proof. exact dotdot_filter_noop_lemma. Qed.
Print Assumptions dotdot_filter_keeps_clean_names.

(* The returned dot path is the name under which Python imports exactly that file: for every directory [es]
   used as import root and every .py file d/m.py below it with clean names that is importable at all
   (its directories are packages, nothing of the same name shadows it). *)
Theorem dot_path_imports_the_file : forall es d m,
  Forall clean_part d -> clean_part m -> importable es d m ->
  py_find es (split_dot (module_path None (d ++ [m ++ PY]))) = Some (d ++ [m ++ PY]).
Proof. exact import_path_right_lemma. Qed.
Print Assumptions dot_path_imports_the_file.

(* Without the guard the statement fails for the current code: my.comp.py is returned with the dot path
   "my.comp", which does not import it (the recorded finding). *)
Theorem dot_path_imports_the_file_refuted :
  exists es rel, In rel (selected PY (Dir es)) /\ node_at (Dir es) rel = Some File /\ dotted_trigger rel = true /\
                 py_find es (split_dot (module_path None rel)) <> Some rel.
Proof. exact dotted_name_refuted_lemma. Qed.
Print Assumptions dot_path_imports_the_file_refuted.

(* ---------------- non-vacuity ---------------- *)
Import Coq.Strings.String.StringSyntax.
Local Open Scope string_scope.

(* proj/{comps/{__init__.py, a.py, _p.py, .h.py, sub/{m.py}, _priv/{x.py}, x.py/{}}}, COMPONENTS.dirs = [proj/comps];
   the directory x.py/ (witness of the defect fixed by faed18b) is not returned *)
Definition ex_tree : fs :=
  Dir [(s2n "proj", Dir [(s2n "comps", Dir [
        (s2n "__init__.py", File); (s2n "a.py", File); (s2n "_p.py", File); (s2n ".h.py", File);
        (s2n "sub", Dir [(s2n "m.py", File)]); (s2n "_priv", Dir [(s2n "x.py", File)]);
        (s2n "x.py", Dir [])])])].
Definition ex_world : world :=
  {| w_root := ex_tree; w_base := [s2n "proj"]; w_dirs := Some [RTuple (PAbs [s2n "proj"; s2n "comps"])];
     w_static := []; w_app_dirs := []; w_apps := [] |}.

Example ex_files :
  get_component_files ex_world (Some PY) =
  Ok [(s2n "comps", [s2n "proj"; s2n "comps"; s2n "__init__.py"]);
      (s2n "comps.a", [s2n "proj"; s2n "comps"; s2n "a.py"]);
      (s2n "comps.sub.m", [s2n "proj"; s2n "comps"; s2n "sub"; s2n "m.py"])].
Proof. vm_compute. reflexivity. Qed.

(* the same directory written proj/config/../comps/. in plain form (witness noncanonical-dotdot-dir): same result *)
Definition ex_world_spelled : world :=
  {| w_root := ex_tree; w_base := [s2n "proj"];
     w_dirs := Some [RPlain (PAbs [s2n "proj"; s2n "config"; s2n ".."; s2n "comps"; s2n "."])];
     w_static := []; w_app_dirs := []; w_apps := [] |}.
Example ex_spelling : same_but_spelling ex_world ex_world_spelled /\
  get_component_files ex_world_spelled (Some PY) = get_component_files ex_world (Some PY).
Proof. split; [repeat split | vm_compute; reflexivity]. Qed.

(* underscore-prefixed names ABOVE the component directory (witnesses underscore-ancestor-dir / underscore-app-package):
   proj/_shared/components/{card.py, _p.py} and the app _legacy at site/_legacy with components/cart.py - all public
   modules are imported *)
Definition ex_world_us : world :=
  {| w_root := Dir [(s2n "proj", Dir [(s2n "_shared", Dir [(s2n "components", Dir [(s2n "card.py", File); (s2n "_p.py", File)])])]);
                    (s2n "site", Dir [(s2n "_legacy", Dir [(s2n "__init__.py", File);
                                                           (s2n "components", Dir [(s2n "cart.py", File)])])])];
     w_base := [s2n "proj"]; w_dirs := Some [RPlain (PAbs [s2n "proj"; s2n "_shared"; s2n "components"])];
     w_static := []; w_app_dirs := [[s2n "components"]]; w_apps := [(s2n "_legacy", [s2n "site"; s2n "_legacy"])] |}.
Example ex_autodiscover_underscore_ancestors :
  autodiscover ex_world_us = Ok [s2n "_shared.components.card"; s2n "_legacy.components.cart"].
Proof. vm_compute. reflexivity. Qed.

(* no suffix (witness no-suffix-returns-directories): the files, not the directories sub/ and x.py/ *)
Example ex_files_nosuffix :
  get_component_files ex_world None =
  Ok [(s2n "comps", [s2n "proj"; s2n "comps"; s2n "__init__.py"]);
      (s2n "comps.a", [s2n "proj"; s2n "comps"; s2n "a.py"]);
      (s2n "comps.sub.m", [s2n "proj"; s2n "comps"; s2n "sub"; s2n "m.py"])].
Proof. vm_compute. reflexivity. Qed.

(* the guard is satisfiable: comps/sub/m.py and comps/__init__.py are outside the dotted-name class ... *)
Example ex_guard :
  no_interior_dot [s2n "comps"; s2n "sub"; s2n "m.py"] /\ dotted_trigger [s2n "comps"; s2n "sub"; s2n "m.py"] = false /\
  no_interior_dot [s2n "comps"; s2n "__init__.py"] /\ no_interior_dot [s2n "comps"; s2n "noext"] /\
  (Forall clean_part [s2n "comps"; s2n "sub"] /\ clean_part (s2n "m") /\ stem_of (s2n "m.py") (s2n "m")).
Proof.
  assert (G : forall rel, rel <> [] -> Forall (fun n : str => n <> []) rel -> dotted_trigger rel = false -> no_interior_dot rel)
    by (intros rel H1 H2 H3; apply guard_is_negated_trigger_lemma; assumption).
  split; [apply G; [discriminate | repeat constructor; discriminate | reflexivity]|].
  split; [reflexivity|].
  split; [apply G; [discriminate | repeat constructor; discriminate | reflexivity]|].
  split; [apply G; [discriminate | repeat constructor; discriminate | reflexivity]|].
  split; [|split].
  - repeat constructor; try discriminate; unfold dotfree; vm_compute; intuition discriminate.
  - split; [discriminate | unfold dotfree; vm_compute; intuition discriminate].
  - right. exists (s2n "py"). split; [reflexivity|].
    split; (split; [discriminate | unfold dotfree; vm_compute; intuition discriminate]).
Qed.

(* ... and the class itself is inhabited by the corpus witnesses *)
Example ex_trigger :
  dotted_trigger [s2n "components"; s2n "my.comp.py"] = true /\ dotted_trigger [s2n "components"; s2n "v1.0"; s2n "comp.py"] = true /\
  dotted_trigger [s2n "components"; s2n "ab..cd.py"] = true /\ dotted_trigger [s2n "components"; s2n "a.py"] = false.
Proof. repeat split; reflexivity. Qed.

(* the premises of each_once / files_exactly_public / dot_path_imports_the_file hold on the example *)
Example ex_premises :
  wf ex_tree /\ independent ([[s2n "proj"; s2n "comps"]] ++ map src_dir (app_sources ex_world)) /\
  importable [(s2n "comps", Dir [(s2n "__init__.py", File); (s2n "sub", Dir [(s2n "m.py", File)])])]
             [s2n "comps"; s2n "sub"] (s2n "m") /\
  importable [(s2n "comps", Dir [(s2n "__init__.py", File)])] [s2n "comps"] INIT.
Proof.
  split; [|split; [|split]].
  - vm_compute. repeat split; repeat constructor; simpl; intuition discriminate.
  - vm_compute. tauto.
  - vm_compute. eexists. split; [reflexivity|]. split; [discriminate|].
    eexists. split; [reflexivity|]. split; [reflexivity|]. split; [reflexivity | discriminate].
  - vm_compute. eexists. split; reflexivity.
Qed.

(* the guard of files_exactly_public on the example: every public .py file of proj/comps is outside the class *)
Example ex_files_guard :
  forall d p, In d [[s2n "proj"; s2n "comps"]] -> public_file PY (tree_at ex_tree d) p ->
    exists rel, strip_prefix (w_base ex_world) (d ++ p) = Some rel /\ no_interior_dot rel.
Proof.
  intros d p [<-|[]] Hp.
  assert (Hin : In p (selected PY (tree_at ex_tree [s2n "proj"; s2n "comps"]))) by (apply selected_iff_lemma; exact Hp).
  vm_compute in Hin.
  destruct Hin as [<-|[<-|[<-|[]]]]; eexists; (split; [vm_compute; reflexivity|]);
    (apply guard_is_negated_trigger_lemma; [discriminate | repeat constructor; discriminate | reflexivity]).
Qed.
