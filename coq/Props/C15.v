(* Property C15 - registries behave as dictionaries and keep the tag library consistent.
   Only statements here; proofs live in Registry/Proofs.v.  Model: Registry/Model.v.

   `run rid fmt rempty l0 ops` is a fresh ComponentRegistry (identity rid, tag formatter fmt: ANY function
   name -> tag or ValueError) driven by the calls `ops` on the Library l0 (ANY initial tag table, ANY protected
   list).  The calls include `OProtect ps` = mark_protected_tags(library, ps): the protected list is state of the
   Library and may be replaced at any point.  All theorems hold for every history, by induction over the call list;
   those about "a tag is in the library exactly while used" need the history to be DISCIPLINED (`disciplined`: no tag
   is marked protected while a registered component uses it - see protecting_a_live_tag_leaves_it_behind). *)
From DJC Require Import Lib.Base Registry.Model Registry.Proofs Gen.C15.
Import Coq.Strings.String.StringSyntax.
Delimit Scope string_scope with string.

(* Results (values and exception classes, call by call) and final contents equal those of a plain dictionary
   driven by the same calls (dict_step: AlreadyRegistered iff another class holds the name, NotRegistered iff the
   name is missing, ValueError / TagProtectedError iff the formatter refuses the name / the tag is in the protected
   list AS IT IS AT THAT CALL; OProtect replaces the list). *)
Theorem refines_dict : forall rid fmt l0 ops,
  let '(r, l, outs) := run rid fmt rempty l0 ops in
  dict_run fmt (prot l0, []) ops = ((prot l, contents r), outs).
Proof. exact refines_dict_lemma. Qed.
Print Assumptions refines_dict.

(* The dictionary of the specification raises exactly on conflicting / missing names. *)
Theorem dictionary_errors_exact : forall fmt ps d n c,
  (snd (dict_step fmt (ps, d) (ORegister n c)) = RErr EAlreadyRegistered <->
     exists c', slookup n d = Some c' /\ fst c' <> fst c) /\
  (snd (dict_step fmt (ps, d) (ORegister n c)) = RErr ETagProtected <->
     (forall c', slookup n d = Some c' -> fst c' = fst c) /\ exists t, fmt n = Some t /\ In t ps) /\
  (snd (dict_step fmt (ps, d) (OUnregister n)) = RErr ENotRegistered <-> slookup n d = None) /\
  (snd (dict_step fmt (ps, d) (OGet n)) = RErr ENotRegistered <-> slookup n d = None) /\
  (forall c', slookup n d = Some c' -> snd (dict_step fmt (ps, d) (OGet n)) = RCls c').
Proof. exact dictionary_errors_exact_lemma. Qed.
Print Assumptions dictionary_errors_exact.

(* The internal failure paths (KeyError from `self._tags[tag]`, from `set.remove`, from a half-finished clear)
   are unreachable. *)
Theorem no_internal_error : forall rid fmt l0 ops,
  let '(_, _, outs) := run rid fmt rempty l0 ops in
  ~ In (RErr EKeyError) outs /\ ~ In (RErr EOther) outs /\ ~ In (RErr ENoSuchRegistry) outs.
Proof. exact no_internal_error_lemma. Qed.
Print Assumptions no_internal_error.

(* "Re-registration of the same class is a no-op".  For the library a class IS its import path (`_class_hash`;
   DESIGN section 10), and `register` compares nothing else.  Exactly what happens when the name is held by a class
   with the same hash - the identical object or ANOTHER class object with the same import path: the call is
   accepted; the names, every name's tag, `_tags`, the library's tag table and the protected list are unchanged;
   the stored object becomes the one just passed, in place (`sset`, dict order kept).  (In the code the library
   slot receives a fresh `tag_fn` closure over the same registry; the model identifies a slot with its owner.)
   Premise `nmem t (prot l) = false`: the tag has not been marked protected since; it always holds in a disciplined
   history (disciplined_history_used_tags_unprotected) - otherwise the call raises TagProtectedError (refines_dict). *)
Theorem same_hash_reregistration_replaces_object_only : forall rid fmt l0 ops n c t c',
  let '(r, l, _) := run rid fmt rempty l0 ops in
  slookup n (reg r) = Some (c, t) -> cls_hash c' = cls_hash c -> nmem t (prot l) = false ->
  step rid fmt r l (ORegister n c') = ({| reg := sset n (c', t) (reg r); tgs := tgs r |}, l, RNone).
Proof. exact same_hash_reregistration_lemma. Qed.
Print Assumptions same_hash_reregistration_replaces_object_only.

(* The same, seen through the API: get(n) is the new object, every other name and the set of names are as before. *)
Theorem same_hash_reregistration_seen_through_api : forall rid fmt l0 ops n c t c',
  let '(r, l, _) := run rid fmt rempty l0 ops in
  slookup n (reg r) = Some (c, t) -> cls_hash c' = cls_hash c -> nmem t (prot l) = false ->
  let '(r', l', x) := step rid fmt r l (ORegister n c') in
  x = RNone /\ l' = l /\ tgs r' = tgs r /\ get n r' = RCls c' /\
  (forall m, m <> n -> get m r' = get m r) /\ skeys (reg r') = skeys (reg r).
Proof. exact same_hash_reregistration_api_lemma. Qed.
Print Assumptions same_hash_reregistration_seen_through_api.

(* The registry never looks at the identity of a class object, only at its hash: replacing the class objects in the
   calls by others with the same hashes (ANY f that keeps cls_hash; e.g. swapping K1 = (1,1) and K1b = (1,2)) changes the
   whole run - every result, the registry, the library - by exactly that replacement.  (Also what makes the
   orbit enumeration of the harness under K1 <-> K1b complete as far as the model goes.) *)
Theorem class_objects_never_inspected : forall rid fmt (f : N * N -> N * N) l0 ops,
  (forall c, cls_hash (f c) = cls_hash c) ->
  run rid fmt rempty l0 (map (ren_op f) ops) =
  let '(r, l, xs) := run rid fmt rempty l0 ops in (ren_state f r, l, map (ren_out f) xs).
Proof. exact object_renaming_lemma. Qed.
Print Assumptions class_objects_never_inspected.

(* Special case c' = c: registering the very class object that already holds the name changes nothing at all
   (registry, tag sets, library). *)
Theorem same_class_reregistration_noop : forall rid fmt l0 ops n c t,
  let '(r, l, _) := run rid fmt rempty l0 ops in
  slookup n (reg r) = Some (c, t) -> nmem t (prot l) = false -> step rid fmt r l (ORegister n c) = (r, l, RNone).
Proof. exact same_class_noop_lemma. Qed.
Print Assumptions same_class_reregistration_noop.

Theorem disciplined_history_used_tags_unprotected : forall rid fmt l0 ops n c t,
  disciplined rid fmt rempty l0 ops = true ->
  let '(r, l, _) := run rid fmt rempty l0 ops in
  slookup n (reg r) = Some (c, t) -> nmem t (prot l) = false.
Proof. exact disciplined_used_unprotected_lemma. Qed.
Print Assumptions disciplined_history_used_tags_unprotected.

(* `_tags` is the inverse image of `_registry`: tag t maps to exactly the names registered with tag t, never to
   an empty or stale set. *)
Theorem tags_consistent_always : forall rid fmt l0 ops,
  let '(r, _, _) := run rid fmt rempty l0 ops in tags_consistent r.
Proof. exact tags_consistent_lemma. Qed.
Print Assumptions tags_consistent_always.

(* Every history: the tag of a registered component is in the library, as this registry's tag function. *)
Theorem used_tag_always_in_library : forall rid fmt l0 ops n t,
  let '(r, l, _) := run rid fmt rempty l0 ops in
  uses r n t -> slookup t (ltags l) = Some (OComp rid).
Proof. exact used_tag_in_library_lemma. Qed.
Print Assumptions used_tag_always_in_library.

(* Disciplined histories: a tag is in the library as this registry's tag function EXACTLY while some registered
   component uses it; a tag that was not in the library beforehand is present exactly while it is used; a used tag
   is not protected. *)
Theorem library_tag_iff_used : forall rid fmt l0 ops t,
  lib_foreign rid l0 -> disciplined rid fmt rempty l0 ops = true ->
  let '(r, l, _) := run rid fmt rempty l0 ops in
  ((exists n, uses r n t) <-> slookup t (ltags l) = Some (OComp rid)) /\
  (slookup t (ltags l0) = None -> (smem t (ltags l) = true <-> exists n, uses r n t)) /\
  (forall n, uses r n t -> nmem t (prot l) = false).
Proof. exact library_tag_iff_used_lemma. Qed.
Print Assumptions library_tag_iff_used.

(* Protected tags.  Whenever a tag t is in the protected list - from the start, or since some mark_protected_tags call
   in the middle of the history (ops1) - nothing that follows (ops2) touches it, for as long as every later
   mark_protected_tags call keeps t in its list: t is still protected, its library entry is what it was at that moment
   (not overwritten, not removed, not created), and if no component used t then, none ever does.  EVERY history. *)
Theorem protected_never_touched : forall rid fmt l0 ops1 ops2 t,
  let '(r1, l1, _) := run rid fmt rempty l0 ops1 in
  In t (prot l1) -> (forall ps, In (OProtect ps) ops2 -> In t ps) ->
  let '(r2, l2, _) := run rid fmt r1 l1 ops2 in
  In t (prot l2) /\ slookup t (ltags l2) = slookup t (ltags l1) /\
  ((forall n, ~ uses r1 n t) -> forall n, ~ uses r2 n t).
Proof. exact protected_never_touched_lemma. Qed.
Print Assumptions protected_never_touched.

(* The protected list is what the last mark_protected_tags call said (the initial list if there was none): registry
   calls never change it. *)
Theorem protected_list_is_last_marked : forall rid fmt l0 ops,
  let '(_, l, _) := run rid fmt rempty l0 ops in
  prot l = fold_left (fun ps o => match o with OProtect ps' => ps' | _ => ps end) ops (prot l0).
Proof. exact protected_list_lemma. Qed.
Print Assumptions protected_list_is_last_marked.

(* Whatever else is in the tag table is an entry that was there at the start, unchanged. *)
Theorem foreign_tags_kept_or_removed : forall rid fmt l0 ops t o,
  let '(_, l, _) := run rid fmt rempty l0 ops in
  slookup t (ltags l) = Some o -> o <> OComp rid -> slookup t (ltags l0) = Some o.
Proof. exact foreign_tags_kept_or_removed_lemma. Qed.
Print Assumptions foreign_tags_kept_or_removed.

(* Any number of registries, each on its own library (no two registries name the same library): whatever calls
   are interleaved on the others, registry i and its library evolve exactly as if it were alone, and each of its
   calls returns what it would return alone. *)
Theorem private_registries_independent : forall ops w0 i rg l0,
  NoDup (map wlib (wregs w0)) ->
  nth_error (wregs w0) i = Some rg -> nth_error (wlibs w0) (wlib rg) = Some l0 ->
  let '(w, outs) := wrun w0 ops in
  let '(r, l, outs1) := run (N.of_nat i) (wfmt rg) (wst rg) l0 (project i ops) in
  nth_error (wregs w) i = Some {| wlib := wlib rg; wfmt := wfmt rg; wst := r |} /\
  nth_error (wlibs w) (wlib rg) = Some l /\
  project_outs i ops outs = outs1.
Proof. exact private_independent_lemma. Qed.
Print Assumptions private_registries_independent.

(* Hence the property as stated, for every registry of such a world: dictionary behaviour ... *)
Theorem world_refines_dicts : forall ops w0 i rg l0,
  NoDup (map wlib (wregs w0)) ->
  nth_error (wregs w0) i = Some rg -> wst rg = rempty -> nth_error (wlibs w0) (wlib rg) = Some l0 ->
  let '(w, outs) := wrun w0 ops in
  exists rg' l, nth_error (wregs w) i = Some rg' /\ nth_error (wlibs w) (wlib rg) = Some l /\
                dict_run (wfmt rg) (prot l0, []) (project i ops) = ((prot l, contents (wst rg')), project_outs i ops outs).
Proof. exact world_refines_dicts_lemma. Qed.
Print Assumptions world_refines_dicts.

(* ... and library consistency. *)
Theorem world_library_consistent : forall ops w0 i rg l0 t,
  NoDup (map wlib (wregs w0)) ->
  nth_error (wregs w0) i = Some rg -> wst rg = rempty -> nth_error (wlibs w0) (wlib rg) = Some l0 ->
  lib_foreign (N.of_nat i) l0 -> disciplined (N.of_nat i) (wfmt rg) rempty l0 (project i ops) = true ->
  let '(w, _) := wrun w0 ops in
  exists rg' l, nth_error (wregs w) i = Some rg' /\ nth_error (wlibs w) (wlib rg) = Some l /\
    tags_consistent (wst rg') /\
    ((exists n, uses (wst rg') n t) <-> slookup t (ltags l) = Some (OComp (N.of_nat i))) /\
    (slookup t (ltags l0) = None -> (smem t (ltags l) = true <-> exists n, uses (wst rg') n t)) /\
    (forall n, uses (wst rg') n t -> nmem t (prot l) = false).
Proof. exact world_library_consistent_lemma. Qed.
Print Assumptions world_library_consistent.

(* ... and protection: a tag that is protected in the library of registry i after ops1 is not touched by ops2 - calls on
   ANY registry of the world - as long as the mark_protected_tags calls on that library keep it in the list. *)
Theorem world_protected_never_touched : forall ops1 ops2 w0 i rg l0 t,
  NoDup (map wlib (wregs w0)) ->
  nth_error (wregs w0) i = Some rg -> wst rg = rempty -> nth_error (wlibs w0) (wlib rg) = Some l0 ->
  (forall ps, In (OProtect ps) (project i ops2) -> In t ps) ->
  let '(w1, _) := wrun w0 ops1 in
  let '(w2, _) := wrun w0 (ops1 ++ ops2) in
  forall l1, nth_error (wlibs w1) (wlib rg) = Some l1 -> In t (prot l1) ->
  exists l2, nth_error (wlibs w2) (wlib rg) = Some l2 /\ In t (prot l2) /\ slookup t (ltags l2) = slookup t (ltags l1).
Proof. exact world_protected_lemma. Qed.
Print Assumptions world_protected_never_touched.

(* The tree form of the correspondence check (harness/c15.py, exhaustive part) accepts a forest of calls exactly when
   every history in it - every path from a root to a node - is accepted call by call. *)
Theorem tree_check_is_per_history_check : forall f w,
  check_forest w f = true <-> forall p, In p (forest_paths f) -> check_path w p = true.
Proof. exact check_forest_paths_lemma. Qed.
Print Assumptions tree_check_is_per_history_check.

(* ---------- anchors: the constants of /repo the concrete formatters / protected list were written for ---------- *)
Example tag_re_anchor : Gen.C15.tag_re_pattern = s2n "^[\w\-\:\@\.\#/]+$"%string /\ Gen.C15.tag_re_flags = 32%N.
Proof. split; reflexivity. Qed.
Example tag_chars_anchor : Gen.C15.tag_chars = s2n "\w\-\:\@\.\#/"%string.
Proof. reflexivity. Qed.
Example component_formatter_anchor : Gen.C15.component_formatter_tag = s2n "component"%string.
Proof. reflexivity. Qed.
(* the default protected list contains slot and fill, and does not contain the default formatter's own tag
   (otherwise every registration would raise TagProtectedError) *)
Example protected_tags_anchor :
  nmem (s2n "slot"%string) Gen.C15.protected_tags = true /\ nmem (s2n "fill"%string) Gen.C15.protected_tags = true /\
  nmem Gen.C15.component_formatter_tag Gen.C15.protected_tags = false /\
  forallb valid_tag Gen.C15.protected_tags = true.
Proof. vm_compute. repeat split. Qed.

(* the table for code points >= 128 probed from TAG_RE: Latin letters with diacritics, Greek, CJK and non-ASCII digits
   are tag characters; the multiplication sign, the no-break space and U+0080 are not *)
Example tag_ranges_hi_anchor :
  map tag_char [233; 955; 20013; 1635; 178]%N = [true; true; true; true; true] /\
  map tag_char [215; 160; 128; 8232]%N = [false; false; false; false] /\
  valid_tag [99; 97; 102; 233]%N = true /\ valid_tag [99; 215; 102]%N = false.
Proof. vm_compute. repeat split. Qed.

(* ---------- non-vacuity ---------- *)
(* libraries as built by the correspondence harness satisfy lib_foreign for every registry *)
Example lib_foreign_satisfiable : forall rid ts ps,
  lib_foreign rid {| ltags := map (fun t => (t, OBuiltin)) ts; prot := ps |}.
Proof. exact builtin_lib_foreign. Qed.

(* a reachable state in which two names share a tag, a protected built-in is present and a registration was
   refused: the hypotheses and both sides of the equivalences above are inhabited *)
Example history_exercises_everything :
  let l0 := {| ltags := [(s2n "slot"%string, OBuiltin)]; prot := Gen.C15.protected_tags |} in
  let '(r, l, outs) := run 7%N (fmt_of (FComponent Gen.C15.component_formatter_tag)) rempty l0
                           [ORegister (s2n "a"%string) (0, 0)%N; ORegister (s2n "b"%string) (1, 1)%N; ORegister (s2n "a"%string) (1, 1)%N;
                            OUnregister (s2n "a"%string); OGet (s2n "a"%string)] in
  outs = [RNone; RNone; RErr EAlreadyRegistered; RNone; RErr ENotRegistered] /\
  contents r = [(s2n "b"%string, (1, 1)%N)] /\
  ltags l = [(s2n "slot"%string, OBuiltin); (s2n "component"%string, OComp 7%N)] /\
  fst (fst (run 7%N (fmt_of FShorthand) rempty l0 [ORegister (s2n "slot"%string) (0, 0)%N; ORegister (s2n "my tag"%string) (0, 0)%N]))
    = rempty.
Proof. vm_compute. repeat split. Qed.

(* Same import path, different class object (K1 = (1,1), K1b = (1,2)): accepted, nothing but the stored object
   changes, get returns the NEW object; a class with another hash is refused.  This is the reading of "the same
   class" adopted here (identity = import path); it is reported in the evidence, never an alarm. *)
Example same_hash_other_object_replaces_stored_object :
  let l0 := {| ltags := [(s2n "slot"%string, OBuiltin)]; prot := Gen.C15.protected_tags |} in
  let f := fmt_of (FComponent Gen.C15.component_formatter_tag) in
  let '(r1, l1, _) := run 7%N f rempty l0 [ORegister (s2n "a"%string) (1, 1)%N; ORegister (s2n "b"%string) (0, 0)%N] in
  let '(r2, l2, outs) := run 7%N f r1 l1 [ORegister (s2n "a"%string) (1, 2)%N; OGet (s2n "a"%string);
                                          ORegister (s2n "a"%string) (0, 0)%N; OAll] in
  outs = [RNone; RCls (1, 2)%N; RErr EAlreadyRegistered;
          RAll [(s2n "a"%string, (1, 2)%N); (s2n "b"%string, (0, 0)%N)]] /\
  contents r1 = [(s2n "a"%string, (1, 1)%N); (s2n "b"%string, (0, 0)%N)] /\
  tgs r2 = tgs r1 /\ l2 = l1 /\ map (fun e => snd (snd e)) (reg r2) = map (fun e => snd (snd e)) (reg r1).
Proof. vm_compute. repeat split. Qed.

(* The statement protects PROTECTED tags only.  A pre-existing tag that is NOT in the protected list (a Library
   handed to the registry without mark_protected_tags) is overwritten by a component whose tag collides with it
   (shorthand formatter: tag = component name) and is REMOVED from the library when that component is unregistered;
   the same history on a protected library is refused and leaves the tag alone.  Allowed by the statement; stated
   here so that nobody reads more into protected_never_touched / library_tag_iff_used. *)
Example unprotected_builtin_overwritten_then_removed :
  let slot := s2n "slot"%string in
  let ops := [ORegister slot (0, 0)%N; OUnregister slot] in
  let open := {| ltags := [(slot, OBuiltin)]; prot := [] |} in
  let guarded := {| ltags := [(slot, OBuiltin)]; prot := Gen.C15.protected_tags |} in
  (let '(_, l, _) := run 7%N (fmt_of FShorthand) rempty open [ORegister slot (0, 0)%N] in ltags l) = [(slot, OComp 7%N)] /\
  (let '(_, l, outs) := run 7%N (fmt_of FShorthand) rempty open ops in (ltags l, outs)) = ([], [RNone; RNone]) /\
  (let '(_, l, outs) := run 7%N (fmt_of FShorthand) rempty guarded ops in (ltags l, outs))
    = ([(slot, OBuiltin)], [RErr ETagProtected; RErr ENotRegistered]).
Proof. vm_compute. repeat split. Qed.

(* a hash-preserving renaming that is not the identity exists: the swap of K1 and K1b *)
Example object_renaming_nontrivial :
  let f := fun c : N * N => if N.eqb (fst c) 1 then (fst c, 3 - snd c)%N else c in
  (forall h o, cls_hash (f (h, o)) = cls_hash (h, o)) /\ f (1, 1)%N = (1, 2)%N /\ f (1, 2)%N = (1, 1)%N /\ f (0, 0)%N = (0, 0)%N.
Proof. split; [intros h o; simpl; destruct (N.eqb h 1); reflexivity | repeat split]. Qed.

(* "Protect later" (seed C15c): the Library is marked only AFTER the registry has been used; the registration of a now
   protected name is refused, the library's own `slot` is what it was, the earlier component is unaffected; the history
   is disciplined, and the premises of protected_never_touched are met with ops1 = the first two calls. *)
Example protect_later_is_honoured :
  let slot := s2n "slot"%string in let card := s2n "card"%string in
  let l0 := {| ltags := [(slot, OBuiltin); (s2n "fill"%string, OBuiltin)]; prot := [] |} in
  let ops := [ORegister card (0, 0)%N; OProtect Gen.C15.protected_tags; ORegister slot (1, 1)%N; OUnregister slot; OClear] in
  (let '(r, l, outs) := run 7%N (fmt_of FShorthand) rempty l0 ops in (outs, ltags l, prot l))
    = ([RNone; RNone; RErr ETagProtected; RErr ENotRegistered; RNone], ltags l0, Gen.C15.protected_tags) /\
  disciplined 7%N (fmt_of FShorthand) rempty l0 ops = true /\
  (let '(_, l1, _) := run 7%N (fmt_of FShorthand) rempty l0 [ORegister card (0, 0)%N; OProtect Gen.C15.protected_tags] in
   nmem slot (prot l1)) = true.
Proof. vm_compute. repeat split. Qed.

(* The one corner where "a tag exists exactly while used" and "protected tags are never removed" pull in opposite
   directions: marking the tag of a LIVE component as protected.  The code then keeps the tag function in the library
   after the component is unregistered (and refuses to re-register the component).  Such histories are not
   disciplined; the statement is silent about them; the harness reports them, never alarms. *)
Example protecting_a_live_tag_leaves_it_behind :
  let a := s2n "a"%string in
  let l0 := {| ltags := []; prot := [] |} in
  let ops := [ORegister a (0, 0)%N; OProtect [a]; ORegister a (0, 0)%N; OUnregister a; OAll] in
  (let '(r, l, outs) := run 7%N (fmt_of FShorthand) rempty l0 ops in (outs, ltags l, contents r))
    = ([RNone; RNone; RErr ETagProtected; RNone; RAll []], [(a, OComp 7%N)], []) /\
  disciplined 7%N (fmt_of FShorthand) rempty l0 ops = false.
Proof. vm_compute. split; reflexivity. Qed.

(* the tree check is not vacuous: a two-level forest with the right observations is accepted, with a wrong one refused *)
Example tree_check_discriminates :
  let a := s2n "a"%string in
  let w := mk_world [([], [])] [(0, FShorthand)] in
  let q1 : out * list (list (str * (N * N))) * list (list (str * bool)) := (RNone, [[(a, (0, 0)%N)]], [[(a, false)]]) in
  let q2 : out * list (list (str * (N * N))) * list (list (str * bool)) := (RNone, [[]], [[]]) in
  let q3 : out * list (list (str * (N * N))) * list (list (str * bool)) := (RNone, [[]], [[(a, false)]]) in
  check_forest w (FC (K (WOp 0 (ORegister a (0, 0)%N)) q1 (FC (K (WOp 0 (OUnregister a)) q2 FN) FN)) FN) = true /\
  check_forest w (FC (K (WOp 0 (ORegister a (0, 0)%N)) q1 (FC (K (WOp 0 (OUnregister a)) q3 FN) FN)) FN) = false.
Proof. vm_compute. split; reflexivity. Qed.

(* OUTSIDE the claimed domain (observation, not a defect of the property as quantified): two registries that
   share one library.  Unregistering in the second removes the `component` tag the first still needs, so the
   NoDup hypothesis of private_registries_independent cannot be dropped. *)
Example shared_library_outside_domain :
  let f := fmt_of (FComponent (s2n "component"%string)) in
  let w0 := {| wlibs := [{| ltags := []; prot := [] |}];
               wregs := [{| wlib := 0; wfmt := f; wst := rempty |}; {| wlib := 0; wfmt := f; wst := rempty |}] |} in
  let '(w, _) := wrun w0 [WOp 0 (ORegister (s2n "a"%string) (0, 0)%N); WOp 1 (ORegister (s2n "b"%string) (1, 1)%N);
                          WOp 1 (OUnregister (s2n "b"%string))] in
  map (fun rg => contents (wst rg)) (wregs w) = [[(s2n "a"%string, (0, 0)%N)]; []] /\
  map ltags (wlibs w) = [[]].
Proof. vm_compute. split; reflexivity. Qed.
