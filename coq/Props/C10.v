(* Property C10 - stock templating is preserved: unchanged alone, composes with components.
   Only statements here; proofs live in Stock/Proofs.v (and, for the lexer, in Lexer/*.v of property C09).
   Model: Stock/Model.v.

   Part (a): templates that do not use django-components.
   Part (b): Django's block resolution for template families = rendering the hand-flattened template (the oracle
   the correspondence check compares component programs against). *)
From Coq Require Import String.
From DJC Require Import Lib.Base Lexer.Model Lexer.Proofs Stock.Model Stock.Proofs.

(* ---------- (a) the patched lexer ---------- *)
(* If every block tag of the STOCK token stream has balanced quotes ([balancedb]: the quote scan over the tag's
   contents ends outside every string - so, in particular, no percent-brace of the source lies inside a quoted
   string of a tag), Template.compile_nodelist hands the parser the token stream of stock Django: same types,
   contents, positions and line numbers, for every source and both settings of COMPONENTS.multiline_tags. *)
Theorem balanced_quotes_same_tokens : forall (dotall : bool) (s : str),
  (forall t, In t (django_lex dotall s) -> ttype t = TBlock -> balancedb (tcontents t) = true) ->
  parse_template dotall s = POk (django_lex dotall s).
Proof. exact balanced_quotes_same_tokens_lemma. Qed.
Print Assumptions balanced_quotes_same_tokens.

(* the decidable form used by the correspondence check *)
Theorem stock_premise_same_tokens : forall (dotall : bool) (s : str),
  stock_premiseb dotall s = true -> parse_template dotall s = POk (django_lex dotall s).
Proof. exact balanced_quotes_stock_lemma. Qed.
Print Assumptions stock_premise_same_tokens.

(* special case: no quote character in any block tag *)
Theorem no_quote_same_tokens : forall (dotall : bool) (s : str),
  (forall t, In t (django_lex dotall s) -> ttype t = TBlock -> existsb is_quote (tcontents t) = false) ->
  parse_template dotall s = POk (django_lex dotall s).
Proof. exact eq_stock_when_no_quote. Qed.
Print Assumptions no_quote_same_tokens.

(* ---------- (a) the patched Template.render ---------- *)
(* For a template object that django-components never prepared (no `_djc_is_component_nested` attribute) the
   patched render IS the stock method: same output, same render-context stack afterwards, whatever the body of
   the render does with the render context. *)
Theorem template_render_patch_neutral :
  forall (layer out : Type) (empty_layer : layer) (inner : list layer -> out * list layer) (f : tflags) (rc : list layer),
  has_nested_attr f = false -> patched_render empty_layer inner f rc = stock_render empty_layer inner rc.
Proof. exact @patched_render_unflagged. Qed.
Print Assumptions template_render_patch_neutral.

(* The only templates rendered differently are those flagged as component-nested: they run on the caller's
   render-context layer instead of a fresh one. *)
Theorem template_render_patch_exact :
  forall (layer out : Type) (empty_layer : layer) (inner : list layer -> out * list layer) (f : tflags) (rc : list layer),
  patched_render empty_layer inner f rc =
  if has_nested_attr f && nested_attr f then inner rc else stock_render empty_layer inner rc.
Proof. exact @patched_render_is_push_state. Qed.
Print Assumptions template_render_patch_exact.

(* ---------- (b) block resolution = hand flattening ---------- *)
(* For every template family (any chain of {% extends %}, blocks nested anywhere, block.super anywhere) and every
   interpretation of the other tags (leaf: text / variables / tags without body; envs + deco: if / for / with /
   component bodies ... rendering their body any number of times in changed environments): hand flattening
   succeeds, and Django's stateful resolution (BlockContext queues, pop / push back, block.super) renders in
   every environment exactly the flattened template, leaving the BlockContext as it was after {% extends %}. *)
Theorem django_blocks_flatten :
  forall (env : Type) (leaf : N -> env -> str) (envs : N -> env -> list env) (deco : N -> env -> list str -> str)
         (fam : family),
  exists flat, flatten fam = Some flat /\
    forall e, render_family env leaf envs deco fam e = Some (render_f env leaf envs deco e flat, init_bc fam).
Proof. exact django_blocks_flatten_lemma. Qed.
Print Assumptions django_blocks_flatten.

(* the same at every point of a render: whatever is left in the BlockContext, whichever block is current *)
Theorem block_resolution_refines_inlining :
  forall (env : Type) (leaf : N -> env -> str) (envs : N -> env -> list env) (deco : N -> env -> list str -> str)
         fuel bc cur ns flat,
  fl fuel bc cur ns = Some flat ->
  forall e, rl env leaf envs deco fuel bc cur e ns = Some (render_f env leaf envs deco e flat, bc).
Proof. exact rl_fl. Qed.
Print Assumptions block_resolution_refines_inlining.

(* hand flattening terminates within one unit of fuel per nesting level (of the template and of every definition
   still available), and more fuel changes nothing *)
Theorem flatten_terminates : forall fuel bc cur ns,
  depth ns + weight bc < fuel ->
  exists flat, fl fuel bc cur ns = Some flat /\ forall fuel', fuel <= fuel' -> fl fuel' bc cur ns = Some flat.
Proof. exact flatten_terminates_lemma. Qed.
Print Assumptions flatten_terminates.

(* what {% extends %} leaves in the BlockContext: per block name, the definitions from the most derived template
   up to the root, in that order (what `pop` returns first is the most derived one) *)
Theorem extends_queue_order : forall m fam,
  bget m (init_bc fam) = concat (map (fun t => defs m (blocks_of t)) (f_chain fam ++ [f_root fam])).
Proof. exact init_bc_queue. Qed.
Print Assumptions extends_queue_order.

(* ---------- non-vacuity ---------- *)
(* quoted tags with balanced quotes (escaped quote, other quote inside, lone percent sign): premise holds and there
   are quoted block tags *)
Example balanced_premise_satisfiable :
  let s := s2n "{% if x == ""a\""b"" %}{% with y='it""s 5%' %}{{ y }}{% endwith %}{% endif %}"%string in
  stock_premiseb true s = true /\ length (filter is_broken (django_lex true s)) = 2.
Proof. vm_compute. split; reflexivity. Qed.

(* the premise is not trivial: a percent-brace inside a quoted string falsifies it, and there the patched lexer does differ *)
Example unbalanced_premise_fails :
  let s := s2n "{% x ""a %} b"" %}"%string in
  stock_premiseb true s = false /\ parse_template true s <> POk (django_lex true s).
Proof. vm_compute. split; [reflexivity|discriminate]. Qed.

(* a three-level family with nested blocks and block.super: base <- mid <- leaf *)
Example family_example :
  let fam := {| f_chain := [ [Block 1 [Leaf 5; Super; Block 2 [Leaf 6]]];              (* leaf *)
                             [Block 1 [Super; Leaf 4]; Block 2 [Leaf 9]] ];             (* mid  *)
                f_root  := [Leaf 0; Wrap 2 [Block 1 [Leaf 1]]; Block 3 [Leaf 3; Super]] |} in
  flatten fam = Some [FLeaf 0; FWrap 2 [FLeaf 5; FLeaf 1; FLeaf 4; FLeaf 6]; FLeaf 3].
Proof. vm_compute. reflexivity. Qed.

(* the flagged case really is different: with the flag set the body sees the caller's layer *)
Example flagged_template_differs :
  let inner := fun rc : list nat => (hd 0 rc, rc) in
  patched_render 0 inner {| has_nested_attr := true; nested_attr := true |} [7] = (7, [7]) /\
  stock_render 0 inner [7] = (0, [7]).
Proof. vm_compute. split; reflexivity. Qed.
