(* C20 - autodiscovery.  M-model of src/django_components/util/loader.py
   (get_component_dirs, get_component_files, _filepath_to_python_module, _search_dirs) over an
   explicit file-system tree, plus an S-model of what Python's import system does with a dotted
   name (py_find), against which "the right import path" is stated.

   A sandbox directory R is a value of type [fs]; every path is the list of its components
   relative to R.  Definitions only; proofs are in Discover/Proofs.v. *)
From DJC Require Import Lib.Base.

(* ---------- file-system trees ---------- *)
Inductive fs : Type :=
| File : fs
| Dir : list (str * fs) -> fs.

Notation entries := (list (str * fs)) (only parsing).
Notation path := (list str) (only parsing).

Import Coq.Strings.String.StringSyntax.
Local Open Scope string_scope.
Definition INIT_PY : str := Eval compute in s2n "__init__.py".
Definition DOT_INIT : str := Eval compute in s2n ".__init__".
Definition COMPONENTS : str := Eval compute in s2n "components".
Definition PY : str := Eval compute in s2n ".py".
Definition PYC : str := Eval compute in s2n ".pyc".
Definition INIT_PYC : str := Eval compute in s2n "__init__.pyc".
Local Close Scope string_scope.

Definition DOT : N := 46%N.
Definition USC : N := 95%N.

Definition hidden (n : str) : bool := match n with c :: _ => N.eqb c DOT | [] => false end.
Definition underscored (n : str) : bool := match n with c :: _ => N.eqb c USC | [] => false end.
Definition is_dir (f : fs) : bool := match f with Dir _ => true | File => false end.

Fixpoint lookup (es : entries) (n : str) : option fs :=
  match es with
  | [] => None
  | (m, f) :: r => if str_eqb n m then Some f else lookup r n
  end.

Fixpoint node_at (f : fs) (p : path) : option fs :=
  match p with
  | [] => Some f
  | n :: p' => match f with
               | File => None
               | Dir es => match lookup es n with Some c => node_at c p' | None => None end
               end
  end.

(* ---------- glob.iglob(escape(dir)/**/*<suffix>, recursive=True), Python 3.12 ----------
   The directory part of the pattern is glob.escape()d (commit dfdce86), so it is the literal directory
   [f] whatever characters its path contains; only `**/*<suffix>` is a pattern.
   `**` walks the directory itself and every chain of non-hidden sub-directories (_glob2/_rlistdir);
   in each of them `*<suffix>` is matched with fnmatch against every non-hidden entry, FILE OR
   DIRECTORY (_glob1).  For a suffix without glob metacharacters fnmatch("*"+suffix) = endswith. *)
Definition has_suffix (suf n : str) : bool := starts_with (rev suf) (rev n).

Fixpoint glob_fs (suf : str) (f : fs) : list path :=
  match f with
  | File => []
  | Dir es =>
      (fix go (es : list (str * fs)) : list path :=
         match es with
         | [] => []
         | (n, c) :: r =>
             (if hidden n then []
              else (if has_suffix suf n then [[n]] else []) ++ map (cons n) (glob_fs suf c))
             ++ go r
         end) es
  end.

(* ---------- outcomes ---------- *)
Inductive exc := ValueError | IndexError.
Inductive res (A : Type) : Type := Ok (a : A) | Raise (e : exc).
Arguments Ok {A} a.
Arguments Raise {A} e.

Definition bind {A B} (r : res A) (k : A -> res B) : res B :=
  match r with Ok a => k a | Raise e => Raise e end.

Fixpoint filter_res {A} (k : A -> res bool) (l : list A) : res (list A) :=
  match l with
  | [] => Ok []
  | x :: r => bind (k x) (fun b => bind (filter_res k r) (fun r' => Ok (if b then x :: r' else r')))
  end.

Fixpoint map_res {A B} (k : A -> res B) (l : list A) : res (list B) :=
  match l with
  | [] => Ok []
  | x :: r => bind (k x) (fun y => bind (map_res k r) (fun r' => Ok (y :: r')))
  end.

(* ---------- _search_dirs: the is_file test and the underscore filter ---------- *)

(* Path(path_str).is_file(): a fresh look-up of the path glob returned (no symlinks in the model).
   glob matches directories too (a directory named x.py; every directory when no suffix is given);
   since commit faed18b `if not path.is_file(): continue` drops them. *)
Definition is_file_at (f : fs) (p : path) : bool :=
  match node_at f p with Some File => true | _ => false end.

(* rel_dir_parts = list(parts); name_part = rel_dir_parts.pop()   (IndexError on an empty list) *)
Definition keep_parts (p : path) : res bool :=
  match rev p with
  | [] => Raise IndexError
  | name :: rdirs =>
      Ok (negb (existsb underscored rdirs) && (negb (underscored name) || str_eqb name INIT_PY))
  end.

(* one iteration of the loop body: is_file first, then the parts are popped *)
Definition search_step (f : fs) (p : path) : res bool :=
  if is_file_at f p then keep_parts p else Ok false.

Definition search_dir (suf : str) (f : fs) : res (list path) := filter_res (search_step f) (glob_fs suf f).

(* the same without the error plumbing (search_dir_ok in Proofs.v: search_dir = Ok selected) *)
Definition keep_b (p : path) : bool :=
  match rev p with
  | [] => false
  | name :: rdirs => negb (existsb underscored rdirs) && (negb (underscored name) || str_eqb name INIT_PY)
  end.
Definition selected (suf : str) (f : fs) : list path :=
  filter (fun p => is_file_at f p && keep_b p) (glob_fs suf f).

(* ---------- _filepath_to_python_module ---------- *)
(* longest dot-free prefix of a (reversed) name, and the rest *)
Fixpoint take_nodot (r : str) : str * str :=
  match r with
  | [] => ([], [])
  | c :: r' => if N.eqb c DOT then ([], r) else let (a, b) := take_nodot r' in (c :: a, b)
  end.

(* PurePath.with_suffix("") on the last component (3.12): i = name.rfind("."); the suffix is
   name[i:] when 0 < i < len(name)-1, else there is none. *)
Definition strip_suffix (n : str) : str :=
  match take_nodot (rev n) with
  | (_ :: _, _ :: ((_ :: _) as stem_rev)) => rev stem_rev
  | _ => n
  end.

Fixpoint join_dot (parts : list str) : str :=
  match parts with
  | [] => []
  | [a] => a
  | a :: r => a ++ DOT :: join_dot r
  end.

Definition DOTDOT : str := [DOT; DOT].

(* rel = the file's path relative to the root (non-empty) *)
Definition module_parts (rel : path) : list str :=
  removelast rel ++ [strip_suffix (last rel [])].

Definition module_path (pkg : option str) (rel : path) : str :=
  let module_name := join_dot (module_parts rel) in
  let full := match pkg with
              | Some ((_ :: _) as a) => a ++ DOT :: module_name
              | _ => module_name
              end in
  if has_suffix DOT_INIT full then firstn (length full - 9) full else full.

Fixpoint strip_prefix (pre l : path) : option path :=
  match pre, l with
  | [], _ => Some l
  | a :: pre', b :: l' => if str_eqb a b then strip_prefix pre' l' else None
  | _ :: _, [] => None
  end.

(* ---------- the input class of the recorded finding c20-dotted-name ----------
   rel = a file's path relative to the directory Python imports from (BASE_DIR, or the directory holding the
   app package).  The class: some directory name on rel, or the file name without its final suffix
   (pathlib's notion, = strip_suffix), contains a '.'.  harness/c20.py decides the same predicate on the
   generated tree (has_interior_dot); the two are compared on every generated file (check_world). *)
Definition has_dot (n : str) : bool := existsb (N.eqb DOT) n.
Definition dotted_trigger (rel : path) : bool :=
  existsb has_dot (removelast rel) || has_dot (strip_suffix (last rel [])).

(* ---------- configuration ---------- *)
(* one element of COMPONENTS.dirs / STATICFILES_DIRS *)
Inductive pval :=
| PAbs (p : path)      (* absolute path, given by its components below R *)
| PRel                 (* a relative path: ValueError *)
| PNotPath.            (* Path(x) raises TypeError: warning, skipped *)
Inductive raw_entry :=
| RPlain (v : pval)
| RTuple (v : pval).   (* (prefix, path) tuple/list form: element [1] is used *)

Record world := {
  w_root : fs;                         (* content of the sandbox R *)
  w_base : path;                       (* settings.BASE_DIR *)
  w_dirs : option (list raw_entry);    (* COMPONENTS.dirs as written in the settings (None = unset) *)
  w_static : list raw_entry;           (* settings.STATICFILES_DIRS *)
  w_app_dirs : list path;              (* COMPONENTS.app_dirs, each split into components *)
  w_apps : list (str * path)           (* installed apps: (AppConfig.name, AppConfig.path) *)
}.

Definition unwrap (e : raw_entry) : pval := match e with RPlain v => v | RTuple v => v end.


Definition configured (w : world) : list raw_entry :=
  match w_dirs w, w_static w with
  | None, (_ :: _) as st => st                       (* legacy: STATICFILES_DIRS, only when dirs unset *)
  | Some d, _ => d
  | None, [] => [RPlain (PAbs (w_base w ++ [COMPONENTS]))]
  end.

Definition path_eqb (a b : path) : bool := list_eqb str_eqb a b.

Fixpoint mem_path (p : path) (l : list path) : bool :=
  match l with [] => false | q :: r => path_eqb p q || mem_path p r end.

(* set semantics: keep the first occurrence *)
Fixpoint dedupe (l : list path) : list path :=
  match l with
  | [] => []
  | p :: r => if mem_path p r then dedupe r else p :: dedupe r
  end.

(* Path(component_dir).resolve(): the configured spelling is canonicalised.  A [PAbs p] carries the spelling as
   written, component by component, "." and ".." included; resolve() is modelled as segment folding ("." dropped,
   ".." removes the component before it; at the sandbox root ".." stays there - the generator never climbs above
   it).  Symbolic links are outside the model (the harness hands a symlinked directory to the model as its
   target); a trailing slash and empty segments never reach resolve(): Path() drops them. *)
Fixpoint fold_segs (acc p : path) : path :=     (* acc = components so far, innermost first *)
  match p with
  | [] => rev acc
  | s :: r => if str_eqb s [DOT] then fold_segs acc r
              else if str_eqb s DOTDOT then fold_segs (tl acc) r
              else fold_segs (s :: acc) r
  end.
Definition resolve_path (p : path) : path := fold_segs [] p.

Fixpoint valid_dirs (l : list raw_entry) : res (list path) :=
  match l with
  | [] => Ok []
  | e :: r => match unwrap e with
              | PNotPath => valid_dirs r
              | PRel => Raise ValueError
              | PAbs p => bind (valid_dirs r) (fun r' => Ok (resolve_path p :: r'))
              end
  end.

(* the same configuration entry in canonical spelling (and without the tuple wrapper) *)
Definition canon_pval (v : pval) : pval := match v with PAbs p => PAbs (resolve_path p) | _ => v end.
Definition canon_entry (e : raw_entry) : raw_entry := RPlain (canon_pval (unwrap e)).
Definition canon_world (w : world) : world :=
  {| w_root := w_root w; w_base := w_base w;
     w_dirs := option_map (map canon_entry) (w_dirs w); w_static := map canon_entry (w_static w);
     w_app_dirs := w_app_dirs w; w_apps := w_apps w |}.

Definition exists_at (root : fs) (p : path) : bool :=
  match node_at root p with Some _ => true | None => false end.

(* [app]/[app_dir] for every installed app and every COMPONENTS.app_dirs entry that exists *)
Definition app_sources (w : world) : list (str * path * path) :=   (* (app name, app path, app_dir) *)
  flat_map (fun a => flat_map (fun ad =>
      if exists_at (w_root w) (snd a ++ ad) then [(fst a, snd a, ad)] else []) (w_app_dirs w)) (w_apps w).

Definition get_component_dirs (w : world) (include_apps : bool) : res (list path) :=
  bind (valid_dirs (configured w)) (fun ds =>
    Ok (dedupe ((if include_apps then map (fun s => snd (fst s) ++ snd s) (app_sources w) else []) ++ ds))).

(* ---------- get_component_files ---------- *)
Definition tree_at (root : fs) (d : path) : fs :=
  match node_at root d with Some f => f | None => File end.

(* files found below one directory d, as full paths *)
Definition found_in (root : fs) (suf : str) (d : path) : res (list path) :=
  bind (search_dir suf (tree_at root d)) (fun ps => Ok (map (app d) ps)).

Notation entry := (str * list str)%type (only parsing).   (* (dot_path, filepath) *)

(* first loop: COMPONENTS.dirs files, module path relative to BASE_DIR, the ".." filter *)
Definition dir_entry_of (base : path) (fp : path) : res (option entry) :=
  match strip_prefix base fp with
  | None => Raise ValueError                           (* PurePath.relative_to *)
  | Some rel =>
      let m := module_path None rel in
      Ok (if contains DOTDOT m then None else Some (m, fp))
  end.

Fixpoint somes {A} (l : list (option A)) : list A :=
  match l with [] => [] | Some x :: r => x :: somes r | None :: r => somes r end.

(* second loop: per app, module path relative to the app's path, prefixed by the app's name *)
Definition app_entries (root : fs) (suf : str) (s : str * path * path) : res (list entry) :=
  let '(name, apath, ad) := s in
  bind (search_dir suf (tree_at root (apath ++ ad))) (fun ps =>
    Ok (map (fun p => (module_path (Some name) (ad ++ p), apath ++ ad ++ p)) ps)).

Definition suffix_of (s : option str) : str := match s with Some x => x | None => [] end.

Definition get_component_files (w : world) (suffix : option str) : res (list entry) :=
  let suf := suffix_of suffix in
  bind (get_component_dirs w false) (fun dirs =>
  bind (map_res (found_in (w_root w) suf) dirs) (fun fpss =>
  bind (map_res (dir_entry_of (w_base w)) (concat fpss)) (fun es1 =>
  bind (map_res (app_entries (w_root w) suf) (app_sources w)) (fun es2 =>
  Ok (somes es1 ++ concat es2))))).

(* ---------- autodiscovery.py: autodiscover() ----------
   modules = get_component_files(".py"); return _import_modules([entry.dot_path for entry in modules], map_module):
   EVERY returned entry is imported, in order, with no further filter; the result is the list of imported names
   (importlib.import_module raising is outside this function: see py_find for which file a name loads). *)
Definition autodiscover (w : world) : res (list str) :=
  bind (get_component_files w (Some PY)) (fun es => Ok (map fst es)).

(* ---------- S-model: which file does `import a.b.c` load, searching one root directory ----------
   FileFinder, per name: a directory with __init__.py / __init__.pyc (regular package) wins over
   <name>.py / <name>.pyc, which wins over a directory without __init__ (namespace package, no
   file of its own).  Extension modules (.so) are not modelled. *)

Definition lookup_dir (es : entries) (n : str) : option (list (str * fs)) :=
  match lookup es n with Some (Dir sub) => Some sub | _ => None end.
Definition has_file (es : entries) (n : str) : bool :=
  match lookup es n with Some File => true | _ => false end.

(* source file first, then sourceless bytecode *)
Definition init_file (sub : entries) : option str :=
  if has_file sub INIT_PY then Some INIT_PY else if has_file sub INIT_PYC then Some INIT_PYC else None.
Definition module_file (es : entries) (m : str) : option str :=
  if has_file es (m ++ PY) then Some (m ++ PY) else if has_file es (m ++ PYC) then Some (m ++ PYC) else None.

Fixpoint py_find (es : list (str * fs)) (parts : list str) : option path :=
  match parts with
  | [] => None
  | [] :: _ => None                                        (* empty module name *)
  | m :: rest =>
      match rest with
      | [] =>
          match lookup_dir es m with
          | Some sub => match init_file sub with
                        | Some i => Some [m; i]
                        | None => option_map (fun f => [f]) (module_file es m)
                        end
          | None => option_map (fun f => [f]) (module_file es m)
          end
      | _ :: _ =>
          match lookup_dir es m with
          | Some sub =>
              match init_file sub with
              | Some _ => option_map (cons m) (py_find sub rest)
              | None => match module_file es m with
                        | Some _ => None                               (* m is a plain module, not a package *)
                        | None => option_map (cons m) (py_find sub rest)   (* namespace package *)
                        end
              end
          | None => None
          end
      end
  end.

(* str.split(".") *)
Fixpoint split_dot_aux (s acc : str) : list str :=
  match s with
  | [] => [rev acc]
  | c :: r => if N.eqb c DOT then rev acc :: split_dot_aux r [] else split_dot_aux r (c :: acc)
  end.
Definition split_dot (s : str) : list str := split_dot_aux s [].

(* ---------- correspondence ---------- *)
Definition exc_eqb (a b : exc) : bool :=
  match a, b with ValueError, ValueError => true | IndexError, IndexError => true | _, _ => false end.

Definition entry_eqb (a b : entry) : bool := str_eqb (fst a) (fst b) && path_eqb (snd a) (snd b).

Fixpoint count_of {A} (eqb : A -> A -> bool) (x : A) (l : list A) : nat :=
  match l with [] => 0 | y :: r => (if eqb x y then 1 else 0) + count_of eqb x r end.

(* equality as multisets (glob order = os.scandir order, set iteration order: not part of the API) *)
Definition multiset_eqb {A} (eqb : A -> A -> bool) (a b : list A) : bool :=
  Nat.eqb (length a) (length b) &&
  forallb (fun x => Nat.eqb (count_of eqb x a) (count_of eqb x b)) a.

Definition res_eqb {A} (eqb : A -> A -> bool) (a b : res A) : bool :=
  match a, b with
  | Ok x, Ok y => eqb x y
  | Raise e, Raise e' => exc_eqb e e'
  | _, _ => false
  end.

(* (world, suffix, observed get_component_files) *)
Definition files_case := (world * option str * res (list entry))%type.
Definition check_files (c : files_case) : bool :=
  let '(w, suf, obs) := c in
  res_eqb (multiset_eqb entry_eqb) (get_component_files w suf) obs.

(* (world, include_apps, observed get_component_dirs) *)
Definition dirs_case := (world * bool * res (list path))%type.
Definition check_dirs (c : dirs_case) : bool :=
  let '(w, ia, obs) := c in
  res_eqb (multiset_eqb path_eqb) (get_component_dirs w ia) obs.

(* (import root tree, dotted name, file found by importlib's PathFinder relative to the root) *)
Definition find_case := (fs * str * option path)%type.
Definition check_find (c : find_case) : bool :=
  let '(root, name, obs) := c in
  match root with
  | Dir es => option_eqb path_eqb (py_find es (split_dot name)) obs
  | File => false
  end.

(* one generated sandbox with all the queries made against it:
   get_component_files(suffix), get_component_dirs(include_apps), import lookups (root dir, name),
   the known-finding trigger as decided by the harness on relative paths of the tree, and - when the sandbox was
   really imported and no import raised - the list autodiscover() returned *)
Definition world_case :=
  (world * list (option str * res (list entry)) * list (bool * res (list path))
   * list (path * str * option path) * list (path * bool) * option (list str))%type.
Definition check_world (c : world_case) : bool :=
  let '(w, fq, dq, iq, tq, aq) := c in
  forallb (fun q => check_files (w, fst q, snd q)) fq &&
  forallb (fun q => check_dirs (w, fst q, snd q)) dq &&
  forallb (fun q => let '(r, name, obs) := q in check_find (tree_at (w_root w) r, name, obs)) iq &&
  forallb (fun q => Bool.eqb (dotted_trigger (fst q)) (snd q)) tq &&
  match aq with
  | None => true
  | Some names => res_eqb (multiset_eqb str_eqb) (autodiscover w) (Ok names)
  end.
