(* C20 - lemmas about Discover/Model.v *)
From DJC Require Import Lib.Base Discover.Model.

(* ================================================================================== *)
(* generic list / string facts                                                        *)
(* ================================================================================== *)
Lemma starts_with_iff p s : starts_with p s = true <-> exists t, s = p ++ t.
Proof.
  revert s; induction p as [|x p IH]; intros s; simpl.
  - split; [intros _; exists s; reflexivity | reflexivity].
  - destruct s as [|y s]; simpl.
    + split; [discriminate | intros [t H]; discriminate].
    + rewrite andb_true_iff, N.eqb_eq, IH. split.
      * intros [-> [t ->]]. exists t; reflexivity.
      * intros [t H]. inversion H; subst. split; [reflexivity | exists t; reflexivity].
Qed.

Lemma has_suffix_iff suf n : has_suffix suf n = true <-> exists a, n = a ++ suf.
Proof.
  unfold has_suffix. rewrite starts_with_iff. split.
  - intros [t H]. exists (rev t). apply (f_equal (@rev N)) in H.
    rewrite rev_involutive, rev_app_distr, rev_involutive in H. exact H.
  - intros [a ->]. exists (rev a). apply rev_app_distr.
Qed.

Lemma has_suffix_nil n : has_suffix [] n = true.
Proof. apply has_suffix_iff. exists n. symmetry; apply app_nil_r. Qed.

Lemma path_eqb_eq a b : path_eqb a b = true <-> a = b.
Proof.
  unfold path_eqb. revert b; induction a as [|x a IH]; intros [|y b]; simpl; split; intro H;
    try reflexivity; try discriminate.
  - apply andb_true_iff in H as [H1 H2]. apply str_eqb_eq in H1. apply IH in H2. congruence.
  - inversion H; subst. rewrite str_eqb_refl. simpl. apply IH. reflexivity.
Qed.

Lemma mem_path_In p l : mem_path p l = true <-> In p l.
Proof.
  induction l as [|q l IH]; simpl.
  - split; [discriminate | tauto].
  - rewrite orb_true_iff, path_eqb_eq, IH. split; intros [H|H]; auto.
Qed.

Lemma last_cons_ne {A} (x : A) l d : l <> [] -> last (x :: l) d = last l d.
Proof. destruct l; [congruence | reflexivity]. Qed.

Lemma removelast_cons_ne {A} (x : A) l : l <> [] -> removelast (x :: l) = x :: removelast l.
Proof. destruct l; [congruence | reflexivity]. Qed.

Lemma NoDup_app_intro {A} (a b : list A) :
  NoDup a -> NoDup b -> (forall x, In x a -> In x b -> False) -> NoDup (a ++ b).
Proof.
  induction a as [|x a IH]; simpl; intros Ha Hb Hd; [exact Hb|].
  inversion Ha; subst. constructor.
  - rewrite in_app_iff. intros [H|H]; [contradiction | eapply Hd; [left; reflexivity | exact H]].
  - apply IH; auto. intros y Hy. apply Hd. right; exact Hy.
Qed.

Lemma NoDup_app_l {A} (a b : list A) : NoDup (a ++ b) -> NoDup a.
Proof.
  induction a as [|x a IH]; simpl; intros H; [constructor|].
  inversion H; subst. constructor; [rewrite in_app_iff in *; tauto | auto].
Qed.

Lemma NoDup_map_cons {A} (x : A) (l : list (list A)) : NoDup l -> NoDup (map (cons x) l).
Proof.
  induction 1 as [|y l Hn Hl IH]; simpl; constructor; auto.
  rewrite in_map_iff. intros [z [Hz Hin]]. inversion Hz; subst. contradiction.
Qed.

Lemma NoDup_map_app {A} (d : list A) (l : list (list A)) : NoDup l -> NoDup (map (app d) l).
Proof.
  induction 1 as [|y l Hn Hl IH]; simpl; constructor; auto.
  rewrite in_map_iff. intros [z [Hz Hin]]. apply app_inv_head in Hz. subst. contradiction.
Qed.

(* ================================================================================== *)
(* A. the recursive glob walk                                                         *)
(* ================================================================================== *)
Section fs_induction.
  Variable P : fs -> Prop.
  Hypothesis HF : P File.
  Hypothesis HD : forall es, Forall (fun e => P (snd e)) es -> P (Dir es).
  Fixpoint fs_ind' (f : fs) : P f :=
    match f with
    | File => HF
    | Dir es => HD es ((fix go (es : list (str * fs)) : Forall (fun e => P (snd e)) es :=
                          match es with
                          | [] => Forall_nil _
                          | e :: r => Forall_cons e (fs_ind' (snd e)) (go r)
                          end) es)
    end.
End fs_induction.

(* p leads from f to the node c *)
Inductive reaches : fs -> list str -> fs -> Prop :=
| reach_nil f : reaches f [] f
| reach_cons es n c p f : In (n, c) es -> reaches c p f -> reaches (Dir es) (n :: p) f.

Definition visible (p : list str) : Prop := Forall (fun n => hidden n = false) p.

(* what glob matches: a non-empty path without hidden component whose last component has the suffix *)
Definition glob_ok (suf : str) (p : list str) : Prop :=
  p <> [] /\ visible p /\ has_suffix suf (last p []) = true.

Definition glob_es (suf : str) (es : list (str * fs)) : list (list str) := glob_fs suf (Dir es).

Lemma glob_es_cons suf n c r :
  glob_es suf ((n, c) :: r) =
  (if hidden n then [] else (if has_suffix suf n then [[n]] else []) ++ map (cons n) (glob_fs suf c))
  ++ glob_es suf r.
Proof. reflexivity. Qed.

Lemma reaches_weaken e es p c : reaches (Dir es) p c -> p <> [] -> reaches (Dir (e :: es)) p c.
Proof.
  intros H Hp. inversion H; subst; [congruence|].
  econstructor; [right; eassumption | assumption].
Qed.

Lemma glob_es_spec suf es :
  Forall (fun e => forall p, In p (glob_fs suf (snd e)) <-> (exists c, reaches (snd e) p c) /\ glob_ok suf p) es ->
  forall p, In p (glob_es suf es) <-> (exists c, reaches (Dir es) p c) /\ glob_ok suf p.
Proof.
  induction 1 as [|[n c] r Hc Hr IH]; intros p.
  - unfold glob_es; simpl. split; [tauto|].
    intros [[c H] [Hne _]]. inversion H; subst; [congruence | contradiction].
  - rewrite glob_es_cons, in_app_iff, IH. simpl in Hc. split.
    + intros [Hin | [[c' Hr'] Hok]].
      * destruct (hidden n) eqn:Hh; [contradiction|].
        apply in_app_iff in Hin as [Hin|Hin].
        -- destruct (has_suffix suf n) eqn:Hs; [|contradiction].
           destruct Hin as [<-|[]]. split.
           ++ exists c. econstructor; [left; reflexivity | constructor].
           ++ split; [discriminate|]. split; [repeat constructor; exact Hh | exact Hs].
        -- apply in_map_iff in Hin as [q [<- Hq]]. apply Hc in Hq as [[c' Hq] [Hne [Hv Hs]]]. split.
           ++ exists c'. econstructor; [left; reflexivity | exact Hq].
           ++ split; [discriminate|]. split; [constructor; assumption|].
              rewrite last_cons_ne by assumption. exact Hs.
      * split; [|exact Hok]. exists c'. apply reaches_weaken; [exact Hr' | apply Hok].
    + intros [[c' Hr'] Hok]. destruct Hok as [Hne [Hv Hs]].
      inversion Hr' as [|es0 m d q f0 Hin Hq]; subst; [congruence|].
      destruct Hin as [Heq|Hin].
      * inversion Heq; subst m d. left. inversion Hv; subst.
        match goal with H : hidden n = false |- _ => rewrite H end.
        apply in_app_iff. destruct q as [|q0 q'].
        -- left. simpl in Hs. rewrite Hs. left; reflexivity.
        -- right. apply in_map. apply Hc. split; [exists c'; exact Hq|].
           split; [discriminate|]. split; [assumption|].
           rewrite last_cons_ne in Hs by discriminate. exact Hs.
      * right. split; [|repeat split; assumption]. exists c'. econstructor; eassumption.
Qed.

Lemma glob_spec_lemma suf f p :
  In p (glob_fs suf f) <-> (exists c, reaches f p c) /\ glob_ok suf p.
Proof.
  revert p. induction f as [|es IH] using fs_ind'; intros p.
  - simpl. split; [tauto|]. intros [[c H] [Hne _]]. inversion H; subst. congruence.
  - apply (glob_es_spec suf es IH).
Qed.

Lemma glob_nonempty suf f p : In p (glob_fs suf f) -> p <> [].
Proof. intros H. apply glob_spec_lemma in H. apply H. Qed.

(* ================================================================================== *)
(* B. the underscore filter of _search_dirs                                            *)
(* ================================================================================== *)
Definition public_rel (p : list str) : Prop :=
  Forall (fun n => underscored n = false) (removelast p) /\
  (underscored (last p []) = false \/ last p [] = INIT_PY).

Lemma rev_last_removelast {A} (p : list A) d : p <> [] -> rev p = last p d :: rev (removelast p).
Proof.
  intros Hp. rewrite (app_removelast_last d Hp) at 1. rewrite rev_app_distr. reflexivity.
Qed.

Lemma existsb_false_Forall {A} (f : A -> bool) l : existsb f l = false <-> Forall (fun x => f x = false) l.
Proof.
  induction l as [|x l IH]; simpl.
  - split; constructor.
  - rewrite orb_false_iff, IH. split.
    + intros [H1 H2]. constructor; assumption.
    + intros H. inversion H; subst. split; assumption.
Qed.

Lemma Forall_rev_iff {A} (P : A -> Prop) l : Forall P (rev l) <-> Forall P l.
Proof.
  split; intros H.
  - rewrite <- (rev_involutive l). apply Forall_rev. exact H.
  - apply Forall_rev. exact H.
Qed.

Lemma keep_b_iff p : keep_b p = true <-> p <> [] /\ public_rel p.
Proof.
  unfold keep_b, public_rel. destruct p as [|x p'] eqn:E.
  - simpl. split; [discriminate | intros [H _]; congruence].
  - rewrite <- E. assert (Hp : p <> []) by (subst; discriminate).
    rewrite (rev_last_removelast p [] Hp).
    rewrite andb_true_iff, negb_true_iff, existsb_false_Forall, Forall_rev_iff.
    rewrite orb_true_iff, negb_true_iff, str_eqb_eq. tauto.
Qed.

Lemma keep_parts_ok p : p <> [] -> keep_parts p = Ok (keep_b p).
Proof.
  intros Hp. unfold keep_parts, keep_b. rewrite (rev_last_removelast p [] Hp). reflexivity.
Qed.

Lemma filter_res_ok {A} (k : A -> res bool) (kb : A -> bool) l :
  (forall x, In x l -> k x = Ok (kb x)) -> filter_res k l = Ok (filter kb l).
Proof.
  induction l as [|x l IH]; simpl; intros H; [reflexivity|].
  rewrite (H x) by (left; reflexivity). simpl. rewrite IH by (intros; apply H; right; assumption).
  simpl. destruct (kb x); reflexivity.
Qed.

(* rel_dir_parts.pop() never raises IndexError: glob never yields the directory itself *)
Lemma search_dir_ok_lemma suf f : search_dir suf f = Ok (selected suf f).
Proof.
  unfold search_dir, selected. apply filter_res_ok. intros p Hp. unfold search_step.
  destruct (is_file_at f p); [|reflexivity]. simpl.
  apply keep_parts_ok. eapply glob_nonempty; eassumption.
Qed.

(* [node_at] (look a path up, as stat does) against [reaches] (some chain of entries) *)
Lemma lookup_In es n c : lookup es n = Some c -> In (n, c) es.
Proof.
  induction es as [|[m d] r IH]; simpl; intros H; [discriminate|].
  destruct (str_eqb n m) eqn:E.
  - apply str_eqb_eq in E. inversion H; subst. left; reflexivity.
  - right. apply IH. exact H.
Qed.

Lemma node_at_reaches : forall p f c, node_at f p = Some c -> reaches f p c.
Proof.
  induction p as [|n p IH]; intros f c H; simpl in H.
  - inversion H; subst. constructor.
  - destruct f as [|es]; [discriminate|]. destruct (lookup es n) as [d|] eqn:El; [|discriminate].
    econstructor; [apply lookup_In; exact El | apply IH; exact H].
Qed.

Lemma is_file_at_iff f p : is_file_at f p = true <-> node_at f p = Some File.
Proof.
  unfold is_file_at. destruct (node_at f p) as [[|es]|]; split; intros H; try reflexivity; try discriminate.
Qed.

(* THE SELECTION THEOREM, every tree, every suffix: returned <-> the path is a file, it is non-hidden and
   has the suffix, and it is public. *)
Lemma selected_iff_lemma suf f p :
  In p (selected suf f) <-> node_at f p = Some File /\ glob_ok suf p /\ public_rel p.
Proof.
  unfold selected. rewrite filter_In, glob_spec_lemma, andb_true_iff, is_file_at_iff, keep_b_iff. split.
  - intros [[_ Hok] [Hf [_ Hpub]]]. auto.
  - intros [Hf [Hok Hpub]]. split; [split; [exists File; apply node_at_reaches; exact Hf | exact Hok]|].
    split; [exact Hf|]. split; [apply Hok | exact Hpub].
Qed.

(* in particular: never a directory (the defect fixed by faed18b, as a theorem) *)
Lemma selected_never_dir_lemma suf f p es : In p (selected suf f) -> node_at f p <> Some (Dir es).
Proof. intros H. apply selected_iff_lemma in H as [H _]. rewrite H. discriminate. Qed.

(* ================================================================================== *)
(* C. each file once                                                                   *)
(* ================================================================================== *)
(* well-formed tree: names are unique inside every directory (true of any file system) *)
Fixpoint wf (f : fs) : Prop :=
  match f with
  | File => True
  | Dir es => NoDup (map fst es) /\
      (fix all (es : list (str * fs)) : Prop :=
         match es with [] => True | e :: r => wf (snd e) /\ all r end) es
  end.

Lemma wf_cons n c r : wf (Dir ((n, c) :: r)) <-> ~ In n (map fst r) /\ wf c /\ wf (Dir r).
Proof. simpl. rewrite NoDup_cons_iff. tauto. Qed.

Lemma glob_es_head suf es p : In p (glob_es suf es) -> exists m q, p = m :: q /\ In m (map fst es).
Proof.
  intros H. apply glob_spec_lemma in H as [[c Hr] [Hne _]].
  inversion Hr as [|es0 n d q f0 Hin Hq]; subst; [congruence|].
  exists n, q. split; [reflexivity|]. apply (in_map fst) in Hin. exact Hin.
Qed.

Lemma NoDup_glob_es suf es :
  Forall (fun e => wf (snd e) -> NoDup (glob_fs suf (snd e))) es ->
  wf (Dir es) -> NoDup (glob_es suf es).
Proof.
  induction 1 as [|[n c] r Hc Hr IH]; intros Hwf.
  - constructor.
  - apply wf_cons in Hwf as [Hn [Hwc Hwr]]. simpl in Hc. rewrite glob_es_cons.
    apply NoDup_app_intro.
    + destruct (hidden n); [constructor|]. apply NoDup_app_intro.
      * destruct (has_suffix suf n); repeat constructor. simpl; tauto.
      * apply NoDup_map_cons. auto.
      * intros x Hx1 Hx2. destruct (has_suffix suf n); [|contradiction].
        destruct Hx1 as [<-|[]]. apply in_map_iff in Hx2 as [q [Hq Hin]].
        inversion Hq; subst. eapply glob_nonempty; [exact Hin | reflexivity].
    + auto.
    + intros x Hx1 Hx2. apply glob_es_head in Hx2 as [m [q [-> Hm]]].
      destruct (hidden n); [contradiction|]. apply in_app_iff in Hx1 as [Hx1|Hx1].
      * destruct (has_suffix suf n); [|contradiction]. destruct Hx1 as [Hx1|[]]. inversion Hx1; subst. contradiction.
      * apply in_map_iff in Hx1 as [q' [Hq' _]]. inversion Hq'; subst. contradiction.
Qed.

Lemma NoDup_glob suf f : wf f -> NoDup (glob_fs suf f).
Proof.
  induction f as [|es IH] using fs_ind'; intros Hwf.
  - constructor.
  - apply (NoDup_glob_es suf es IH Hwf).
Qed.

Lemma each_once_in_dir_lemma suf f : wf f -> NoDup (selected suf f).
Proof. intros H. unfold selected. apply NoDup_filter. apply NoDup_glob. exact H. Qed.

(* on a well-formed tree [reaches] and [node_at] coincide, so the selection theorem can be read with either *)
Lemma In_lookup_wf es n c : NoDup (map fst es) -> In (n, c) es -> lookup es n = Some c.
Proof.
  induction es as [|[m d] r IH]; simpl; intros Hnd Hin; [contradiction|].
  inversion Hnd as [|? ? Hnot Hnd']; subst. destruct Hin as [Heq|Hin].
  - inversion Heq; subst. rewrite str_eqb_refl. reflexivity.
  - destruct (str_eqb n m) eqn:E.
    + apply str_eqb_eq in E. subst. exfalso. apply Hnot. apply (in_map fst) in Hin. exact Hin.
    + apply IH; assumption.
Qed.

(* ---- the whole of get_component_files ---- *)
Lemma wf_lookup es n c : wf (Dir es) -> lookup es n = Some c -> wf c.
Proof.
  induction es as [|[m d] r IH]; simpl lookup; intros Hwf Hl; [discriminate|].
  apply wf_cons in Hwf as [_ [Hd Hr]].
  destruct (str_eqb n m); [inversion Hl; subst; exact Hd | apply IH; assumption].
Qed.

Lemma wf_node_at root d f : wf root -> node_at root d = Some f -> wf f.
Proof.
  revert root; induction d as [|n d IH]; intros root Hwf H; simpl in H.
  - inversion H; subst; exact Hwf.
  - destruct root as [|es]; [discriminate|].
    destruct (lookup es n) as [c|] eqn:Hl; [|discriminate].
    eapply IH; [eapply wf_lookup; eassumption | exact H].
Qed.

Lemma wf_tree_at root d : wf root -> wf (tree_at root d).
Proof.
  intros H. unfold tree_at. destruct (node_at root d) eqn:E; [eapply wf_node_at; eassumption | exact I].
Qed.

Lemma reaches_node_at_wf f p c : wf f -> reaches f p c -> node_at f p = Some c.
Proof.
  intros Hwf Hr. induction Hr as [f|es n c p f Hin Hr IH]; [reflexivity|].
  pose proof Hwf as Hwf'. simpl in Hwf'. destruct Hwf' as [Hnd _].
  simpl. rewrite (In_lookup_wf es n c Hnd Hin). apply IH.
  eapply wf_lookup; [exact Hwf | apply In_lookup_wf; eassumption].
Qed.

Lemma selected_iff_reaches_lemma suf f p :
  wf f -> (In p (selected suf f) <-> reaches f p File /\ glob_ok suf p /\ public_rel p).
Proof.
  intros Hwf. rewrite selected_iff_lemma. split; intros [H1 H2]; split; auto.
  - apply node_at_reaches; exact H1.
  - apply reaches_node_at_wf; assumption.
Qed.

Definition files_below (root : fs) (suf : str) (d : list str) : list (list str) :=
  map (app d) (selected suf (tree_at root d)).

Lemma found_in_ok root suf d : found_in root suf d = Ok (files_below root suf d).
Proof. unfold found_in. rewrite search_dir_ok_lemma. reflexivity. Qed.

Lemma map_res_ok {A B} (k : A -> res B) (g : A -> B) l :
  (forall x, In x l -> k x = Ok (g x)) -> map_res k l = Ok (map g l).
Proof.
  induction l as [|x l IH]; simpl; intros H; [reflexivity|].
  rewrite (H x) by (left; reflexivity). simpl. rewrite IH by (intros; apply H; right; assumption).
  reflexivity.
Qed.

Definition kept_by_dotdot (base : list str) (fp : list str) : bool :=
  match dir_entry_of base fp with Ok (Some _) => true | _ => false end.

Lemma dir_entries_snd base fps es :
  map_res (dir_entry_of base) fps = Ok es -> map snd (somes es) = filter (kept_by_dotdot base) fps.
Proof.
  revert es; induction fps as [|x r IH]; simpl; intros es H.
  - inversion H; reflexivity.
  - unfold kept_by_dotdot at 1. destruct (dir_entry_of base x) as [o|e] eqn:E; simpl in H; [|discriminate].
    destruct (map_res (dir_entry_of base) r) as [r'|e] eqn:E2; simpl in H; [|discriminate].
    inversion H; subst es. specialize (IH r' eq_refl).
    destruct o as [en|]; simpl; [|exact IH]. rewrite IH. f_equal.
    unfold dir_entry_of in E. destruct (strip_prefix base x); [|discriminate].
    destruct (contains DOTDOT (module_path None l)); inversion E; reflexivity.
Qed.

Definition src_dir (s : str * list str * list str) : list str := snd (fst s) ++ snd s.

Definition app_entries_of (root : fs) (suf : str) (s : str * list str * list str) : list entry :=
  map (fun p => (module_path (Some (fst (fst s))) (snd s ++ p), snd (fst s) ++ snd s ++ p))
      (selected suf (tree_at root (src_dir s))).

Lemma app_entries_ok root suf s : app_entries root suf s = Ok (app_entries_of root suf s).
Proof.
  destruct s as [[name apath] ad]. unfold app_entries, app_entries_of, src_dir. simpl.
  rewrite search_dir_ok_lemma. reflexivity.
Qed.

Lemma app_entries_snd root suf s : map snd (app_entries_of root suf s) = files_below root suf (src_dir s).
Proof.
  unfold app_entries_of, files_below. rewrite map_map. apply map_ext. intros p. simpl.
  unfold src_dir. rewrite app_assoc. reflexivity.
Qed.

(* shape of the result: the files of the configured dirs that survive the ".." filter, then the apps' files *)
Lemma files_shape w suffix l :
  get_component_files w suffix = Ok l ->
  exists dirs es1,
    get_component_dirs w false = Ok dirs /\
    map_res (dir_entry_of (w_base w)) (flat_map (files_below (w_root w) (suffix_of suffix)) dirs) = Ok es1 /\
    l = somes es1 ++ flat_map (app_entries_of (w_root w) (suffix_of suffix)) (app_sources w).
Proof.
  unfold get_component_files. intros H.
  destruct (get_component_dirs w false) as [dirs|e] eqn:Ed; simpl in H; [|discriminate].
  rewrite (map_res_ok _ (files_below (w_root w) (suffix_of suffix))) in H by (intros; apply found_in_ok).
  simpl in H. rewrite <- flat_map_concat_map in H.
  destruct (map_res (dir_entry_of (w_base w)) _) as [es1|e] eqn:E1; simpl in H; [|discriminate].
  rewrite (map_res_ok _ (app_entries_of (w_root w) (suffix_of suffix))) in H by (intros; apply app_entries_ok).
  simpl in H. rewrite <- flat_map_concat_map in H. inversion H; subst l.
  exists dirs, es1. auto.
Qed.

Definition is_prefix (a b : list str) : Prop := exists t, b = a ++ t.

(* no source directory equals or contains another one *)
Fixpoint independent (l : list (list str)) : Prop :=
  match l with
  | [] => True
  | d :: r => (forall d', In d' r -> ~ is_prefix d d' /\ ~ is_prefix d' d) /\ independent r
  end.

Lemma app_eq_prefix (a b p q : list str) : a ++ p = b ++ q -> is_prefix a b \/ is_prefix b a.
Proof.
  revert b; induction a as [|x a IH]; intros b H.
  - left. exists b. reflexivity.
  - destruct b as [|y b].
    + right. exists (x :: a). reflexivity.
    + simpl in H. inversion H; subst. destruct (IH b H2) as [[t ->]|[t ->]].
      * left. exists t. reflexivity.
      * right. exists t. reflexivity.
Qed.

Lemma NoDup_sources root suf srcs :
  wf root -> independent srcs -> NoDup (flat_map (files_below root suf) srcs).
Proof.
  intros Hwf. induction srcs as [|d r IH]; simpl; intros Hi; [constructor|].
  destruct Hi as [Hd Hr]. apply NoDup_app_intro.
  - unfold files_below. apply NoDup_map_app. apply each_once_in_dir_lemma. apply wf_tree_at. exact Hwf.
  - auto.
  - intros x Hx1 Hx2. unfold files_below in Hx1. apply in_map_iff in Hx1 as [p [<- _]].
    apply in_flat_map in Hx2 as [d' [Hd' Hx2]]. unfold files_below in Hx2.
    apply in_map_iff in Hx2 as [p' [Heq _]].
    destruct (Hd d' Hd') as [H1 H2]. symmetry in Heq. destruct (app_eq_prefix _ _ _ _ Heq); contradiction.
Qed.

Lemma NoDup_filter_app {A} (g : A -> bool) (a b : list A) : NoDup (a ++ b) -> NoDup (filter g a ++ b).
Proof.
  induction a as [|x a IH]; simpl; intros H; [exact H|].
  inversion H; subst. destruct (g x); [|auto]. simpl. constructor; [|auto].
  rewrite in_app_iff in *. rewrite filter_In. tauto.
Qed.

Lemma app_sources_snd root suf srcs :
  map snd (flat_map (app_entries_of root suf) srcs) = flat_map (files_below root suf) (map src_dir srcs).
Proof.
  induction srcs as [|s r IH]; simpl; [reflexivity|].
  rewrite map_app, IH, app_entries_snd. reflexivity.
Qed.

Lemma each_once_lemma w suffix l dirs :
  get_component_files w suffix = Ok l ->
  get_component_dirs w false = Ok dirs ->
  wf (w_root w) ->
  independent (dirs ++ map src_dir (app_sources w)) ->
  NoDup (map snd l).
Proof.
  intros Hl Hd Hwf Hi. apply files_shape in Hl as [dirs' [es1 [Hd' [H1 ->]]]].
  rewrite Hd in Hd'. inversion Hd'; subst dirs'.
  rewrite map_app, (dir_entries_snd _ _ _ H1), app_sources_snd.
  apply NoDup_filter_app. rewrite <- flat_map_app. apply NoDup_sources; assumption.
Qed.

(* a dot path is also unique among the results of ONE directory: nothing to prove beyond the file -
   but two sources may produce the same file twice when they are nested (why [independent] is needed) *)
Lemma each_once_nested_refuted_lemma :
  exists w l, get_component_files w (Some PY) = Ok l /\ wf (w_root w) /\ ~ NoDup (map snd l).
Proof.
  pose (a := [97%N]). pose (b := [98%N]). pose (f := 120%N :: PY).
  exists {| w_root := Dir [(a, Dir [(b, Dir [(f, File)])])]; w_base := [];
            w_dirs := Some [RPlain (PAbs [a]); RPlain (PAbs [a; b])]; w_static := [];
            w_app_dirs := []; w_apps := [] |}.
  eexists. split; [vm_compute; reflexivity|]. split.
  - simpl. repeat split; repeat constructor; simpl; tauto.
  - intros H. inversion H as [|x l' Hn _]; subst. apply Hn. left; reflexivity.
Qed.

(* ---- get_component_dirs returns a set ---- *)
Lemma dedupe_In p l : In p (dedupe l) <-> In p l.
Proof.
  induction l as [|q l IH]; simpl; [tauto|].
  destruct (mem_path q l) eqn:E.
  - rewrite IH. split; [auto|]. intros [<-|H]; [apply mem_path_In; exact E | exact H].
  - simpl. rewrite IH. tauto.
Qed.

Lemma dedupe_NoDup l : NoDup (dedupe l).
Proof.
  induction l as [|q l IH]; simpl; [constructor|].
  destruct (mem_path q l) eqn:E; [exact IH|]. constructor; [|exact IH].
  rewrite dedupe_In. intros H. apply mem_path_In in H. congruence.
Qed.

Lemma component_dirs_distinct_lemma w ia ds : get_component_dirs w ia = Ok ds -> NoDup ds.
Proof.
  unfold get_component_dirs. destruct (valid_dirs (configured w)); simpl; intros H; [|discriminate].
  inversion H. apply dedupe_NoDup.
Qed.

(* ---- resolve(): the result does not depend on how a configured directory is spelled ---- *)
Definition plain_seg (s : str) : Prop := str_eqb s [DOT] = false /\ str_eqb s DOTDOT = false.

Lemma fold_segs_plain p : forall acc, Forall plain_seg p -> fold_segs acc p = rev acc ++ p.
Proof.
  induction p as [|s r IH]; intros acc H; simpl.
  - symmetry. apply app_nil_r.
  - inversion H as [|? ? [H1 H2] Hr]; subst. rewrite H1, H2, (IH _ Hr). simpl. rewrite <- app_assoc. reflexivity.
Qed.

Lemma Forall_tl {A} (P : A -> Prop) l : Forall P l -> Forall P (tl l).
Proof. intros H. destruct l; [exact H | inversion H; assumption]. Qed.

Lemma fold_segs_result_plain p : forall acc, Forall plain_seg acc -> Forall plain_seg (fold_segs acc p).
Proof.
  induction p as [|s r IH]; intros acc H; simpl.
  - apply Forall_rev. exact H.
  - destruct (str_eqb s [DOT]) eqn:E1; [apply IH; exact H|].
    destruct (str_eqb s DOTDOT) eqn:E2; [apply IH; apply Forall_tl; exact H|].
    apply IH. constructor; [split; assumption | exact H].
Qed.

(* a spelling without "." / ".." is left alone; the result of resolve() never contains them; idempotent *)
Lemma resolve_canonical_lemma p : Forall plain_seg p -> resolve_path p = p.
Proof. intros H. unfold resolve_path. rewrite fold_segs_plain by exact H. reflexivity. Qed.

Lemma resolve_plain_lemma p : Forall plain_seg (resolve_path p).
Proof. apply fold_segs_result_plain. constructor. Qed.

Lemma resolve_idem_lemma p : resolve_path (resolve_path p) = resolve_path p.
Proof. apply resolve_canonical_lemma. apply resolve_plain_lemma. Qed.

(* "." anywhere, and "x/.." for a proper name x anywhere, change nothing *)
Lemma fold_segs_app a b : forall acc, fold_segs acc (a ++ b) = fold_segs (rev (fold_segs acc a)) b.
Proof.
  induction a as [|s r IH]; intros acc; simpl.
  - rewrite rev_involutive. reflexivity.
  - destruct (str_eqb s [DOT]); [apply IH|]. destruct (str_eqb s DOTDOT); apply IH.
Qed.

Lemma resolve_dot_segment_lemma a b : resolve_path (a ++ [DOT] :: b) = resolve_path (a ++ b).
Proof. unfold resolve_path. rewrite !fold_segs_app. reflexivity. Qed.

Lemma resolve_updown_lemma a x b : plain_seg x -> resolve_path (a ++ x :: DOTDOT :: b) = resolve_path (a ++ b).
Proof.
  intros [H1 H2]. unfold resolve_path. rewrite !fold_segs_app. cbn [fold_segs]. rewrite H1, H2.
  change (str_eqb DOTDOT [DOT]) with false. change (str_eqb DOTDOT DOTDOT) with true. cbn iota. reflexivity.
Qed.

Lemma valid_dirs_canon l : valid_dirs (map canon_entry l) = valid_dirs l.
Proof.
  induction l as [|e r IH]; [reflexivity|]. cbn [map valid_dirs]. unfold canon_entry at 1. cbn [unwrap].
  destruct (unwrap e) as [p| |]; cbn [canon_pval]; rewrite ?IH, ?resolve_idem_lemma; reflexivity.
Qed.

Lemma configured_canon w : valid_dirs (configured (canon_world w)) = valid_dirs (configured w).
Proof.
  unfold configured, canon_world. cbn [w_dirs w_static w_base].
  destruct (w_dirs w) as [d|]; cbn [option_map].
  - apply valid_dirs_canon.
  - destruct (w_static w) as [|e r]; [reflexivity|]. apply (valid_dirs_canon (e :: r)).
Qed.

Lemma dirs_canon_lemma w ia : get_component_dirs (canon_world w) ia = get_component_dirs w ia.
Proof. unfold get_component_dirs. rewrite configured_canon. reflexivity. Qed.

Lemma files_canon_lemma w suffix : get_component_files (canon_world w) suffix = get_component_files w suffix.
Proof. unfold get_component_files. rewrite dirs_canon_lemma. reflexivity. Qed.

(* two configurations that differ only in the spelling of their directories ("."/".." segments, tuple or plain) *)
Definition same_but_spelling (w1 w2 : world) : Prop :=
  w_root w1 = w_root w2 /\ w_base w1 = w_base w2 /\ w_app_dirs w1 = w_app_dirs w2 /\ w_apps w1 = w_apps w2 /\
  option_map (map canon_entry) (w_dirs w1) = option_map (map canon_entry) (w_dirs w2) /\
  map canon_entry (w_static w1) = map canon_entry (w_static w2).

Lemma spelling_invariance_lemma w1 w2 :
  same_but_spelling w1 w2 ->
  (forall suffix, get_component_files w1 suffix = get_component_files w2 suffix) /\
  (forall ia, get_component_dirs w1 ia = get_component_dirs w2 ia).
Proof.
  intros [H1 [H2 [H3 [H4 [H5 H6]]]]].
  assert (E : canon_world w1 = canon_world w2) by (unfold canon_world; rewrite H1, H2, H3, H4, H5, H6; reflexivity).
  split; [intros suffix; rewrite <- (files_canon_lemma w1), <- (files_canon_lemma w2), E; reflexivity|].
  intros ia. rewrite <- (dirs_canon_lemma w1), <- (dirs_canon_lemma w2), E. reflexivity.
Qed.

(* ================================================================================== *)
(* D. the dot path                                                                    *)
(* ================================================================================== *)
Set Keyed Unification.
Definition dotfree (s : str) : Prop := ~ In DOT s.
Definition clean_part (s : str) : Prop := s <> [] /\ dotfree s.

Lemma dotfree_cons c s : dotfree (c :: s) <-> N.eqb c DOT = false /\ dotfree s.
Proof.
  unfold dotfree. simpl. rewrite N.eqb_neq. split.
  - intros H. split; [intros ->; apply H; left; reflexivity | intros H'; apply H; right; exact H'].
  - intros [H1 H2] [H|H]; [apply H1; exact H | apply H2; exact H].
Qed.

(* ---- str.split(".") after ".".join ---- *)
Lemma split_aux_nodot a : dotfree a -> forall rest acc,
  split_dot_aux (a ++ rest) acc = split_dot_aux rest (rev a ++ acc).
Proof.
  induction a as [|c a IH]; intros Hd rest acc; [reflexivity|].
  apply dotfree_cons in Hd as [Hc Hd]. simpl. rewrite Hc, (IH Hd).
  rewrite <- app_assoc. reflexivity.
Qed.

Lemma split_aux_dot r acc : split_dot_aux (DOT :: r) acc = rev acc :: split_dot_aux r [].
Proof. reflexivity. Qed.

Lemma split_join_aux parts : forall a acc, Forall dotfree (a :: parts) ->
  split_dot_aux (join_dot (a :: parts)) acc = (rev acc ++ a) :: parts.
Proof.
  induction parts as [|b r IH]; intros a acc H; inversion H as [|? ? Ha Hr]; subst.
  - simpl join_dot. rewrite <- (app_nil_r a) at 1. rewrite (split_aux_nodot a Ha). simpl.
    rewrite rev_app_distr, rev_involutive. reflexivity.
  - change (join_dot (a :: b :: r)) with (a ++ DOT :: join_dot (b :: r)).
    rewrite (split_aux_nodot a Ha), split_aux_dot.
    rewrite (IH b [] Hr). simpl app. rewrite rev_app_distr, rev_involutive. reflexivity.
Qed.

Lemma split_join parts : parts <> [] -> Forall dotfree parts -> split_dot (join_dot parts) = parts.
Proof.
  destruct parts as [|a r]; [congruence|]. intros _ H. unfold split_dot. rewrite split_join_aux by exact H.
  reflexivity.
Qed.

Lemma split_aux_nonempty s : forall acc, split_dot_aux s acc <> [].
Proof.
  induction s as [|c s IH]; intros acc; simpl; [discriminate|].
  destruct (N.eqb c DOT); [discriminate | apply IH].
Qed.

Lemma split_last x : dotfree x -> forall a acc, last (split_dot_aux (a ++ DOT :: x) acc) [] = x.
Proof.
  intros Hx. induction a as [|c a IH]; intros acc.
  - simpl app. rewrite split_aux_dot. rewrite <- (app_nil_r x) at 1. rewrite (split_aux_nodot x Hx). simpl.
    rewrite app_nil_r, rev_involutive. reflexivity.
  - simpl. destruct (N.eqb c DOT); [|apply IH].
    rewrite last_cons_ne by apply split_aux_nonempty. apply IH.
Qed.

(* ---- with_suffix("") ---- *)
Lemma take_nodot_app a r : dotfree a -> take_nodot (a ++ DOT :: r) = (a, DOT :: r).
Proof.
  induction a as [|c a IH]; intros Hd.
  - simpl. rewrite ?N.eqb_refl. reflexivity.
  - apply dotfree_cons in Hd as [Hc Hd]. simpl. rewrite Hc, (IH Hd). reflexivity.
Qed.

Lemma dotfree_rev a : dotfree a -> dotfree (rev a).
Proof. unfold dotfree. intros H Hin. apply H. apply in_rev. exact Hin. Qed.

Lemma strip_suffix_ext m e : m <> [] -> clean_part e -> strip_suffix (m ++ DOT :: e) = m.
Proof.
  intros Hm [He Hd]. unfold strip_suffix.
  replace (rev (m ++ DOT :: e)) with (rev e ++ DOT :: rev m)
    by (rewrite rev_app_distr; simpl; rewrite <- app_assoc; reflexivity).
  rewrite take_nodot_app by (apply dotfree_rev; exact Hd).
  destruct (rev e) as [|x xs] eqn:Ee.
  - exfalso. apply He. rewrite <- (rev_involutive e), Ee. reflexivity.
  - destruct (rev m) as [|y ys] eqn:Em.
    + exfalso. apply Hm. rewrite <- (rev_involutive m), Em. reflexivity.
    + rewrite <- Em. apply rev_involutive.
Qed.

Lemma module_parts_ext d m e : m <> [] -> clean_part e -> module_parts (d ++ [m ++ DOT :: e]) = d ++ [m].
Proof.
  intros Hm He. unfold module_parts. rewrite removelast_last, last_last, strip_suffix_ext by assumption.
  reflexivity.
Qed.

(* the file name without its final suffix, as a specification independent of strip_suffix:
   either the name has no dot at all, or it is stem "." ext with no dot in stem or ext *)
Definition stem_of (n s : str) : Prop :=
  (dotfree n /\ s = n) \/ (exists e, n = s ++ DOT :: e /\ clean_part s /\ clean_part e).

Lemma take_nodot_dotfree a : dotfree a -> take_nodot a = (a, []).
Proof.
  induction a as [|c a IH]; intros Hd; [reflexivity|].
  apply dotfree_cons in Hd as [Hc Hd]. simpl. rewrite Hc, (IH Hd). reflexivity.
Qed.

Lemma strip_suffix_stem n s : stem_of n s -> strip_suffix n = s.
Proof.
  intros [[Hd ->]|[e [-> [[Hs _] He]]]].
  - unfold strip_suffix. rewrite take_nodot_dotfree by (apply dotfree_rev; exact Hd).
    destruct (rev n); reflexivity.
  - apply strip_suffix_ext; assumption.
Qed.

Lemma module_parts_stem d n s : stem_of n s -> module_parts (d ++ [n]) = d ++ [s].
Proof.
  intros H. unfold module_parts. rewrite removelast_last, last_last, (strip_suffix_stem n s H). reflexivity.
Qed.

(* ---- the .__init__ strip ---- *)
Import Coq.Strings.String.StringSyntax.
Local Open Scope string_scope.
Definition INIT : str := Eval compute in s2n "__init__".
Local Close Scope string_scope.

Lemma join_dot_snoc d x : d <> [] -> join_dot (d ++ [x]) = join_dot d ++ DOT :: x.
Proof.
  induction d as [|a d IH]; [congruence|]. intros _. destruct d as [|b d].
  - reflexivity.
  - change (join_dot ((a :: b :: d) ++ [x])) with (a ++ DOT :: join_dot ((b :: d) ++ [x])).
    rewrite IH by discriminate. change (join_dot (a :: b :: d)) with (a ++ DOT :: join_dot (b :: d)).
    rewrite <- app_assoc. reflexivity.
Qed.

Lemma join_dot_app a b : a <> [] -> b <> [] -> join_dot (a ++ b) = join_dot a ++ DOT :: join_dot b.
Proof.
  intros Ha Hb. induction a as [|x a IH]; [congruence|]. destruct a as [|y a].
  - simpl. destruct b; [congruence | reflexivity].
  - change (join_dot ((x :: y :: a) ++ b)) with (x ++ DOT :: join_dot ((y :: a) ++ b)).
    rewrite IH by discriminate. change (join_dot (x :: y :: a)) with (x ++ DOT :: join_dot (y :: a)).
    rewrite <- app_assoc. reflexivity.
Qed.

Lemma init_dotfree : dotfree INIT.
Proof. unfold dotfree. vm_compute. intuition discriminate. Qed.

Lemma dot_init_suffix_last parts :
  parts <> [] -> Forall dotfree parts -> has_suffix DOT_INIT (join_dot parts) = true -> last parts [] = INIT.
Proof.
  intros Hne Hd Hs. apply has_suffix_iff in Hs as [a Ha].
  change DOT_INIT with (DOT :: INIT) in Ha.
  rewrite <- (split_join parts Hne Hd), Ha. unfold split_dot. apply split_last. apply init_dotfree.
Qed.

Lemma firstn_strip {A} (a b : list A) : firstn (length (a ++ b) - length b) (a ++ b) = a.
Proof.
  rewrite app_length. replace (length a + length b - length b) with (length a + 0) by lia.
  rewrite firstn_app_2. simpl. apply app_nil_r.
Qed.

(* the parts Python has to resolve: a trailing __init__ names the package itself *)
Definition drop_init (parts : list str) : list str :=
  if str_eqb (last parts []) INIT && Nat.leb 2 (length parts) then removelast parts else parts.

Definition import_parts (rel : list str) : list str := drop_init (module_parts rel).

Lemma clean_parts_dotfree l : Forall clean_part l -> Forall dotfree l.
Proof. apply Forall_impl. intros a [_ H]. exact H. Qed.

Lemma drop_init_snoc d s :
  drop_init (d ++ [s]) = (if str_eqb s INIT && negb (match d with [] => true | _ => false end) then d else d ++ [s]).
Proof.
  unfold drop_init. rewrite last_last, removelast_last, app_length. simpl length.
  destruct (str_eqb s INIT); [|reflexivity]. destruct d as [|a d']; [reflexivity|].
  replace (Nat.leb 2 (length (a :: d') + 1)) with true by (symmetry; apply Nat.leb_le; simpl; lia).
  reflexivity.
Qed.

Lemma module_path_cases d n s :
  Forall clean_part d -> clean_part s -> stem_of n s ->
  module_path None (d ++ [n]) = join_dot (drop_init (d ++ [s])).
Proof.
  intros Hd Hs Hn. unfold module_path. rewrite (module_parts_stem d n s Hn), drop_init_snoc.
  assert (Hall : Forall dotfree (d ++ [s])).
  { apply Forall_app. split; [apply clean_parts_dotfree; exact Hd | repeat constructor; apply Hs]. }
  unfold str in *.
  destruct (str_eqb s INIT) eqn:Em.
  - apply str_eqb_eq in Em. subst s. destruct d as [|a d'].
    + simpl. reflexivity.
    + simpl andb. rewrite join_dot_snoc by discriminate.
      change (DOT :: INIT) with DOT_INIT.
      replace (has_suffix DOT_INIT (join_dot (a :: d') ++ DOT_INIT)) with true
        by (symmetry; apply has_suffix_iff; eexists; reflexivity).
      change 9 with (length DOT_INIT). rewrite firstn_strip. reflexivity.
  - simpl andb. destruct (has_suffix DOT_INIT (join_dot (d ++ [s]))) eqn:Hsuf.
    + apply dot_init_suffix_last in Hsuf; [|destruct d; discriminate | exact Hall].
      rewrite last_last in Hsuf. subst s. rewrite str_eqb_refl in Em. discriminate.
    + reflexivity.
Qed.

Lemma drop_init_clean d s : Forall clean_part d -> clean_part s ->
  drop_init (d ++ [s]) <> [] /\ Forall clean_part (drop_init (d ++ [s])).
Proof.
  intros Hd Hs. rewrite drop_init_snoc. destruct (str_eqb s INIT && _) eqn:E.
  - split; [|exact Hd]. destruct d; [|discriminate]. rewrite andb_false_r in E. discriminate.
  - split; [destruct d; discriminate|]. apply Forall_app. split; [exact Hd | constructor; [exact Hs | constructor]].
Qed.

(* THE ROUND TRIP: str.split(".") of the dot path gives back the path components (extension removed, a
   trailing __init__ dropped) - for every path in which no component contains a '.' besides the suffix *)
Lemma dot_path_roundtrip_lemma d n s :
  Forall clean_part d -> clean_part s -> stem_of n s ->
  split_dot (module_path None (d ++ [n])) = drop_init (d ++ [s]).
Proof.
  intros Hd Hs Hn. rewrite (module_path_cases d n s Hd Hs Hn).
  destruct (drop_init_clean d s Hd Hs) as [Hne Hc].
  apply split_join; [exact Hne | apply clean_parts_dotfree; exact Hc].
Qed.

(* no guard at all is needed for __init__.py: d/__init__.py maps to the dotted name of the package d *)
Lemma init_maps_to_package_lemma d : d <> [] -> module_path None (d ++ [INIT_PY]) = join_dot d.
Proof.
  intros Hne. unfold module_path.
  assert (Hst : stem_of INIT_PY INIT).
  { right. exists [112%N; 121%N]. split; [reflexivity|]. split; split; try discriminate; [apply init_dotfree|].
    unfold dotfree. vm_compute. intuition discriminate. }
  rewrite (module_parts_stem d INIT_PY INIT Hst), join_dot_snoc by exact Hne.
  change (DOT :: INIT) with DOT_INIT.
  replace (has_suffix DOT_INIT (join_dot d ++ DOT_INIT)) with true
    by (symmetry; apply has_suffix_iff; eexists; reflexivity).
  change 9 with (length DOT_INIT). apply firstn_strip.
Qed.

(* ---- an app's files: the module path below the app's name = the module path from the package root ---- *)
Lemma last_app_ne {A} (a b : list A) d : b <> [] -> last (a ++ b) d = last b d.
Proof.
  intros Hb. induction a as [|x a IH]; [reflexivity|].
  simpl app. rewrite last_cons_ne; [exact IH | destruct a; destruct b; simpl; congruence].
Qed.

Lemma join_dot_nonempty a r : a <> [] -> join_dot (a :: r) <> [].
Proof. destruct a; [congruence|]. intros _. destruct r; simpl; discriminate. Qed.

Lemma app_module_path_lemma np rel :
  np <> [] -> hd [] np <> [] -> rel <> [] ->
  module_path (Some (join_dot np)) rel = module_path None (np ++ rel).
Proof.
  intros Hnp Hhd Hrel. unfold module_path.
  assert (Hmp : module_parts (np ++ rel) = np ++ module_parts rel).
  { unfold module_parts. rewrite removelast_app, last_app_ne by assumption. symmetry. apply app_assoc. }
  rewrite Hmp. rewrite join_dot_app; [|assumption | unfold module_parts; destruct (removelast rel); discriminate].
  destruct np as [|a r]; [congruence|]. simpl in Hhd.
  destruct (join_dot (a :: r)) eqn:E; [exfalso; eapply join_dot_nonempty; eassumption | reflexivity].
Qed.

(* ---- the ".." filter never fires on clean names ---- *)
Lemma contains_dotdot_cons c s :
  contains DOTDOT (c :: s) =
  (N.eqb c DOT && match s with d :: _ => N.eqb d DOT | [] => false end) || contains DOTDOT s.
Proof.
  unfold DOTDOT. cbn [contains starts_with]. rewrite (N.eqb_sym DOT c). destruct s as [|d s'].
  - cbn [starts_with]. reflexivity.
  - cbn [starts_with]. rewrite (N.eqb_sym DOT d), andb_true_r. reflexivity.
Qed.

Lemma contains_dotdot_nodot a s : dotfree a -> contains DOTDOT (a ++ s) = contains DOTDOT s.
Proof.
  induction a as [|c a IH]; intros Hd; [reflexivity|].
  apply dotfree_cons in Hd as [Hc Hd]. cbn [app]. rewrite contains_dotdot_cons, Hc. cbn [andb orb].
  apply IH. exact Hd.
Qed.

Lemma contains_dotdot_join parts : Forall clean_part parts -> contains DOTDOT (join_dot parts) = false.
Proof.
  induction parts as [|a r IH]; intros H; [reflexivity|]. inversion H as [|? ? [Hne Ha] Hr]; subst.
  destruct r as [|b r'].
  - cbn [join_dot]. rewrite <- (app_nil_r a). rewrite contains_dotdot_nodot by exact Ha. reflexivity.
  - change (join_dot (a :: b :: r')) with (a ++ DOT :: join_dot (b :: r')).
    rewrite contains_dotdot_nodot by exact Ha. specialize (IH Hr).
    inversion Hr as [|? ? [Hbne Hb] _]; subst. destruct b as [|c b']; [congruence|].
    apply dotfree_cons in Hb as [Hc _].
    assert (Hj : exists t, join_dot ((c :: b') :: r') = c :: t) by (destruct r'; simpl; eexists; reflexivity).
    destruct Hj as [t Hj]. rewrite Hj in *. rewrite contains_dotdot_cons, Hc, andb_false_r. exact IH.
Qed.

Lemma dotdot_filter_noop_lemma base d n s fp :
  strip_prefix base fp = Some (d ++ [n]) -> Forall clean_part d -> clean_part s -> stem_of n s ->
  dir_entry_of base fp = Ok (Some (module_path None (d ++ [n]), fp)).
Proof.
  intros Hp Hd Hs Hn. unfold dir_entry_of. rewrite Hp.
  rewrite (module_path_cases d n s Hd Hs Hn).
  rewrite contains_dotdot_join; [reflexivity|]. apply drop_init_clean; assumption.
Qed.

(* ---- the guard is exactly the negation of the recorded finding's input class ---- *)
Lemma has_dot_false_iff n : has_dot n = false <-> dotfree n.
Proof.
  unfold has_dot. induction n as [|c n IH].
  - simpl. split; [intros _ [] | reflexivity].
  - cbn [existsb]. rewrite orb_false_iff, IH, dotfree_cons, (N.eqb_sym DOT c). tauto.
Qed.

Lemma take_nodot_spec r : forall a b, take_nodot r = (a, b) ->
  r = a ++ b /\ dotfree a /\ (b = [] \/ exists b', b = DOT :: b').
Proof.
  induction r as [|c r IH]; intros a b H; simpl in H.
  - inversion H; subst. split; [reflexivity|]. split; [intros []|]. left; reflexivity.
  - destruct (N.eqb c DOT) eqn:Ec.
    + inversion H; subst. apply N.eqb_eq in Ec. subst c.
      split; [reflexivity|]. split; [intros []|]. right. eexists; reflexivity.
    + destruct (take_nodot r) as [a' b'] eqn:E. inversion H; subst.
      destruct (IH a' b eq_refl) as [Hr [Ha Hb]]. split; [simpl; congruence|].
      split; [apply dotfree_cons; split; assumption | exact Hb].
Qed.

Lemma rev_nonempty {A} (l : list A) : l <> [] -> rev l <> [].
Proof. intros H E. apply H. rewrite <- (rev_involutive l), E. reflexivity. Qed.

Lemma stem_exists n : n <> [] -> has_dot (strip_suffix n) = false -> exists s, clean_part s /\ stem_of n s.
Proof.
  intros Hn. unfold strip_suffix. destruct (take_nodot (rev n)) as [a b] eqn:E.
  apply take_nodot_spec in E as [Hr [Ha Hb]].
  assert (Hplain : has_dot n = false -> exists s, clean_part s /\ stem_of n s).
  { intros H. apply has_dot_false_iff in H. exists n. split; [split; assumption | left; split; [exact H | reflexivity]]. }
  destruct a as [|x a']; [exact Hplain|]. destruct b as [|y b']; [exact Hplain|].
  destruct b' as [|z b'']; [exact Hplain|]. intros H. apply has_dot_false_iff in H.
  destruct Hb as [Hb|[t Hb]]; [discriminate|]. inversion Hb; subst y t.
  assert (Hnn : n = rev (z :: b'') ++ DOT :: rev (x :: a')).
  { rewrite <- (rev_involutive n), Hr, rev_app_distr. change (DOT :: z :: b'') with ([DOT] ++ z :: b'').
    rewrite rev_app_distr, <- app_assoc. reflexivity. }
  exists (rev (z :: b'')). split; [split; [apply rev_nonempty; discriminate | exact H]|].
  right. exists (rev (x :: a')). split; [exact Hnn|]. split.
  - split; [apply rev_nonempty; discriminate | exact H].
  - split; [apply rev_nonempty; discriminate | apply dotfree_rev; exact Ha].
Qed.

(* no component of rel contains a '.' besides the final suffix (and rel names a file: non-empty names) *)
Definition no_interior_dot (rel : list str) : Prop :=
  Forall clean_part (removelast rel) /\ exists s, clean_part s /\ stem_of (last rel []) s.

Lemma Forall_removelast_last {A} (P : A -> Prop) (l : list A) d :
  l <> [] -> Forall P l -> Forall P (removelast l) /\ P (last l d).
Proof.
  intros Hne H. rewrite (app_removelast_last d Hne) in H. apply Forall_app in H as [H1 H2].
  split; [exact H1 | inversion H2; assumption].
Qed.

Lemma guard_is_negated_trigger_lemma rel :
  rel <> [] -> Forall (fun n : str => n <> []) rel ->
  (dotted_trigger rel = false <-> no_interior_dot rel).
Proof.
  intros Hne Hall. destruct (Forall_removelast_last _ rel [] Hne Hall) as [Hd Hn].
  unfold dotted_trigger, no_interior_dot. rewrite orb_false_iff, existsb_false_Forall. split.
  - intros [H1 H2]. split.
    + clear - H1 Hd. induction Hd as [|x l Hx Hl IH]; [constructor|].
      inversion H1; subst. constructor; [split; [exact Hx | apply has_dot_false_iff; assumption] | auto].
    + apply stem_exists; assumption.
  - intros [H1 [s [[Hs1 Hs2] Hst]]]. split.
    + eapply Forall_impl; [|exact H1]. intros a [_ Ha]. apply has_dot_false_iff. exact Ha.
    + rewrite (strip_suffix_stem _ s Hst). apply has_dot_false_iff. exact Hs2.
Qed.

(* ---- app files: the same round trip with the app's (dotted) name in front ---- *)
Lemma dot_path_roundtrip_app_lemma np d n s :
  np <> [] -> Forall clean_part np -> Forall clean_part d -> clean_part s -> stem_of n s ->
  split_dot (module_path (Some (join_dot np)) (d ++ [n])) = drop_init (np ++ d ++ [s]).
Proof.
  intros Hnp Hc Hd Hs Hn. rewrite app_module_path_lemma.
  - rewrite !app_assoc. apply dot_path_roundtrip_lemma; [apply Forall_app; split; assumption | exact Hs | exact Hn].
  - exact Hnp.
  - destruct np as [|a r]; [congruence|]. inversion Hc as [|? ? [Ha _] _]. exact Ha.
  - destruct d; discriminate.
Qed.

(* ================================================================================== *)
(* D'. get_component_files as a whole                                                  *)
(* ================================================================================== *)
Definition public_file (suf : str) (f : fs) (p : list str) : Prop :=
  node_at f p = Some File /\ glob_ok suf p /\ public_rel p.

Lemma in_files_below root suf d fp :
  In fp (files_below root suf d) <-> exists p, fp = d ++ p /\ public_file suf (tree_at root d) p.
Proof.
  unfold files_below, public_file. rewrite in_map_iff. split.
  - intros [p [<- Hp]]. exists p. split; [reflexivity | apply selected_iff_lemma; exact Hp].
  - intros [p [-> Hp]]. exists p. split; [reflexivity | apply selected_iff_lemma; exact Hp].
Qed.

(* the file paths get_component_files returns: the public files below every configured directory that
   survive the ".." filter, and the public files below every existing [app]/[app_dir] *)
Lemma files_returned_iff_lemma w suffix l dirs :
  get_component_files w suffix = Ok l -> get_component_dirs w false = Ok dirs ->
  forall fp, In fp (map snd l) <->
    (exists d p, In d dirs /\ fp = d ++ p /\ public_file (suffix_of suffix) (tree_at (w_root w) d) p /\
                 kept_by_dotdot (w_base w) fp = true)
    \/ (exists s p, In s (app_sources w) /\ fp = src_dir s ++ p /\
                    public_file (suffix_of suffix) (tree_at (w_root w) (src_dir s)) p).
Proof.
  intros Hl Hd fp. apply files_shape in Hl as [dirs' [es1 [Hd' [H1 ->]]]].
  rewrite Hd in Hd'. inversion Hd'; subst dirs'.
  rewrite map_app, in_app_iff, (dir_entries_snd _ _ _ H1), app_sources_snd, filter_In, !in_flat_map.
  split.
  - intros [[[d [Hdin Hfp]] Hk]|[sd [Hsd Hfp]]].
    + left. apply in_files_below in Hfp as [p [-> Hp]]. exists d, p. auto.
    + right. apply in_map_iff in Hsd as [s [<- Hs]]. apply in_files_below in Hfp as [p [-> Hp]]. exists s, p. auto.
  - intros [[d [p [Hdin [-> [Hp Hk]]]]]|[s [p [Hs [-> Hp]]]]].
    + left. split; [|exact Hk]. exists d. split; [exact Hdin | apply in_files_below; exists p; auto].
    + right. exists (src_dir s). split; [apply in_map; exact Hs | apply in_files_below; exists p; auto].
Qed.

(* under the guard the ".." filter removes nothing: exactly the public files of all source directories *)
Lemma files_exactly_public_lemma w suffix l dirs :
  get_component_files w suffix = Ok l -> get_component_dirs w false = Ok dirs ->
  (forall d p, In d dirs -> public_file (suffix_of suffix) (tree_at (w_root w) d) p ->
     exists rel, strip_prefix (w_base w) (d ++ p) = Some rel /\ no_interior_dot rel) ->
  forall fp, In fp (map snd l) <->
    exists src p, In src (dirs ++ map src_dir (app_sources w)) /\ fp = src ++ p /\
                  public_file (suffix_of suffix) (tree_at (w_root w) src) p.
Proof.
  intros Hl Hd Hguard fp. rewrite (files_returned_iff_lemma w suffix l dirs Hl Hd fp). split.
  - intros [[d [p [Hdin [-> [Hp _]]]]]|[s [p [Hs [-> Hp]]]]].
    + exists d, p. split; [apply in_app_iff; left; exact Hdin | auto].
    + exists (src_dir s), p. split; [apply in_app_iff; right; apply in_map; exact Hs | auto].
  - intros [src [p [Hin [-> Hp]]]]. apply in_app_iff in Hin as [Hin|Hin].
    + left. exists src, p. split; [exact Hin|]. split; [reflexivity|]. split; [exact Hp|].
      destruct (Hguard src p Hin Hp) as [rel [Hrel [Hdirs [s [Hs Hst]]]]].
      assert (Hne : rel <> []).
      { intros ->. simpl in Hst. destruct Hst as [[_ ->]|[e [He _]]]; [destruct Hs; congruence | destruct s; discriminate]. }
      rewrite (app_removelast_last [] Hne) in Hrel. unfold kept_by_dotdot.
      rewrite (dotdot_filter_noop_lemma _ _ _ s _ Hrel Hdirs Hs Hst). reflexivity.
    + right. apply in_map_iff in Hin as [s [<- Hs]]. exists s, p. auto.
Qed.

Lemma In_somes {A} (x : A) l : In x (somes l) <-> In (Some x) l.
Proof.
  induction l as [|[y|] l IH]; simpl; [tauto | |].
  - rewrite IH. split; intros [H|H]; auto; [left; congruence | inversion H; auto].
  - rewrite IH. split; [auto | intros [H|H]; [discriminate | exact H]].
Qed.

Lemma map_res_In {A B} (k : A -> res B) l : forall ys y,
  map_res k l = Ok ys -> In y ys -> exists x, In x l /\ k x = Ok y.
Proof.
  induction l as [|x l IH]; simpl; intros ys y H Hin.
  - inversion H; subst. contradiction.
  - destruct (k x) as [y0|] eqn:E; simpl in H; [|discriminate].
    destruct (map_res k l) as [r'|] eqn:E2; simpl in H; [|discriminate]. inversion H; subst.
    destruct Hin as [<-|Hin]; [exists x; auto|]. destruct (IH r' y eq_refl Hin) as [x' [H1 H2]]. exists x'; auto.
Qed.

(* and the dot path that comes with each returned file *)
Lemma entries_dot_path_lemma w suffix l dp fp :
  get_component_files w suffix = Ok l -> In (dp, fp) l ->
  (exists rel, strip_prefix (w_base w) fp = Some rel /\ dp = module_path None rel) \/
  (exists s p, In s (app_sources w) /\ fp = src_dir s ++ p /\ dp = module_path (Some (fst (fst s))) (snd s ++ p)).
Proof.
  intros Hl Hin. apply files_shape in Hl as [dirs [es1 [_ [H1 ->]]]]. apply in_app_iff in Hin as [Hin|Hin].
  - left. apply In_somes in Hin. destruct (map_res_In _ _ _ _ H1 Hin) as [x [_ Hx]].
    unfold dir_entry_of in Hx. destruct (strip_prefix (w_base w) x) as [rel|] eqn:E; [|discriminate].
    destruct (contains DOTDOT (module_path None rel)); inversion Hx; subst. exists rel. auto.
  - right. apply in_flat_map in Hin as [s [Hs Hin]]. unfold app_entries_of in Hin.
    apply in_map_iff in Hin as [p [Heq _]]. inversion Heq; subst. exists s, p.
    split; [exact Hs|]. split; [unfold src_dir; rewrite app_assoc; reflexivity | reflexivity].
Qed.

Lemma map_res_In_conv {A B} (k : A -> res B) l : forall ys x y,
  map_res k l = Ok ys -> In x l -> k x = Ok y -> In y ys.
Proof.
  induction l as [|x0 l IH]; simpl; intros ys x y H Hin Hk; [contradiction|].
  destruct (k x0) as [y0|] eqn:E; simpl in H; [|discriminate].
  destruct (map_res k l) as [r'|] eqn:E2; simpl in H; [|discriminate]. inversion H; subst.
  destruct Hin as [->|Hin]; [left; congruence | right; eapply IH; eauto].
Qed.

(* the ENTRIES of get_component_files, both components at once *)
Lemma entries_iff_lemma w suffix l dirs :
  get_component_files w suffix = Ok l -> get_component_dirs w false = Ok dirs ->
  forall dp fp, In (dp, fp) l <->
    (exists d p rel, In d dirs /\ fp = d ++ p /\ public_file (suffix_of suffix) (tree_at (w_root w) d) p /\
        strip_prefix (w_base w) fp = Some rel /\ contains DOTDOT (module_path None rel) = false /\
        dp = module_path None rel)
    \/ (exists s p, In s (app_sources w) /\ fp = src_dir s ++ p /\
        public_file (suffix_of suffix) (tree_at (w_root w) (src_dir s)) p /\
        dp = module_path (Some (fst (fst s))) (snd s ++ p)).
Proof.
  intros Hl Hd dp fp. apply files_shape in Hl as [dirs' [es1 [Hd' [H1 ->]]]].
  rewrite Hd in Hd'. inversion Hd'; subst dirs'. rewrite in_app_iff. split.
  - intros [Hin|Hin].
    + left. apply In_somes in Hin. destruct (map_res_In _ _ _ _ H1 Hin) as [x [Hx Hk]].
      apply in_flat_map in Hx as [d [Hdin Hx]]. apply in_files_below in Hx as [p [-> Hp]].
      unfold dir_entry_of in Hk. destruct (strip_prefix (w_base w) (d ++ p)) as [rel|] eqn:E; [|discriminate].
      destruct (contains DOTDOT (module_path None rel)) eqn:Ec; inversion Hk; subst.
      exists d, p, rel. auto 10.
    + right. apply in_flat_map in Hin as [s [Hs Hin]]. unfold app_entries_of in Hin.
      apply in_map_iff in Hin as [p [Heq Hp]]. inversion Heq; subst. exists s, p.
      split; [exact Hs|]. split; [unfold src_dir; rewrite app_assoc; reflexivity|].
      split; [apply selected_iff_lemma; exact Hp | reflexivity].
  - intros [[d [p [rel [Hdin [-> [Hp [Hrel [Hc ->]]]]]]]]|[s [p [Hs [-> [Hp ->]]]]]].
    + left. apply In_somes. eapply map_res_In_conv; [exact H1 | |].
      * apply in_flat_map. exists d. split; [exact Hdin | apply in_files_below; exists p; auto].
      * unfold dir_entry_of. rewrite Hrel, Hc. reflexivity.
    + right. apply in_flat_map. exists s. split; [exact Hs|]. unfold app_entries_of. apply in_map_iff.
      exists p. split; [unfold src_dir; rewrite <- app_assoc; reflexivity | apply selected_iff_lemma; exact Hp].
Qed.

(* autodiscover() imports exactly the dot paths of those entries: the selection rule is the ONLY filter, and it
   looks at the path below the component directory - never at the directories above it or at the app's name *)
Lemma autodiscover_iff_lemma w names dirs :
  autodiscover w = Ok names -> get_component_dirs w false = Ok dirs ->
  forall dp, In dp names <->
    (exists d p rel, In d dirs /\ public_file PY (tree_at (w_root w) d) p /\
        strip_prefix (w_base w) (d ++ p) = Some rel /\ contains DOTDOT (module_path None rel) = false /\
        dp = module_path None rel)
    \/ (exists s p, In s (app_sources w) /\ public_file PY (tree_at (w_root w) (src_dir s)) p /\
        dp = module_path (Some (fst (fst s))) (snd s ++ p)).
Proof.
  unfold autodiscover. intros Ha Hd dp.
  destruct (get_component_files w (Some PY)) as [l|e] eqn:El; simpl in Ha; [|discriminate].
  inversion Ha; subst names. rewrite in_map_iff. split.
  - intros [[dp' fp] [<- Hin]]. apply (entries_iff_lemma w (Some PY) l dirs El Hd) in Hin.
    destruct Hin as [[d [p [rel [H1 [-> [H3 [H4 [H5 H6]]]]]]]]|[s [p [H1 [-> [H3 H4]]]]]].
    + left. exists d, p, rel. auto 10.
    + right. exists s, p. auto.
  - intros [[d [p [rel [H1 [H3 [H4 [H5 ->]]]]]]]|[s [p [H1 [H3 ->]]]]].
    + exists (module_path None rel, d ++ p). split; [reflexivity|].
      apply (entries_iff_lemma w (Some PY) l dirs El Hd). left. exists d, p, rel. auto 10.
    + exists (module_path (Some (fst (fst s))) (snd s ++ p), src_dir s ++ p). split; [reflexivity|].
      apply (entries_iff_lemma w (Some PY) l dirs El Hd). right. exists s, p. auto.
Qed.

Lemma autodiscover_length_lemma w names l :
  autodiscover w = Ok names -> get_component_files w (Some PY) = Ok l -> names = map fst l.
Proof. unfold autodiscover. intros Ha Hl. rewrite Hl in Ha. simpl in Ha. inversion Ha. reflexivity. Qed.

(* ================================================================================== *)
(* E. the dot path is the import path (against the import-finder model py_find)        *)
(* ================================================================================== *)
(* d/m.py is importable as d.m from the directory [es]: every directory of d exists and is a package
   (regular, or a namespace package not shadowed by a module of the same name), m.py exists and is not
   shadowed by a regular package m/ *)
Fixpoint mod_ok (es : list (str * fs)) (d : list str) (m : str) : Prop :=
  match d with
  | [] => has_file es (m ++ PY) = true /\ (forall sub, lookup_dir es m = Some sub -> init_file sub = None)
  | n :: d' => exists sub, lookup_dir es n = Some sub /\
                 (init_file sub = None -> module_file es n = None) /\ mod_ok sub d' m
  end.

(* d/__init__.py is importable as d *)
Fixpoint pkg_ok (es : list (str * fs)) (d : list str) : Prop :=
  match d with
  | [] => False
  | n :: d' => exists sub, lookup_dir es n = Some sub /\
                 match d' with
                 | [] => has_file sub INIT_PY = true
                 | _ :: _ => (init_file sub = None -> module_file es n = None) /\ pkg_ok sub d'
                 end
  end.

Lemma py_find_step es c n r0 rest :
  py_find es ((c :: n) :: r0 :: rest) =
  match lookup_dir es (c :: n) with
  | Some sub =>
      match init_file sub with
      | Some _ => option_map (cons (c :: n)) (py_find sub (r0 :: rest))
      | None => match module_file es (c :: n) with
                | Some _ => None
                | None => option_map (cons (c :: n)) (py_find sub (r0 :: rest))
                end
      end
  | None => None
  end.
Proof. reflexivity. Qed.

Lemma py_find_module m : m <> [] -> forall d es,
  Forall (fun s : list N => s <> []) d -> mod_ok es d m -> py_find es (d ++ [m]) = Some (d ++ [m ++ PY]).
Proof.
  intros Hm. induction d as [|n d' IH]; intros es Hne Hok.
  - destruct m as [|c m']; [congruence|]. destruct Hok as [H1 H2]. cbn [app py_find].
    destruct (lookup_dir es (c :: m')) as [sub|] eqn:El.
    + rewrite (H2 sub eq_refl). unfold module_file. rewrite H1. reflexivity.
    + unfold module_file. rewrite H1. reflexivity.
  - inversion Hne as [|? ? Hn Hne']; subst. destruct n as [|c n']; [congruence|].
    destruct Hok as [sub [Hl [Hg Hok]]]. specialize (IH sub Hne' Hok).
    cbn [app]. remember (d' ++ [m]) as rest eqn:Er. destruct rest as [|r0 rest'].
    + symmetry in Er. apply app_eq_nil in Er as [_ Er]. discriminate.
    + rewrite py_find_step, Hl. destruct (init_file sub) eqn:Ei.
      * rewrite IH. reflexivity.
      * rewrite (Hg eq_refl). rewrite IH. reflexivity.
Qed.

Lemma py_find_package : forall d es,
  Forall (fun s : list N => s <> []) d -> pkg_ok es d -> py_find es d = Some (d ++ [INIT_PY]).
Proof.
  induction d as [|n d' IH]; intros es Hne Hok; [contradiction|].
  inversion Hne as [|? ? Hn Hne']; subst. destruct n as [|c n']; [congruence|].
  destruct Hok as [sub [Hl Hok]]. destruct d' as [|x d''].
  - cbn [py_find app]. rewrite Hl. unfold init_file. rewrite Hok. reflexivity.
  - destruct Hok as [Hg Hok]. specialize (IH sub Hne' Hok).
    rewrite py_find_step, Hl. destruct (init_file sub) eqn:Ei.
    + rewrite IH. reflexivity.
    + rewrite (Hg eq_refl). rewrite IH. reflexivity.
Qed.

Definition PYEXT : str := [112%N; 121%N].   (* "py" *)

Definition importable (es : list (str * fs)) (d : list str) (m : str) : Prop :=
  if str_eqb m INIT && negb (match d with [] => true | _ => false end) then pkg_ok es d else mod_ok es d m.

Lemma import_path_right_lemma es d m :
  Forall clean_part d -> clean_part m -> importable es d m ->
  py_find es (split_dot (module_path None (d ++ [m ++ PY]))) = Some (d ++ [m ++ PY]).
Proof.
  intros Hd Hm Hi.
  assert (Hst : stem_of (m ++ PY) m).
  { right. exists PYEXT. split; [reflexivity|]. split; [exact Hm|]. split; [discriminate|].
    unfold dotfree. vm_compute. intuition discriminate. }
  rewrite (dot_path_roundtrip_lemma d (m ++ PY) m Hd Hm Hst), drop_init_snoc. unfold importable in Hi.
  assert (Hne : Forall (fun s : list N => s <> []) d) by (eapply Forall_impl; [|exact Hd]; intros a [H _]; exact H).
  destruct (str_eqb m INIT && _) eqn:E.
  - apply andb_true_iff in E as [E _]. apply str_eqb_eq in E. subst m.
    change (INIT ++ PY) with INIT_PY. apply py_find_package; assumption.
  - apply py_find_module; [apply Hm | assumption | assumption].
Qed.

(* ---- witnesses: what the current code does on names outside the guards ---- *)
Local Open Scope string_scope.
Definition MY_COMP_PY : str := Eval compute in s2n "my.comp.py".
Definition AB_DD_CD_PY : str := Eval compute in s2n "ab..cd.py".
Definition COMPS : str := Eval compute in s2n "comps".
Local Close Scope string_scope.

(* a public file my.comp.py is returned, with a dot path that does not import it *)
Lemma dotted_name_refuted_lemma :
  exists es rel, In rel (selected PY (Dir es)) /\ node_at (Dir es) rel = Some File /\ dotted_trigger rel = true /\
                 py_find es (split_dot (module_path None rel)) <> Some rel.
Proof.
  exists [(MY_COMP_PY, File)], [MY_COMP_PY]. split; [|split; [|split]].
  - vm_compute. left; reflexivity.
  - reflexivity.
  - reflexivity.
  - vm_compute. discriminate.
Qed.

(* outside the guard the round trip fails: comps/my.comp.py has the dot path comps.my.comp *)
Lemma dot_path_roundtrip_refuted_lemma :
  exists d n, Forall clean_part d /\ n <> [] /\ dotted_trigger (d ++ [n]) = true /\
              split_dot (module_path None (d ++ [n])) <> drop_init (d ++ [strip_suffix n]).
Proof.
  exists [COMPS], MY_COMP_PY. split; [|split; [discriminate|split]].
  - repeat constructor; [discriminate|]. unfold dotfree. vm_compute. intuition discriminate.
  - vm_compute. reflexivity.
  - vm_compute. discriminate.
Qed.

(* a public, non-hidden file ab..cd.py below COMPONENTS.dirs is dropped by the ".." filter *)
Lemma dotdot_drops_public_file_refuted_lemma :
  exists w l d p, get_component_files w (Some PY) = Ok l /\ get_component_dirs w false = Ok [d] /\
    public_file PY (tree_at (w_root w) d) p /\ dotted_trigger (d ++ p) = true /\ ~ In (d ++ p) (map snd l).
Proof.
  exists {| w_root := Dir [(COMPS, Dir [(AB_DD_CD_PY, File)])]; w_base := [];
            w_dirs := Some [RPlain (PAbs [COMPS])]; w_static := []; w_app_dirs := []; w_apps := [] |}.
  exists [], [COMPS], [AB_DD_CD_PY]. split; [vm_compute; reflexivity|]. split; [vm_compute; reflexivity|].
  split; [|split].
  - split; [reflexivity|]. split.
    + split; [discriminate|]. split; [repeat constructor | reflexivity].
    + split; [constructor | left; reflexivity].
  - reflexivity.
  - simpl. tauto.
Qed.
