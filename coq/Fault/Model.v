(* Model for property C06 - a finished or failed render leaves nothing behind.

   M-model (mechanism): the bookkeeping of one top-level render, transliterated from
     component.py   Component._render / _render_impl (render_context.push/pop, gen_id, parent lookup in
                    component_context_cache, register_provide_reference, component_context_cache[id] = ...,
                    _with_metadata around get_context_data, post_render_callbacks[id] = on_component_rendered,
                    on_component_rendered: on_render_after, del component_context_cache[id],
                    unregister_provide_reference), _gen_component_renderer.renderer (_with_metadata around
                    on_render_before + template.render)
     perfutil/component.py  component_post_render (component_renderer_cache, child_component_attrs, the
                    depth-first queue, component_error_message(full_path[1:]) around the renderer only)
     perfutil/provide.py    provide_cache / provide_references / all_reference_ids, managed_provide_cache,
                    register_provide_reference, unregister_provide_reference
     provide.py     ProvideNode.render / set_provided_context_var
     slots.py       SlotNode.render: add_slot_to_error_message around the slot function
     util/exception.py      component_error_message, add_slot_to_error_message

   A render is abstracted to the tree of things that run (`items`): user-code callback points, slot
   regions, {% provide %} bodies, regions whose output is discarded, and component instances, in execution
   order.  What Django's template engine does between those events is not modelled.  `cfg` selects the code
   version: `cfg_old` is the code before the C06 repair (kept for the `_refuted` witnesses), `cfg_fixed` the
   repaired code (late registration, try/finally around the metadata stack and the render_context push,
   the root purging every id of its tree, message prefix stripped only when one was added).

   Definitions only; proofs in Fault/Proofs.v. *)
From DJC Require Import Lib.Base.

(* ------------------------------------------------------------------------------------------------ *)
(* Render trees                                                                                      *)
(* ------------------------------------------------------------------------------------------------ *)
Inductive item :=
| IPoint                                   (* a user-code callback in a template: filter, tag, slot function *)
| ISlot (l : N) (body : items)             (* {% slot %} rendering a fill / its default; l = label of "Comp(slot:name)" *)
| IProvide (body : items)                  (* {% provide %} ... {% endprovide %} *)
| IDrop (body : items)                     (* body is rendered, its output (placeholders included) is thrown away *)
| IExtract (body : items)                  (* fill discovery: the body of a {% component %} tag rendered with the
                                              _DJANGO_COMPONENTS_GEN_FILL layer pushed on the tag's Context *)
| IComp (isroot rootel : bool) (up : nat) (mask : list bool) (c : comp)
    (* a {% component %} tag / Component.render call.
       isroot : the context it receives names no parent component (it runs its own post-render queue in place)
       rootel : its placeholder is a root element of the host's HTML (child_component_attrs gets an entry)
       up     : its parent_id is the up-th element of the chain host, host's host, ..., root
       mask   : which of the provides visible here (host's visible ones ++ those opened around the tag in
                the host's template) its context carries *)
with items := INil | ICons (i : item) (r : items)
with comp :=
| Comp (name : N) (prep : nat) (body : items).
    (* prep = number of callback points inside get_context_data (itself + inject calls);
       then on_render_before (1 point), body, on_render_after (1 point) *)

Inductive lbl := LName (n : N) | LSlot (n : N).
Inductive mline := MPrefix (c : list lbl) | MUser (n : N).   (* lines of the exception message *)

Inductive ierr := KParent | KRendPop | KCctxDel | KPcachePop | KPrefsGet | KCallback | KAlign.
Inductive exn :=
| EUser (comps : list lbl) (msg : list mline)    (* the user's exception object: err._components, err.args[0] *)
| EInternal (k : ierr).                          (* a KeyError raised by the bookkeeping itself *)

Record cfg := mkCfg {
  late_register : bool;   (* register with provide / write component_context_cache after the user code of the prep phase *)
  root_purge : bool;      (* root: try/finally around component_post_render forgetting every id of its tree *)
  meta_finally : bool;    (* try/finally in _with_metadata *)
  rc_finally : bool;      (* try/finally around render_context.push ... pop *)
  msg_fix : bool          (* component_error_message strips a first line only when it is a prefix it added *)
}.
Definition cfg_old := mkCfg false false false false false.
Definition cfg_fixed := mkCfg true true true true true.

(* ------------------------------------------------------------------------------------------------ *)
(* State                                                                                             *)
(* ------------------------------------------------------------------------------------------------ *)
Record st := mkSt {
  next : N;                        (* id generator (the harness patches gen_id to a counter) *)
  fault : option nat;              (* Some k: the (k+1)-th callback point from now raises *)
  cctx : list N;                   (* component_context_cache (keys) *)
  rend : list N;                   (* component_renderer_cache (keys) *)
  cattrs : list N;                 (* child_component_attrs (keys) *)
  pcache : list N;                 (* provide_cache (keys) *)
  prefs : list (N * list N);       (* provide_references *)
  allrefs : list N;                (* all_reference_ids *)
  meta : list N;                   (* unbalanced Component._metadata_stack pushes (render id of the item) *)
  rctx : list (option N * N);      (* unbalanced render_context pushes: (whose stack, token = id the pushing render takes);
                                      None = the caller's Context, Some h = the context snapshot of host h's renderer *)
  cbs : list (N * list N);         (* post_render_callbacks dictionaries, one per root (key = root id) *)
  cdicts : list (option N * N)     (* unbalanced Context.dicts layers pushed by the library (fill discovery):
                                      (whose Context: None = the caller's, Some h = host h's snapshot; token) *)
}.

Definition init : st := mkSt 0 None [] [] [] [] [] [] [] [] [] [].

Definition set_next v s := mkSt v (fault s) (cctx s) (rend s) (cattrs s) (pcache s) (prefs s) (allrefs s) (meta s) (rctx s) (cbs s) (cdicts s).
Definition set_fault v s := mkSt (next s) v (cctx s) (rend s) (cattrs s) (pcache s) (prefs s) (allrefs s) (meta s) (rctx s) (cbs s) (cdicts s).
Definition up_cctx f s := mkSt (next s) (fault s) (f (cctx s)) (rend s) (cattrs s) (pcache s) (prefs s) (allrefs s) (meta s) (rctx s) (cbs s) (cdicts s).
Definition up_rend f s := mkSt (next s) (fault s) (cctx s) (f (rend s)) (cattrs s) (pcache s) (prefs s) (allrefs s) (meta s) (rctx s) (cbs s) (cdicts s).
Definition up_cattrs f s := mkSt (next s) (fault s) (cctx s) (rend s) (f (cattrs s)) (pcache s) (prefs s) (allrefs s) (meta s) (rctx s) (cbs s) (cdicts s).
Definition up_pcache f s := mkSt (next s) (fault s) (cctx s) (rend s) (cattrs s) (f (pcache s)) (prefs s) (allrefs s) (meta s) (rctx s) (cbs s) (cdicts s).
Definition up_prefs f s := mkSt (next s) (fault s) (cctx s) (rend s) (cattrs s) (pcache s) (f (prefs s)) (allrefs s) (meta s) (rctx s) (cbs s) (cdicts s).
Definition up_allrefs f s := mkSt (next s) (fault s) (cctx s) (rend s) (cattrs s) (pcache s) (prefs s) (f (allrefs s)) (meta s) (rctx s) (cbs s) (cdicts s).
Definition up_meta f s := mkSt (next s) (fault s) (cctx s) (rend s) (cattrs s) (pcache s) (prefs s) (allrefs s) (f (meta s)) (rctx s) (cbs s) (cdicts s).
Definition up_rctx f s := mkSt (next s) (fault s) (cctx s) (rend s) (cattrs s) (pcache s) (prefs s) (allrefs s) (meta s) (f (rctx s)) (cbs s) (cdicts s).
Definition up_cbs f s := mkSt (next s) (fault s) (cctx s) (rend s) (cattrs s) (pcache s) (prefs s) (allrefs s) (meta s) (rctx s) (f (cbs s)) (cdicts s).
Definition up_cdicts f s := mkSt (next s) (fault s) (cctx s) (rend s) (cattrs s) (pcache s) (prefs s) (allrefs s) (meta s) (rctx s) (cbs s) (f (cdicts s)).

(* ---------- sets / dict key lists over N ---------- *)
Definition mem (x : N) (l : list N) : bool := existsb (N.eqb x) l.
Definition sadd (x : N) (l : list N) : list N := if mem x l then l else x :: l.
Definition srem (x : N) (l : list N) : list N := filter (fun y => negb (N.eqb x y)) l.
Fixpoint rem1 (x : N) (l : list N) : list N :=      (* deque.pop() of the entry pushed for x *)
  match l with [] => [] | y :: r => if N.eqb x y then r else y :: rem1 x r end.
Fixpoint rem1_tok (x : N) (l : list (option N * N)) : list (option N * N) :=
  match l with [] => [] | y :: r => if N.eqb x (snd y) then r else y :: rem1_tok x r end.
Definition sdiff (a b : list N) : list N := filter (fun y => negb (mem y b)) a.

Fixpoint aupd (k : N) (f : list N -> list N) (l : list (N * list N)) : list (N * list N) :=
  match l with
  | [] => []
  | (k', v) :: r => if N.eqb k k' then (k', f v) :: r else (k', v) :: aupd k f r
  end.
(* d.setdefault(k, set()).add(x) *)
Definition addref (k x : N) (l : list (N * list N)) : list (N * list N) :=
  if amem k l then aupd k (sadd x) l else (k, [x]) :: l.
Definition aget (k : N) (l : list (N * list N)) : list N :=
  match alookup k l with Some v => v | None => [] end.

(* ------------------------------------------------------------------------------------------------ *)
(* The monad: state + exceptions                                                                     *)
(* ------------------------------------------------------------------------------------------------ *)
Inductive res (A : Type) := Val (a : A) | Exn (e : exn).
Arguments Val {A} a.
Arguments Exn {A} e.
Definition M (A : Type) := st -> res A * st.

Definition ret {A} (a : A) : M A := fun s => (Val a, s).
Definition raise {A} (e : exn) : M A := fun s => (Exn e, s).
Definition bind {A B} (m : M A) (f : A -> M B) : M B :=
  fun s => match m s with (Val a, s1) => f a s1 | (Exn e, s1) => (Exn e, s1) end.
Notation "x <- m ;; k" := (bind m (fun x => k)) (at level 61, m at next level, right associativity).
Notation "m ;; k" := (bind m (fun _ => k)) (at level 61, right associativity).
Definition modify (f : st -> st) : M unit := fun s => (Val tt, f s).

(* try: m finally: h   (an exception raised by h replaces the pending one, as in Python) *)
Definition try_finally {A} (m : M A) (h : M unit) : M A :=
  fun s => match m s with
           | (Val a, s1) => match h s1 with (Val _, s2) => (Val a, s2) | (Exn e', s2) => (Exn e', s2) end
           | (Exn e, s1) => match h s1 with (Val _, s2) => (Exn e, s2) | (Exn e', s2) => (Exn e', s2) end
           end.
(* with-statement around code whose cleanup is NOT in a finally block: cleanup runs on normal exit only *)
Definition then_cleanup {A} (m : M A) (h : M unit) : M A :=
  a <- m ;; h ;; ret a.
(* try: m except Exception as e: raise (h e) *)
Definition map_exn {A} (m : M A) (h : exn -> exn) : M A :=
  fun s => match m s with (Val a, s1) => (Val a, s1) | (Exn e, s1) => (Exn (h e), s1) end.

Section Run.
Variable c : cfg.
Variable umsg : list mline.        (* the lines of str(args[0]) of the exception the user code raises *)

(* ---------- primitive steps ---------- *)
Definition fresh : M N := fun s => (Val (next s), set_next (N.succ (next s)) s).

Definition point : M unit := fun s =>
  match fault s with
  | Some O => (Exn (EUser [] umsg), set_fault None s)
  | Some (S k) => (Val tt, set_fault (Some k) s)
  | None => (Val tt, s)
  end.
Fixpoint points (n : nat) : M unit :=
  match n with O => ret tt | S k => point ;; points k end.

(* util/exception.py component_error_message(component_path) *)
Definition split1_last (m : list mline) : list mline :=       (* str(args[0]).split("\n", 1)[-1] *)
  match m with _ :: (_ :: _) as t => t | _ => m end.
Definition strip_prefix (m : list mline) : list mline :=      (* repaired: only a prefix line is removed *)
  match m with MPrefix _ :: t => t | _ => m end.
Definition annotate (path : list lbl) (e : exn) : exn :=
  match e with
  | EUser comps msg =>
      let comps' := path ++ comps in
      let orig := if msg_fix c then strip_prefix msg
                  else match comps' with [] => msg | _ => split1_last msg end in
      EUser comps' (MPrefix comps' :: orig)
  | EInternal k => EInternal k
  end.
Definition wrap {A} (path : list lbl) (m : M A) : M A := map_exn m (annotate path).
(* add_slot_to_error_message: err._components.insert(0, "Comp(slot:name)"), message untouched *)
Definition slot_mark (l : N) (e : exn) : exn :=
  match e with EUser comps msg => EUser (LSlot l :: comps) msg | EInternal k => EInternal k end.
Definition slot_wrap {A} (l : N) (m : M A) : M A := map_exn m (slot_mark l).

(* Component._with_metadata *)
Definition with_meta {A} (id : N) (m : M A) : M A :=
  modify (up_meta (cons id)) ;;
  (if meta_finally c then try_finally m (modify (up_meta (rem1 id)))
   else then_cleanup m (modify (up_meta (rem1 id)))).
(* context.render_context.push(...) ... context.render_context.pop() *)
Definition with_rc {A} (owner : option N) (tok : N) (m : M A) : M A :=
  modify (up_rctx (cons (owner, tok))) ;;
  (if rc_finally c then try_finally m (modify (up_rctx (rem1_tok tok)))
   else then_cleanup m (modify (up_rctx (rem1_tok tok)))).

(* slots.py _extract_fill_content: with context.update({FILL_GEN_CONTEXT_KEY: captured_fills}): render the tag body *)
Definition with_cd {A} (owner : option N) (m : M A) : M A := fun s =>
  let tok := next s in
  (modify (up_cdicts (cons (owner, tok))) ;; try_finally m (modify (up_cdicts (rem1_tok tok)))) s.

(* perfutil/provide.py register_provide_reference *)
Definition register (vis : list N) (id : N) : M unit := fun s =>
  match pcache s with
  | [] => (Val tt, s)
  | _ => (Val tt, up_prefs (fun p => fold_left (fun acc pid => addref pid id acc) vis p) (up_allrefs (sadd id) s))
  end.

(* perfutil/provide.py unregister_provide_reference: the loop over list(provide_references.keys()) *)
Fixpoint unreg_loop (rid : N) (keys : list N) : M unit :=
  match keys with
  | [] => ret tt
  | pid :: ks => fun s =>
      match alookup pid (prefs s) with
      | None => (Exn (EInternal KPrefsGet), s)
      | Some refs =>
          if negb (mem rid refs) then unreg_loop rid ks s
          else
            let refs' := srem rid refs in
            let s1 := up_prefs (aupd pid (fun _ => refs')) s in
            match refs' with
            | [] => if mem pid (pcache s1)
                    then unreg_loop rid ks (up_prefs (aremove pid) (up_pcache (srem pid) s1))
                    else (Exn (EInternal KPcachePop), s1)
            | _ => unreg_loop rid ks s1
            end
      end
  end.
Definition unregister (rid : N) : M unit := fun s =>
  if negb (mem rid (allrefs s)) then (Val tt, s)
  else let s1 := up_allrefs (srem rid) s in unreg_loop rid (map fst (prefs s1)) s1.

Fixpoint unregister_all (ids : list N) : M unit :=
  match ids with [] => ret tt | x :: r => unregister x ;; unregister_all r end.

(* managed_provide_cache.cache_cleanup *)
Definition cache_cleanup (pid : N) : M unit := fun s =>
  let s1 := if amem pid (prefs s) then up_prefs (aupd pid (srem pid)) s else s in
  match alookup pid (prefs s1) with
  | Some [] =>
      let s2 := up_prefs (aremove pid) s1 in
      if mem pid (pcache s2) then (Val tt, up_pcache (srem pid) s2) else (Exn (EInternal KPcachePop), s2)
  | Some _ => (Val tt, s1)
  | None => if mem pid (pcache s1) then (Val tt, up_pcache (srem pid) s1) else (Val tt, s1)
  end.

(* ProvideNode.render: set_provided_context_var + managed_provide_cache around the body *)
Definition provide {A} (body : N -> M A) : M A := fun s =>
  let pid := next s in
  let s0 := up_pcache (sadd pid) (set_next (N.succ pid) s) in
  let before := allrefs s0 in
  let s1 := up_prefs (addref pid pid) s0 in
  match body pid s1 with
  | (Val a, s2) => (cache_cleanup pid ;; ret a) s2
  | (Exn e, s2) => (unregister_all (sdiff (allrefs s2) before) ;; cache_cleanup pid ;; raise e) s2
  end.

(* ---------- a component instance ---------- *)
Record info := mkInfo { i_id : N; i_vis : list N; i_rootel : bool }.
Record env := mkEnv {
  e_avail : list N;      (* provides visible to the host ++ provides opened around this point in its template *)
  e_anc : list N;        (* host, host's host, ..., root (render ids) *)
  e_root : N             (* key of the post_render_callbacks dictionary shared by this tree *)
}.

Fixpoint select (mask : list bool) (l : list N) : list N :=
  match mask, l with
  | true :: m, x :: r => x :: select m r
  | false :: m, _ :: r => select m r
  | _, _ => []
  end.
Fixpoint nth_clamp (n : nat) (l : list N) : option N :=
  match l with
  | [] => None
  | x :: r => match n, r with O, _ => Some x | _, [] => Some x | S k, _ => nth_clamp k r end
  end.

Definition check_parent (parent : option N) : M unit := fun s =>
  match parent with
  | None => (Val tt, s)
  | Some p => if mem p (cctx s) then (Val tt, s) else (Exn (EInternal KParent), s)   (* component_context_cache[parent_id] *)
  end.

(* _render_impl up to (excluding) post_render_callbacks[render_id] = ... *)
Definition prep_impl (owner parent : option N) (vis : list N) (np : nat) : M N := fun s =>
  let tok := next s in
  (id <- with_rc owner tok
           (id <- fresh ;;
            check_parent parent ;;
            (if late_register c then ret tt else (register vis id ;; modify (up_cctx (sadd id)))) ;;
            with_meta id (points np) ;;
            ret id) ;;
   (if late_register c then (register vis id ;; modify (up_cctx (sadd id))) else ret tt) ;;
   ret id) s.

(* Component._render of a nested component: returns the placeholder *)
Definition child_prep (e : env) (rootel : bool) (up : nat) (vis : list N) (name : N) (np : nat) : M (list info) :=
  wrap [LName name]
    (id <- prep_impl (hd_error (e_anc e)) (nth_clamp up (e_anc e)) vis np ;;
     modify (up_cbs (addref (e_root e) id)) ;;
     modify (up_rend (sadd id)) ;;
     ret [mkInfo id vis rootel]).

Definition rootel_ids (infos : list info) : list N :=
  map i_id (filter i_rootel infos).

(* one component in the post-render queue: its item, its children's items, its closing item *)
Definition deferred_core (anc : list N) (root : N) (path : list lbl) (name : N) (inf : info)
    (rp : env -> M (list info)) (rd : env -> list lbl -> list info -> M (list info)) : M unit :=
  let id := i_id inf in
  let full := path ++ [LName name] in
  let e' := mkEnv (i_vis inf) (id :: anc) root in
  (fun s => if mem id (rend s) then (Val tt, up_rend (srem id) s) else (Exn (EInternal KRendPop), s)) ;;
  modify (up_cattrs (srem id)) ;;
  infos <- wrap (tl full) (with_meta id (point ;; rp e')) ;;
  modify (up_cattrs (fun l => fold_left (fun acc x => sadd x acc) (rootel_ids infos) l)) ;;
  rd e' full infos ;;
  (fun s => if mem id (aget root (cbs s)) then (Val tt, s) else (Exn (EInternal KCallback), s)) ;;
  with_meta id point ;;
  (fun s => if mem id (cctx s) then (Val tt, up_cctx (srem id) s) else (Exn (EInternal KCctxDel), s)) ;;
  unregister id.

Fixpoint purge_ids (ids : list N) : M unit :=
  match ids with
  | [] => ret tt
  | x :: r => modify (up_cctx (srem x)) ;; modify (up_rend (srem x)) ;; modify (up_cattrs (srem x)) ;;
              unregister x ;; purge_ids r
  end.
Definition purge (root : N) : M unit := fun s => purge_ids (aget root (cbs s)) s.

(* Component._render of a root component (no parent in the context) *)
Definition root_core (owner : option N) (vis : list N) (name : N) (np : nat)
    (rp : env -> M (list info)) (rd : env -> list lbl -> list info -> M (list info)) : M unit :=
  wrap [LName name]
    (id <- prep_impl owner None vis np ;;
     try_finally
       (modify (up_cbs (addref id id)) ;;
        modify (up_rend (sadd id)) ;;
        (if root_purge c
         then try_finally (deferred_core [] id [] name (mkInfo id vis false) rp rd) (purge id)
         else deferred_core [] id [] name (mkInfo id vis false) rp rd))
       (modify (up_cbs (aremove id)))).       (* the dictionary is a local of this call *)

(* ---------- the two passes over a template's items ---------- *)
Fixpoint prep_items (e : env) (l : items) {struct l} : M (list info) :=
  match l with
  | INil => ret []
  | ICons i r => a <- prep_item e i ;; b <- prep_items e r ;; ret (a ++ b)
  end
with prep_item (e : env) (i : item) {struct i} : M (list info) :=
  match i with
  | IPoint => point ;; ret []
  | ISlot l b => slot_wrap l (prep_items e b)
  | IProvide b => provide (fun pid => prep_items (mkEnv (e_avail e ++ [pid]) (e_anc e) (e_root e)) b)
  | IDrop b => prep_items e b ;; ret []
  | IExtract b => with_cd (hd_error (e_anc e)) (prep_items e b)
  | IComp isroot rootel up mask (Comp name np body) =>
      let vis := select mask (e_avail e) in
      match isroot, e_anc e with
      | false, _ :: _ => child_prep e rootel up vis name np
      | _, _ => root_core (hd_error (e_anc e)) vis name np (fun e' => prep_items e' body) (fun e' p infos => defer_items e' p body infos) ;;
                ret []
      end
  end
with defer_items (e : env) (path : list lbl) (l : items) (infos : list info) {struct l} : M (list info) :=
  match l with
  | INil => ret infos
  | ICons i r => rest <- defer_item e path i infos ;; defer_items e path r rest
  end
with defer_item (e : env) (path : list lbl) (i : item) (infos : list info) {struct i} : M (list info) :=
  match i with
  | IPoint => ret infos
  | ISlot _ b => defer_items e path b infos
  | IProvide b => defer_items e path b infos
  | IDrop _ => ret infos
  | IExtract b => defer_items e path b infos
  | IComp isroot _ _ _ (Comp name np body) =>
      match isroot, e_anc e with
      | false, _ :: _ =>
          match infos with
          | [] => raise (EInternal KAlign)
          | inf :: rest =>
              deferred_core (e_anc e) (e_root e) path name inf
                (fun e' => prep_items e' body) (fun e' p infos' => defer_items e' p body infos') ;;
              ret rest
          end
      | _, _ => ret infos
      end
  end.

Definition top_env : env := mkEnv [] [] 0.

Inductive outcome := OOk | OUser (comps : list lbl) (msg : list mline) | OInternal (k : ierr).

(* one top-level render (a page template, or one Component.render call = a page with one root) *)
Definition run (t : items) (f : option nat) (s0 : st) : outcome * st :=
  match prep_items top_env t (set_fault f s0) with
  | (Val _, s) => (OOk, set_fault None s)
  | (Exn (EUser comps msg), s) => (OUser comps msg, set_fault None s)
  | (Exn (EInternal k), s) => (OInternal k, set_fault None s)
  end.

(* a history of renders in one process *)
Fixpoint run_seq (h : list (items * option nat)) (s0 : st) : list outcome * st :=
  match h with
  | [] => ([], s0)
  | (t, f) :: r => let (o, s1) := run t f s0 in let (os, s2) := run_seq r s1 in (o :: os, s2)
  end.

End Run.

(* ------------------------------------------------------------------------------------------------ *)
(* Measures                                                                                          *)
(* ------------------------------------------------------------------------------------------------ *)
(* number of callback invocations of a fault-free render, split as the two passes consume them:
   pp = while a template's items run (nested components are only prepared there: get_context_data and its
        inject calls; a root component renders completely in place),
   dp = while the post-render queue processes the nested components prepared by those items
        (on_render_before, the component's own items, its children, on_render_after);
   top = at page level, where every component is a root. *)
Fixpoint pp_items (top : bool) (l : items) : nat :=
  match l with INil => O | ICons i r => pp_item top i + pp_items top r end
with pp_item (top : bool) (i : item) : nat :=
  match i with
  | IPoint => 1
  | ISlot _ b => pp_items top b
  | IProvide b => pp_items top b
  | IDrop b => pp_items top b
  | IExtract b => pp_items top b
  | IComp isroot _ _ _ (Comp _ np body) =>
      if isroot || top then np + (1 + pp_items false body + dp_items body + 1) else np
  end
with dp_items (l : items) : nat :=
  match l with INil => O | ICons i r => dp_item i + dp_items r end
with dp_item (i : item) : nat :=
  match i with
  | IPoint => O
  | ISlot _ b => dp_items b
  | IProvide b => dp_items b
  | IDrop _ => O
  | IExtract b => dp_items b
  | IComp isroot _ _ _ (Comp _ np body) =>
      if isroot then O else 1 + pp_items false body + dp_items body + 1
  end.
Definition npoints (t : items) : nat := pp_items true t.

(* number of nested components a template's items leave in the post-render queue *)
Fixpoint nk_items (top : bool) (l : items) : nat :=
  match l with INil => O | ICons i r => nk_item top i + nk_items top r end
with nk_item (top : bool) (i : item) : nat :=
  match i with
  | IPoint => O
  | ISlot _ b => nk_items top b
  | IProvide b => nk_items top b
  | IDrop _ => O
  | IExtract b => nk_items top b
  | IComp isroot _ _ _ _ => if isroot || top then O else 1%nat
  end.

(* ------------------------------------------------------------------------------------------------ *)
(* S-model: what the property demands of the outcome.  The exception raised by callback invocation k  *)
(* travels up through the slot markers and component_error_message wrappers standing around that      *)
(* invocation; no table is involved.  (Repaired message rule: only an added prefix line is replaced.) *)
(* ------------------------------------------------------------------------------------------------ *)
Inductive sres := SOk (k : option nat) | SExn (e : exn).

Section Spec.
Variable umsg : list mline.

Definition sp_point (k : option nat) : sres :=
  match k with Some O => SExn (EUser [] umsg) | Some (S j) => SOk (Some j) | None => SOk None end.
Fixpoint sp_points (n : nat) (k : option nat) : sres :=
  match n with O => SOk k | S m => match sp_point k with SOk k' => sp_points m k' | SExn e => SExn e end end.
Definition sp_bind (r : sres) (f : option nat -> sres) : sres :=
  match r with SOk k => f k | SExn e => SExn e end.
Definition sp_map (h : exn -> exn) (r : sres) : sres :=
  match r with SOk k => SOk k | SExn e => SExn (h e) end.

Definition sp_deferred (path : list lbl) (name : N)
    (rp : option nat -> sres) (rd : list lbl -> option nat -> sres) (k : option nat) : sres :=
  let full := path ++ [LName name] in
  sp_bind (sp_map (annotate cfg_fixed (tl full)) (sp_bind (sp_point k) rp))
    (fun k1 => sp_bind (rd full k1) sp_point).

Fixpoint sp_prep_items (top : bool) (l : items) (k : option nat) {struct l} : sres :=
  match l with
  | INil => SOk k
  | ICons i r => sp_bind (sp_prep_item top i k) (sp_prep_items top r)
  end
with sp_prep_item (top : bool) (i : item) (k : option nat) {struct i} : sres :=
  match i with
  | IPoint => sp_point k
  | ISlot l b => sp_map (slot_mark l) (sp_prep_items top b k)
  | IProvide b => sp_prep_items top b k
  | IDrop b => sp_prep_items top b k
  | IExtract b => sp_prep_items top b k
  | IComp isroot _ _ _ (Comp name np body) =>
      if isroot || top
      then sp_map (annotate cfg_fixed [LName name])
             (sp_bind (sp_points np k)
                (sp_deferred [] name (sp_prep_items false body) (fun p => sp_defer_items p body)))
      else sp_map (annotate cfg_fixed [LName name]) (sp_points np k)
  end
with sp_defer_items (path : list lbl) (l : items) (k : option nat) {struct l} : sres :=
  match l with
  | INil => SOk k
  | ICons i r => sp_bind (sp_defer_item path i k) (sp_defer_items path r)
  end
with sp_defer_item (path : list lbl) (i : item) (k : option nat) {struct i} : sres :=
  match i with
  | IPoint => SOk k
  | ISlot _ b => sp_defer_items path b k
  | IProvide b => sp_defer_items path b k
  | IDrop _ => SOk k
  | IExtract b => sp_defer_items path b k
  | IComp isroot _ _ _ (Comp name np body) =>
      if isroot then SOk k
      else sp_deferred path name (sp_prep_items false body) (fun p => sp_defer_items p body) k
  end.

Definition spec_outcome (t : items) (f : option nat) : outcome :=
  match sp_prep_items true t f with
  | SOk _ => OOk
  | SExn (EUser comps msg) => OUser comps msg
  | SExn (EInternal k) => OInternal k
  end.
End Spec.

(* ------------------------------------------------------------------------------------------------ *)
(* Observations compared with the implementation                                                     *)
(* ------------------------------------------------------------------------------------------------ *)
Definition tables_empty (s : st) : bool :=
  match cctx s, rend s, cattrs s, pcache s, prefs s, allrefs s with
  | [], [], [], [], [], [] => true
  | _, _, _, _, _, _ => false
  end.
Definition stacks_empty (s : st) : bool :=
  match meta s, rctx s, cdicts s with [], [], [] => true | _, _, _ => false end.

Definition subset (a b : list N) : bool := forallb (fun x => mem x b) a.
Definition set_eqb (a b : list N) : bool := subset a b && subset b a.

Definition lbl_eqb (a b : lbl) : bool :=
  match a, b with LName x, LName y => N.eqb x y | LSlot x, LSlot y => N.eqb x y | _, _ => false end.
Definition mline_eqb (a b : mline) : bool :=
  match a, b with
  | MPrefix x, MPrefix y => list_eqb lbl_eqb x y
  | MUser x, MUser y => N.eqb x y
  | _, _ => false
  end.

(* what the harness observed for one (tree, fault) run *)
Inductive oobs := BOk | BUser (comps : list lbl) (msg : list mline) | BOther.
Record obs := mkObs {
  o_out : oobs;
  o_cctx : list N; o_rend : list N; o_cattrs : list N; o_pcache : list N; o_prefs : list N; o_allrefs : list N;
  o_meta : list N;      (* render ids of component instances whose _metadata_stack is not empty afterwards *)
  o_rc : nat;           (* growth of the caller's render_context stack *)
  o_cd : nat            (* growth of the caller's Context.dicts *)
}.

Definition out_eqb (o : outcome) (b : oobs) : bool :=
  match o, b with
  | OOk, BOk => true
  | OUser c1 m1, BUser c2 m2 => list_eqb lbl_eqb c1 c2 && list_eqb mline_eqb m1 m2
  | _, _ => false
  end.

Definition obs_match (r : outcome * st) (b : obs) : bool :=
  let (o, s) := r in
  out_eqb o (o_out b)
  && set_eqb (cctx s) (o_cctx b) && set_eqb (rend s) (o_rend b) && set_eqb (cattrs s) (o_cattrs b)
  && set_eqb (pcache s) (o_pcache b) && set_eqb (map fst (prefs s)) (o_prefs b) && set_eqb (allrefs s) (o_allrefs b)
  && set_eqb (meta s) (o_meta b)
  && Nat.eqb (length (filter (fun x => match fst x with None => true | Some _ => false end) (rctx s))) (o_rc b)
  && Nat.eqb (length (filter (fun x => match fst x with None => true | Some _ => false end) (cdicts s))) (o_cd b).

(* a tree with the observation for each fault index tried (None = fault-free run) *)
Definition tree_case := (items * nat * list (list mline * option nat * obs))%type.

Definition check_tree (cf : cfg) (tc : tree_case) : bool :=
  let '(t, n, runs) := tc in
  Nat.eqb (npoints t) n
  && forallb (fun r => let '(um, f, b) := r in obs_match (run cf um t f init) b) runs.

Definition check_tree_fixed := check_tree cfg_fixed.
Definition check_tree_old := check_tree cfg_old.

(* a history: renders run one after the other in the same process; ids are ranks over the whole history *)
Definition seq_case := list (items * list mline * option nat * obs).
Fixpoint check_seq_from (cf : cfg) (h : seq_case) (s : st) : bool :=
  match h with
  | [] => true
  | (t, um, f, b) :: r => let res := run cf um t f s in obs_match res b && check_seq_from cf r (snd res)
  end.
Definition check_seq_fixed (h : seq_case) : bool := check_seq_from cfg_fixed h init.
Definition check_seq_old (h : seq_case) : bool := check_seq_from cfg_old h init.

(* list notation for `items` (used by the generated case files and the witnesses) *)
Declare Scope items_scope.
Delimit Scope items_scope with items.
Notation "[: :]" := INil : items_scope.
Notation "[: x ; .. ; y :]" := (ICons x .. (ICons y INil) ..) : items_scope.
